(* Byte strings as lists of ascii, with the handful of Go string operations the
   generated code uses (HasPrefix, slicing, Index) and their lemmas. *)
From Coq Require Import String.
From Coq Require Import List Bool Arith Ascii Lia.
Import ListNotations.

Definition str := list ascii.

Definition S_ (s : string) : str := list_ascii_of_string s.

Definition ascii_eqb (a b : ascii) : bool := Ascii.eqb a b.

Lemma ascii_eqb_eq a b : ascii_eqb a b = true <-> a = b.
Proof. apply Ascii.eqb_eq. Qed.

Lemma ascii_eqb_refl a : ascii_eqb a a = true.
Proof. apply Ascii.eqb_refl. Qed.

Lemma ascii_eqb_neq a b : ascii_eqb a b = false <-> a <> b.
Proof. apply Ascii.eqb_neq. Qed.

Fixpoint str_eqb (a b : str) : bool :=
  match a, b with
  | [], [] => true
  | x :: a', y :: b' => ascii_eqb x y && str_eqb a' b'
  | _, _ => false
  end.

Lemma str_eqb_eq a b : str_eqb a b = true <-> a = b.
Proof.
  revert b; induction a as [|x a IH]; intros [|y b]; simpl; split; try congruence; try discriminate.
  - intros H. apply andb_true_iff in H as [H1 H2].
    apply ascii_eqb_eq in H1. apply IH in H2. congruence.
  - intros H. injection H as -> ->. rewrite ascii_eqb_refl. simpl. now apply IH.
Qed.

Lemma str_eqb_refl a : str_eqb a a = true.
Proof. now apply str_eqb_eq. Qed.

Lemma str_eqb_neq a b : str_eqb a b = false <-> a <> b.
Proof.
  split.
  - intros H E. apply str_eqb_eq in E. congruence.
  - intros H. destruct (str_eqb a b) eqn:E; auto. apply str_eqb_eq in E. contradiction.
Qed.

Lemma str_eqb_spec a b : reflect (a = b) (str_eqb a b).
Proof. destruct (str_eqb a b) eqn:E; constructor; [now apply str_eqb_eq | now apply str_eqb_neq]. Qed.

(* strings.HasPrefix *)
Fixpoint has_prefix (p s : str) : bool :=
  match p, s with
  | [], _ => true
  | x :: p', y :: s' => ascii_eqb x y && has_prefix p' s'
  | _ :: _, [] => false
  end.

Lemma has_prefix_app p s : has_prefix p (p ++ s) = true.
Proof. induction p; simpl; auto. rewrite ascii_eqb_refl. auto. Qed.

Lemma has_prefix_iff p s : has_prefix p s = true <-> exists r, s = p ++ r.
Proof.
  revert s; induction p as [|x p IH]; intros s; simpl.
  - split; eauto.
  - destruct s as [|y s]; simpl.
    + split; [discriminate | intros [r H]; discriminate].
    + rewrite andb_true_iff, ascii_eqb_eq, IH. split.
      * intros [-> [r ->]]. eauto.
      * intros [r H]. injection H as -> ->. eauto.
Qed.

Lemma skipn_app_length {A} (p s : list A) : skipn (length p) (p ++ s) = s.
Proof. induction p; simpl; auto. Qed.

Lemma firstn_app_length {A} (p s : list A) : firstn (length p) (p ++ s) = p.
Proof. induction p; simpl; auto. now f_equal. Qed.

(* strings.Contains for a single byte *)
Fixpoint contains (c : ascii) (s : str) : bool :=
  match s with
  | [] => false
  | x :: s' => ascii_eqb x c || contains c s'
  end.

Lemma contains_In c s : contains c s = true <-> In c s.
Proof.
  induction s as [|x s IH]; simpl; [split; [discriminate|tauto]|].
  rewrite orb_true_iff, ascii_eqb_eq, IH. tauto.
Qed.

Lemma contains_app c a b : contains c (a ++ b) = contains c a || contains c b.
Proof. induction a; simpl; auto. rewrite IHa. now rewrite orb_assoc. Qed.

Definition slash : ascii := "/"%char.
