(* Declarative side of C03 (dispatch), C11 (security), C16 (middleware
   wrapping), C17 (CORS preflight) and the served half of C13: what the API
   must do with a request, stated from the spec alone — no route tree, no
   generated plan, no string slicing. *)
From Coq Require Import String.
From Coq Require Import List Bool Arith Ascii NArith Lia.
Import ListNotations.
From Goag Require Import Base.Str Model.Router Model.Serve Spec.RouterSpec.

(* the base path the API is served under: flag, else server URL path *)
Definition declared_base (s : rspec) : str :=
  match s_flag_base s with
  | [] => match s_server_path s with Some p => p | None => [] end
  | f => f
  end.

(* spec-level path items: template + the declared path item itself *)
Definition declared_ops (p : rpath) : list rop :=
  flat_map (fun m => filter (fun o => str_eqb (r_method o) m) (p_ops p)) http_methods.

Definition find_rop (m : str) (p : rpath) : option rop :=
  find (fun o => str_eqb (r_method o) m) (p_ops p).

Definition declares_method (p : rpath) (m : str) : bool := is_some (find_rop m p).

(* is there a synthetic preflight operation on this path item? *)
Definition preflight_applies (s : rspec) (p : rpath) (m : str) : bool :=
  s_cors s && str_eqb m method_options && negb (declares_method p method_options) &&
  negb (is_nil (declared_ops p)).

Definition path_candidate (s : rspec) (segs : list str) (m : str) (p : rpath) : bool :=
  seg_match (tmpl_of_raw (p_raw p)) segs && (declares_method p m || preflight_applies s p m).

Fixpoint best_path (cands : list rpath) (cur : option rpath) : option rpath :=
  match cands with
  | [] => cur
  | c :: r =>
    match cur with
    | None => best_path r (Some c)
    | Some b => if pref_lt (tmpl_of_raw (p_raw c)) (tmpl_of_raw (p_raw b))
                then best_path r (Some c) else best_path r cur
    end
  end.

Definition match_path (s : rspec) (path m : str) : option rpath :=
  match segs_under (declared_base s) path with
  | Some segs => best_path (filter (path_candidate s segs m) (s_paths s)) None
  | None => None
  end.

(* ---- security: the operation's own effective requirement ---- *)

Definition effective (s : rspec) (o : rop) : list requirement :=
  match r_security o with
  | Some l => l
  | None => match s_global s with Some l => l | None => [] end
  end.

(* the hook a scheme's credentials go to, and the credential itself *)
Definition scheme_ref (k : scheme_kind) : option authref :=
  match k with
  | KBearer => Some ABearer
  | KKeyHeader n => Some (AKeyHeader n)
  | KKeyQuery n => Some (AKeyQuery n)
  | KUnsupported => None
  end.

Definition scheme_accepts (s : rspec) (cfg : api_cfg) (rq : request) (name : str) : option nat :=
  match lookup name (s_schemes s) with
  | Some k =>
    match scheme_ref k with
    | Some a =>
      match index_of a (hook_fields s) 0, credential a rq with
      | Some i, Some tok => if accepts (hook_policy cfg i) tok then Some i else None
      | _, _ => None
      end
    | None => None   (* no authenticator exists for this kind: never satisfied *)
    end
  | None => None
  end.

(* an alternative (requirement object) is satisfied when ALL its schemes accept;
   the request handed on is the one of its first scheme *)
Definition alt_accepts (s : rspec) (cfg : api_cfg) (rq : request) (alt : requirement) : option nat :=
  match alt with
  | [] => None
  | n :: rest =>
    if forallb (fun x => is_some (scheme_accepts s cfg rq x)) rest
    then scheme_accepts s cfg rq n else None
  end.

Definition alt_is_bearer (s : rspec) (alt : requirement) : bool :=
  match alt with
  | n :: _ => match lookup n (s_schemes s) with Some KBearer => true | _ => false end
  | [] => false
  end.

(* Which accepted alternative's request reaches the handler is not fixed by the
   property; the reference tries bearer alternatives first, then the others in
   declaration order (any choice among accepted alternatives is conformant —
   the theorems state membership, the tie compares against this choice). *)
Definition admitted (s : rspec) (cfg : api_cfg) (rq : request) (o : rop) : option nat :=
  let alts := effective s o in
  let ordered := filter (alt_is_bearer s) alts ++ filter (fun a => negb (alt_is_bearer s a)) alts in
  fold_left (fun acc alt => match acc with Some _ => acc | None => alt_accepts s cfg rq alt end) ordered None.

(* ---- preflight arguments ---- *)

Definition security_headers (s : rspec) (o : rop) : list str :=
  flat_map (fun alt => flat_map (fun n => match lookup n (s_schemes s) with
                                          | Some KBearer => [S_ "Authorization"]
                                          | Some (KKeyHeader h) => [canon_key h]
                                          | _ => []
                                          end) alt) (effective s o).

Definition preflight_headers (s : rspec) (p : rpath) : list str :=
  flat_map (fun o => map canon_key (p_headers p ++ r_headers o) ++ security_headers s o) (declared_ops p).

(* ---- the whole API ---- *)

Definition serve_spec (s : rspec) (cfg : api_cfg) (rq : request) : outcome :=
  if c_sf cfg && str_eqb (q_path rq) (norm_base (declared_base s) ++ slash :: s_spec_name s)
  then {| status := 200; trace := [SpecFileEv] |}
  else
    let not_found := {| status := 404; trace := if c_nf cfg then [NotFoundEv] else [] |} in
    match match_path s (q_path rq) (q_method rq) with
    | None => not_found
    | Some p =>
      match find_rop (q_method rq) p with
      | Some o =>
        let enters := map (fun i => Enter i (p_raw p)) (seq 0 (c_mw cfg)) in
        let leaves := rev (map Leave (seq 0 (c_mw cfg))) in
        match effective s o with
        | [] => {| status := 200; trace := enters ++ [HandlerEv (r_method o) (p_raw p) None] ++ leaves |}
        | _ => match admitted s cfg rq o with
               | Some i => {| status := 200; trace := enters ++ [HandlerEv (r_method o) (p_raw p) (Some i)] ++ leaves |}
               | None => {| status := 401; trace := enters ++ leaves |}
               end
        end
      | None =>
        (* the synthetic preflight operation *)
        if c_cors cfg
        then {| status := 204; trace := [CorsEv (map r_method (declared_ops p)) (preflight_headers s p)] |}
        else not_found
      end
    end.
