(* Declarative side of C04/C05: lexical spaces of the declared types and what a
   well-formed request must yield.  No reference to the snippet algebra. *)
From Coq Require Import String.
From Coq Require Import List Bool Arith Ascii NArith ZArith Lia.
Import ListNotations.
From Goag Require Import Base.Str Model.Router Model.Serve Model.Params Spec.RouterSpec.

Local Open Scope Z_scope.

(* decimal numerals *)
Definition is_digit_c (c : ascii) : Prop := exists d, digit_val c = Some d.

Fixpoint digits_value (acc : Z) (ds : str) : Z :=
  match ds with
  | [] => acc
  | c :: r => match digit_val c with
              | Some d => digits_value (acc * 10 + d) r
              | None => acc
              end
  end.

(* the lexical space of `integer` with a bit size: [+-]?[0-9]+ whose value lies
   in [-2^(b-1), 2^(b-1)) *)
Definition in_lex_int (bits : Z) (s : str) (z : Z) : Prop :=
  exists (sign : str) (ds : str),
    s = sign ++ ds /\ (sign = [] \/ sign = ["+"%char] \/ sign = ["-"%char]) /\
    ds <> [] /\ Forall is_digit_c ds /\
    z = (if str_eqb sign ["-"%char] then - digits_value 0 ds else digits_value 0 ds) /\
    - 2 ^ (bit_size bits - 1) <= z < 2 ^ (bit_size bits - 1).

Definition bool_lexemes : list (string * bool) :=
  [("1", true); ("t", true); ("T", true); ("TRUE", true); ("true", true); ("True", true);
   ("0", false); ("f", false); ("F", false); ("FALSE", false); ("false", false); ("False", false)]%string.

Definition in_lex_bool (s : str) (b : bool) : Prop :=
  In (s, b) (map (fun p => (S_ (fst p), snd p)) bool_lexemes).

Section Spec.
  Variable parse_float : Z -> str -> option str.
  Variable parse_time : str -> option str.

  (* v is the typed value of text s for primitive p *)
  Definition lex_value (p : prim) (s : str) (v : pval) : Prop :=
    match p with
    | PStr => v = VS s
    | PInt b => exists z, in_lex_int b s z /\ v = VI z
    | PFloat b => exists r, parse_float b s = Some r /\ v = VF r
    | PBool => exists b, in_lex_bool s b /\ v = VB b
    | PTime => exists r, parse_time s = Some r /\ v = VT r
    end.

  Definition in_lex (p : prim) (s : str) : Prop := exists v, lex_value p s v.

  (* the typed value of one text / of the supplied texts for a schema *)
  Fixpoint typed1 (sc : sch) (s : str) (v : pval) : Prop :=
    match sc with
    | SPrim p => lex_value p s v
    | SNullable s' => exists x, typed1 s' s x /\ v = VP x
    | SArr item => exists x, typed1 item s x /\ v = VL [x]
    | SRef _ t => typed1 t s v
    end.

  Fixpoint typed (sc : sch) (vs : list str) (v : pval) : Prop :=
    match sc with
    | SPrim p => exists s, vs = [s] /\ lex_value p s v
    | SNullable s' => exists x, typed s' vs x /\ v = VP x
    | SArr item => exists xs, Forall2 (typed1 item) vs xs /\ v = VL xs
    | SRef _ t => typed t vs v
    end.

  (* a parameter is offending in a request when it is required and absent, or
     supplied with texts that have no typed value (a scalar supplied more than
     once, or a text outside the lexical space) *)
  Definition offending (d : pdecl) (supplied : list str) : Prop :=
    (d_required d = true /\ supplied = []) \/
    (supplied <> [] /\ forall v, ~ typed (d_sch d) supplied v).

  Definition field_ok (d : pdecl) (supplied : list str) (f : field) : Prop :=
    match supplied with
    | [] => d_required d = false /\ f = FMaybe None
    | _ => exists v, typed (d_sch d) supplied v /\
                     f = if d_required d then FVal v else FMaybe (Some v)
    end.
End Spec.

(* ---------------- C05: path parameters ---------------- *)

(* a template as the operation sees it: literal segments, and variables with
   their parameter name and schema *)
Definition dirs := list (str * option sch).

Definition tmpl_of_dirs (ds : dirs) : tmpl :=
  map (fun d => match snd d with Some _ => Var | None => Lit (fst d) end) ds.

Section PathSpec.
  Variable parse_float : Z -> str -> option str.
  Variable parse_time : str -> option str.

  (* What Parse() must yield for the path parameters of a dispatched request:
     for every variable position, in order, the typed value of exactly the
     request segment at that position; the first variable whose segment is
     empty or outside the lexical space of its type makes the parse fail with
     an error naming that parameter. *)
  Inductive path_result : dirs -> list str -> res (list field) -> Prop :=
  | PR_nil : path_result [] [] (Ok [])
  | PR_lit d ds s segs r : path_result ds segs r -> path_result ((d, None) :: ds) (s :: segs) r
  | PR_var_empty n sc ds segs : path_result ((n, Some sc) :: ds) ([] :: segs) (Err n)
  | PR_var_bad n sc ds s segs :
      s <> [] -> (forall v, ~ typed1 parse_float parse_time sc s v) ->
      path_result ((n, Some sc) :: ds) (s :: segs) (Err n)
  | PR_var_ok n sc ds s segs v fs :
      s <> [] -> typed1 parse_float parse_time sc s v -> path_result ds segs (Ok fs) ->
      path_result ((n, Some sc) :: ds) (s :: segs) (Ok (FVal v :: fs))
  | PR_var_later n sc ds s segs v m :
      s <> [] -> typed1 parse_float parse_time sc s v -> path_result ds segs (Err m) ->
      path_result ((n, Some sc) :: ds) (s :: segs) (Err m).
End PathSpec.
