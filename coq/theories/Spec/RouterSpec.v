(* Declarative side of C03: OpenAPI path matching under a base path.
   Written without reference to the route tree or to string slicing. *)
From Coq Require Import String.
From Coq Require Import List Bool Arith Ascii Lia.
Import ListNotations.
From Goag Require Import Base.Str Model.Router.

(* A template matches a request when it has one segment per request segment,
   literal segments are equal and a variable segment matches ANY single segment
   (the empty one included: C05 then demands a parse error naming it). *)
Fixpoint seg_match (t : tmpl) (segs : list str) : bool :=
  match t, segs with
  | [], [] => true
  | Lit d :: t', s :: segs' => str_eqb d s && seg_match t' segs'
  | Var :: t', _ :: segs' => seg_match t' segs'
  | _, _ => false
  end.

(* Literal segments are preferred over templated ones, position by position
   from the left: t1 is strictly preferred to t2. *)
Fixpoint pref_lt (t1 t2 : tmpl) : bool :=
  match t1, t2 with
  | Lit _ :: _, Var :: _ => true
  | Var :: _, Lit _ :: _ => false
  | _ :: r1, _ :: r2 => pref_lt r1 r2
  | _, _ => false
  end.

(* Two templates are equivalent when they are equal up to variable names. *)
Fixpoint tmpl_equiv (t1 t2 : tmpl) : bool :=
  match t1, t2 with
  | [], [] => true
  | Lit a :: r1, Lit b :: r2 => str_eqb a b && tmpl_equiv r1 r2
  | Var :: r1, Var :: r2 => tmpl_equiv r1 r2
  | _, _ => false
  end.

(* the path item has an operation for the method (the synthetic CORS entry
   counts as an OPTIONS operation) *)
Definition has_method (it : item) (m : str) : bool :=
  is_some (find_op m (i_ops it)) ||
  (is_some (i_cors it) && str_eqb m method_options).

Definition dispatch (it : item) (m : str) : option res :=
  match find_op m (i_ops it) with
  | Some o => Some (RHandler it o)
  | None => if is_some (i_cors it) && str_eqb m method_options then Some (RCors it) else None
  end.

(* The request path beneath the base path, as segments.  A trailing slash on
   the base path is insignificant; the remainder must start with "/". *)
Fixpoint strip_trailing_slashes_rev (r : str) : str :=
  match r with
  | c :: r' => if ascii_eqb c slash then strip_trailing_slashes_rev r' else r
  | [] => []
  end.
Definition norm_base (bp : str) : str := rev (strip_trailing_slashes_rev (rev bp)).

Definition segs_under (bp path : str) : option (list str) :=
  let b := norm_base bp in
  if has_prefix b path then
    match skipn (length b) path with
    | c :: r => if ascii_eqb c slash then Some (split_slash r) else None
    | [] => None
    end
  else None.

(* candidates: templates that match and have the method *)
Definition candidate (segs : list str) (m : str) (ti : tmpl * item) : bool :=
  seg_match (fst ti) segs && has_method (snd ti) m.

(* The specification as a relation: the chosen template is a candidate and is
   strictly preferred to every other candidate; no result iff no candidate. *)
Definition spec_ok (ts : list (tmpl * item)) (segs : list str) (m : str) (r : option (tmpl * item)) : Prop :=
  match r with
  | Some ti => In ti ts /\ candidate segs m ti = true /\
               forall ti', In ti' ts -> candidate segs m ti' = true ->
                           ti' = ti \/ pref_lt (fst ti) (fst ti') = true
  | None => forall ti', In ti' ts -> candidate segs m ti' = false
  end.

(* ... and as a function (extracted; used as the reference matcher by the
   correspondence check) *)
Fixpoint best (cands : list (tmpl * item)) (cur : option (tmpl * item)) : option (tmpl * item) :=
  match cands with
  | [] => cur
  | c :: r =>
    match cur with
    | None => best r (Some c)
    | Some b => if pref_lt (fst c) (fst b) then best r (Some c) else best r cur
    end
  end.

Definition match_spec (ts : list (tmpl * item)) (segs : list str) (m : str) : option (tmpl * item) :=
  best (filter (candidate segs m) ts) None.

Definition match_request (ts : list (tmpl * item)) (bp path m : str) : option res :=
  match segs_under bp path with
  | Some segs => match match_spec ts segs m with
                 | Some (_, it) => dispatch it m
                 | None => None
                 end
  | None => None
  end.

(* Template sets the property quantifies over: pairwise non-equivalent,
   segments free of "/" and of braces. *)
Fixpoint no_equiv (ts : list (tmpl * item)) : bool :=
  match ts with
  | [] => true
  | (t, _) :: r => forallb (fun ti => negb (tmpl_equiv t (fst ti))) r && no_equiv r
  end.
