(* Declarative side of C06-C08: when a JSON document is valid for a schema
   (required present, null only where nullable, declared JSON types and
   formats, allOf = all members, undeclared keys typed by additionalProperties
   when that is a schema and otherwise allowed), and which part of a valid
   document the generated types can keep. *)
From Coq Require Import String.
From Coq Require Import List Bool Arith Ascii NArith ZArith Lia.
Import ListNotations.
From Goag Require Import Base.Str Model.Router Model.Serve Model.Params Model.Json.

Section Spec.
  Variable parse_num : Z -> str -> option str.
  Variable parse_time : str -> option str.

  Definition valid_prim (p : jprim) (j : json) : bool :=
    match p, j with
    | QStr, JStr _ => true
    | QInt b, JNum t => is_some (parse_int b t)
    | QNum b, JNum t => is_some (parse_num b t)
    | QBool, JBool _ => true
    | QTime, JStr s => is_some (parse_time s)
    | QAny, _ => true
    | _, _ => false
    end.

  Fixpoint keys_nodup (ms : list (str * json)) : bool :=
    match ms with
    | [] => true
    | (k, _) :: r => negb (existsb (fun kv => str_eqb (fst kv) k) r) && keys_nodup r
    end.

  (* property names declared by an object schema, embedded members included *)
  Fixpoint declared_keys (s : jsch) : list str :=
    match s with
    | JObjS ms _ =>
      (fix go (ms : list (mkind * jsch)) : list str :=
         match ms with
         | [] => []
         | (MField k _, _) :: r => k :: go r
         | (MEmbed, se) :: r => declared_keys se ++ go r
         end) ms
    | _ => []
    end.

  (* [validates s j]; for an object schema in embedded (allOf member) position
     the members of the enclosing object are given in [obj] *)
  Fixpoint vld (s : jsch) (j : json) (obj : list (str * json)) (embedded : bool) {struct s} : bool :=
    match s with
    | JPrimS p => valid_prim p j
    | JNullS s' => match j with JNull => true | _ => vld s' j [] false end
    | JArrS it => match j with JArr l => forallb (fun x => vld it x [] false) l | _ => false end
    | JObjS ms addl =>
      let members : option (list (str * json)) :=
        if embedded then Some obj
        else match j with JObj m => if keys_nodup m then Some m else None | _ => None end in
      match members with
      | None => false
      | Some m =>
        (fix go (ms : list (mkind * jsch)) : bool :=
           match ms with
           | [] => true
           | (MField k req, sf) :: r =>
             (match kv_get m k with
              | Some x => vld sf x [] false
              | None => negb req
              end) && go r
           | (MEmbed, se) :: r => vld se JNull m true && go r
           end) ms
        &&
        (if embedded then true
         else match addl with
              | Some sa =>
                forallb (fun kv => existsb (str_eqb (fst kv)) (declared_keys (JObjS ms addl)) || vld sa (snd kv) [] false) m
              | None => true
              end)
      end
    end.

  Definition validates (s : jsch) (j : json) : bool := vld s j [] false.
End Spec.

(* ------------------------------------------------------------------ *)
(* the specification: what is kept                                      *)

Section Keep.
  Variable fmt_float : Z -> str -> str.
  Variable fmt_time : str -> str.
  Variable parse_num : Z -> str -> option str.
  Variable parse_time : str -> option str.

  Definition keep_prim (p : jprim) (j : json) : json :=
    match p, j with
    | QInt b, JNum t => match parse_int b t with Some z => JNum (z_to_str z) | None => j end
    | QNum b, JNum t => match parse_num b t with Some r => JNum (fmt_float b r) | None => j end
    | QTime, JStr s => match parse_time s with Some r => JStr (fmt_time r) | None => j end
    | _, _ => j
    end.

  (* members whose key is not in D *)
  Definition filt (D : list str) (m : list (str * json)) : list (str * json) :=
    filter (fun kv => negb (existsb (str_eqb (fst kv)) D)) m.

  (* [keep s j obj embedded], with the conventions of [vld] *)
  Fixpoint keep (s : jsch) (j : json) (obj : list (str * json)) (embedded : bool) {struct s} : json :=
    match s with
    | JPrimS p => keep_prim p j
    | JNullS s' => match j with JNull => JNull | _ => keep s' j [] false end
    | JArrS it => match j with JArr l => JArr (map (fun x => keep it x [] false) l) | _ => j end
    | JObjS ms addl =>
      let m := if embedded then obj else match j with JObj m => m | _ => [] end in
      JObj (
        (fix go (ms : list (mkind * jsch)) : list (str * json) :=
           match ms with
           | [] => []
           | (MField k _, sf) :: r =>
             (match kv_get m k with Some x => [(k, keep sf x [] false)] | None => [] end) ++ go r
           | (MEmbed, se) :: r =>
             (match keep se JNull m true with JObj l => l | _ => [] end) ++ go r
           end) ms
        ++
        (if embedded then [] else
           match addl with
           | Some sa => map (fun kv => (fst kv, keep sa (snd kv) [] false))
                            (filt (declared_keys (JObjS ms addl)) m)
           | None => []
           end))
    end.

End Keep.
