(* C08 — decoding is strict on required/type errors (proved for every schema),
   accepts every valid document (C08_valid_accepted) and is lossless on them:
   the decoded value re-encodes to [keep s j] (Spec/JsonSpec.v), the document
   itself with its declared properties in schema order, its undeclared members
   kept (in document order) exactly when the schema has additionalProperties,
   and numbers / date-times re-spelt (C08_lossless).  The theorems are stated
   for well-formed schemas of the dialect ([wf_sch], [dom_sch]); D28's shape
   (an allOf member with additionalProperties of its own) is outside them. *)
From Coq Require Import List ZArith.
Import ListNotations.
From Goag Require Import Base.Str Model.Params Model.Json Spec.JsonSpec
     Proofs.JsonEncProofs Proofs.JsonRtProofs Proofs.JsonStrictProofs Proofs.JsonCompleteProofs Proofs.JsonStableProofs Proofs.JsonKeepProofs Proofs.JsonKeepIdem Model.OneOf Proofs.OneOfProofs.

(* a document that lacks a required property is rejected *)
Theorem C08_missing_required : forall parse_num parse_time ms addl members k sf v,
  In (MField k true, sf) ms -> ~ In k (keys members) ->
  dec parse_num parse_time (JObjS ms addl) (JObj members) <> Ok v.
Proof. exact missing_required_rejected. Qed.
Print Assumptions C08_missing_required.

(* a non-null value of the wrong JSON type for a declared property is rejected *)
Theorem C08_wrong_type : forall parse_num parse_time ms addl members k req p x v,
  NoDup (dk ms) -> In (MField k req, JPrimS p) ms ->
  kv_get (kv_of_members members) k = Some x ->
  x <> JNull -> valid_prim parse_num parse_time p x = false ->
  dec parse_num parse_time (JObjS ms addl) (JObj members) <> Ok v.
Proof. exact wrong_type_rejected. Qed.
Print Assumptions C08_wrong_type.

(* ... and for nested schemas: an accepted document's declared properties all
   decode under their own schemas *)
Theorem C08_declared_properties_decode : forall parse_num parse_time addl ms m fs m' ad,
  dec_inner parse_num parse_time addl ms m = Ok (fs, m', ad) -> NoDup (dk ms) ->
  forall k req sf raw, In (MField k req, sf) ms -> kv_get m k = Some raw ->
    exists x mx, dec_items parse_num parse_time sf raw [] false = Ok (x, mx).
Proof. exact inner_wrong_type. Qed.
Print Assumptions C08_declared_properties_decode.

(* lossless on what the encoder produces *)
Theorem C08_lossless_on_encodings : forall fmt_float fmt_time parse_num parse_time,
  (forall b r, parse_num b (fmt_float b r) = Some r) ->
  (forall r, parse_time (fmt_time r) = Some r) ->
  forall s v j, rt_ok s v -> enc fmt_float fmt_time s v = Ok j -> dec parse_num parse_time s j = Ok v.
Proof. exact roundtrip. Qed.
Print Assumptions C08_lossless_on_encodings.

(* oneOf: whatever the decoder accepts was accepted by one of the variants'
   own decoders (so the strictness theorems above apply to it), and only that
   variant's field is set; a discriminator value the switch does not list is
   rejected whatever else the document holds *)
Theorem C08_oneof_accepts_only_a_variant : forall parse_num parse_time o j fs,
  dec_oneof parse_num parse_time o j = Ok fs ->
  exists i s v, nth_error (o_variants o) i = Some s /\ dec parse_num parse_time s j = Ok v /\
                fs = single (length (o_variants o)) i v.
Proof. exact oneof_dec_sound. Qed.
Print Assumptions C08_oneof_accepts_only_a_variant.

Theorem C08_oneof_unknown_discriminator : forall parse_num parse_time o key cases j k,
  o_disc o = Some (key, cases) -> disc_key key j = Ok k -> find_case cases k = None ->
  dec_oneof parse_num parse_time o j = ErrOther.
Proof. exact oneof_disc_unknown. Qed.
Print Assumptions C08_oneof_unknown_discriminator.

(* every document that is valid for the schema (Spec/JsonSpec.v: required
   present, null only where nullable, declared types and formats, allOf = all
   members, undeclared keys typed by additionalProperties, no duplicate keys)
   decodes without error — whatever subset of the optional properties it holds,
   in whatever member order, with whatever extra keys the schema allows *)
Theorem C08_valid_accepted : forall parse_num parse_time s j,
  wf_sch s -> validates parse_num parse_time s j = true ->
  exists v, dec parse_num parse_time s j = Ok v.
Proof. exact valid_accepted. Qed.
Print Assumptions C08_valid_accepted.

(* the value a valid document decodes to is in the domain the round trip is
   proved for (integers in range, no property twice, allOf members intact,
   additional properties kept under their own, distinct keys) ... *)
Theorem C08_decoded_in_domain : forall parse_num parse_time s j v,
  wf_sch s -> dom_sch s -> validates parse_num parse_time s j = true ->
  dec parse_num parse_time s j = Ok v -> rt_ok s v.
Proof. exact decoded_in_domain. Qed.
Print Assumptions C08_decoded_in_domain.

(* ... so it re-encodes, to a document that is valid again and decodes to the
   same value *)
Theorem C08_reencode_stable : forall fmt_float fmt_time parse_num parse_time,
  (forall b r, parse_num b (fmt_float b r) = Some r) ->
  (forall r, parse_time (fmt_time r) = Some r) ->
  forall s j, wf_sch s -> dom_sch s -> validates parse_num parse_time s j = true ->
  exists v j', dec parse_num parse_time s j = Ok v /\
               enc fmt_float fmt_time s v = Ok j' /\
               validates parse_num parse_time s j' = true /\
               dec parse_num parse_time s j' = Ok v.
Proof. exact reencode_stable. Qed.
Print Assumptions C08_reencode_stable.

(* lossless: the value a valid document decodes to re-encodes to the kept part
   of THAT document (Spec/JsonSpec.v, [keep]): every declared property that is
   present, under its own name, with its own (kept) value; every undeclared
   member when the schema has additionalProperties; nothing else *)
Theorem C08_lossless : forall fmt_float fmt_time parse_num parse_time s j,
  wf_sch s -> dom_sch s -> validates parse_num parse_time s j = true ->
  exists v, dec parse_num parse_time s j = Ok v /\
            enc fmt_float fmt_time s v = Ok (keep fmt_float fmt_time parse_num parse_time s j [] false).
Proof. exact lossless. Qed.
Print Assumptions C08_lossless.

(* [keep] is a normal form: the kept part of a valid document is itself valid,
   decodes to the same value, and keeping it again changes nothing — "an
   equivalent JSON value" is made precise as: same normal form *)
Theorem C08_kept_part_is_equivalent : forall fmt_float fmt_time parse_num parse_time,
  (forall b r, parse_num b (fmt_float b r) = Some r) ->
  (forall r, parse_time (fmt_time r) = Some r) ->
  forall s j, wf_sch s -> dom_sch s -> validates parse_num parse_time s j = true ->
    validates parse_num parse_time s (keep fmt_float fmt_time parse_num parse_time s j [] false) = true /\
    dec parse_num parse_time s (keep fmt_float fmt_time parse_num parse_time s j [] false) = dec parse_num parse_time s j.
Proof. exact keep_valid_and_same_value. Qed.
Print Assumptions C08_kept_part_is_equivalent.

Theorem C08_keep_idempotent : forall fmt_float fmt_time parse_num parse_time,
  (forall b r, parse_num b (fmt_float b r) = Some r) ->
  (forall r, parse_time (fmt_time r) = Some r) ->
  forall s j, wf_sch s -> dom_sch s -> validates parse_num parse_time s j = true ->
    keep fmt_float fmt_time parse_num parse_time s (keep fmt_float fmt_time parse_num parse_time s j [] false) [] false
    = keep fmt_float fmt_time parse_num parse_time s j [] false.
Proof. exact keep_idempotent. Qed.
Print Assumptions C08_keep_idempotent.
