(* C08 — decoding is strict on required/type errors (proved for every schema)
   and lossless on valid documents (proved for the documents the encoder
   produces: C06_roundtrip; for arbitrary valid documents the statement is
   checked by the correspondence run, not proved — partial). *)
From Coq Require Import List ZArith.
Import ListNotations.
From Goag Require Import Base.Str Model.Params Model.Json Spec.JsonSpec
     Proofs.JsonEncProofs Proofs.JsonRtProofs Proofs.JsonStrictProofs.

(* a document that lacks a required property is rejected *)
Theorem C08_missing_required : forall parse_num parse_time ms addl members k sf v,
  In (MField k true, sf) ms -> ~ In k (keys members) ->
  dec parse_num parse_time (JObjS ms addl) (JObj members) <> Ok v.
Proof. exact missing_required_rejected. Qed.
Print Assumptions C08_missing_required.

(* a non-null value of the wrong JSON type for a declared property is rejected *)
Theorem C08_wrong_type : forall parse_num parse_time ms addl members k req p x v,
  NoDup (dk ms) -> In (MField k req, JPrimS p) ms ->
  kv_get (kv_of_members members) k = Some x ->
  x <> JNull -> valid_prim parse_num parse_time p x = false ->
  dec parse_num parse_time (JObjS ms addl) (JObj members) <> Ok v.
Proof. exact wrong_type_rejected. Qed.
Print Assumptions C08_wrong_type.

(* ... and for nested schemas: an accepted document's declared properties all
   decode under their own schemas *)
Theorem C08_declared_properties_decode : forall parse_num parse_time addl ms m fs m' ad,
  dec_inner parse_num parse_time addl ms m = Ok (fs, m', ad) -> NoDup (dk ms) ->
  forall k req sf raw, In (MField k req, sf) ms -> kv_get m k = Some raw ->
    exists x mx, dec_items parse_num parse_time sf raw [] false = Ok (x, mx).
Proof. exact inner_wrong_type. Qed.
Print Assumptions C08_declared_properties_decode.

(* lossless on what the encoder produces *)
Theorem C08_lossless_on_encodings : forall fmt_float fmt_time parse_num parse_time,
  (forall b r, parse_num b (fmt_float b r) = Some r) ->
  (forall r, parse_time (fmt_time r) = Some r) ->
  forall s v j, rt_ok s v -> enc fmt_float fmt_time s v = Ok j -> dec parse_num parse_time s j = Ok v.
Proof. exact roundtrip. Qed.
Print Assumptions C08_lossless_on_encodings.
