(* C08 — placeholder until the proofs land. *)
From Goag Require Import Model.Json Spec.JsonSpec.
