(* C15 — the generator fails cleanly instead of crashing. *)
From Coq Require Import String List.
Import ListNotations.
From Goag Require Import Base.Str Model.NilSafety Proofs.NilSafetyProofs.

(* For every document that satisfies the loader's post-condition (every header,
   parameter and response reference has a $ref or a value), of any size and
   nesting, the nil-sensitive front of the generator never dereferences nil:
   it ends in success or in a reported error. *)
Theorem C15_no_panic : forall d : doc, loader_inv d = true -> forall site, gen_front d <> Panic site.
Proof. exact gen_front_no_panic. Qed.
Print Assumptions C15_no_panic.

(* the loader's post-condition is needed: without it the model does panic *)
Theorem C15_loader_inv_needed : exists d site, loader_inv d = false /\ gen_front d = Panic site.
Proof. exact loader_inv_is_needed. Qed.
Print Assumptions C15_loader_inv_needed.
