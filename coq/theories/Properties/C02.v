(* C02 — handlers can only return documented responses, written as documented. *)
From Coq Require Import String List ZArith Bool.
Import ListNotations.
From Goag Require Import Base.Str Model.Params Model.Json Model.Client Model.Response Model.RespTypes
     Proofs.ClientProofs Proofs.ResponseProofs Proofs.RespTypesProofs.

(* Among the types the generator declares for the responses of a document
   (inline responses of every operation, component responses, their aliases),
   the ones that satisfy operation op's response interface — Go's rule: the
   method set contains write<Op>, an alias having the method set of the type it
   denotes — are exactly the ones op documents: its inline responses, and every
   name (component or alias, through any chain) of a component response one of
   its status keys refers to. *)
Theorem C02_exact_implementers : forall d, wf d -> forall op T,
  In op (rd_ops d) -> In T (map t_name (gen_types d)) ->
  (implements d T (ro_name op) = true <-> documented d op T).
Proof. exact exact_implementers. Qed.
Print Assumptions C02_exact_implementers.

Theorem C02_nothing_else : forall d, wf d -> forall op T,
  In op (rd_ops d) -> In T (map t_name (gen_types d)) ->
  ~ documented d op T -> implements d T (ro_name op) = false.
Proof. exact undocumented_not_returnable. Qed.
Print Assumptions C02_nothing_else.

(* Writing a response value emits the documented status (the caller's code for
   `default`), the documented Content-Type, for every declared header exactly
   the texts of its value (nothing for an unset optional), no undeclared header,
   and the encoding of the body under the declared schema. *)
Theorem C02_write_documented : forall fmt_float fmt_num fmt_time p v w,
  plan_wf p -> write fmt_float fmt_num fmt_time p v = Some w ->
  w_status w = (match rp_status p with Some c => c | None => rv_code v end) /\
  (forall ct, rp_ctype p = Some ct -> header_lookup (w_headers w) content_type = [ct]) /\
  (exists hs, client_pairs fmt_float fmt_time (rp_headers p) (rv_headers v) = Some hs /\
              forall d, In d (rp_headers p) -> header_lookup (w_headers w) (d_name d) = header_lookup hs (d_name d)) /\
  (forall kv, In kv (w_headers w) -> fst kv = content_type \/ exists d, In d (rp_headers p) /\ fst kv = d_name d) /\
  write_body fmt_num fmt_time (rp_body p) (rv_body v) = Some (w_body w).
Proof. exact write_documented. Qed.
Print Assumptions C02_write_documented.

(* non-vacuity: a document with a shared component, an alias of it and a default *)
Definition ex_doc : rdoc :=
  {| rd_ops := [ {| ro_name := S_ "GetA"; ro_responses := [(S_ "200", RInline true); (S_ "404", RComp (S_ "Gone")); (S_ "default", RInline false)] |};
                 {| ro_name := S_ "PostB"; ro_responses := [(S_ "201", RInline false); (S_ "410", RComp (S_ "NotFound"))] |} ];
     rd_comps := [ {| rc_name := S_ "Gone"; rc_alias := Some (S_ "NotFound") |}; {| rc_name := S_ "NotFound"; rc_alias := None |} ] |}.

Example ex_implementers :
  implementers ex_doc (S_ "GetA") = [S_ "GetAResponse200JSON"; S_ "GetAResponseDefault"; S_ "GoneResponse"; S_ "NotFoundResponse"] /\
  implementers ex_doc (S_ "PostB") = [S_ "PostBResponse201"; S_ "GoneResponse"; S_ "NotFoundResponse"].
Proof. split; vm_compute; reflexivity. Qed.
