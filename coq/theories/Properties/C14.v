(* C14 — the generated server never panics and always answers.
   PARTIAL (DESIGN section 4, C14): the guards the generated code puts around
   its own partial operations are proved sufficient, site class by site class,
   for the inventory the translator regenerates from /repo on every run; the
   one-response statement is proved over the model of API.ServeHTTP.  Panics
   inside the standard library (encoding/json, strconv, time, net/url), stack
   exhaustion and user code are outside the model (they are fuzzed). *)
From Coq Require Import List Bool.
Import ListNotations.
From Goag Require Import Base.Str Model.Router Model.Serve Model.Partial Gen.PanicSites
     Proofs.PartialProofs Proofs.OneResponse.

(* the regenerated obligation: every partial operation the generator emits on the
   server side sits under a guard shape of a discharged class *)
Theorem C14_every_site_classified : all_sites_discharged observed_panic_sites = true.
Proof. vm_compute. reflexivity. Qed.
Print Assumptions C14_every_site_classified.

(* and every discharged class is safe: its program fragment never reaches Panic,
   for all inputs (classes resting on a precondition of the property say so) *)
Theorem C14_no_panic_at_any_site : forall c n, In (c, n) observed_panic_sites -> class_safe c.
Proof. exact (sites_safe observed_panic_sites C14_every_site_classified). Qed.
Print Assumptions C14_no_panic_at_any_site.

Theorem C14_guards_suffice : forall c, discharged c = true -> class_safe c.
Proof. exact discharged_safe. Qed.
Print Assumptions C14_guards_suffice.

(* exactly one responder acts on every request, whatever the configuration:
   the spec-file handler, the CORS handler, the operation's handler, the custom
   or built-in not-found handler, or the auth middleware's 401 *)
Theorem C14_one_response : forall s cfg rq,
  responder_events (serve s cfg rq) + builtin_writer (serve s cfg rq) = 1.
Proof. exact one_responder. Qed.
Print Assumptions C14_one_response.
