(* C09 — the generated client and the generated server agree on every request
   the request type can express.
   [fmt_float]/[pf] stand for strconv.FormatFloat / ParseFloat and
   [fmt_time]/[pt] for time.Format / time.Parse(RFC3339); their round-trip
   premises are hypotheses (trusted base, instantiated by the harness from the
   real functions).  Integer and boolean texts are modelled and proved. *)
From Coq Require Import List ZArith Ascii Permutation.
Import ListNotations.
Local Open Scope Z_scope.
From Goag Require Import Base.Str Model.Router Model.Params Model.Json Model.Client Spec.JsonSpec
     Proofs.IntFormat Proofs.ClientProofs Proofs.JsonRtProofs.
From Goag Require Import Model.Serve Model.UrlEscape Proofs.UrlEscapeProofs Proofs.WireProofs.

(* Parameters: for every operation declaration, every base path and every
   parameter set of the domain (DESIGN section 11: declared names pairwise
   distinct under the location's key comparison, integers within their width,
   required arrays non-empty, path texts non-empty and slash-free), the client
   builds a request, and the handler's Parse() of that request returns exactly
   the parameter set that was sent: unset optionals unset, every value at its own
   parameter. *)
Theorem C09_params_agree : forall fmt_float fmt_time pf pt,
  (forall b r, pf b (fmt_float b r) = Some r) ->
  (forall r, pt (fmt_time r) = Some r) ->
  forall bp method od v,
    Forall2 (field_ok_c) (od_query od) (pq v) -> names_distinct str_eqb (od_query od) ->
    Forall2 (field_ok_c) (od_header od) (ph v) -> names_distinct hdr_eq (od_header od) ->
    path_fields_ok fmt_float fmt_time (od_path od) (pp v) ->
    exists rq, client_request fmt_float fmt_time bp method od v = Some rq /\ parse_request pf pt bp od rq = Ok v.
Proof. exact client_server_agree_total. Qed.
Print Assumptions C09_params_agree.

(* strconv.ParseInt(strconv.FormatInt(z, 10), 10, bits) = z on the whole width *)
Theorem C09_integer_text : forall bits z,
  (bits = 0 \/ bits = 32 \/ bits = 64) ->
  - 2 ^ (bit_size bits - 1) <= z < 2 ^ (bit_size bits - 1) ->
  parse_int bits (z_to_str z) = Some z.
Proof. exact int_format_roundtrip. Qed.
Print Assumptions C09_integer_text.

(* Body: the client writes json.Marshal(request.Body) (Json.enc) and the handler
   decodes it with the generated UnmarshalJSON (Json.dec). *)
Theorem C09_body_agree : forall fmt_float fmt_time parse_num parse_time,
  (forall b r, parse_num b (fmt_float b r) = Some r) ->
  (forall r, parse_time (fmt_time r) = Some r) ->
  forall (s : jsch) (v : gval) (j : json),
    rt_ok s v -> enc fmt_float fmt_time s v = Ok j -> dec parse_num parse_time s j = Ok v.
Proof. exact roundtrip. Qed.
Print Assumptions C09_body_agree.

(* The bytes on the wire (Model/UrlEscape.v transcribes net/url's escape,
   unescape, Values.Encode and parseQuery for the two modes the generated code
   reaches).  Every path value, whatever bytes it holds, comes back from
   url.PathEscape through net/http's unescaping as itself ... *)
Theorem C09_path_escape_roundtrip : forall s, unescape false (path_escape s) = Some s.
Proof. exact path_unescape_escape. Qed.
Print Assumptions C09_path_escape_roundtrip.

(* ... and its escaped text holds no '/', '?' or '#', so it cannot change the
   number of segments, start the query or start a fragment *)
Theorem C09_path_escape_keeps_structure : forall s c,
  In c (path_escape s) -> c <> slash /\ c <> qmark /\ c <> "#"%char.
Proof. exact path_escape_no_structure. Qed.
Print Assumptions C09_path_escape_keeps_structure.

Theorem C09_query_escape_roundtrip : forall s, unescape true (query_escape s) = Some s.
Proof. exact query_unescape_escape. Qed.
Print Assumptions C09_query_escape_roundtrip.

(* url.Values.Encode followed by URL.Query(): the list of pairs, byte for byte *)
Theorem C09_query_string_roundtrip : forall ps, parse_query (encode_query ps) = ps.
Proof. exact query_roundtrip. Qed.
Print Assumptions C09_query_string_roundtrip.

(* The request of C09_params_agree is the one net/http reconstructs from the
   URL the client wrote: URL.Path is the unescaped raw path (base path and
   literal directories free of '%': DESIGN section 3), and a lookup of any name
   in URL.Query() returns the values the client put under it, in order, although
   Encode sorts the keys. *)
Theorem C09_wire_path_agrees : forall fmt_float fmt_time bp method od v rq,
  client_request fmt_float fmt_time bp method od v = Some rq ->
  no_pct bp = true ->
  Forall (fun d => match snd d with None => no_pct (fst d) = true | Some _ => True end) (od_path od) ->
  exists ps, client_psegs fmt_float fmt_time (od_path od) (pp v) = Some ps /\
             unescape false (raw_path bp ps) = Some (q_path rq).
Proof. exact wire_path_agrees. Qed.
Print Assumptions C09_wire_path_agrees.

Theorem C09_wire_query_agrees : forall (q : list (str * str)) name,
  vals name (parse_query (encode_query (sort_pairs q))) = vals name q.
Proof. exact wire_query_agrees. Qed.
Print Assumptions C09_wire_query_agrees.

(* the key-sorted order Encode writes the pairs in is a permutation of the pairs
   the client set: none lost, none invented *)
Theorem C09_encode_order_is_a_permutation : forall l, Permutation (sort_pairs l) l.
Proof. exact sort_pairs_perm. Qed.
Print Assumptions C09_encode_order_is_a_permutation.
