(* C09 — the generated client and the generated server agree on every request
   the request type can express.
   [fmt_float]/[pf] stand for strconv.FormatFloat / ParseFloat and
   [fmt_time]/[pt] for time.Format / time.Parse(RFC3339); their round-trip
   premises are hypotheses (trusted base, instantiated by the harness from the
   real functions).  Integer and boolean texts are modelled and proved. *)
From Coq Require Import List ZArith.
Import ListNotations.
Local Open Scope Z_scope.
From Goag Require Import Base.Str Model.Router Model.Params Model.Json Model.Client Spec.JsonSpec
     Proofs.IntFormat Proofs.ClientProofs Proofs.JsonRtProofs.

(* Parameters: for every operation declaration, every base path and every
   parameter set of the domain (DESIGN section 11: declared names pairwise
   distinct under the location's key comparison, integers within their width,
   required arrays non-empty, path texts non-empty and slash-free), the client
   builds a request, and the handler's Parse() of that request returns exactly
   the parameter set that was sent: unset optionals unset, every value at its own
   parameter. *)
Theorem C09_params_agree : forall fmt_float fmt_time pf pt,
  (forall b r, pf b (fmt_float b r) = Some r) ->
  (forall r, pt (fmt_time r) = Some r) ->
  forall bp method od v,
    Forall2 (field_ok_c) (od_query od) (pq v) -> names_distinct str_eqb (od_query od) ->
    Forall2 (field_ok_c) (od_header od) (ph v) -> names_distinct hdr_eq (od_header od) ->
    path_fields_ok fmt_float fmt_time (od_path od) (pp v) ->
    exists rq, client_request fmt_float fmt_time bp method od v = Some rq /\ parse_request pf pt bp od rq = Ok v.
Proof. exact client_server_agree_total. Qed.
Print Assumptions C09_params_agree.

(* strconv.ParseInt(strconv.FormatInt(z, 10), 10, bits) = z on the whole width *)
Theorem C09_integer_text : forall bits z,
  (bits = 0 \/ bits = 32 \/ bits = 64) ->
  - 2 ^ (bit_size bits - 1) <= z < 2 ^ (bit_size bits - 1) ->
  parse_int bits (z_to_str z) = Some z.
Proof. exact int_format_roundtrip. Qed.
Print Assumptions C09_integer_text.

(* Body: the client writes json.Marshal(request.Body) (Json.enc) and the handler
   decodes it with the generated UnmarshalJSON (Json.dec). *)
Theorem C09_body_agree : forall fmt_float fmt_time parse_num parse_time,
  (forall b r, parse_num b (fmt_float b r) = Some r) ->
  (forall r, parse_time (fmt_time r) = Some r) ->
  forall (s : jsch) (v : gval) (j : json),
    rt_ok s v -> enc fmt_float fmt_time s v = Ok j -> dec parse_num parse_time s j = Ok v.
Proof. exact roundtrip. Qed.
Print Assumptions C09_body_agree.
