(* C19 — the output directory reflects only the last invocation.
   Property theorems only; each is closed by [exact] of a lemma proved in
   Proofs/OutDirProofs.v. *)
From Coq Require Import List.
Import ListNotations.
From Goag Require Import Model.OutDir Proofs.OutDirProofs.

(* After ANY history (any length, any starting directory) ending in invocation
   [i], every goag-owned file is exactly what a single run of [i] into an empty
   directory produces. *)
Theorem C19_last_wins : forall (d0 : dir) (h : list inv) (i : inv) (f : fname),
  owned f = true -> run_history d0 (h ++ [i]) f = run empty_dir i f.
Proof. exact last_wins. Qed.
Print Assumptions C19_last_wins.

(* ... and that single run is the declarative [spec_dir]: files the invocation
   does not call for are absent, the others hold its rendering. *)
Theorem C19_last_wins_spec : forall (d0 : dir) (h : list inv) (i : inv) (f : fname),
  owned f = true -> run_history d0 (h ++ [i]) f = spec_dir i f.
Proof. exact last_wins_spec. Qed.
Print Assumptions C19_last_wins_spec.

Theorem C19_stale_gone : forall d0 h i f,
  owned f = true -> wanted i f = false -> run_history d0 (h ++ [i]) f = None.
Proof. exact stale_gone. Qed.
Print Assumptions C19_stale_gone.

Theorem C19_wanted_rewritten : forall d0 h i f,
  wanted i f = true -> run_history d0 (h ++ [i]) f = Some (Gen i f).
Proof. exact wanted_rewritten. Qed.
Print Assumptions C19_wanted_rewritten.

Theorem C19_foreign_untouched : forall (d0 : dir) (h : list inv) (f : fname),
  owned f = false -> run_history d0 h f = d0 f.
Proof. exact foreign_untouched. Qed.
Print Assumptions C19_foreign_untouched.

Theorem C19_idempotent : forall (d : dir) (i : inv) (f : fname),
  run (run d i) i f = run d i f.
Proof. exact idempotent. Qed.
Print Assumptions C19_idempotent.
