(* C01 — successful generation yields a compilable, formatted Go package.
   PARTIAL (DESIGN section 4, C01): "type-checks as one Go package" is decided by
   the compile matrix of the correspondence check, not by a theorem; what is
   proved is the output gate and the identifier layer. *)
From Coq Require Import List Bool Ascii.
Import ListNotations.
From Goag Require Import Base.Str Model.Gate Model.Naming Proofs.GateProofs Proofs.NamingProofs.

(* Output gate.  [fmt] stands for imports.Process, [parses] for go/parser,
   [decl_ok] for the clash check on declared names.  If generation reports
   success, every file it wrote parses and is a gofmt fixpoint, the declared
   names do not clash, and exactly the rendered files were written. *)
Theorem C01_success_is_formatted : forall (src : Type) fmt parses decl_ok,
  (forall s b, fmt s = Some b -> parses b = true /\ fmt b = Some b) ->
  forall rendered ws,
    generate src fmt parses decl_ok rendered = Success src ws ->
    (forall n b, In (n, b) ws -> parses b = true /\ fmt b = Some b) /\
    exists fs, rendered = Some fs /\ decl_ok (map snd fs) = true /\ map fst ws = map fst fs.
Proof. exact success_is_formatted. Qed.
Print Assumptions C01_success_is_formatted.

(* A rendered file that does not parse, a clash of declared names or a
   formatting error is reported as an error, never as a success. *)
Theorem C01_broken_is_failure : forall (src : Type) fmt parses decl_ok fs,
  (existsb (fun f => negb (parses (snd f))) fs = true \/ decl_ok (map snd fs) = false \/
   exists n s, In (n, s) fs /\ fmt s = None) ->
  generate src fmt parses decl_ok (Some fs) = Failed src.
Proof. exact broken_is_failure. Qed.
Print Assumptions C01_broken_is_failure.

(* Identifier layer: the Go name derived from any ASCII spec name consists of
   identifier characters only and, unless empty, starts with an upper-case
   letter; it is non-empty whenever the name contains a letter. *)
Theorem C01_field_name_is_identifier : forall n,
  Forall (fun c => ident_char c = true) (public_field_name n) /\
  (public_field_name n = [] \/ exists c t, public_field_name n = c :: t /\ is_upper c = true).
Proof. exact public_field_name_ident. Qed.
Print Assumptions C01_field_name_is_identifier.

Theorem C01_field_name_nonempty : forall n,
  existsb is_letter n = true -> public_field_name n <> [].
Proof. exact public_field_name_nonempty. Qed.
Print Assumptions C01_field_name_nonempty.
