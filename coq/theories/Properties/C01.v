(* C01 — successful generation yields a compilable, formatted Go package.
   PARTIAL (DESIGN section 4, C01): "type-checks as one Go package" is decided by
   the compile matrix of the correspondence check, not by a theorem; what is
   proved is the output gate and the identifier layer. *)
From Coq Require Import List Bool Ascii.
Import ListNotations.
From Goag Require Import Base.Str Model.Gate Model.Naming Proofs.GateProofs Proofs.NamingProofs.
From Goag Require Import Model.GoLit Gen.HoleSites Model.Holes Proofs.HolesProofs.

(* Output gate.  [fmt] stands for imports.Process, [parses] for go/parser,
   [decl_ok] for the clash check on declared names.  If generation reports
   success, every file it wrote parses and is a gofmt fixpoint, the declared
   names do not clash, and exactly the rendered files were written. *)
Theorem C01_success_is_formatted : forall (src : Type) fmt parses decl_ok,
  (forall s b, fmt s = Some b -> parses b = true /\ fmt b = Some b) ->
  forall rendered ws,
    generate src fmt parses decl_ok rendered = Success src ws ->
    (forall n b, In (n, b) ws -> parses b = true /\ fmt b = Some b) /\
    exists fs, rendered = Some fs /\ decl_ok (map snd fs) = true /\ map fst ws = map fst fs.
Proof. exact success_is_formatted. Qed.
Print Assumptions C01_success_is_formatted.

(* A rendered file that does not parse, a clash of declared names or a
   formatting error is reported as an error, never as a success. *)
Theorem C01_broken_is_failure : forall (src : Type) fmt parses decl_ok fs,
  (existsb (fun f => negb (parses (snd f))) fs = true \/ decl_ok (map snd fs) = false \/
   exists n s, In (n, s) fs /\ fmt s = None) ->
  generate src fmt parses decl_ok (Some fs) = Failed src.
Proof. exact broken_is_failure. Qed.
Print Assumptions C01_broken_is_failure.

(* Identifier layer: the Go name derived from any ASCII spec name consists of
   identifier characters only and, unless empty, starts with an upper-case
   letter; it is non-empty whenever the name contains a letter. *)
Theorem C01_field_name_is_identifier : forall n,
  Forall (fun c => ident_char c = true) (public_field_name n) /\
  (public_field_name n = [] \/ exists c t, public_field_name n = c :: t /\ is_upper c = true).
Proof. exact public_field_name_ident. Qed.
Print Assumptions C01_field_name_is_identifier.

Theorem C01_field_name_nonempty : forall n,
  existsb is_letter n = true -> public_field_name n <> [].
Proof. exact public_field_name_nonempty. Qed.
Print Assumptions C01_field_name_nonempty.

(* Layer 2: template holes are lexically inert.
   REGENERATED OBLIGATION (Gen/HoleSites.v is rewritten from /repo's
   generator/*.gotmpl on every run): every template action that writes into
   the generated source is one of the reviewed kinds — free text of the
   document (descriptions, summaries, comments) only after `//` and only
   through [comment]; values written inside "…", `…` or after `//` as they are
   come from the reviewed list of name-like fields; nothing inside a rune
   literal or a block comment; no {{define}} whose branches leave the Go lexer
   in different states. *)
Theorem C01_holes_classified : all_holes_classified observed_holes = true.
Proof. exact (eq_refl true). Qed.
Print Assumptions C01_holes_classified.

Theorem C01_templates_balanced : unbalanced_ok observed_unbalanced = true.
Proof. exact (eq_refl true). Qed.
Print Assumptions C01_templates_balanced.

(* free text passed through [comment] (generator/template.go commentFunc) and
   written after `// <name-like prefix>` yields comment lines only, whatever
   the text: no line of a description can become code *)
Theorem C01_comment_inert : forall p s,
  forallb line_safe p = true ->
  forallb is_comment_line (lines ([slash; slash] ++ p ++ comment s)) = true.
Proof. exact comment_inert. Qed.
Print Assumptions C01_comment_inert.

Theorem C01_comment_stays_in_comment : forall s p, fst (lex LLine p (comment s)) = LLine.
Proof. exact comment_stays_in_comment. Qed.
Print Assumptions C01_comment_stays_in_comment.

(* a name-like value (letters, digits, _ . - / { } + * ; = space) leaves the
   lexer where it was: inside the string literal, the raw literal or the line
   comment the hole sits in *)
Theorem C01_name_hole_inert : forall n p,
  forallb name_char n = true ->
  fst (lex LStr p n) = LStr /\ fst (lex LRaw p n) = LRaw /\ fst (lex LLine p n) = LLine.
Proof. exact name_hole_inert. Qed.
Print Assumptions C01_name_hole_inert.
