(* C05 — path parameters seen by the handler are the matched path segments. *)
From Coq Require Import List ZArith.
Import ListNotations.
From Goag Require Import Base.Str Model.Router Model.Params Spec.RouterSpec Spec.ParamSpec
     Proofs.RouterStrings Proofs.ParamsProofs Proofs.PathProofs.

(* Whenever the request path beneath the base path consists of segments that
   the operation's template matches (which is what dispatch means: C03), the
   path parser emitted for that operation — which re-derives every offset from
   the raw template on its own — yields the result the specification
   prescribes: for each variable position the typed value of exactly the segment
   at that position, or an error naming the first variable whose segment is
   empty or outside its type's lexical space.  Never a value from another
   segment, never a default. *)
Theorem C05_segments : forall pf pt bp (ds : dirs) segs,
  wf_dirs ds -> ds <> [] -> Forall noslash segs -> seg_match (tmpl_of_dirs ds) segs = true ->
  exists r, path_result pf pt ds segs r /\
            parse_path pf pt bp (path_builder [] ds) (bp ++ enc segs) = r.
Proof. exact path_parse_correct. Qed.
Print Assumptions C05_segments.

(* a dispatched request never fails with the anonymous "wrong path" error *)
Theorem C05_error_names_parameter : forall pf pt ds segs, ~ path_result pf pt ds segs ErrOther.
Proof. exact path_result_never_other. Qed.
Print Assumptions C05_error_names_parameter.
