(* C07 — encoded JSON conforms to the schema it was generated from. *)
From Coq Require Import List ZArith.
Import ListNotations.
From Goag Require Import Base.Str Model.Params Model.Json Spec.JsonSpec
     Proofs.JsonEncProofs Proofs.JsonRtProofs Proofs.JsonConfProofs Model.OneOf Proofs.OneOfProofs.

(* The JSON produced for any value of a schema-derived type validates against
   that schema: required properties present, unset optionals omitted, null only
   where nullable, property names the declared ones (each once), values of the
   declared JSON types and formats, allOf members merged into one object, map
   entries under their own keys and typed by additionalProperties. *)
Theorem C07_conforms : forall fmt_float fmt_time parse_num parse_time,
  (forall b r, parse_num b (fmt_float b r) = Some r) ->
  (forall r, parse_time (fmt_time r) = Some r) ->
  forall (s : jsch) (v : gval) (j : json),
    rt_ok s v -> enc fmt_float fmt_time s v = Ok j -> validates parse_num parse_time s j = true.
Proof. exact conforms. Qed.
Print Assumptions C07_conforms.

(* a oneOf value (exactly one variant's field set) encodes to a document that
   validates against that variant's schema *)
Theorem C07_oneof_conforms : forall fmt_float fmt_time parse_num parse_time,
  (forall b r, parse_num b (fmt_float b r) = Some r) ->
  (forall r, parse_time (fmt_time r) = Some r) ->
  forall vs i s v j,
    nth_error vs i = Some s -> rt_ok s v ->
    enc_oneof fmt_float fmt_time vs (single (length vs) i v) = Ok j ->
    validates parse_num parse_time s j = true.
Proof. exact oneof_conforms. Qed.
Print Assumptions C07_oneof_conforms.
