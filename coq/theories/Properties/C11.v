(* C11 — security requirements are enforced per operation, no more, no less. *)
From Coq Require Import List.
Import ListNotations.
From Goag Require Import Base.Str Model.Router Model.Serve Spec.RouterSpec Spec.ServeSpec Proofs.ServeProofs.

(* [simple_reqs s o]: every alternative of o's effective requirement names one
   declared scheme of a supported kind (bearer, apiKey in header/query) — the
   requirement shapes goag implements; others are rejected at generation time. *)

(* the handler runs (with the request of hook i) only if an alternative of the
   operation's OWN effective requirement was accepted by hook i *)
Theorem C11_auth_sound : forall s cfg rq o evs i,
  simple_reqs s o ->
  run_auth (hook_fields s) cfg rq (gen_auth s o) = (evs, Some i) ->
  exists alt, In alt (effective s o) /\ alt_accepts s cfg rq alt = Some i.
Proof. exact auth_sound. Qed.
Print Assumptions C11_auth_sound.

(* ... and it is refused (401, handler not invoked: Model/Serve.v serve) only
   if NO alternative is accepted *)
Theorem C11_auth_complete : forall s cfg rq o evs,
  simple_reqs s o ->
  run_auth (hook_fields s) cfg rq (gen_auth s o) = (evs, None) ->
  forall alt, In alt (effective s o) -> alt_accepts s cfg rq alt = None.
Proof. exact auth_complete. Qed.
Print Assumptions C11_auth_complete.

(* an explicitly empty / absent requirement means public: no wrapper at all *)
Theorem C11_public : forall s o, effective s o = [] -> gen_auth s o = [].
Proof. exact public_no_auth. Qed.
Print Assumptions C11_public.

(* an operation with a requirement is never left unprotected *)
Theorem C11_secured : forall s o, simple_reqs s o -> effective s o <> [] -> gen_auth s o <> [].
Proof. exact secured_has_auth. Qed.
Print Assumptions C11_secured.

(* credentials for a scheme the operation does not list never grant access:
   every authenticator consulted belongs to a scheme of the operation's own
   effective requirement (nothing is inherited from a sibling operation) *)
Theorem C11_foreign_credentials : forall s o a,
  In a (gen_auth s o) ->
  exists alt n k, In alt (effective s o) /\ In n alt /\ lookup n (s_schemes s) = Some k /\ scheme_ref k = Some a.
Proof. exact foreign_credentials. Qed.
Print Assumptions C11_foreign_credentials.

(* a nil authenticator behaves as "rejects": it is skipped, never called *)
Theorem C11_accepting_hook_is_installed : forall fields cfg rq refs evs i,
  run_auth fields cfg rq refs = (evs, Some i) ->
  exists a tok, In a refs /\ index_of a fields 0 = Some i /\ credential a rq = Some tok /\
                accepts (hook_policy cfg i) tok = true.
Proof. exact run_auth_some. Qed.
Print Assumptions C11_accepting_hook_is_installed.

(* every spec the generator ACCEPTS has only simple requirements, so the
   theorems above apply to every generated API *)
Theorem C11_accepted_simple : forall s p o,
  gen_accepts s = true -> In p (s_paths s) -> In o (p_ops p) -> simple_reqs s o.
Proof. exact accepted_simple. Qed.
Print Assumptions C11_accepted_simple.
