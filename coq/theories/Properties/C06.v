(* C06 — JSON encoding then decoding returns the same value, via valid JSON.
   [fmt_float]/[parse_num] and [fmt_time]/[parse_time] stand for
   strconv/encoding-json number formatting and time.Format/Parse; their
   round-trip premises are hypotheses of the theorem (trusted base). *)
From Coq Require Import List ZArith.
Import ListNotations.
From Goag Require Import Base.Str Model.Params Model.Json Spec.JsonSpec
     Proofs.JsonEncProofs Proofs.JsonRtProofs.

(* Every value of a generated type encodes to a JSON value: whatever the allOf
   structure (embedded $ref members and inline members in any order, embedded
   members that write nothing) and whichever optional fields are set, the
   hand-written comma/member sequence is well formed. *)
Theorem C06_valid_json : forall fmt_float fmt_time (s : jsch) (v : gval),
  typed s v -> exists j, enc fmt_float fmt_time s v = Ok j.
Proof. exact enc_total. Qed.
Print Assumptions C06_valid_json.

(* Decoding the encoding returns the value, for every schema of the dialect and
   every value in the domain [rt_ok] (DESIGN section 11): unset optionals stay
   unset, null nullables stay null, map entries and allOf members are preserved. *)
Theorem C06_roundtrip : forall fmt_float fmt_time parse_num parse_time,
  (forall b r, parse_num b (fmt_float b r) = Some r) ->
  (forall r, parse_time (fmt_time r) = Some r) ->
  forall (s : jsch) (v : gval) (j : json),
    rt_ok s v -> enc fmt_float fmt_time s v = Ok j -> dec parse_num parse_time s j = Ok v.
Proof. exact roundtrip. Qed.
Print Assumptions C06_roundtrip.

(* the domain is a refinement of well-typedness *)
Theorem C06_domain_typed : forall s v, rt_ok s v -> typed s v.
Proof. exact rt_ok_typed. Qed.
Print Assumptions C06_domain_typed.
