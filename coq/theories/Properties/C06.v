(* C06 — JSON encoding then decoding returns the same value, via valid JSON.
   [fmt_float]/[parse_num] and [fmt_time]/[parse_time] stand for
   strconv/encoding-json number formatting and time.Format/Parse; their
   round-trip premises are hypotheses of the theorem (trusted base). *)
From Coq Require Import List ZArith.
Import ListNotations.
From Goag Require Import Base.Str Model.Params Model.Json Spec.JsonSpec
     Proofs.JsonEncProofs Proofs.JsonRtProofs Model.OneOf Proofs.OneOfProofs.
From Goag Require Model.JsonString.
From Goag Require Import Proofs.JsonStringProofs.

(* Every value of a generated type encodes to a JSON value: whatever the allOf
   structure (embedded $ref members and inline members in any order, embedded
   members that write nothing) and whichever optional fields are set, the
   hand-written comma/member sequence is well formed. *)
Theorem C06_valid_json : forall fmt_float fmt_time (s : jsch) (v : gval),
  typed s v -> exists j, enc fmt_float fmt_time s v = Ok j.
Proof. exact enc_total. Qed.
Print Assumptions C06_valid_json.

(* Decoding the encoding returns the value, for every schema of the dialect and
   every value in the domain [rt_ok] (DESIGN section 11): unset optionals stay
   unset, null nullables stay null, map entries and allOf members are preserved. *)
Theorem C06_roundtrip : forall fmt_float fmt_time parse_num parse_time,
  (forall b r, parse_num b (fmt_float b r) = Some r) ->
  (forall r, parse_time (fmt_time r) = Some r) ->
  forall (s : jsch) (v : gval) (j : json),
    rt_ok s v -> enc fmt_float fmt_time s v = Ok j -> dec parse_num parse_time s j = Ok v.
Proof. exact roundtrip. Qed.
Print Assumptions C06_roundtrip.

(* the domain is a refinement of well-typedness *)
Theorem C06_domain_typed : forall s v, rt_ok s v -> typed s v.
Proof. exact rt_ok_typed. Qed.
Print Assumptions C06_domain_typed.

(* oneOf components (one Maybe field per variant; MarshalJSON writes the field
   that is set).  Without a discriminator the generated decoder keeps the FIRST
   variant, in declaration order, that accepts the document: the value comes
   back exactly when no earlier variant accepts its encoding. *)
Theorem C06_oneof_roundtrip : forall fmt_float fmt_time parse_num parse_time,
  (forall b r, parse_num b (fmt_float b r) = Some r) ->
  (forall r, parse_time (fmt_time r) = Some r) ->
  forall o i s v j,
    o_disc o = None ->
    nth_error (o_variants o) i = Some s ->
    rt_ok s v ->
    enc_oneof fmt_float fmt_time (o_variants o) (single (length (o_variants o)) i v) = Ok j ->
    (forall i' s', i' < i -> nth_error (o_variants o) i' = Some s' ->
                   forall v', dec parse_num parse_time s' j <> Ok v') ->
    dec_oneof parse_num parse_time o j = Ok (single (length (o_variants o)) i v).
Proof. exact oneof_roundtrip_nodisc. Qed.
Print Assumptions C06_oneof_roundtrip.

(* With a discriminator the decoder switches on the discriminator property: the
   value comes back when its encoding carries there a name that the switch (the
   schema's own name first, then the explicit mapping keys) sends to its variant. *)
Theorem C06_oneof_roundtrip_discriminator : forall fmt_float fmt_time parse_num parse_time,
  (forall b r, parse_num b (fmt_float b r) = Some r) ->
  (forall r, parse_time (fmt_time r) = Some r) ->
  forall o key cases i s v j k,
    o_disc o = Some (key, cases) ->
    nth_error (o_variants o) i = Some s ->
    rt_ok s v ->
    enc_oneof fmt_float fmt_time (o_variants o) (single (length (o_variants o)) i v) = Ok j ->
    disc_key key j = Ok k ->
    find_case cases k = Some i ->
    dec_oneof parse_num parse_time o j = Ok (single (length (o_variants o)) i v).
Proof. exact oneof_roundtrip_disc. Qed.
Print Assumptions C06_oneof_roundtrip_discriminator.

(* The leaves: the text encoding/json writes for a string value or an object
   key (Model/JsonString.v transcribes its string encoder with HTML escaping on,
   and the decoder's unquote).  Whatever bytes the string holds, the decoder
   reads the text back as the same bytes ... *)
Theorem C06_string_text_roundtrip : forall s, JsonString.unquote (JsonString.quote s) = Some s.
Proof. exact unquote_quote. Qed.
Print Assumptions C06_string_text_roundtrip.

(* ... and the text is one JSON string token: a scanner looking for the closing
   quote finds it at the end of the text, whatever follows; no byte of the value
   can end the literal early or open an escape that swallows the closing quote *)
Theorem C06_string_text_is_one_token : forall s rest,
  scan_end (JsonString.quote_body s ++ JsonString.dquote :: rest) = Some rest.
Proof. exact quote_is_one_token. Qed.
Print Assumptions C06_string_text_is_one_token.
