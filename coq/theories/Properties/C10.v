(* C10 — the generated client reconstructs every response the server can send. *)
From Coq Require Import List ZArith.
Import ListNotations.
From Goag Require Import Base.Str Model.Params Model.Json Model.Client Model.Response
     Proofs.ClientProofs Proofs.ResponseProofs.

(* For every operation (its list of documented responses [ps], status codes
   pairwise distinct, at most one default, header names pairwise distinct under
   header-key comparison and none of them Content-Type), every documented
   response [p] (the i-th) and every value of its type within the domain
   (DESIGN section 11: a default value carries a code the operation does not
   otherwise document; arrays non-empty; integers within width): the Write
   method produces a wire response and the client's decoding of it is that same
   response kind with equal code, header values and body. *)
Theorem C10_roundtrip : forall fmt_float fmt_num fmt_time pf pt parse_num,
  (forall b r, pf b (fmt_float b r) = Some r) ->
  (forall r, pt (fmt_time r) = Some r) ->
  (forall b r, parse_num b (fmt_num b r) = Some r) ->
  forall ps i p v,
    plans_wf ps -> nth_error ps i = Some p -> value_ok ps p v ->
    exists w, write fmt_float fmt_num fmt_time p v = Some w /\ client_decode pf pt parse_num ps w = Ok (i, v).
Proof. exact response_roundtrip. Qed.
Print Assumptions C10_roundtrip.

(* A status code the operation does not document is delivered through the
   default response when one is declared and as an error otherwise. *)
Theorem C10_undocumented : forall pf pt parse_num ps w,
  ~ In (w_status w) (codes ps) ->
  client_decode pf pt parse_num ps w =
    match find_default 0 ps with
    | Some (i, p) => match read pf pt parse_num p w with Ok v => Ok (i, v) | Err n => Err n | ErrOther => ErrOther end
    | None => ErrOther
    end.
Proof. exact undocumented_status. Qed.
Print Assumptions C10_undocumented.

(* ... never as a wrong documented response: whatever the client returns is the
   response documented for the status it saw, or the default when that status
   is documented nowhere. *)
Theorem C10_never_wrong_kind : forall pf pt parse_num ps w i v,
  client_decode pf pt parse_num ps w = Ok (i, v) ->
  exists p, nth_error ps i = Some p /\
            (rp_status p = Some (w_status w) \/ (rp_status p = None /\ find_status (w_status w) 0 ps = None)).
Proof. exact never_wrong_kind. Qed.
Print Assumptions C10_never_wrong_kind.
