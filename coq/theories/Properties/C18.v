(* C18 — a $ref behaves exactly like the component it points to.
   The models of the parameter, JSON and response layers resolve references
   structurally; what is proved is that resolution is invisible on the wire:
   (1) a parameter schema with its $ref nodes erased parses and formats the same
   texts; (2) an allOf member given by $ref — an embedded struct with its own
   inner-body encoder sharing the comma state — encodes exactly as the same
   members declared inline; (3) a response reached through any alias chain is
   the type of its final target (C02).  That the generator's own resolution of
   references (specification.Ref, components maps) agrees with these models is
   the correspondence check's three-variant run. *)
From Coq Require Import List ZArith.
Import ListNotations.
From Goag Require Import Base.Str Model.Params Model.Json Model.Client Model.RespTypes
     Proofs.RefInline Proofs.RespTypesProofs.

Theorem C18_param_parse : forall pf pt d vs,
  parse_param pf pt {| d_name := d_name d; d_required := d_required d; d_sch := erase_refs (d_sch d) |} vs = parse_param pf pt d vs.
Proof. exact parse_param_erase. Qed.
Print Assumptions C18_param_parse.

Theorem C18_param_format : forall fmt_float fmt_time sc v,
  format_strings fmt_float fmt_time (erase_refs sc) v = format_strings fmt_float fmt_time sc v.
Proof. exact format_strings_erase. Qed.
Print Assumptions C18_param_format.

Theorem C18_embedded_member_encodes_like_inline : forall fmt_float fmt_time addl ad pre fpre ems efs post fpost,
  length pre = length fpre -> length ems = length efs ->
  enc fmt_float fmt_time (JObjS (pre ++ (MEmbed, JObjS ems None) :: post) addl) (GStruct (fpre ++ GStruct efs [] :: fpost) ad) =
  enc fmt_float fmt_time (JObjS (pre ++ ems ++ post) addl) (GStruct (fpre ++ efs ++ fpost) ad).
Proof. exact embed_encodes_like_inline. Qed.
Print Assumptions C18_embedded_member_encodes_like_inline.

(* every name of a component response (the component or any alias of it, through
   any chain) denotes the same set of operations' response types *)
Theorem C18_alias_chain : forall d, wf d -> forall op n n' c,
  In op (rd_ops d) -> resolves d n = Some c -> resolves d n' = Some c ->
  implements d (comp_type n) (ro_name op) = implements d (comp_type n') (ro_name op).
Proof. exact alias_names_equivalent. Qed.
Print Assumptions C18_alias_chain.
