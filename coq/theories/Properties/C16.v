(* C16 — middlewares wrap exactly the routed operations, in declared order. *)
From Coq Require Import List.
Import ListNotations.
From Goag Require Import Base.Str Model.Router Model.Serve Spec.RouterSpec Spec.ServeSpec Proofs.ServeProofs.

(* Every request dispatched to an operation passes through all user
   middlewares exactly once each, the first-declared outermost, all of them
   outside the security check (the inner events are authenticator calls and the
   handler only), with the matched template visible to each.  Which operation
   is dispatched is C03_route_eq_match. *)
Theorem C16_wrapping : forall s cfg rq it op,
  is_spec_request s cfg rq = false -> routed s cfg rq = Some (RHandler it op) ->
  exists inner,
    trace (serve s cfg rq) =
      map (fun i => Enter i (i_raw it)) (seq 0 (c_mw cfg)) ++ inner ++ rev (map Leave (seq 0 (c_mw cfg)))
    /\ Forall is_inner inner.
Proof. exact wrapping. Qed.
Print Assumptions C16_wrapping.

(* requests that match no operation bypass the middlewares entirely *)
Theorem C16_unrouted_bypass : forall s cfg rq,
  is_spec_request s cfg rq = false -> routed s cfg rq = None ->
  serve s cfg rq = {| status := 404; trace := if c_nf cfg then [NotFoundEv] else [] |}.
Proof. exact unrouted_bypass. Qed.
Print Assumptions C16_unrouted_bypass.

(* requests for the spec file bypass them (and routing) entirely *)
Theorem C16_spec_file_bypass : forall s cfg rq,
  is_spec_request s cfg rq = true -> serve s cfg rq = {| status := 200; trace := [SpecFileEv] |}.
Proof. exact spec_file_bypass. Qed.
Print Assumptions C16_spec_file_bypass.

Theorem C16_cors_bypass : forall s cfg rq it,
  is_spec_request s cfg rq = false -> routed s cfg rq = Some (RCors it) ->
  Forall no_middleware_event (trace (serve s cfg rq)).
Proof. exact cors_bypass. Qed.
Print Assumptions C16_cors_bypass.
