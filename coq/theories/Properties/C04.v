(* C04 — parameter parsing rejects exactly the malformed requests and never
   invents values.  [pf], [pt] stand for strconv.ParseFloat and time.Parse
   (oracles: the float and date-time lexical spaces are theirs). *)
From Coq Require Import List ZArith.
Import ListNotations.
From Goag Require Import Base.Str Model.Params Spec.ParamSpec Proofs.ParamsProofs.
From Goag Require Import Model.Serve Proofs.CanonProofs.

(* the composed snippet (Primitive / Slice / Optional / Nullable / Ref
   ParseStrings) yields a value for the supplied texts iff they have a typed
   value in the declared type's lexical space — for every schema, by induction *)
Theorem C04_parse_strings_iff : forall pf pt sc vs v,
  wf_sch sc -> parse_strings pf pt sc vs = Some v <-> typed pf pt sc vs v.
Proof. exact parse_strings_spec. Qed.
Print Assumptions C04_parse_strings_iff.

(* strconv.ParseInt(s, 10, bits) = the independently defined lexical space
   [+-]?[0-9]+ with value in [-2^(b-1), 2^(b-1)) *)
Theorem C04_int_lexical_space : forall bits s z,
  (0 < bit_size bits)%Z -> parse_int bits s = Some z <-> in_lex_int bits s z.
Proof. exact parse_int_spec. Qed.
Print Assumptions C04_int_lexical_space.

Theorem C04_bool_lexical_space : forall s b, parse_bool s = Some b <-> in_lex_bool s b.
Proof. exact parse_bool_spec. Qed.
Print Assumptions C04_bool_lexical_space.

(* parsing the declared query (header) parameters fails iff some declared
   parameter is offending: required and absent, or supplied with texts that have
   no typed value (a scalar supplied more than once; a text outside the lexical
   space or range) *)
Theorem C04_rejects_iff : forall pf pt get ds,
  Forall wf_decl ds ->
  (exists n, parse_all pf pt get ds = Err n) <-> exists d, In d ds /\ offending pf pt d (get (d_name d)).
Proof. exact parse_all_rejects_iff. Qed.
Print Assumptions C04_rejects_iff.

(* the error identifies an offending parameter *)
Theorem C04_error_names : forall pf pt get ds n,
  Forall wf_decl ds -> parse_all pf pt get ds = Err n ->
  exists d, In d ds /\ offending pf pt d (get (d_name d)) /\ n = d_name d.
Proof. exact parse_all_error_names. Qed.
Print Assumptions C04_error_names.

(* on success every field holds the typed value of the supplied text and every
   absent optional parameter is unset *)
Theorem C04_no_invention : forall pf pt get ds fs,
  Forall wf_decl ds -> parse_all pf pt get ds = Ok fs ->
  Forall2 (fun d f => field_ok pf pt d (get (d_name d)) f) ds fs.
Proof. exact parse_all_no_invention. Qed.
Print Assumptions C04_no_invention.

Theorem C04_only_named_errors : forall pf pt get ds, parse_all pf pt get ds <> ErrOther.
Proof. exact parse_all_never_other. Qed.
Print Assumptions C04_only_named_errors.

(* Header parameters are looked up under http.CanonicalHeaderKey of the declared
   name while net/http stores what it received under CanonicalHeaderKey of the
   received name: canonicalising is idempotent, and two token names that differ
   only by case have one canonical key — so a header parameter is found however
   the sender spells its name, and a lookup by the canonical spelling is the
   same lookup. *)
Theorem C04_header_key_idempotent : forall s, canon_key (canon_key s) = canon_key s.
Proof. exact canon_key_idem. Qed.
Print Assumptions C04_header_key_idempotent.

Theorem C04_header_case_insensitive : forall a b up,
  map to_lower a = map to_lower b -> canon_go up a = canon_go up b.
Proof. exact canon_go_case. Qed.
Print Assumptions C04_header_case_insensitive.
