(* C03 — placeholder until the proofs land. *)
From Goag Require Import Model.Router Model.Serve Spec.RouterSpec Spec.ServeSpec.
