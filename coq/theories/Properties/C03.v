(* C03 — routing equals OpenAPI path matching under the server base path. *)
From Coq Require Import List.
Import ListNotations.
From Goag Require Import Base.Str Model.Router Model.Serve Spec.RouterSpec Spec.ServeSpec
     Proofs.RouterStrings Proofs.RouterTrie Proofs.RouterFinal Proofs.ServeProofs.

(* For EVERY spec whose path templates are pairwise non-equivalent, every base
   path form, every request path (any byte string) and every method: the
   generated router (string slicing + route tree built by Route.add + base-path
   prologue) returns exactly what OpenAPI path matching prescribes: the
   pref_lt-least template that matches segment for segment beneath the
   normalised base path and has an operation for the method; nothing
   otherwise.  (The route functions do not depend on whether a CORS handler is
   installed; what is served for a preflight entry without one is C17's.) *)
Theorem C03_route_eq_match : forall (s : rspec) (path m : str),
  wf_rspec s ->
  route_root true (gen_base s) (gen_tree s) path m
  = match_request (gen_templates s) (declared_base s) path m.
Proof. exact gen_route_match. Qed.
Print Assumptions C03_route_eq_match.

(* the same statement for an arbitrary template set and base path *)
Theorem C03_route_eq_match_templates : forall cors bp0 ts path m,
  NoDup (map fst ts) -> (forall t it, In (t, it) ts -> t <> [] /\ tot cors it) ->
  route_root cors (norm_base bp0) (build ts) path m = match_request ts bp0 path m.
Proof. exact route_root_match. Qed.
Print Assumptions C03_route_eq_match_templates.

(* the executable reference matcher is the declarative relation: the chosen
   template is a candidate strictly preferred to every other candidate; none is
   chosen iff there is no candidate; and the relation determines its result *)
Theorem C03_match_spec_ok : forall ts segs m,
  NoDup (map fst ts) -> spec_ok ts segs m (match_spec ts segs m).
Proof. exact match_spec_ok. Qed.
Print Assumptions C03_match_spec_ok.

Theorem C03_spec_unique : forall ts segs m r1 r2,
  spec_ok ts segs m r1 -> spec_ok ts segs m r2 -> r1 = r2.
Proof. exact spec_ok_unique. Qed.
Print Assumptions C03_spec_unique.

(* string level = segment level (where offset mistakes would live) *)
Theorem C03_strings_segments : forall cors n segs m,
  Forall noslash segs -> route cors n (enc segs) m = rsegs cors n segs m.
Proof. exact route_strings_segments. Qed.
Print Assumptions C03_strings_segments.

(* a trailing slash on the base path is insignificant (definitionally: the
   generator normalises exactly as the specification does) *)
Theorem C03_base_trailing_slash : forall s, gen_base s = norm_base (declared_base s).
Proof. exact gen_base_norm. Qed.
Print Assumptions C03_base_trailing_slash.

(* a trailing slash on the request path is significant *)
Theorem C03_trailing_slash_significant : forall r, split_slash r <> split_slash (r ++ [slash]).
Proof. exact trailing_slash_significant. Qed.
Print Assumptions C03_trailing_slash_significant.

(* the template reported for a dispatched request is a declared raw path *)
Theorem C03_schema_path_declared : forall s t it,
  In (t, it) (gen_templates s) ->
  exists p, In p (s_paths s) /\ i_raw it = p_raw p /\ t = tmpl_of_raw (p_raw p).
Proof. exact gen_item_raw. Qed.
Print Assumptions C03_schema_path_declared.
