(* C12 — generation is deterministic. *)
From Coq Require Import String List Permutation.
Import ListNotations.
From Goag Require Import Base.Str Model.MapOrder Proofs.MapOrderProofs Gen.MapSites.

(* REGENERATED OBLIGATIONS (Gen/MapSites.v is rewritten from /repo's source on
   every run): every iteration over a map in the generator is one of the
   reviewed, modelled sites; there is no other source of nondeterminism. *)
Theorem C12_all_map_sites_modelled : all_sites_modelled observed_sites = true.
Proof. exact (eq_refl true). Qed.
Print Assumptions C12_all_map_sites_modelled.

Theorem C12_no_other_sources : no_other_sources observed_other = true.
Proof. exact (eq_refl true). Qed.
Print Assumptions C12_no_other_sources.

(* every kind of modelled site hands on the same thing whatever order the
   runtime visits the map in *)
Theorem C12_site_invariant : forall A (k : kind) (l1 l2 : list (str * A)),
  NoDup (map fst l1) -> Permutation l1 l2 -> (k = KAtMostOne -> length l1 <= 1) ->
  site_out k l1 = site_out k l2.
Proof. exact @site_invariant. Qed.
Print Assumptions C12_site_invariant.

(* hence the output (any function [rest] of what the sites hand on) is the same
   for any two schedules *)
Theorem C12_deterministic : forall A B (rest : list (list (str * A)) -> B)
        (sites : list (kind * list (str * A) * list (str * A))),
  Forall (fun s => let '(k, l1, l2) := s in
                   NoDup (map fst l1) /\ Permutation l1 l2 /\ (k = KAtMostOne -> length l1 <= 1)) sites ->
  rest (map (fun s => let '(k, l1, _) := s in site_out k l1) sites)
  = rest (map (fun s => let '(k, _, l2) := s in site_out k l2) sites).
Proof. exact @generate_deterministic. Qed.
Print Assumptions C12_deterministic.
