(* C13 — the embedded spec constant is the input, byte for byte.
   (The served half — GET <base>/<name> bypassing middlewares — is stated over
   the router model in Properties/C16.v / C13 served theorems below once the
   router model is imported.) *)
From Coq Require Import List.
Import ListNotations.
From Goag Require Import Base.Str Model.GoLit Proofs.GoLitProofs.

(* For EVERY byte string without NUL (no bound on length), the Go constant
   expression emitted by encodeRawFileAsString evaluates, under Go's literal
   rules, to exactly that byte string. *)
Theorem C13_embed : forall s : str,
  embeddable s = true -> go_eval (encode s) = Some s.
Proof. exact embed_correct. Qed.
Print Assumptions C13_embed.

(* A one-line content yields a one-line literal (the const declaration stays
   one statement). *)
Theorem C13_one_line_literal : forall s : str,
  contains lf s = false -> contains lf (encode s) = false.
Proof. exact quoted_no_lf. Qed.
Print Assumptions C13_one_line_literal.
