(* C13 — the embedded spec constant is the input, byte for byte.
   (The served half — GET <base>/<name> bypassing middlewares — is stated over
   the router model in Properties/C16.v / C13 served theorems below once the
   router model is imported.) *)
From Coq Require Import List.
Import ListNotations.
From Goag Require Import Base.Str Model.GoLit Proofs.GoLitProofs Model.Router Model.Serve Proofs.ServeProofs.

(* For EVERY byte string without NUL (no bound on length), the Go constant
   expression emitted by encodeRawFileAsString evaluates, under Go's literal
   rules, to exactly that byte string. *)
Theorem C13_embed : forall s : str,
  embeddable s = true -> go_eval (encode s) = Some s.
Proof. exact embed_correct. Qed.
Print Assumptions C13_embed.

(* A one-line content yields a one-line literal (the const declaration stays
   one statement). *)
Theorem C13_one_line_literal : forall s : str,
  contains lf s = false -> contains lf (encode s) = false.
Proof. exact quoted_no_lf. Qed.
Print Assumptions C13_one_line_literal.

(* The served half: a request for <base path>/<spec name> is answered by the
   spec-file handler alone — no routing, no middleware, no security — whatever
   middlewares are installed, and only when that handler is installed. *)
Theorem C13_served_bypass : forall s cfg rq,
  is_spec_request s cfg rq = true -> serve s cfg rq = {| status := 200; trace := [SpecFileEv] |}.
Proof. exact spec_file_bypass. Qed.
Print Assumptions C13_served_bypass.

Theorem C13_only_when_installed : forall s cfg rq,
  c_sf cfg = false -> is_spec_request s cfg rq = false.
Proof. exact spec_file_only_when_installed. Qed.
Print Assumptions C13_only_when_installed.
