(* C17 — CORS preflight advertises exactly what the path declares. *)
From Coq Require Import List.
Import ListNotations.
From Goag Require Import Base.Str Model.Router Model.Serve Spec.RouterSpec Spec.ServeSpec Proofs.ServeProofs.

(* With CORS enabled, a declared path that has no OPTIONS operation of its own
   gets a synthetic preflight entry constructed with exactly that path's
   declared methods and the canonicalised, DE-DUPLICATED set of its declared
   header parameters (path-item and operation level) plus the headers its
   security schemes read. *)
Theorem C17_args : forall s p,
  s_cors s = true -> has_options p = false -> ops_sorted p <> [] ->
  (forall o, In o (ops_sorted p) -> simple_reqs s o) ->
  exists hs, i_cors (gen_item s p) = Some (map r_method (declared_ops p), hs) /\
             NoDup hs /\ forall x, In x hs <-> In x (preflight_headers s p).
Proof. exact cors_args. Qed.
Print Assumptions C17_args.

(* a declared OPTIONS operation is never shadowed *)
Theorem C17_not_shadowed : forall s p, has_options p = true -> i_cors (gen_item s p) = None.
Proof. exact cors_not_shadowed. Qed.
Print Assumptions C17_not_shadowed.

Theorem C17_off : forall s p, s_cors s = false -> i_cors (gen_item s p) = None.
Proof. exact cors_off. Qed.
Print Assumptions C17_off.

(* without a CORS handler installed a request routed to the preflight entry is
   not found (the not-found handler runs, no middleware, no other operation —
   not even an OPTIONS operation of an overlapping templated path) *)
Theorem C17_nil_handler : forall s cfg rq it ms hs,
  is_spec_request s cfg rq = false -> routed s cfg rq = Some (RCors it) -> i_cors it = Some (ms, hs) ->
  c_cors cfg = false ->
  serve s cfg rq = {| status := 404; trace := if c_nf cfg then [NotFoundEv] else [] |}.
Proof. exact cors_nil_served. Qed.
Print Assumptions C17_nil_handler.

(* with one installed it is answered by that handler, constructed with the
   entry's arguments (and bypasses the middlewares: C16_cors_bypass) *)
Theorem C17_installed_handler : forall s cfg rq it ms hs,
  is_spec_request s cfg rq = false -> routed s cfg rq = Some (RCors it) -> i_cors it = Some (ms, hs) ->
  c_cors cfg = true ->
  serve s cfg rq = {| status := 204; trace := [CorsEv ms hs] |}.
Proof. exact cors_installed_served. Qed.
Print Assumptions C17_installed_handler.

(* which requests are routed to the preflight entry: OPTIONS on an item that
   has the entry and no OPTIONS operation of its own (whether or not a handler
   is installed: the route functions do not look at it) *)
Theorem C17_preflight_lookup : forall it ms hs,
  find_op method_options (i_ops it) = None -> i_cors it = Some (ms, hs) ->
  leaf_lookup true it method_options = Some (Some (RCors it)).
Proof. exact cors_installed_handler. Qed.
Print Assumptions C17_preflight_lookup.
