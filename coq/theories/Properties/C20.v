(* C20 — concurrent requests are isolated and race-free.
   PARTIAL (DESIGN section 4, C20): the Go memory model, net/http, encoding/json
   and user code are not modelled.  What is proved: over any interleaving of
   request handlings whose steps only READ the state shared between requests,
   there is no conflicting pair of accesses and every request computes exactly
   what it computes alone; and (regenerated obligation) the code the generator
   emits only reads that state. *)
From Coq Require Import List Bool.
Import ListNotations.
From Goag Require Import Model.Concurrency Model.Shared Gen.SharedAccess Proofs.ConcurrencyProofs.

(* regenerated from /repo's current output on every run *)
Theorem C20_shared_state_is_only_read : all_shared_accesses_are_reads observed_shared_accesses = true.
Proof. vm_compute. reflexivity. Qed.
Print Assumptions C20_shared_state_is_only_read.

Theorem C20_race_free : forall (ts : list (list step)),
  (forall t, In t ts -> read_only t) ->
  forall i j ti tj a b, i <> j -> nth_error ts i = Some ti -> nth_error ts j = Some tj ->
    In a ti -> In b tj -> conflict a b = false.
Proof. exact no_writes_no_race. Qed.
Print Assumptions C20_race_free.

(* whatever the schedule, a request that has finished holds exactly the private
   state it reaches when run alone from the same shared store, and the shared
   store is unchanged *)
Theorem C20_isolation : forall (V L : Type) on_read to_write on_local (sigma0 : store V) (inits : list (tstate L)) schedule i init cur,
  (forall t, In t inits -> read_only (todo L t)) ->
  nth_error inits i = Some init ->
  nth_error (snd (run V L on_read to_write on_local schedule (sigma0, inits))) i = Some cur ->
  todo L cur = [] ->
  priv L cur = snd (run_alone V L on_read to_write on_local (todo L init) sigma0 (priv L init)) /\
  fst (run V L on_read to_write on_local schedule (sigma0, inits)) = sigma0.
Proof. exact isolation. Qed.
Print Assumptions C20_isolation.
