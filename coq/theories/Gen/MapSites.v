(* REGENERATED on every run by `vh mapsites` from /repo's current source: every
   iteration over a Go map in the generator's non-test packages (package,
   function, operand : type, hash of the loop's source) and every other source of
   nondeterminism.  Do not edit. *)
From Coq Require Import String List.
Import ListNotations.
Local Open Scope string_scope.

Definition observed_sites : list (string * string * string * string) :=
  [("goag/specification", "GetSecurity", "sr : SecurityRequirement", "13ea5fd1");
   ("goag/specification", "NewComponents", "spec.Parameters : ParametersMap", "01e76cf8");
   ("goag/specification", "NewSchema", "required : map[string]struct{}", "9d46b06c");
   ("goag/specification", "NewSchema", "schema.ExtensionProps.Extensions : map[string]interface{}", "f159cebc");
   ("goag/specification", "NewSecurityRequirements", "sr : SecurityRequirement", "90c28e7b");
   ("goag/specification", "sortedKeys", "m : map[string]T", "af6a6e8b");
   ("goag", "Generator.Generate", "s.Variables : map[string]*ServerVariable", "3b5ce473")].

Definition observed_other : list (string * string * string) :=
  [("goag", "Generator.GenerateDir", "os.ReadDir");
   ("goag/generator", "ExecuteTemplate", "os.Getenv");
   ("goag/specification", "NewMapPrefix", "golang.org/x/exp/maps.Keys")].
