(* Model of the generated JSON codecs (template "SchemaComponent":
   MarshalJSON / marshalJSONInnerBody / UnmarshalJSON / unmarshalJSONInnerBody,
   and the leaf snippets they are composed from).  Encoding is modelled at the
   level where the hand-rolled code can go wrong: the sequence of commas and
   "key":value members written into one object; decoding over the key/value
   map with deletion of consumed keys. *)
From Coq Require Import String.
From Coq Require Import List Bool Arith Ascii NArith ZArith Lia.
Import ListNotations.
From Goag Require Import Base.Str Model.Router Model.Serve Model.Params.

(* ------------------------------------------------------------------ *)
(* JSON values                                                          *)

Inductive json :=
| JNull
| JBool (b : bool)
| JNum (text : str)               (* the number literal *)
| JStr (s : str)
| JArr (l : list json)
| JObj (ms : list (str * json)).  (* members in document order; duplicates possible *)

(* ------------------------------------------------------------------ *)
(* schemas (reference-erased: a $ref behaves as its target, C18)         *)

Inductive jprim := QStr | QInt (bits : Z) | QNum (bits : Z) | QBool | QTime | QAny.

Inductive mkind :=
| MField (name : str) (required : bool)
| MEmbed.                          (* allOf member given by $ref: embedded struct *)

Inductive jsch :=
| JPrimS (p : jprim)
| JNullS (s : jsch)               (* nullable: true *)
| JArrS (items : jsch)
| JObjS (ms : list (mkind * jsch)) (addl : option jsch).

(* ------------------------------------------------------------------ *)
(* Go values of the generated types                                     *)

Inductive gval :=
| GStr (s : str)
| GInt (z : Z)
| GFlt (repr : str)               (* canonical text of the float *)
| GBool (b : bool)
| GTime (repr : str)              (* "unixnano,offset" *)
| GRaw (j : json)                 (* json.RawMessage holding valid JSON *)
| GNullable (o : option gval)     (* Nullable[T]: Null / Pointer(v) *)
| GMaybe (o : option gval)        (* Maybe[T]: Nothing / Just(v) *)
| GList (l : list gval)
| GStruct (fs : list gval) (addl : list (str * gval)).

(* results: [Params.res] — Ok / Err k (an error that names property k) /
   ErrOther (an error that names no property) *)

Definition bind {A B} (r : res A) (f : A -> res B) : res B :=
  match r with Ok a => f a | Err k => Err k | ErrOther => ErrOther end.

(* ------------------------------------------------------------------ *)
(* leaves: encoding/json on Go's basic types, relative to oracles        *)

Section Codec.
  Variable fmt_float : Z -> str -> str.         (* bits, canonical repr -> JSON number text *)
  Variable fmt_time : str -> str.               (* instant -> RFC3339Nano text *)
  Variable parse_num : Z -> str -> option str.  (* bits, JSON number text -> canonical repr (None: out of range) *)
  Variable parse_time : str -> option str.

  Fixpoint z_digits_pos (fuel : nat) (n : Z) (acc : str) : str :=
    match fuel with
    | O => acc
    | S f => if (n <? 10)%Z then ascii_of_N (Z.to_N (48 + n)) :: acc
             else z_digits_pos f (n / 10)%Z (ascii_of_N (Z.to_N (48 + n mod 10)) :: acc)
    end.

  (* strconv.FormatInt(z, 10) *)
  Definition z_to_str (z : Z) : str :=
    if (z <? 0)%Z then "-"%char :: z_digits_pos 80 (- z) [] else z_digits_pos 80 z [].

  Definition enc_prim (p : jprim) (v : gval) : res json :=
    match p, v with
    | QStr, GStr s => Ok (JStr s)
    | QInt _, GInt z => Ok (JNum (z_to_str z))
    | QNum b, GFlt r => Ok (JNum (fmt_float b r))
    | QBool, GBool b => Ok (JBool b)
    | QTime, GTime r => Ok (JStr (fmt_time r))
    | QAny, GRaw j => Ok j
    | _, _ => ErrOther
    end.

  (* ------------------------------------------------------------------ *)
  (* encoding                                                             *)

  Inductive item := ItComma | ItMember (k : str) (v : json).

  (* writeProperty(name, v): write(comma + `"name":`), value, comma = "," *)
  Definition write_property (comma : bool) (k : str) (v : json) : list item :=
    (if comma then [ItComma] else []) ++ [ItMember k v].

  (* `{` items `}` is valid JSON exactly when the items are
     member (comma member)* ; encoding/json re-validates MarshalJSON output,
     so an ill-formed sequence surfaces as a Marshal error *)
  Fixpoint assemble_tail (its : list item) : option (list (str * json)) :=
    match its with
    | [] => Some []
    | ItComma :: ItMember k v :: r => option_map (cons (k, v)) (assemble_tail r)
    | _ => None
    end.

  Definition assemble (its : list item) : option (list (str * json)) :=
    match its with
    | [] => Some []
    | ItMember k v :: r => option_map (cons (k, v)) (assemble_tail r)
    | _ => None
    end.

  (* for k, v := range c.AdditionalProperties { writeProperty(k, v) } *)
  Fixpoint enc_addl (ea : gval -> res json) (ad : list (str * gval)) (comma : bool) : res (list item * bool) :=
    match ad with
    | [] => Ok ([], comma)
    | (k, x) :: r =>
      bind (ea x) (fun j =>
        bind (enc_addl ea r true) (fun rr => Ok (write_property comma k j ++ fst rr, snd rr)))
    end.

  Fixpoint enc_list (e : gval -> res json) (l : list gval) : res (list json) :=
    match l with
    | [] => Ok []
    | x :: r => bind (e x) (fun j => bind (enc_list e r) (fun js => Ok (j :: js)))
    end.

  Definition is_obj (s : jsch) : bool := match s with JObjS _ _ => true | _ => false end.

  (* the JSON value denoted by what a type's encoder wrote: for a struct type
     MarshalJSON wraps the inner body in braces (and encoding/json rejects it
     unless the result is valid JSON); any other type wrote one value *)
  Definition value_of (obj : bool) (r : res (list item * bool)) : res json :=
    bind r (fun x =>
      if obj then
        match assemble (fst x) with Some members => Ok (JObj members) | None => ErrOther end
      else
        match fst x with [ItMember _ j] => Ok j | _ => ErrOther end).

  Definition one_value (r : res json) (comma : bool) : res (list item * bool) :=
    bind r (fun j => Ok ([ItMember [] j], comma)).

  (* [enc_items s v comma]: for a struct type, marshalJSONInnerBody (the items
     written into the enclosing braces, with the comma state threaded through
     embedded members: one shared *string); for any other type, the single value
     its encoder writes. *)
  Fixpoint enc_items (s : jsch) (v : gval) (comma : bool) {struct s} : res (list item * bool) :=
    match s with
    | JPrimS p => one_value (enc_prim p v) comma
    | JNullS s' =>
      match v with
      | GNullable None => one_value (Ok JNull) comma
      | GNullable (Some x) => one_value (value_of (is_obj s') (enc_items s' x false)) comma
      | _ => ErrOther
      end
    | JArrS it =>
      match v with
      | GList l =>
        one_value (bind (enc_list (fun x => value_of (is_obj it) (enc_items it x false)) l)
                        (fun js => Ok (JArr js))) comma
      | _ => ErrOther
      end
    | JObjS ms addl =>
      match v with
      | GStruct fs ad =>
        (fix inner (ms : list (mkind * jsch)) (fs : list gval) (comma : bool) {struct ms}
           : res (list item * bool) :=
           match ms, fs with
           | [], [] =>
             match addl with
             | Some sa => enc_addl (fun x => value_of (is_obj sa) (enc_items sa x false)) ad comma
             | None => Ok ([], comma)
             end
           | (MField k req, sf) :: ms', f :: fs' =>
             if req then
               bind (value_of (is_obj sf) (enc_items sf f false)) (fun j =>
                 bind (inner ms' fs' true) (fun rr => Ok (write_property comma k j ++ fst rr, snd rr)))
             else
               match f with
               | GMaybe None => inner ms' fs' comma
               | GMaybe (Some x) =>
                 bind (value_of (is_obj sf) (enc_items sf x false)) (fun j =>
                   bind (inner ms' fs' true) (fun rr => Ok (write_property comma k j ++ fst rr, snd rr)))
               | _ => ErrOther
               end
           | (MEmbed, se) :: ms', f :: fs' =>
             if is_obj se then
               bind (enc_items se f comma) (fun er =>
                 bind (inner ms' fs' (snd er)) (fun rr => Ok (fst er ++ fst rr, snd rr)))
             else ErrOther
           | _, _ => ErrOther
           end) ms fs comma
      | _ => ErrOther
      end
    end.

  (* json.Marshal of a value of the type generated for [s] *)
  Definition enc (s : jsch) (v : gval) : res json := value_of (is_obj s) (enc_items s v false).

  (* ------------------------------------------------------------------ *)
  (* decoding                                                             *)

  (* map[string]json.RawMessage: a later duplicate key replaces the earlier *)
  Definition kvmap := list (str * json).

  Fixpoint kv_set (m : kvmap) (k : str) (v : json) : kvmap :=
    match m with
    | [] => [(k, v)]
    | (k', v') :: r => if str_eqb k' k then (k', v) :: r else (k', v') :: kv_set r k v
    end.

  Definition kv_of_members (ms : list (str * json)) : kvmap :=
    fold_left (fun m kv => kv_set m (fst kv) (snd kv)) ms [].

  Fixpoint kv_get (m : kvmap) (k : str) : option json :=
    match m with
    | [] => None
    | (k', v) :: r => if str_eqb k' k then Some v else kv_get r k
    end.

  Fixpoint kv_del (m : kvmap) (k : str) : kvmap :=
    match m with
    | [] => []
    | (k', v) :: r => if str_eqb k' k then r else (k', v) :: kv_del r k
    end.

  (* encoding/json into Go's basic types; null is a no-op (zero value) *)
  Definition dec_prim (p : jprim) (j : json) : res gval :=
    match p, j with
    | QStr, JStr s => Ok (GStr s)
    | QStr, JNull => Ok (GStr [])
    | QInt b, JNum t => match parse_int b t with Some z => Ok (GInt z) | None => ErrOther end
    | QInt _, JNull => Ok (GInt 0)
    | QNum b, JNum t => match parse_num b t with Some r => Ok (GFlt r) | None => ErrOther end
    | QNum _, JNull => Ok (GFlt (S_ "0"))
    | QBool, JBool b => Ok (GBool b)
    | QBool, JNull => Ok (GBool false)
    | QTime, JStr s => match parse_time s with Some r => Ok (GTime r) | None => ErrOther end
    | QTime, JNull => Ok (GTime (S_ "-6795364578871345152,0"))   (* the zero time.Time *)
    | QAny, j => Ok (GRaw j)
    | _, _ => ErrOther
    end.

  Fixpoint dec_list (d : json -> res gval) (l : list json) : res (list gval) :=
    match l with
    | [] => Ok []
    | x :: r => bind (d x) (fun v => bind (dec_list d r) (fun vs => Ok (v :: vs)))
    end.

  (* for k, bs := range m { json.Unmarshal(bs, &v); AdditionalProperties[k] = v } *)
  Fixpoint dec_addl (d : json -> res gval) (m : kvmap) : res (list (str * gval)) :=
    match m with
    | [] => Ok []
    | (k, x) :: r =>
      match d x with
      | Ok v => bind (dec_addl d r) (fun vs => Ok ((k, v) :: vs))
      | _ => Err k
      end
    end.

  (* an error under property k is reported with the prefix "'k' field: ..." *)
  Definition under_key {A} (k : str) (r : res A) : res A :=
    match r with Ok a => Ok a | _ => Err k end.

  (* [dec_items s j m embedded]: decode a value of the type generated for [s].
     In value position the input is the JSON value [j]; a struct type first
     turns it into a key/value map.  In embedded position ([embedded] = true)
     the enclosing struct's map [m] is used and SHARED: consumed keys are
     deleted from it.  Returns the value and the remaining map. *)
  Fixpoint dec_items (s : jsch) (j : json) (m : kvmap) (embedded : bool) {struct s}
    : res (gval * kvmap) :=
    match s with
    | JPrimS p => bind (dec_prim p j) (fun v => Ok (v, m))
    | JNullS s' =>
      match j with
      | JNull => Ok (GNullable None, m)
      | _ => bind (dec_items s' j [] false) (fun r => Ok (GNullable (Some (fst r)), m))
      end
    | JArrS it =>
      match j with
      | JArr l => bind (dec_list (fun x => bind (dec_items it x [] false) (fun r => Ok (fst r))) l)
                       (fun vs => Ok (GList vs, m))
      | JNull => Ok (GList [], m)
      | _ => ErrOther
      end
    | JObjS ms addl =>
      let start : res kvmap :=
        if embedded then Ok m
        else match j with
             | JObj members => Ok (kv_of_members members)
             | JNull => Ok []
             | _ => ErrOther
             end in
      bind start (fun m0 =>
        bind ((fix inner (ms : list (mkind * jsch)) (m : kvmap) {struct ms} : res (list gval * kvmap * list (str * gval)) :=
           match ms with
           | [] =>
             match addl with
             | Some sa => bind (dec_addl (fun x => bind (dec_items sa x [] false) (fun r => Ok (fst r))) m)
                               (fun ad => Ok ([], m, ad))
             | None => Ok ([], m, [])
             end
           | (MField k req, sf) :: ms' =>
             match kv_get m k with
             | Some raw =>
               bind (under_key k (dec_items sf raw [] false)) (fun r =>
                 bind (inner ms' (kv_del m k)) (fun rr =>
                   Ok ((if req then fst r else GMaybe (Some (fst r))) :: fst (fst rr), snd (fst rr), snd rr)))
             | None =>
               if req then Err k
               else bind (inner ms' m) (fun rr => Ok (GMaybe None :: fst (fst rr), snd (fst rr), snd rr))
             end
           | (MEmbed, se) :: ms' =>
             bind (dec_items se JNull m true) (fun er =>
               bind (inner ms' (snd er)) (fun rr => Ok (fst er :: fst (fst rr), snd (fst rr), snd rr)))
           end) ms m0)
          (fun x => Ok (GStruct (fst (fst x)) (snd x), snd (fst x))))
    end.

  (* json.Unmarshal into the type generated for [s] *)
  Definition dec (s : jsch) (j : json) : res gval := bind (dec_items s j [] false) (fun r => Ok (fst r)).
End Codec.
