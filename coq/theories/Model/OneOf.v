(* Model of the codec generated for a oneOf schema component (template
   "SchemaComponent", branch IsWriteJSONFuncOneOf): the Go type has one Maybe
   field per variant;
     MarshalJSON   writes the first field that is set;
     UnmarshalJSON without a discriminator tries the variants in order and keeps
                   the first that decodes without error,
                   with a discriminator reads the discriminator property and
                   `switch`es on it: the cases are, in order, one per variant
                   (its schema name, then the explicit mapping keys that point
                   to it). *)
From Coq Require Import List Bool Arith Ascii ZArith.
Import ListNotations.
From Goag Require Import Base.Str Model.Router Model.Serve Model.Params Model.Json.

Record oneof := {
  o_variants : list jsch;
  (* discriminator property name and the switch cases (variant index, accepted names), in order *)
  o_disc : option (str * list (nat * list str))
}.

(* one Maybe[T] field per variant *)
Definition oval := list (option gval).

(* n fields, only the i-th set *)
Definition single (n i : nat) (v : gval) : oval :=
  map (fun k => if Nat.eqb k i then Some v else None) (seq 0 n).

Section OneOf.
  Variable fmt_float : Z -> str -> str.
  Variable fmt_time : str -> str.
  Variable parse_num : Z -> str -> option str.
  Variable parse_time : str -> option str.

  (* for each field in order: if v, ok := c.F.Get(); ok { marshal v; return }
     ...; return error "all field are empty" *)
  Fixpoint enc_oneof (vs : list jsch) (fs : oval) : res json :=
    match vs, fs with
    | s :: _, Some v :: _ => enc fmt_float fmt_time s v
    | _ :: vs', None :: fs' => enc_oneof vs' fs'
    | _, _ => ErrOther
    end.

  (* err = c.unmarshalJSON_F(bs); if err == nil { return nil } ... *)
  Fixpoint try_variants (n i : nat) (vs : list jsch) (j : json) : res oval :=
    match vs with
    | [] => ErrOther
    | s :: vs' =>
      match dec parse_num parse_time s j with
      | Ok v => Ok (single n i v)
      | _ => try_variants n (S i) vs' j
      end
    end.

  (* json.Unmarshal(bs, &struct{ Key string `json:"<key>"` }): an object (or
     null); the last member named key decides; null leaves "" ; any other
     non-string value is an error.  encoding/json also matches member names
     case-insensitively: documents with a member that differs from the key only
     by case are outside the modelled domain. *)
  Definition disc_key (key : str) (j : json) : res str :=
    match j with
    | JNull => Ok []
    | JObj ms =>
      match kv_get (kv_of_members ms) key with
      | None | Some JNull => Ok []
      | Some (JStr s) => Ok s
      | Some _ => ErrOther
      end
    | _ => ErrOther
    end.

  (* switch v.Key { case "A", "a1": ...; case "B": ...; default: error } *)
  Fixpoint find_case (cases : list (nat * list str)) (k : str) : option nat :=
    match cases with
    | [] => None
    | (i, names) :: r => if existsb (str_eqb k) names then Some i else find_case r k
    end.

  Definition dec_oneof (o : oneof) (j : json) : res oval :=
    let n := length (o_variants o) in
    match o_disc o with
    | None => try_variants n 0 (o_variants o) j
    | Some (key, cases) =>
      bind (disc_key key j) (fun k =>
        match find_case cases k with
        | None => ErrOther
        | Some i =>
          match nth_error (o_variants o) i with
          | None => ErrOther
          | Some s => bind (dec parse_num parse_time s j) (fun v => Ok (single n i v))
          end
        end)
    end.
End OneOf.
