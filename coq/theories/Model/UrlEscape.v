(* net/url escaping as the generated client and the net/http server use it
   (C09): url.PathEscape on every path value, url.Values.Encode (QueryEscape of
   keys and values joined by = and &) on the query, and on the server side
   URL.Path = unescape(raw path) and URL.Query() = ParseQuery(RawQuery).
   Transcribed from net/url (shouldEscape, escape, unescape, Values.Encode,
   parseQuery) for the two modes the generated code reaches:
   encodePathSegment and encodeQueryComponent. *)
From Coq Require Import String.
From Coq Require Import List Bool Arith Ascii NArith.
Import ListNotations.
From Goag Require Import Base.Str.

Definition pct : ascii := "%"%char.
Definition plus_c : ascii := "+"%char.
Definition space_c : ascii := " "%char.
Definition amp : ascii := "&"%char.
Definition eq_c : ascii := "="%char.

Definition ncode (c : ascii) : N := N_of_ascii c.

Definition is_alnum (c : ascii) : bool :=
  let n := ncode c in
  ((48 <=? n) && (n <=? 57) || (65 <=? n) && (n <=? 90) || (97 <=? n) && (n <=? 122))%N.

(* shouldEscape: §2.3 unreserved characters are never escaped *)
Definition unreserved (c : ascii) : bool := is_alnum c || existsb (ascii_eqb c) (S_ "-_.~").

(* shouldEscape(c, encodePathSegment) = false *)
Definition path_keep (c : ascii) : bool := unreserved c || existsb (ascii_eqb c) (S_ "$&+:=@").

(* "0123456789ABCDEF"[n] *)
Definition hex_digit (n : N) : ascii :=
  if (n <? 10)%N then ascii_of_N (48 + n) else ascii_of_N (55 + n).

Definition unhex (c : ascii) : option N :=
  let n := ncode c in
  if ((48 <=? n) && (n <=? 57))%N then Some (n - 48)%N
  else if ((97 <=? n) && (n <=? 102))%N then Some (n - 87)%N
  else if ((65 <=? n) && (n <=? 70))%N then Some (n - 55)%N
  else None.

Definition esc_byte (c : ascii) : str :=
  [pct; hex_digit (ncode c / 16); hex_digit (ncode c mod 16)].

(* escape(s, mode): [plus] = the mode is encodeQueryComponent (space -> '+') *)
Definition escape_with (keep : ascii -> bool) (plus : bool) (s : str) : str :=
  flat_map (fun c => if plus && ascii_eqb c space_c then [plus_c]
                     else if keep c then [c] else esc_byte c) s.

Definition path_escape : str -> str := escape_with path_keep false.
Definition query_escape : str -> str := escape_with unreserved true.

(* unescape(s, mode) for encodePath / encodePathSegment ([plus] = false) and
   encodeQueryComponent ([plus] = true): None = EscapeError *)
Fixpoint unescape (plus : bool) (s : str) : option str :=
  match s with
  | [] => Some []
  | c :: r =>
    if ascii_eqb c pct then
      match r with
      | a :: b :: r' =>
        match unhex a, unhex b, unescape plus r' with
        | Some x, Some y, Some t => Some (ascii_of_N (16 * x + y) :: t)
        | _, _, _ => None
        end
      | _ => None
      end
    else option_map (cons (if plus && ascii_eqb c plus_c then space_c else c)) (unescape plus r)
  end.

(* the raw path the client builds (Path.StringBuilder): literal directories as
   they are, values through PathEscape *)
Inductive pseg := WLit (l : str) | WVal (v : str).

Definition raw_path (bp : str) (segs : list pseg) : str :=
  bp ++ flat_map (fun s => slash :: match s with WLit l => l | WVal v => path_escape v end) segs.

Definition seg_text (s : pseg) : str := match s with WLit l => l | WVal v => v end.

(* url.Values.Encode over pairs already in its (key-sorted) order *)
Fixpoint encode_query (ps : list (str * str)) : str :=
  match ps with
  | [] => []
  | [(k, v)] => query_escape k ++ eq_c :: query_escape v
  | (k, v) :: r => query_escape k ++ eq_c :: query_escape v ++ amp :: encode_query r
  end.

(* strings.Cut(s, sep) *)
Fixpoint cut (sep : ascii) (s : str) : str * option str :=
  match s with
  | [] => ([], None)
  | c :: r => if ascii_eqb c sep then ([], Some r)
              else let '(a, b) := cut sep r in (c :: a, b)
  end.

(* strings.Split(s, sep) *)
Fixpoint split_on (sep : ascii) (s : str) (cur : str) : list str :=
  match s with
  | [] => [cur]
  | c :: r => if ascii_eqb c sep then cur :: split_on sep r [] else split_on sep r (cur ++ [c])
  end.

Definition semi : ascii := ";"%char.

(* one iteration of parseQuery's loop: an empty piece, a piece with ';' and a
   piece whose key or value does not unescape contribute nothing (URL.Query()
   drops the error) *)
Definition piece_pairs (p : str) : list (str * str) :=
  match p with
  | [] => []
  | _ =>
    if contains semi p then []
    else
      let '(k, v) := cut eq_c p in
      match unescape true k, unescape true (match v with Some x => x | None => [] end) with
      | Some k', Some v' => [(k', v')]
      | _, _ => []
      end
  end.

(* URL.Query(): the pairs in wire order (the map url.Values groups them by key,
   keeping this order within a key) *)
Definition parse_query (s : str) : list (str * str) := flat_map piece_pairs (split_on amp s []).

(* url.Values.Encode sorts the keys (sort.Strings: bytewise) and keeps the
   order of the values of one key: a stable insertion sort on the key *)
Fixpoint str_leb (a b : str) : bool :=
  match a, b with
  | [], _ => true
  | _ :: _, [] => false
  | x :: a', y :: b' =>
    if (ncode x <? ncode y)%N then true
    else if (ncode y <? ncode x)%N then false
    else str_leb a' b'
  end.

Fixpoint insert_pair (x : str * str) (l : list (str * str)) : list (str * str) :=
  match l with
  | [] => [x]
  | y :: r => if str_leb (fst x) (fst y) then x :: y :: r else y :: insert_pair x r
  end.

Definition sort_pairs (l : list (str * str)) : list (str * str) := fold_right insert_pair [] l.

(* the values of one key, in order: what a lookup in url.Values returns *)
Definition vals (name : str) (ps : list (str * str)) : list str :=
  flat_map (fun kv => if str_eqb (fst kv) name then [snd kv] else []) ps.

Definition qmark : ascii := "?"%char.

(* the request URL the generated client hands to http.NewRequest (after
   c.BaseURL): the path, and `?` + Encode() whenever the operation declares
   query parameters *)
Definition wire_url (bp : str) (segs : list pseg) (has_query : bool) (q : list (str * str)) : str :=
  raw_path bp segs ++ (if has_query then qmark :: encode_query (sort_pairs q) else []).
