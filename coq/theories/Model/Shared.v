(* The kinds of access to state shared between requests that the C20 translator
   (harness/cmd/vh/access.go) finds in the code the generator emits. *)
From Coq Require Import List Bool.
Import ListNotations.

Inductive access_kind :=
| AReadGlobal        (* a package-level variable is read in a function body *)
| AWriteGlobal       (* ... assigned, incremented, indexed/selected on the left of an assignment, or has its address taken *)
| AReadField         (* a field of a pointer receiver (API, Client) is read *)
| AWriteField.       (* ... written *)

Definition is_read_access (k : access_kind) : bool :=
  match k with AReadGlobal | AReadField => true | _ => false end.

Definition all_shared_accesses_are_reads (l : list (access_kind * nat)) : bool :=
  forallb (fun kn => is_read_access (fst kn)) l.
