(* Model for C20: request handlings as threads of steps over a shared store
   (package-level variables of the generated package, the fields of the API /
   Client value) and a private local state each; arbitrary interleavings. *)
From Coq Require Import List Bool Arith.
Import ListNotations.

Section Conc.
  Variable V : Type.                 (* values held by shared locations *)
  Variable L : Type.                 (* a request's private state: its parameters, body, response being built *)
  Variable on_read : L -> V -> L.    (* how a read value enters the private state *)
  Variable to_write : L -> V.        (* what a write would store *)
  Variable on_local : L -> L.        (* a step that touches no shared location *)

  Inductive step :=
  | SLocal
  | SRd (x : nat)
  | SWr (x : nat).

  Definition is_write (s : step) : bool := match s with SWr _ => true | _ => false end.

  Definition store := nat -> V.

  Definition exec1 (s : step) (sigma : store) (l : L) : store * L :=
    match s with
    | SLocal => (sigma, on_local l)
    | SRd x => (sigma, on_read l (sigma x))
    | SWr x => ((fun y => if Nat.eqb y x then to_write l else sigma y), l)
    end.

  (* a thread: the steps it still has to do, and its private state *)
  Record tstate := { todo : list step; priv : L }.

  Definition config := (store * list tstate)%type.

  Fixpoint update {A} (l : list A) (i : nat) (a : A) : list A :=
    match l, i with
    | [], _ => []
    | _ :: r, O => a :: r
    | x :: r, S j => x :: update r j a
    end.

  (* the scheduler lets thread i do its next step (nothing happens if it has finished or does not exist) *)
  Definition sched1 (c : config) (i : nat) : config :=
    match nth_error (snd c) i with
    | Some {| todo := s :: r; priv := l |} =>
      let (sigma', l') := exec1 s (fst c) l in
      (sigma', update (snd c) i {| todo := r; priv := l' |})
    | _ => c
    end.

  Definition run (schedule : list nat) (c : config) : config := fold_left sched1 schedule c.

  (* the same thread on its own *)
  Fixpoint run_alone (steps : list step) (sigma : store) (l : L) : store * L :=
    match steps with
    | [] => (sigma, l)
    | s :: r => let (sigma', l') := exec1 s sigma l in run_alone r sigma' l'
    end.

  (* two steps of different threads conflict when they touch one location and one of them writes *)
  Definition touches (s : step) : option nat := match s with SLocal => None | SRd x | SWr x => Some x end.
  Definition conflict (a b : step) : bool :=
    match touches a, touches b with
    | Some x, Some y => Nat.eqb x y && (is_write a || is_write b)
    | _, _ => false
    end.
End Conc.
