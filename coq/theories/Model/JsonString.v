(* encoding/json on the leaves of the JSON codecs: the text of a string value
   (and of an object key): encodeState.string with escapeHTML on (json.Marshal
   and json.NewEncoder default) and the decoder's unquote. Bytes >= 0x80 are
   copied both ways, which is what encoding/json does for valid UTF-8 (DESIGN
   section 11: strings are valid UTF-8); the line and paragraph separators
   U+2028/U+2029 (E2 80 A8/A9) are written as  / . *)
From Coq Require Import String.
From Coq Require Import List Bool Arith Ascii NArith.
Import ListNotations.
From Goag Require Import Base.Str.

Definition bcode (c : ascii) : N := N_of_ascii c.
Definition byte (n : N) : ascii := ascii_of_N n.

Definition bslash : ascii := "\"%char.
Definition dquote : ascii := """"%char.

(* "0123456789abcdef"[n] *)
Definition hexl (n : N) : ascii := if (n <? 10)%N then byte (48 + n) else byte (87 + n).

Definition unhexl (c : ascii) : option N :=
  let n := bcode c in
  if ((48 <=? n) && (n <=? 57))%N then Some (n - 48)%N
  else if ((97 <=? n) && (n <=? 102))%N then Some (n - 87)%N
  else if ((65 <=? n) && (n <=? 70))%N then Some (n - 55)%N
  else None.

(* htmlSafeSet: printable ASCII except the double quote, the backslash, <, > and & *)
Definition html_safe (c : ascii) : bool :=
  let n := bcode c in
  ((32 <=? n) && (n <? 127) || (n =? 127))%N &&
  negb (existsb (ascii_eqb c) (S_ """\<>&")).

Definition u00 (c : ascii) : str :=
  [bslash; "u"%char; "0"%char; "0"%char; hexl (bcode c / 16); hexl (bcode c mod 16)].

(* one byte < 0x80 *)
Definition quote_byte (c : ascii) : str :=
  let n := bcode c in
  if (128 <=? n)%N then [c]
  else if html_safe c then [c]
  else if ascii_eqb c bslash || ascii_eqb c dquote then [bslash; c]
  else if (n =? 8)%N then [bslash; "b"%char]
  else if (n =? 12)%N then [bslash; "f"%char]
  else if (n =? 10)%N then [bslash; "n"%char]
  else if (n =? 13)%N then [bslash; "r"%char]
  else if (n =? 9)%N then [bslash; "t"%char]
  else u00 c.

Definition b_e2 : ascii := byte 226.
Definition b_80 : ascii := byte 128.
Definition b_a8 : ascii := byte 168.
Definition b_a9 : ascii := byte 169.

Definition u202 (last : ascii) : str := [bslash; "u"%char; "2"%char; "0"%char; "2"%char; last].

(* the text between the quotes *)
Fixpoint quote_body (s : str) : str :=
  match s with
  | [] => []
  | c :: r =>
    match r with
    | a :: b :: r' =>
      if ascii_eqb c b_e2 && ascii_eqb a b_80 && ascii_eqb b b_a8 then u202 "8"%char ++ quote_body r'
      else if ascii_eqb c b_e2 && ascii_eqb a b_80 && ascii_eqb b b_a9 then u202 "9"%char ++ quote_body r'
      else quote_byte c ++ quote_body r
    | _ => quote_byte c ++ quote_body r
    end
  end.

Definition quote (s : str) : str := dquote :: quote_body s ++ [dquote].

(* utf8.AppendRune *)
Definition utf8_enc (n : N) : str :=
  if (n <? 128)%N then [byte n]
  else if (n <? 2048)%N then [byte (192 + n / 64); byte (128 + n mod 64)]
  else if (n <? 65536)%N then [byte (224 + n / 4096); byte (128 + (n / 64) mod 64); byte (128 + n mod 64)]
  else [byte (240 + n / 262144); byte (128 + (n / 4096) mod 64); byte (128 + (n / 64) mod 64); byte (128 + n mod 64)].

Definition hex4 (a b c d : ascii) : option N :=
  match unhexl a, unhexl b, unhexl c, unhexl d with
  | Some w, Some x, Some y, Some z => Some (4096 * w + 256 * x + 16 * y + z)%N
  | _, _, _, _ => None
  end.

Definition is_hi (n : N) : bool := ((55296 <=? n) && (n <? 56320))%N.
Definition is_lo (n : N) : bool := ((56320 <=? n) && (n <? 57344))%N.
Definition replacement : N := 65533%N.

(* unquoteBytes on the text between the quotes: None = not a JSON string *)
Fixpoint unquote_body (s : str) : option str :=
  match s with
  | [] => Some []
  | c :: r =>
    if ascii_eqb c bslash then
      match r with
      | e :: r1 =>
        if ascii_eqb e "u"%char then
          match r1 with
          | a :: b :: c2 :: d :: r2 =>
            match hex4 a b c2 d with
            | None => None
            | Some n =>
              if is_hi n then
                (* a low surrogate must follow for a pair; otherwise U+FFFD and the next escape is read on its own *)
                match r2 with
                | s1 :: s2 :: a2 :: b2 :: c3 :: d2 :: r3 =>
                  if ascii_eqb s1 bslash && ascii_eqb s2 "u"%char then
                    match hex4 a2 b2 c3 d2 with
                    | Some m =>
                      if is_lo m
                      then option_map (app (utf8_enc (65536 + (n - 55296) * 1024 + (m - 56320)))) (unquote_body r3)
                      else option_map (app (utf8_enc replacement)) (unquote_body r2)
                    | None => option_map (app (utf8_enc replacement)) (unquote_body r2)
                    end
                  else option_map (app (utf8_enc replacement)) (unquote_body r2)
                | _ => option_map (app (utf8_enc replacement)) (unquote_body r2)
                end
              else if is_lo n then option_map (app (utf8_enc replacement)) (unquote_body r2)
              else option_map (app (utf8_enc n)) (unquote_body r2)
            end
          | _ => None
          end
        else
          let simple (x : ascii) := option_map (cons x) (unquote_body r1) in
          if ascii_eqb e dquote then simple dquote
          else if ascii_eqb e bslash then simple bslash
          else if ascii_eqb e "/"%char then simple "/"%char
          else if ascii_eqb e "b"%char then simple (byte 8)
          else if ascii_eqb e "f"%char then simple (byte 12)
          else if ascii_eqb e "n"%char then simple (byte 10)
          else if ascii_eqb e "r"%char then simple (byte 13)
          else if ascii_eqb e "t"%char then simple (byte 9)
          else None
      | [] => None
      end
    else if ascii_eqb c dquote || (bcode c <? 32)%N then None
    else option_map (cons c) (unquote_body r)
  end.

(* a whole literal: "..." *)
Definition unquote (s : str) : option str :=
  match s with
  | q :: r =>
    if ascii_eqb q dquote then
      match rev r with
      | q2 :: body_rev => if ascii_eqb q2 dquote then unquote_body (rev body_rev) else None
      | [] => None
      end
    else None
  | [] => None
  end.
