(* C15: the nil-sensitive front of the generator (specification/*.go and the
   places in generator/*.go that dereference optional OpenAPI fields), over a
   document model that has an explicit "nil" exactly where Go has a pointer or
   interface the code dereferences.  A dereference of nil without a guard is the
   outcome [Panic]; a guard that reports an error is [MustErr]. *)
From Coq Require Import String.
From Coq Require Import List Bool Arith Ascii Lia.
Import ListNotations.
From Goag Require Import Base.Str.

Inductive outcome := Clean | MustErr | Panic (site : string).

(* sequential composition: the first non-clean outcome ends the run *)
Definition andthen (a : outcome) (b : unit -> outcome) : outcome :=
  match a with Clean => b tt | _ => a end.

Fixpoint all_clean {A} (f : A -> outcome) (l : list A) : outcome :=
  match l with
  | [] => Clean
  | x :: r => andthen (f x) (fun _ => all_clean f r)
  end.

(* *openapi3.SchemaRef *)
Inductive sref :=
| SNil                 (* nil pointer *)
| SEmpty               (* non-nil, Ref == "" and Value == nil *)
| SRefTo (name : str)
| SVal (ty : str) (items : sref) (props : list (str * sref)) (addl : sref) (allof oneof : list sref).

(* specification.NewSchemaRef / NewSchema, then generator.newSchemaType's array case *)
Fixpoint schema_ref (known : list str) (s : sref) {struct s} : outcome :=
  match s with
  | SNil | SEmpty => MustErr                       (* "schema is not defined" *)
  | SRefTo n => if existsb (str_eqb n) known then Clean else MustErr
  | SVal ty items props addl allof oneof =>
    andthen (match items with SNil => Clean | _ => schema_ref known items end) (fun _ =>
    andthen ((fix go (l : list (str * sref)) : outcome :=
                match l with [] => Clean | (_, p) :: r => andthen (schema_ref known p) (fun _ => go r) end) props) (fun _ =>
    andthen ((fix go (l : list sref) : outcome :=
                match l with [] => Clean | p :: r => andthen (schema_ref known p) (fun _ => go r) end) allof) (fun _ =>
    andthen ((fix go (l : list sref) : outcome :=
                match l with [] => Clean | p :: r => andthen (schema_ref known p) (fun _ => go r) end) oneof) (fun _ =>
    andthen (match addl with SNil => Clean | _ => schema_ref known addl end) (fun _ =>
    (* generator: `type: array` needs items *)
    if str_eqb ty (S_ "array") then match items with SNil => MustErr | _ => Clean end else Clean)))))
  end.

Inductive media := MNil | MVal (schema : sref).
Definition content := list (str * media).

Definition media_type (known : list str) (m : media) : outcome :=
  match m with MNil => MustErr | MVal s => schema_ref known s end.

Definition content_map (known : list str) (c : content) : outcome :=
  all_clean (fun km => media_type known (snd km)) c.

(* *openapi3.HeaderRef / ParameterRef / ResponseRef / RequestBodyRef: the
   loader rejects a document in which one of these has neither $ref nor value,
   except for request bodies (guarded by goag) *)
Inductive header := HNilValue | HRefTo (name : str) | HVal (schema : sref).
Inductive param := PNilValue | PRefTo (name : str) | PVal (loc : str) (schema : sref).
Inductive response := RNilValue | RRefTo (name : str) | RVal (c : content) (hs : list (str * header)).
Inductive body := BAbsent | BNilValue | BRefTo (name : str) | BVal (c : content).

Definition header_ref (known : list str) (h : header) : outcome :=
  match h with
  | HNilValue => Panic "NewHeader: s.Schema with s == nil"
  | HRefTo _ => Clean
  | HVal s => schema_ref known s
  end.

Definition param_ref (known : list str) (p : param) : outcome :=
  match p with
  | PNilValue => Panic "NewOperationParameters: param.Value.In with Value == nil"
  | PRefTo _ => Clean
  | PVal loc s =>
    (* switch param.Value.In: only path/query/header/cookie parameters are built
       (a `content` parameter has no schema: SNil) *)
    if existsb (str_eqb loc) [S_ "path"; S_ "query"; S_ "header"; S_ "cookie"]
    then schema_ref known s else Clean
  end.

(* components.parameters: an unknown `in` is an error *)
Definition comp_param_ref (known : list str) (p : param) : outcome :=
  match p with
  | PVal loc _ =>
    if existsb (str_eqb loc) [S_ "path"; S_ "query"; S_ "header"; S_ "cookie"]
    then param_ref known p else MustErr
  | _ => param_ref known p
  end.

Definition response_ref (known : list str) (r : response) : outcome :=
  match r with
  | RNilValue => Panic "NewResponse: s.Content with s == nil"
  | RRefTo _ => Clean
  | RVal c hs => andthen (content_map known c) (fun _ => all_clean (fun kh => header_ref known (snd kh)) hs)
  end.

Definition body_ref (known : list str) (b : body) : outcome :=
  match b with
  | BAbsent => Clean
  | BNilValue => MustErr                 (* "request body is empty" *)
  | BRefTo _ => Clean
  | BVal c => content_map known c
  end.

Record operation := { op_params : list param; op_body : body; op_responses : list (str * response) }.

Definition operation_ok (known : list str) (path_params : list param) (o : operation) : outcome :=
  andthen (all_clean (param_ref known) (path_params ++ op_params o)) (fun _ =>
  andthen (body_ref known (op_body o)) (fun _ =>
  all_clean (fun kr => response_ref known (snd kr)) (op_responses o))).

Inductive pathitem := PINil | PIVal (params : list param) (ops : list operation).

Definition path_item (known : list str) (p : pathitem) : outcome :=
  match p with
  | PINil => MustErr                     (* "path item is empty" *)
  | PIVal ps ops => all_clean (operation_ok known ps) ops
  end.

(* server variables: interface{} default / enum values *)
Inductive dkind := DString | DOther | DAbsent.
Inductive svar := VNil | VVal (default : dkind) (enum : list dkind).
Inductive server := SvNil | SvVal (vars : list (str * svar)).

Definition is_other (d : dkind) : bool := match d with DOther => true | _ => false end.

Definition server_var (v : svar) : outcome :=
  match v with
  | VNil => MustErr
  | VVal d en => if existsb (fun e => negb (match e with DString => true | _ => false end)) en then MustErr
                 else if is_other d then MustErr else Clean
  end.

Definition server_ok (s : server) : outcome :=
  match s with SvNil => MustErr | SvVal vars => all_clean (fun kv => server_var (snd kv)) vars end.

(* component aliases `A: {$ref: B}`: a cycle is reported (map.go) *)
Fixpoint alias_chain_ends (fuel : nat) (aliases : list (str * option str)) (n : str) : bool :=
  match fuel with
  | O => false
  | S f => match find (fun a => str_eqb (fst a) n) aliases with
           | Some (_, Some target) => alias_chain_ends f aliases target
           | _ => true
           end
  end.

Definition aliases_acyclic (aliases : list (str * option str)) : bool :=
  forallb (fun a => alias_chain_ends (S (length aliases)) aliases (fst a)) aliases.

Record doc := {
  d_servers : list server;
  d_schemas : list (str * sref);
  d_headers : list (str * header);
  d_bodies : list (str * body);
  d_responses : list (str * response);
  d_params : list (str * param);
  d_paths : list (str * pathitem);
}.

Definition response_alias (r : response) : option str := match r with RRefTo n => Some n | _ => None end.

Definition gen_front (d : doc) : outcome :=
  let known := map fst (d_schemas d) in
  andthen (all_clean server_ok (d_servers d)) (fun _ =>
  andthen (all_clean (fun ks => schema_ref known (snd ks)) (d_schemas d)) (fun _ =>
  andthen (all_clean (fun kh => header_ref known (snd kh)) (d_headers d)) (fun _ =>
  andthen (all_clean (fun kb => body_ref known (snd kb)) (d_bodies d)) (fun _ =>
  andthen (all_clean (fun kr => response_ref known (snd kr)) (d_responses d)) (fun _ =>
  andthen (if aliases_acyclic (map (fun kr => (fst kr, response_alias (snd kr))) (d_responses d)) then Clean else MustErr) (fun _ =>
  andthen (all_clean (fun kp => comp_param_ref known (snd kp)) (d_params d)) (fun _ =>
  all_clean (fun kp => path_item known (snd kp)) (d_paths d)))))))).

(* what the loader guarantees after a successful load: every header,
   parameter and response reference has a $ref or a value *)
Definition header_inv (h : header) : bool := match h with HNilValue => false | _ => true end.
Definition param_inv (p : param) : bool := match p with PNilValue => false | _ => true end.
Definition response_inv (r : response) : bool :=
  match r with RNilValue => false | RVal _ hs => forallb (fun kh => header_inv (snd kh)) hs | _ => true end.
Definition operation_inv (o : operation) : bool :=
  forallb param_inv (op_params o) && forallb (fun kr => response_inv (snd kr)) (op_responses o).
Definition pathitem_inv (p : pathitem) : bool :=
  match p with PINil => true | PIVal ps ops => forallb param_inv ps && forallb operation_inv ops end.

Definition loader_inv (d : doc) : bool :=
  forallb (fun kh => header_inv (snd kh)) (d_headers d) &&
  forallb (fun kr => response_inv (snd kr)) (d_responses d) &&
  forallb (fun kp => param_inv (snd kp)) (d_params d) &&
  forallb (fun kp => pathitem_inv (snd kp)) (d_paths d).

Definition is_panic (o : outcome) : bool := match o with Panic _ => true | _ => false end.
