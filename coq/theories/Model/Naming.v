(* Model of generator.PublicFieldName (generator/naming.go) on ASCII names:
   the Go field, type-suffix and operation-name derivation used by handlers,
   clients, components and the router.  (unicode.IsLetter / IsUpper / IsDigit
   and strings.Title restricted to bytes < 128; DESIGN section 11.) *)
From Coq Require Import String.
From Coq Require Import List Bool Arith Ascii NArith.
Import ListNotations.
From Goag Require Import Base.Str.

Definition code (c : ascii) : N := N_of_ascii c.
Definition is_upper (c : ascii) : bool := (65 <=? code c)%N && (code c <=? 90)%N.
Definition is_lower (c : ascii) : bool := (97 <=? code c)%N && (code c <=? 122)%N.
Definition is_digit (c : ascii) : bool := (48 <=? code c)%N && (code c <=? 57)%N.
Definition is_letter (c : ascii) : bool := is_upper c || is_lower c.
Definition to_upper (c : ascii) : ascii := if is_lower c then ascii_of_N (code c - 32) else c.

(* strings.Title of one word, after the id/Id/ids special cases *)
Definition title_word (w : str) : str :=
  if str_eqb w (S_ "id") || str_eqb w (S_ "Id") then S_ "ID"
  else if str_eqb w (S_ "ids") then S_ "IDs"
  else match w with [] => [] | c :: r => to_upper c :: r end.

Definition flush (cur : option str) (acc : list str) : list str :=
  match cur with Some w => acc ++ [w] | None => acc end.

(* the scanning loop: [cur] is the word being built (isWord / runes[li:ri+1]) *)
Fixpoint words (s : str) (cur : option str) (acc : list str) : list str :=
  match s with
  | [] => flush cur acc
  | c :: r =>
    if is_lower c then
      words r (Some (match cur with Some w => w ++ [c] | None => [c] end)) acc
    else
      let acc' := flush cur acc in
      if is_upper c || (match cur with Some _ => is_digit c | None => false end)
      then words r (Some [c]) acc'
      else words r None acc'
  end.

Definition public_field_name (n : str) : str := concat (map title_word (words n None [])).
