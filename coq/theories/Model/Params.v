(* Model of parameter parsing in the generated handler (template "Handler",
   new<Op>Params) and of the snippet algebra behind it (primitive.gotmpl,
   types.gotmpl, schema.gotmpl): query, header and path parameters. *)
From Coq Require Import String.
From Coq Require Import List Bool Arith Ascii NArith ZArith Lia.
Import ListNotations.
From Goag Require Import Base.Str Model.Router Model.Serve.

Local Open Scope Z_scope.

(* ------------------------------------------------------------------ *)
(* parameter schemas                                                    *)

Inductive prim :=
| PStr
| PInt (bits : Z)      (* 0 = int (64 bit), 32, 64 *)
| PFloat (bits : Z)    (* 32, 64 *)
| PBool
| PTime.

Inductive sch :=
| SPrim (p : prim)
| SNullable (s : sch)
| SArr (item : sch)
| SRef (name : str) (target : sch).

(* typed values, printed in the canonical syntax shared with the driver *)
Inductive pval :=
| VS (s : str)
| VI (z : Z)
| VF (repr : str)        (* the float as strconv.FormatFloat(v,'g',-1,bits) text, from the oracle *)
| VB (b : bool)
| VT (repr : str)        (* the instant as "unixnano,offset", from the oracle *)
| VL (l : list pval)
| VP (v : pval).         (* Nullable set: Pointer(v) *)

Inductive field :=
| FVal (v : pval)              (* required parameter *)
| FMaybe (o : option pval).    (* optional parameter: Just v / Nothing *)

(* ------------------------------------------------------------------ *)
(* strconv                                                              *)

Definition digit_val (c : ascii) : option Z :=
  let n := Z.of_N (N_of_ascii c) in
  if (48 <=? n) && (n <=? 57) then Some (n - 48) else None.

(* strconv.ParseUint(s, 10, _) without the range check: digits only, at least one *)
Fixpoint parse_digits (acc : Z) (s : str) : option Z :=
  match s with
  | [] => Some acc
  | c :: r => match digit_val c with
              | Some d => parse_digits (acc * 10 + d) r
              | None => None
              end
  end.

Definition bit_size (bits : Z) : Z := if bits =? 0 then 64 else bits.

(* strconv.ParseInt(s, 10, bits) *)
Definition parse_int (bits : Z) (s : str) : option Z :=
  let b := bit_size bits in
  let go (neg : bool) (ds : str) :=
    match ds with
    | [] => None
    | _ => match parse_digits 0 ds with
           | Some un =>
             let cutoff := 2 ^ (b - 1) in
             if neg then (if un <=? cutoff then Some (- un) else None)
             else (if un <? cutoff then Some un else None)
           | None => None
           end
    end in
  match s with
  | [] => None
  | c :: r => if ascii_eqb c "+"%char then go false r
              else if ascii_eqb c "-"%char then go true r
              else go false s
  end.

(* strconv.ParseBool *)
Definition parse_bool (s : str) : option bool :=
  if existsb (str_eqb s) (map S_ ["1"; "t"; "T"; "TRUE"; "true"; "True"]%string) then Some true
  else if existsb (str_eqb s) (map S_ ["0"; "f"; "F"; "FALSE"; "false"; "False"]%string) then Some false
  else None.

(* ------------------------------------------------------------------ *)
(* parsing, relative to oracles for strconv.ParseFloat and time.Parse    *)

Inductive res (A : Type) :=
| Ok (a : A)
| Err (param : str)      (* an error that names this parameter *)
| ErrOther.              (* an error that names no parameter ("wrong path") *)
Arguments Ok {A} a.
Arguments Err {A} param.
Arguments ErrOther {A}.

Section Parse.
  Variable parse_float : Z -> str -> option str.   (* bits, text -> canonical repr *)
  Variable parse_time : str -> option str.

  Definition parse_scalar (p : prim) (s : str) : option pval :=
    match p with
    | PStr => Some (VS s)
    | PInt b => option_map VI (parse_int b s)
    | PFloat b => option_map VF (parse_float b s)
    | PBool => option_map VB (parse_bool s)
    | PTime => option_map VT (parse_time s)
    end.

  (* <schema>.ParseString: one text -> one value *)
  Fixpoint parse_string (sc : sch) (v : str) : option pval :=
    match sc with
    | SPrim p => parse_scalar p v
    | SNullable s' => option_map VP (parse_string s' v)
    | SArr item => option_map (fun x => VL [x]) (parse_string item v)
    | SRef _ t => parse_string t v
    end.

  Fixpoint map_opt {A B} (f : A -> option B) (l : list A) : option (list B) :=
    match l with
    | [] => Some []
    | x :: r => match f x, map_opt f r with
                | Some y, Some ys => Some (y :: ys)
                | _, _ => None
                end
    end.

  (* <schema>.ParseStrings: the supplied texts (non-empty) -> one value.
     Primitive_ParseStrings demands exactly one text; SliceType_ParseStrings
     parses each. *)
  Fixpoint parse_strings (sc : sch) (vs : list str) : option pval :=
    match sc with
    | SPrim p => match vs with [v] => parse_scalar p v | _ => None end
    | SNullable s' => option_map VP (parse_strings s' vs)
    | SArr item => option_map VL (map_opt (parse_string item) vs)
    | SRef _ t => parse_strings t vs
    end.

  (* one declared query/header parameter *)
  Record pdecl := { d_name : str; d_required : bool; d_sch : sch }.

  Definition parse_param (d : pdecl) (supplied : list str) : res field :=
    match supplied with
    | [] => if d_required d then Err (d_name d) else Ok (FMaybe None)
    | _ => match parse_strings (d_sch d) supplied with
           | Some v => Ok (if d_required d then FVal v else FMaybe (Some v))
           | None => Err (d_name d)
           end
    end.

  Fixpoint parse_all (get : str -> list str) (ds : list pdecl) : res (list field) :=
    match ds with
    | [] => Ok []
    | d :: r => match parse_param d (get (d_name d)) with
                | Ok f => match parse_all get r with
                          | Ok fs => Ok (f :: fs)
                          | Err n => Err n
                          | ErrOther => ErrOther
                          end
                | Err n => Err n
                | ErrOther => ErrOther
                end
    end.

  (* ---------------- path parameters ---------------- *)

  Inductive pelem :=
  | PConst (raw : str)
  | PVarE (name : str) (sc : sch).

  (* strings.Index(p, "/") slicing: the text before the first slash *)
  Definition take_seg (p : str) : str * str := until_slash p.

  Fixpoint parse_path_elems (es : list pelem) (p : str) : res (list field) :=
    match es with
    | [] => Ok []
    | PConst raw :: r =>
      if has_prefix raw p then parse_path_elems r (skipn (length raw) p) else ErrOther
    | PVarE name sc :: r =>
      let (v, rest) := take_seg p in
      match v with
      | [] => Err name
      | _ => match parse_string sc v with
             | Some x => match parse_path_elems r rest with
                         | Ok fs => Ok (FVal x :: fs)
                         | Err n => Err n
                         | ErrOther => ErrOther
                         end
             | None => Err name
             end
      end
    end.

  (* the base-path prologue of the "Path parameters" block *)
  Definition parse_path (bp : str) (es : list pelem) (p : str) : res (list field) :=
    match bp with
    | [] => parse_path_elems es p
    | _ => if has_prefix bp p then
             let p' := skipn (length bp) p in
             if has_prefix [slash] p' then parse_path_elems es p' else ErrOther
           else ErrOther
    end.

  (* generator/operation.go NewOperation: the PathBuilder loop *)
  Fixpoint path_builder (pending : str) (dirs : list (str * option sch)) : list pelem :=
    match dirs with
    | [] => match pending with [] => [] | _ => [PConst pending] end
    | (d, Some sc) :: r => PConst (pending ++ [slash]) :: PVarE d sc :: path_builder [] r
    | (d, None) :: r => path_builder (pending ++ slash :: d) r
    end.

  (* the whole new<Op>Params for query, header and path parameters *)
  Record opdecl := {
    od_query : list pdecl;
    od_header : list pdecl;
    od_path : list (str * option sch);   (* template dirs: literal, or variable name with its schema *)
  }.

  Record parsed := { pq : list field; ph : list field; pp : list field }.

  Definition parse_request (bp : str) (od : opdecl) (rq : request) : res parsed :=
    match parse_all (query_values rq) (od_query od) with
    | Ok q =>
      match parse_all (header_values rq) (od_header od) with
      | Ok h =>
        match od_path od with
        | [] => Ok {| pq := q; ph := h; pp := [] |}
        | _ => if existsb (fun d => is_some (snd d)) (od_path od)
               then match parse_path bp (path_builder [] (od_path od)) (q_path rq) with
                    | Ok p => Ok {| pq := q; ph := h; pp := p |}
                    | Err n => Err n
                    | ErrOther => ErrOther
                    end
               else Ok {| pq := q; ph := h; pp := [] |}
        end
      | Err n => Err n
      | ErrOther => ErrOther
      end
    | Err n => Err n
    | ErrOther => ErrOther
    end.
End Parse.
