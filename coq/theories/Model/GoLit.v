(* C13: the spec-file constant.
   [encode] transcribes generator/files.go encodeRawFileAsString;
   [go_eval] is an evaluator for Go constant expressions of the shape
   lit ( "+" lit )*  following the Go language specification's rules for raw
   and interpreted string literals. *)
From Coq Require Import String.
From Coq Require Import List Bool Arith Ascii NArith Lia.
Import ListNotations.
From Goag Require Import Base.Str.

Definition bq : ascii := "`"%char.
Definition dq : ascii := """"%char.
Definition bsl : ascii := "\"%char.
Definition lf : ascii := "010"%char.
Definition cr : ascii := "013"%char.
Definition nul : ascii := "000"%char.
Definition plus : ascii := "+"%char.
Definition sp : ascii := " "%char.
Definition tab : ascii := "009"%char.

(* strings.ReplaceAll / strings.NewReplacer restricted to single-byte old
   strings: a left-to-right, non-overlapping, per-byte substitution. *)
Fixpoint subst_lookup (tbl : list (ascii * str)) (c : ascii) : option str :=
  match tbl with
  | [] => None
  | (k, v) :: t => if ascii_eqb c k then Some v else subst_lookup t c
  end.

Definition replace_bytes (tbl : list (ascii * str)) (s : str) : str :=
  flat_map (fun c => match subst_lookup tbl c with Some r => r | None => [c] end) s.

(* generator/files.go encodeRawFileAsString *)
Definition raw_table : list (ascii * str) :=
  [ (bq, [bq; plus; dq; bq; dq; plus; bq])            (* `  ->  `+"`"+`   *)
  ; (cr, [bq; plus; dq; bsl; "r"%char; dq; plus; bq]) (* CR ->  `+"\r"+`  *)
  ].

Definition quoted_table : list (ascii * str) :=
  [ (bsl, [bsl; bsl])                                  (* \  ->  \\ *)
  ; (dq, [bsl; dq])                                    (* "  ->  \" *)
  ].

Definition encode (s : str) : str :=
  if contains lf s
  then bq :: replace_bytes raw_table s ++ [bq]
  else dq :: replace_bytes quoted_table s ++ [dq].

(* ------------------------------------------------------------------ *)
(* Go string literal semantics                                          *)

(* Raw literal body: everything up to the closing back quote; carriage
   returns are discarded from the value; NUL is illegal in Go source. *)
Fixpoint scan_raw (s : str) : option (str * str) :=
  match s with
  | [] => None
  | c :: r =>
    if ascii_eqb c bq then Some ([], r)
    else if ascii_eqb c nul then None
    else match scan_raw r with
         | Some (v, r') => Some (if ascii_eqb c cr then v else c :: v, r')
         | None => None
         end
  end.

Definition hex_val (c : ascii) : option N :=
  let n := N_of_ascii c in
  if (48 <=? n)%N && (n <=? 57)%N then Some (n - 48)%N
  else if (97 <=? n)%N && (n <=? 102)%N then Some (n - 87)%N
  else if (65 <=? n)%N && (n <=? 70)%N then Some (n - 55)%N
  else None.

Definition oct_val (c : ascii) : option N :=
  let n := N_of_ascii c in
  if (48 <=? n)%N && (n <=? 55)%N then Some (n - 48)%N else None.

(* [k] digits in base [b] *)
Fixpoint scan_digits (dv : ascii -> option N) (b : N) (k : nat) (acc : N) (s : str) : option (N * str) :=
  match k with
  | O => Some (acc, s)
  | S k' => match s with
            | c :: r => match dv c with
                        | Some d => scan_digits dv b k' (acc * b + d)%N r
                        | None => None
                        end
            | [] => None
            end
  end.

Definition byte (n : N) : ascii := ascii_of_N n.

(* UTF-8 encoding of a code point (surrogates and > 0x10FFFF are illegal in
   \u / \U escapes) *)
Definition utf8 (cp : N) : option str :=
  if (cp <? 128)%N then Some [byte cp]
  else if (cp <? 2048)%N then Some [byte (192 + cp / 64); byte (128 + cp mod 64)]
  else if (55296 <=? cp)%N && (cp <=? 57343)%N then None
  else if (cp <? 65536)%N then
    Some [byte (224 + cp / 4096); byte (128 + (cp / 64) mod 64); byte (128 + cp mod 64)]
  else if (cp <=? 1114111)%N then
    Some [byte (240 + cp / 262144); byte (128 + (cp / 4096) mod 64);
          byte (128 + (cp / 64) mod 64); byte (128 + cp mod 64)]
  else None.

Definition simple_escape (c : ascii) : option ascii :=
  match c with
  | "a"%char => Some "007"%char
  | "b"%char => Some "008"%char
  | "f"%char => Some "012"%char
  | "n"%char => Some lf
  | "r"%char => Some cr
  | "t"%char => Some tab
  | "v"%char => Some "011"%char
  | "\"%char => Some bsl
  | """"%char => Some dq
  | _ => None
  end.

(* Interpreted literal body, after the opening quote.  Fuel bounds the number
   of characters; [None] = illegal literal (or out of fuel). *)
Fixpoint scan_interp (fuel : nat) (s : str) : option (str * str) :=
  match fuel with
  | O => None
  | S fuel' =>
    match s with
    | [] => None
    | c :: r =>
      if ascii_eqb c dq then Some ([], r)
      else if ascii_eqb c lf then None
      else if ascii_eqb c nul then None
      else if ascii_eqb c bsl then
        match r with
        | [] => None
        | e :: r1 =>
          match simple_escape e with
          | Some v => match scan_interp fuel' r1 with
                      | Some (vs, rest) => Some (v :: vs, rest)
                      | None => None
                      end
          | None =>
            let numeric (dv : ascii -> option N) (b : N) (k : nat) (body : str)
                        (mk : N -> option str) :=
              match scan_digits dv b k 0%N body with
              | Some (n, r2) =>
                match mk n with
                | Some bytes => match scan_interp fuel' r2 with
                                | Some (vs, rest) => Some (bytes ++ vs, rest)
                                | None => None
                                end
                | None => None
                end
              | None => None
              end in
            if ascii_eqb e "x"%char then numeric hex_val 16%N 2 r1 (fun n => Some [byte n])
            else if ascii_eqb e "u"%char then numeric hex_val 16%N 4 r1 utf8
            else if ascii_eqb e "U"%char then numeric hex_val 16%N 8 r1 utf8
            else match oct_val e with
                 | Some _ => numeric oct_val 8%N 3 r
                               (fun n => if (n <=? 255)%N then Some [byte n] else None)
                 | None => None
                 end
          end
        end
      else match scan_interp fuel' r with
           | Some (vs, rest) => Some (c :: vs, rest)
           | None => None
           end
    end
  end.

Fixpoint skip_ws (s : str) : str :=
  match s with
  | c :: r => if ascii_eqb c sp || ascii_eqb c tab then skip_ws r else s
  | [] => []
  end.

Definition scan_lit (fuel : nat) (s : str) : option (str * str) :=
  match s with
  | c :: r => if ascii_eqb c bq then scan_raw r
              else if ascii_eqb c dq then scan_interp fuel r
              else None
  | [] => None
  end.

(* lit ( ws* "+" ws* lit )* ws*  to the end of the text *)
Fixpoint eval_sum (fuel : nat) (acc : str) (s : str) : option str :=
  match fuel with
  | O => None
  | S fuel' =>
    match skip_ws s with
    | [] => Some acc
    | c :: r =>
      if ascii_eqb c plus then
        match scan_lit fuel' (skip_ws r) with
        | Some (v, rest) => eval_sum fuel' (acc ++ v) rest
        | None => None
        end
      else None
    end
  end.

Definition go_eval (s : str) : option str :=
  let fuel := S (S (length s)) in
  match scan_lit fuel s with
  | Some (v, rest) => eval_sum fuel v rest
  | None => None
  end.

(* The domain: Go source text cannot contain NUL.  (Invalid UTF-8 and a BOM
   are likewise illegal in source files; the model treats bytes >= 0x80
   opaquely, see DESIGN section 11.) *)
Definition embeddable (s : str) : bool := negb (contains nul s).

(* Serving: generator/file_router.gotmpl ServeHTTP's first statement. *)
Definition spec_route (base name : str) : str := base ++ slash :: name.
