(* Model of goag.Generator.Generate's output gate (goag.go: render every file,
   checkDeclarations, then WriteToFile = imports.Process + write): what decides
   between "success" and "error", and what a success has written. *)
From Coq Require Import List Bool.
Import ListNotations.

Section Gate.
  Variable src : Type.
  Variable fmt : src -> option src.        (* imports.Process: None = it returned an error *)
  Variable parses : src -> bool.           (* go/parser accepts the text *)
  Variable decl_ok : list src -> bool.     (* checkDeclarations: no clash among the declared names *)

  Inductive gen_result :=
  | Success (written : list (nat * src))   (* file id, bytes written *)
  | Failed.

  Fixpoint write_all (fs : list (nat * src)) : option (list (nat * src)) :=
    match fs with
    | [] => Some []
    | (n, s) :: r =>
      match fmt s with
      | None => None
      | Some b => option_map (cons (n, b)) (write_all r)
      end
    end.

  (* rendered = None: a template failed *)
  Definition generate (rendered : option (list (nat * src))) : gen_result :=
    match rendered with
    | None => Failed
    | Some fs =>
      if forallb (fun f => parses (snd f)) fs && decl_ok (map snd fs)
      then match write_all fs with Some ws => Success ws | None => Failed end
      else Failed
    end.
End Gate.
