(* Model of which generated types can be returned from an operation's handler:
   the response types the generator declares (templates "ResponseComponent" and
   "ResponseComponentAlias", generator/handler.go NewHandlerResponse,
   generator/components.go NewComponents, specification/operation.go UsedIn)
   with their method sets, and Go's rule for satisfying the operation's response
   interface `<Op>Response interface { write<Op>(http.ResponseWriter) }`. *)
From Coq Require Import String.
From Coq Require Import List Bool Arith Ascii.
Import ListNotations.
From Goag Require Import Base.Str.

Inductive rref :=
| RInline (json : bool)        (* defined in place; json: has an application/json body *)
| RComp (name : str).          (* $ref: '#/components/responses/<name>' *)

Record rop := { ro_name : str; ro_responses : list (str * rref) }.   (* status key -> response *)
Record rcomp := { rc_name : str; rc_alias : option str }.            (* alias: the entry is itself a $ref *)
Record rdoc := { rd_ops : list rop; rd_comps : list rcomp }.

Record tydecl := { t_name : str; t_alias_of : option str; t_methods : list str }.

Definition sfx_response : str := S_ "Response".
Definition write_m (o : str) : str := S_ "write" ++ o.
Definition title_status (st : str) : str := if str_eqb st (S_ "default") then S_ "Default" else st.
Definition inline_name (o st : str) (json : bool) : str :=
  o ++ sfx_response ++ title_status st ++ (if json then S_ "JSON" else []).
Definition comp_type (n : str) : str := n ++ sfx_response.

Fixpoint find_comp (cs : list rcomp) (n : str) : option rcomp :=
  match cs with
  | [] => None
  | c :: r => if str_eqb (rc_name c) n then Some c else find_comp r n
  end.

(* the component a name finally denotes (specification: Ref.Value() through alias chains) *)
Fixpoint resolve (fuel : nat) (cs : list rcomp) (n : str) : option str :=
  match fuel with
  | O => None
  | S f => match find_comp cs n with
           | None => None
           | Some c => match rc_alias c with None => Some n | Some t => resolve f cs t end
           end
  end.

Definition resolves (d : rdoc) (n : str) : option str := resolve (S (length (rd_comps d))) (rd_comps d) n.

Definition opt_eqb (a : option str) (b : str) : bool := match a with Some x => str_eqb x b | None => false end.

(* operations whose response list reaches component c: Response.UsedIn *)
Definition uses (d : rdoc) (c : str) (o : rop) : bool :=
  existsb (fun sr => match snd sr with RComp n => opt_eqb (resolves d n) c | RInline _ => false end) (ro_responses o).

Definition used_in (d : rdoc) (c : str) : list str :=
  map ro_name (filter (uses d c) (rd_ops d)).

Definition inline_types (o : rop) : list tydecl :=
  flat_map (fun sr => match snd sr with
                      | RInline j => [{| t_name := inline_name (ro_name o) (fst sr) j; t_alias_of := None;
                                         t_methods := [S_ "Write"; write_m (ro_name o)] |}]
                      | RComp _ => []
                      end) (ro_responses o).

Definition comp_decl (d : rdoc) (c : rcomp) : tydecl :=
  match rc_alias c with
  | None => {| t_name := comp_type (rc_name c); t_alias_of := None;
               t_methods := S_ "Write" :: map write_m (used_in d (rc_name c)) |}
  | Some t => {| t_name := comp_type (rc_name c); t_alias_of := Some (comp_type t); t_methods := [] |}
  end.

Definition gen_types (d : rdoc) : list tydecl :=
  flat_map inline_types (rd_ops d) ++ map (comp_decl d) (rd_comps d).

Fixpoint find_type (ts : list tydecl) (n : str) : option tydecl :=
  match ts with
  | [] => None
  | t :: r => if str_eqb (t_name t) n then Some t else find_type r n
  end.

(* Go: an alias has the method set of the type it denotes *)
Fixpoint methods_of (fuel : nat) (ts : list tydecl) (n : str) : list str :=
  match fuel with
  | O => []
  | S f => match find_type ts n with
           | None => []
           | Some t => match t_alias_of t with None => t_methods t | Some a => methods_of f ts a end
           end
  end.

Definition implements (d : rdoc) (T o : str) : bool :=
  let ts := gen_types d in
  existsb (str_eqb (write_m o)) (methods_of (S (length ts)) ts T).

(* every declared type that may be returned from o's handler *)
Definition implementers (d : rdoc) (o : str) : list str :=
  map t_name (filter (fun t => implements d (t_name t) o) (gen_types d)).
