(* Model of the response side of the generated package: the Write method of a
   response type (templates "ResponseComponent": status, declared headers via
   RenderFormatStrings + Header().Add, Content-Type via Header().Set, body via
   writeJSON / io.Copy) and the generated client's reconstruction of it
   (templates "ClientOperation" status switch and "ClientResponse"). *)
From Coq Require Import String.
From Coq Require Import List Bool Arith Ascii NArith ZArith Lia.
Import ListNotations.
From Goag Require Import Base.Str Model.Router Model.Serve Model.Params Model.Json Model.Client.

(* what an operation documents under one status key *)
Inductive bkind :=
| BNone                       (* no content *)
| BJson (s : jsch)            (* application/json with a schema *)
| BRaw.                       (* another media type: io.ReadCloser on both sides *)

Record rplan := {
  rp_status : option Z;       (* Some code; None = the `default` key *)
  rp_ctype : option str;      (* the Content-Type the Write method sets *)
  rp_headers : list pdecl;    (* declared headers: key, required, schema *)
  rp_body : bkind
}.

(* a value of the generated response type *)
Inductive bval :=
| VBNone
| VBJson (v : gval)
| VBRaw (bytes : str).

Record rvalue := {
  rv_code : Z;                (* the Code field of a `default` response (0 otherwise) *)
  rv_headers : list field;
  rv_body : bval
}.

(* the response on the wire; a JSON body is carried as its JSON value (text
   printing and parsing are the transport, as in the JSON family) *)
Inductive wbody :=
| WJson (j : json)
| WRaw (bytes : str).          (* WRaw []: no body *)

Record wire := { w_status : Z; w_headers : list (str * str); w_body : wbody }.

Definition content_type : str := S_ "Content-Type".

Definition hdr_eqb (a b : str) : bool := str_eqb (canon_key a) (canon_key b).

(* http.Header.Set: drop every value of the key, then add one *)
Definition set_header (hs : list (str * str)) (k v : str) : list (str * str) :=
  filter (fun kv => negb (hdr_eqb (fst kv) k)) hs ++ [(k, v)].

Definition header_lookup (hs : list (str * str)) (name : str) : list str :=
  flat_map (fun kv => if hdr_eqb (fst kv) name then [snd kv] else []) hs.

Section Response.
  Variable fmt_float : Z -> str -> str.    (* header texts: strconv.FormatFloat(v, 'e', -1, bits) *)
  Variable fmt_num : Z -> str -> str.      (* JSON numbers: encoding/json's float text *)
  Variable fmt_time : str -> str.
  Variable pf : Z -> str -> option str.
  Variable pt : str -> option str.
  Variable parse_num : Z -> str -> option str.

  (* ---- server: <Response>.Write ---- *)
  Definition write_body (k : bkind) (b : bval) : option wbody :=
    match k, b with
    | BNone, VBNone => Some (WRaw [])
    | BJson s, VBJson v => match enc fmt_num fmt_time s v with Ok j => Some (WJson j) | _ => None end
    | BRaw, VBRaw bs => Some (WRaw bs)
    | _, _ => None
    end.

  Definition write (p : rplan) (v : rvalue) : option wire :=
    match client_pairs fmt_float fmt_time (rp_headers p) (rv_headers v), write_body (rp_body p) (rv_body v) with
    | Some hs, Some b =>
      Some {| w_status := match rp_status p with Some c => c | None => rv_code v end;
              w_headers := match rp_ctype p with Some ct => set_header hs content_type ct | None => hs end;
              w_body := b |}
    | _, _ => None
    end.

  (* ---- client: the status switch, then "ClientResponse" ---- *)
  Fixpoint find_status (c : Z) (i : nat) (ps : list rplan) : option (nat * rplan) :=
    match ps with
    | [] => None
    | p :: r => match rp_status p with
                | Some c' => if Z.eqb c c' then Some (i, p) else find_status c (S i) r
                | None => find_status c (S i) r
                end
    end.

  Fixpoint find_default (i : nat) (ps : list rplan) : option (nat * rplan) :=
    match ps with
    | [] => None
    | p :: r => match rp_status p with None => Some (i, p) | Some _ => find_default (S i) r end
    end.

  Definition select (ps : list rplan) (c : Z) : option (nat * rplan) :=
    match find_status c 0 ps with
    | Some r => Some r
    | None => find_default 0 ps
    end.

  Definition read_body (k : bkind) (b : wbody) : res bval :=
    match k with
    | BNone => Ok VBNone
    | BJson s => match b with
                 | WJson j => match dec parse_num pt s j with Ok v => Ok (VBJson v) | Err n => Err n | ErrOther => ErrOther end
                 | _ => ErrOther
                 end
    | BRaw => match b with WRaw bs => Ok (VBRaw bs) | WJson _ => ErrOther end
    end.

  Definition read (p : rplan) (w : wire) : res rvalue :=
    match parse_all pf pt (header_lookup (w_headers w)) (rp_headers p) with
    | Ok hs => match read_body (rp_body p) (w_body w) with
               | Ok b => Ok {| rv_code := match rp_status p with None => w_status w | Some _ => 0 end; rv_headers := hs; rv_body := b |}
               | Err n => Err n
               | ErrOther => ErrOther
               end
    | Err n => Err n
    | ErrOther => ErrOther
    end.

  (* the client's result: which documented response (its index in the
     operation's response list) and its value; an undocumented status without a
     default is an error *)
  Definition client_decode (ps : list rplan) (w : wire) : res (nat * rvalue) :=
    match select ps (w_status w) with
    | None => ErrOther
    | Some (i, p) => match read p w with
                     | Ok v => Ok (i, v)
                     | Err n => Err n
                     | ErrOther => ErrOther
                     end
    end.
End Response.
