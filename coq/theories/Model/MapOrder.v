(* C12: Go map iteration order as an adversarial schedule.  Every `range` over a
   map in the generator is one of a few kinds; for each kind the part of the
   result that can reach the output is a function of the map's CONTENT only. *)
From Coq Require Import String.
From Coq Require Import List Bool Arith Ascii NArith Lia Permutation.
Import ListNotations.
From Goag Require Import Base.Str Model.Router Model.Serve.

Inductive kind :=
| KSorted      (* keys collected, then sorted, then used in sorted order *)
| KIntoMap     (* entries copied into other maps (later read sorted or by key) *)
| KAtMostOne   (* the map is checked to have at most one entry before the loop *)
| KErrorOnly   (* the loop only builds the text of an error that aborts generation *)
| KDead.       (* unreachable function (confirmed by the deadcode tool on every run) *)

(* What a site hands on to the rest of the generator, for entries visited in
   the order [l] (the schedule).  A finite map is represented canonically by its
   entries sorted by key. *)
Definition site_out {A} (k : kind) (l : list (str * A)) : list (str * A) :=
  match k with
  | KSorted | KIntoMap => sort_by fst l
  | KAtMostOne => l
  | KErrorOnly | KDead => []
  end.

(* The hand-reviewed table: (package, function, operand : type, hash of the
   loop source) -> kind.  A new map range, or an edit to one of these loops,
   makes the regenerated inventory (Gen/MapSites.v) fall outside this table. *)
Local Open Scope string_scope.
Definition modelled_sites : list ((string * string * string * string) * kind) :=
  [ (("goag/specification", "GetSecurity", "sr : SecurityRequirement", "13ea5fd1"), KDead);
    (("goag/specification", "NewComponents", "spec.Parameters : ParametersMap", "01e76cf8"), KIntoMap);
    (("goag/specification", "NewSchema", "required : map[string]struct{}", "9d46b06c"), KErrorOnly);
    (("goag/specification", "NewSchema", "schema.ExtensionProps.Extensions : map[string]interface{}", "f159cebc"), KIntoMap);
    (("goag/specification", "NewSecurityRequirements", "sr : SecurityRequirement", "90c28e7b"), KAtMostOne);
    (("goag/specification", "sortedKeys", "m : map[string]T", "af6a6e8b"), KSorted);
    (("goag", "Generator.Generate", "s.Variables : map[string]*ServerVariable", "3b5ce473"), KSorted) ].

(* other sources of nondeterminism that are accounted for:
   os.ReadDir (GenerateDir: entries are returned sorted by filename),
   os.Getenv("TEMPLATE_DEBUG") (an input of the run, not a schedule),
   maps.Keys in NewMapPrefix (followed by sort.Strings) *)
Definition accounted_other : list (string * string * string) :=
  [ ("goag", "Generator.GenerateDir", "os.ReadDir");
    ("goag/generator", "ExecuteTemplate", "os.Getenv");
    ("goag/specification", "NewMapPrefix", "golang.org/x/exp/maps.Keys") ].

Definition site_eqb (a b : string * string * string * string) : bool :=
  let '(a1, a2, a3, a4) := a in let '(b1, b2, b3, b4) := b in
  String.eqb a1 b1 && String.eqb a2 b2 && String.eqb a3 b3 && String.eqb a4 b4.

Definition other_eqb (a b : string * string * string) : bool :=
  let '(a1, a2, a3) := a in let '(b1, b2, b3) := b in
  String.eqb a1 b1 && String.eqb a2 b2 && String.eqb a3 b3.

Definition all_sites_modelled (observed : list (string * string * string * string)) : bool :=
  forallb (fun o => existsb (fun m => site_eqb o (fst m)) modelled_sites) observed.

Definition no_other_sources (observed : list (string * string * string)) : bool :=
  forallb (fun o => existsb (other_eqb o) accounted_other) observed.
