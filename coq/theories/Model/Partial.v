(* Go's partial operations as they occur in the code the generator emits for
   the server side (slicing, indexing, calling a func value, storing into a
   map), with an explicit Panic outcome; and, for every guard shape the C14
   translator (harness/cmd/vh/panicsites.go) recognises around such a site, the
   program fragment of that shape. *)
From Coq Require Import String.
From Coq Require Import List Bool Arith Ascii.
Import ListNotations.
From Goag Require Import Base.Str.

Inductive go (A : Type) :=
| Val (a : A)
| Panic.
Arguments Val {A} a.
Arguments Panic {A}.

Definition slice_from {A} (l : list A) (n : nat) : go (list A) :=
  if n <=? length l then Val (skipn n l) else Panic.                 (* l[n:] *)
Definition slice_to {A} (l : list A) (n : nat) : go (list A) :=
  if n <=? length l then Val (firstn n l) else Panic.                (* l[:n] *)
Definition index {A} (l : list A) (n : nat) : go A :=
  match nth_error l n with Some x => Val x | None => Panic end.       (* l[n] *)
Definition call_fn {A B} (f : option (A -> B)) (a : A) : go B :=
  match f with Some g => Val (g a) | None => Panic end.               (* f(a), f possibly nil *)
Definition map_store {K V} (m : option (list (K * V))) (k : K) (v : V) : go (option (list (K * V))) :=
  match m with Some l => Val (Some ((k, v) :: l)) | None => Panic end. (* m[k] = v, m possibly nil *)

(* strings.Index(s, "/") *)
Fixpoint index_of (c : ascii) (s : str) : option nat :=
  match s with
  | [] => None
  | x :: r => if ascii_eqb x c then Some 0 else option_map S (index_of c r)
  end.

Definition both {A B} (a : go A) (b : go B) : go (A * B) :=
  match a, b with Val x, Val y => Val (x, y) | _, _ => Panic end.

Fixpoint all_ok {A} (l : list (go A)) : bool :=
  match l with [] => true | Val _ :: r => all_ok r | Panic :: _ => false end.

(* ---- the fragments, one per guard class ---- *)

(* if !strings.HasPrefix(x, P) { return }; x = x[len(P):] *)
Definition prefix_slice (p x : str) : go str :=
  if has_prefix p x then slice_from x (length p) else Val x.

(* idx := strings.Index(p, "/"); if idx == -1 { idx = len(p) }; v := p[:idx]; p = p[idx:] *)
Definition index_or_len (p : str) : go (str * str) :=
  let idx := match index_of slash p with Some i => i | None => length p end in
  both (slice_to p idx) (slice_from p idx).

(* splitPath: if !HasPrefix(s, "/") { return }; idx := strings.Index(s[1:], "/"); if idx == -1 { return }; s[:idx+1], s[idx+1:] *)
Definition index_after_first (s : str) : go (str * str) :=
  if has_prefix [slash] s then
    match slice_from s 1 with
    | Panic => Panic
    | Val t => match index_of slash t with
               | None => Val (s, [])
               | Some i => both (slice_to s (i + 1)) (slice_from s (i + 1))
               end
    end
  else Val (s, []).

(* if len(x) == 1 { x[0] } / if len(x) > 0 { x[0] } / if len(x) == 0 { return }; x[0] *)
Definition len_checked_eq1 {A} (l : list A) (d : A) : go A := if length l =? 1 then index l 0 else Val d.
Definition len_checked_pos {A} (l : list A) (d : A) : go A := if 0 <? length l then index l 0 else Val d.
Definition len_checked_ret {A} (l : list A) (d : A) : go A := if length l =? 0 then Val d else index l 0.

(* for i := range b { b[i] } *)
Definition range_index {A} (b : list A) : list (go A) := map (index b) (seq 0 (length b)).
(* a := make([]T, len(b)); for i := range b { a[i] } *)
Definition range_index_made {A B} (b : list B) (zero : A) : list (go A) :=
  let a := repeat zero (length b) in map (index a) (seq 0 (length b)).
(* for i := len(l) - 1; i >= 0; i-- { l[i] } *)
Definition count_down {A} (l : list A) : list (go A) := map (index l) (rev (seq 0 (length l))).

(* if len(m) > 0 { c.AP = make(...) }; for k, v := range m { c.AP[k] = v } *)
Definition map_made_when_nonempty {K V} (src : list (K * V)) : go (option (list (K * V))) :=
  let m0 : option (list (K * V)) := if 0 <? length src then Some [] else None in
  fold_left (fun acc kv => match acc with
                           | Val m => map_store m (fst kv) (snd kv)
                           | Panic => Panic
                           end) src (Val m0).

(* if f == nil { return }; f(a)   (also: if f != nil { f(a) }) *)
Definition nil_checked {A B} (f : option (A -> B)) (a : A) (d : B) : go B :=
  match f with None => Val d | Some _ => call_fn f a end.

(* if h == nil { h = rt.NotFoundHandler; if h == nil { h = http.NotFoundHandler() } }; h.ServeHTTP(..) *)
Definition defaulted_when_nil {A B} (h nf : option (A -> B)) (dflt : A -> B) (a : A) : go B :=
  let h1 := match h with Some _ => h | None => match nf with Some _ => nf | None => Some dflt end end in
  call_fn h1 a.

(* write := func(..){..}; write(x) *)
Definition local_closure {A B} (g : A -> B) (a : A) : go B := call_fn (Some g) a.

(* ---- the classes the translator reports ---- *)
Inductive guard_class :=
| GPrefixSlice | GIndexOrLen | GIndexAfterFirst | GLenChecked | GMadeOfOne
| GRangeIndex | GRangeIndexMade | GCountDown | GCountUp
| GMapMade | GMapMadeWhenNonEmpty
| GNilChecked | GDefaultedWhenNil | GLocalClosure
(* non-nil by the property's preconditions: *)
| GCallerSupplied          (* a parameter, the receiver of a method on a func type, a package-level hook (LogError) *)
| GCallerSuppliedElement   (* an element of API.Middlewares *)
| GRequestBody             (* r.Body of a server request (net/http: always non-nil) *)
| GHandlerSupplied         (* the Body reader of a response value returned by the handler *)
| GUnguarded.

Definition discharged (c : guard_class) : bool :=
  match c with GUnguarded => false | _ => true end.

Definition all_sites_discharged (l : list (guard_class * nat)) : bool :=
  forallb (fun cn => discharged (fst cn)) l.
