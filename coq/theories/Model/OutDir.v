(* Model of goag.Generator.Generate's handling of the output directory
   (goag.go, func Generate): which goag-owned files are written or removed,
   in the order the code does it.  Definitions only; proofs are in
   Proofs/OutDirProofs.v. *)
From Coq Require Import List Bool Arith.
Import ListNotations.

(* File names.  The five goag-owned names are constructors; every other name
   in the directory is [Other n]. *)
Inductive fname :=
| Components | Handler | Router | SpecFile | Client
| Other (n : nat).

Definition fname_eqb (a b : fname) : bool :=
  match a, b with
  | Components, Components | Handler, Handler | Router, Router
  | SpecFile, SpecFile | Client, Client => true
  | Other n, Other m => Nat.eqb n m
  | _, _ => false
  end.

Definition owned (f : fname) : bool :=
  match f with Other _ => false | _ => true end.

Definition owned_names : list fname := [Components; Handler; Router; SpecFile; Client].

(* An invocation: the spec (identified by [spec_id]; [has_components] is
   gen.Components.LenToRender() > 0 for it) and the two flags. *)
Record inv := { spec_id : nat; has_components : bool; gen_client : bool; gen_api : bool }.

(* File contents: what invocation [i] renders for file [f] (opaque: the text is
   a function of the invocation and the file), or a user's file. *)
Inductive content :=
| Gen (i : inv) (f : fname)
| User (n : nat).

Definition dir := fname -> option content.

Definition empty_dir : dir := fun _ => None.

(* os.OpenFile(O_CREATE|O_TRUNC) + Write: the whole content is replaced. *)
Definition write (d : dir) (f : fname) (c : content) : dir :=
  fun g => if fname_eqb g f then Some c else d g.

(* os.Remove, with IsNotExist ignored. *)
Definition remove (d : dir) (f : fname) : dir :=
  fun g => if fname_eqb g f then None else d g.

(* goag.go Generate, statement by statement. *)
Definition run (d : dir) (i : inv) : dir :=
  let d1 := if has_components i
            then write d Components (Gen i Components)
            else remove d Components in
  let d2 := if gen_api i
            then write (write (write d1 Handler (Gen i Handler))
                                     Router (Gen i Router))
                              SpecFile (Gen i SpecFile)
            else remove (remove (remove d1 Handler) Router) SpecFile in
  let d3 := remove d2 Client in
  if gen_client i then write d3 Client (Gen i Client) else d3.

Definition run_history (d0 : dir) (h : list inv) : dir := fold_left run h d0.

(* Declarative side: what a single run of [i] into an empty directory calls
   for.  Written independently of [run]. *)
Definition wanted (i : inv) (f : fname) : bool :=
  match f with
  | Components => has_components i
  | Handler | Router | SpecFile => gen_api i
  | Client => gen_client i
  | Other _ => false
  end.

Definition spec_dir (i : inv) : dir :=
  fun f => if wanted i f then Some (Gen i f) else None.

(* Observation used by the correspondence check: the state of the five owned
   files and of the user files 0..k-1. *)
Definition observe (k : nat) (d : dir) : list (option content) :=
  map d (owned_names ++ map Other (seq 0 k)).
