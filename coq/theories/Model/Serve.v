(* Router-level spec syntax, the generator's NewRouter (what it hands to the
   templates), and API.ServeHTTP as a trace of events.  Used by C03, C11, C13
   (served half), C16, C17. *)
From Coq Require Import String.
From Coq Require Import List Bool Arith Ascii NArith Lia.
Import ListNotations.
From Goag Require Import Base.Str Model.Router.

(* ------------------------------------------------------------------ *)
(* sorting strings bytewise (sort.Strings)                              *)

Fixpoint str_ltb (a b : str) : bool :=
  match a, b with
  | [], [] => false
  | [], _ :: _ => true
  | _ :: _, [] => false
  | x :: a', y :: b' =>
    if (N_of_ascii x <? N_of_ascii y)%N then true
    else if (N_of_ascii y <? N_of_ascii x)%N then false
    else str_ltb a' b'
  end.

Fixpoint insert_by {A} (key : A -> str) (x : A) (l : list A) : list A :=
  match l with
  | [] => [x]
  | y :: r => if str_ltb (key x) (key y) then x :: l else y :: insert_by key x r
  end.

Definition sort_by {A} (key : A -> str) (l : list A) : list A :=
  fold_right (insert_by key) [] l.

(* ------------------------------------------------------------------ *)
(* http.CanonicalHeaderKey (textproto.CanonicalMIMEHeaderKey), ASCII     *)

Definition is_upper (c : ascii) : bool := let n := N_of_ascii c in (65 <=? n)%N && (n <=? 90)%N.
Definition is_lower (c : ascii) : bool := let n := N_of_ascii c in (97 <=? n)%N && (n <=? 122)%N.
Definition is_digit (c : ascii) : bool := let n := N_of_ascii c in (48 <=? n)%N && (n <=? 57)%N.
Definition to_upper (c : ascii) : ascii := if is_lower c then ascii_of_N (N_of_ascii c - 32) else c.
Definition to_lower (c : ascii) : ascii := if is_upper c then ascii_of_N (N_of_ascii c + 32) else c.

(* token characters of RFC 7230 (validHeaderFieldByte) *)
Definition is_token_char (c : ascii) : bool :=
  is_upper c || is_lower c || is_digit c ||
  existsb (ascii_eqb c) (S_ "!#$%&'*+-.^_`|~").

Fixpoint canon_go (up : bool) (s : str) : str :=
  match s with
  | [] => []
  | c :: r => (if up then to_upper c else to_lower c) :: canon_go (ascii_eqb c "-"%char) r
  end.

Definition canon_key (s : str) : str :=
  if forallb is_token_char s then canon_go true s else s.

(* ------------------------------------------------------------------ *)
(* router-level spec                                                    *)

Inductive scheme_kind :=
| KBearer
| KKeyHeader (name : str)
| KKeyQuery (name : str)
| KUnsupported.

(* one requirement object: the scheme names it lists (a conjunction) *)
Definition requirement := list str.

Record rop := {
  r_method : str;
  r_security : option (list requirement);   (* None: inherit the global list *)
  r_headers : list str;                     (* header parameter names, operation level *)
}.

Record rpath := {
  p_raw : str;
  p_headers : list str;                     (* header parameter names, path-item level *)
  p_ops : list rop;
}.

Record rspec := {
  s_flag_base : str;                 (* --basepath *)
  s_server_path : option str;        (* url.Parse(servers[0].url with defaults).Path *)
  s_paths : list rpath;
  s_schemes : list (str * scheme_kind);
  s_global : option (list requirement);
  s_cors : bool;
  s_spec_name : str;
}.

(* goag.go Generate: flag, else the server URL's path; trailing slashes are
   trimmed (strings.TrimRight(basePath, "/")). *)
Fixpoint trim_right_slash_rev (r : str) : str :=
  match r with
  | c :: r' => if ascii_eqb c slash then trim_right_slash_rev r' else r
  | [] => []
  end.
Definition trim_right_slash (s : str) : str := rev (trim_right_slash_rev (rev s)).

Definition gen_base (s : rspec) : str :=
  trim_right_slash
    (match s_flag_base s with
     | [] => match s_server_path s with Some p => p | None => [] end
     | f => f
     end).

(* the nine methods in the order of specification.httpMethods() *)
Definition http_methods : list str :=
  map S_ ["GET"; "POST"; "PATCH"; "PUT"; "DELETE"; "CONNECT"; "HEAD"; "OPTIONS"; "TRACE"]%string.

Fixpoint lookup {A} (k : str) (l : list (str * A)) : option A :=
  match l with
  | [] => None
  | (k', v) :: r => if str_eqb k' k then Some v else lookup k r
  end.

(* specification.NewSecurityRequirements / NewSecurityRequirement reject (with an
   error) a requirement object that lists several schemes, an undeclared
   scheme, or a scheme kind without a generated authenticator.  The global list
   is parsed even when every operation overrides it. *)
Definition kind_supported (k : scheme_kind) : bool :=
  match k with KUnsupported => false | _ => true end.

Definition alt_supported (schemes : list (str * scheme_kind)) (alt : requirement) : bool :=
  match alt with
  | [n] => match lookup n schemes with Some k => kind_supported k | None => false end
  | _ => false
  end.

Definition reqs_supported (schemes : list (str * scheme_kind)) (o : option (list requirement)) : bool :=
  match o with Some l => forallb (alt_supported schemes) l | None => true end.

Definition gen_accepts (s : rspec) : bool :=
  reqs_supported (s_schemes s) (s_global s) &&
  forallb (fun p => forallb (fun o => reqs_supported (s_schemes s) (r_security o)) (p_ops p)) (s_paths s).

(* specification.NewSecurityRequirements: each requirement object keeps ONE of
   its schemes (the first ranged key; for a one-scheme requirement that is the
   scheme).  The model keeps the first listed. *)
Definition first_scheme (r : requirement) : option str :=
  match r with n :: _ => Some n | [] => None end.

Definition effective_reqs (s : rspec) (o : rop) : list requirement :=
  match r_security o with
  | Some l => l
  | None => match s_global s with Some l => l | None => [] end
  end.

Definition kept_kinds (s : rspec) (o : rop) : list scheme_kind :=
  flat_map (fun r => match first_scheme r with
                     | Some n => match lookup n (s_schemes s) with Some k => [k] | None => [] end
                     | None => []
                     end) (effective_reqs s o).

Definition is_bearer (k : scheme_kind) : bool := match k with KBearer => true | _ => false end.

(* NewRouter: the arguments of authMiddlewareOr for an operation: the bearer
   hook if the OPERATION has a bearer requirement, then its api-key hooks in
   requirement order (header and query keys alike). *)
Definition gen_auth (s : rspec) (o : rop) : list authref :=
  let ks := kept_kinds s o in
  (if existsb is_bearer ks then [ABearer] else []) ++
  flat_map (fun k => match k with
                     | KKeyHeader n => [AKeyHeader n]
                     | KKeyQuery n => [AKeyQuery n]
                     | _ => []
                     end) ks.

Definition ops_sorted (p : rpath) : list rop :=
  flat_map (fun m => filter (fun o => str_eqb (r_method o) m) (p_ops p)) http_methods.

Definition dedup_add (seen : list str) (k : str) : list str :=
  if existsb (str_eqb k) seen then seen else seen ++ [k].

(* NewRouter's CORS accumulation for one path item *)
Definition gen_cors_headers (s : rspec) (p : rpath) : list str :=
  fold_left
    (fun acc o =>
       let acc1 := fold_left (fun a h => dedup_add a (canon_key h)) (p_headers p ++ r_headers o) acc in
       fold_left (fun a k => match k with
                             | KBearer => dedup_add a (S_ "Authorization")
                             | KKeyHeader n => dedup_add a (canon_key n)
                             | _ => a
                             end) (kept_kinds s o) acc1)
    (ops_sorted p) [].

Definition has_options (p : rpath) : bool :=
  existsb (fun o => str_eqb (r_method o) method_options) (p_ops p).

Fixpoint number_ops (n : nat) (s : rspec) (ops : list rop) : list opentry :=
  match ops with
  | [] => []
  | o :: r => {| o_method := r_method o; o_id := n; o_auth := gen_auth s o |} :: number_ops (S n) s r
  end.

Definition gen_item (s : rspec) (p : rpath) : item :=
  {| i_raw := p_raw p;
     i_ops := number_ops 0 s (ops_sorted p);
     i_cors := if s_cors s && negb (has_options p) && negb (is_nil (ops_sorted p))
               then Some (map r_method (ops_sorted p), gen_cors_headers s p)
               else None |}.

Definition gen_templates (s : rspec) : list (tmpl * item) :=
  map (fun p => (tmpl_of_raw (p_raw p), gen_item s p)) (sort_by p_raw (s_paths s)).

Definition gen_tree (s : rspec) : node := build (gen_templates s).

(* Which Security* hook fields the API struct has, in declaration order:
   SecurityBearerAuth (if any operation keeps a bearer requirement), then one
   per apiKey-in-header scheme, then one per apiKey-in-query scheme (schemes in
   sorted name order). *)
Definition uses_bearer (s : rspec) : bool :=
  existsb (fun p => existsb (fun o => existsb is_bearer (kept_kinds s o)) (p_ops p)) (s_paths s).

Definition hook_fields (s : rspec) : list authref :=
  (if uses_bearer s then [ABearer] else []) ++
  flat_map (fun nk => match snd nk with KKeyHeader n => [AKeyHeader n] | _ => [] end) (sort_by fst (s_schemes s)) ++
  flat_map (fun nk => match snd nk with KKeyQuery n => [AKeyQuery n] | _ => [] end) (sort_by fst (s_schemes s)).

Definition authref_eqb (a b : authref) : bool :=
  match a, b with
  | ABearer, ABearer => true
  | AKeyHeader x, AKeyHeader y => str_eqb x y
  | AKeyQuery x, AKeyQuery y => str_eqb x y
  | _, _ => false
  end.

Fixpoint index_of (a : authref) (l : list authref) (n : nat) : option nat :=
  match l with
  | [] => None
  | x :: r => if authref_eqb x a then Some n else index_of a r (S n)
  end.

(* ------------------------------------------------------------------ *)
(* requests, API configuration, events                                  *)

Record request := {
  q_method : str;
  q_path : str;                       (* r.URL.Path *)
  q_query : list (str * str);         (* r.URL.Query(), in order of appearance *)
  q_headers : list (str * str);       (* as added: (name, value); lookups canonicalise *)
}.

Inductive policy :=
| PNil                 (* hook field left nil *)
| PNone                (* installed, rejects everything *)
| PAny                 (* installed, accepts everything *)
| PAccept (tok : str). (* installed, accepts exactly this token *)

Record api_cfg := {
  c_mw : nat;
  c_nf : bool;
  c_sf : bool;
  c_cors : bool;
  c_hooks : list policy;   (* by hook field index; missing entries: c_dflt *)
  c_dflt : policy;
}.

Inductive event :=
| Enter (i : nat) (schema_path : str)
| Leave (i : nat)
| Auth (hook : nat) (tok : str) (ok : bool)
| HandlerEv (m : str) (raw : str) (tag : option nat)  (* tag: which hook's request it received *)
| NotFoundEv
| SpecFileEv
| CorsEv (methods headers : list str).

Definition header_values (rq : request) (name : str) : list str :=
  let k := canon_key name in
  flat_map (fun kv => if str_eqb (canon_key (fst kv)) k then [snd kv] else []) (q_headers rq).

Definition query_values (rq : request) (name : str) : list str :=
  flat_map (fun kv => if str_eqb (fst kv) name then [snd kv] else []) (q_query rq).

Definition trim_prefix (p s : str) : str :=
  if has_prefix p s then skipn (length p) s else s.

(* Security*Middleware.Auth: extract the credential (None: absent) *)
Definition credential (a : authref) (rq : request) : option str :=
  match a with
  | ABearer => match header_values rq (S_ "Authorization") with
               | v :: _ => Some (trim_prefix (S_ "Bearer ") v)
               | [] => None
               end
  | AKeyHeader n => match header_values rq n with v :: _ => Some v | [] => None end
  | AKeyQuery n => match query_values rq n with v :: _ => Some v | [] => None end
  end.

Definition hook_policy (cfg : api_cfg) (i : nat) : policy := nth i (c_hooks cfg) (c_dflt cfg).

Definition accepts (p : policy) (tok : str) : bool :=
  match p with
  | PAny => true
  | PAccept t => str_eqb t tok
  | _ => false
  end.

(* authMiddlewareOr(fns...) around the handler: the first hook that accepts
   wins; a nil hook and an absent credential both mean "not this one".
   Returns the events and whether the handler ran. *)
Fixpoint run_auth (fields : list authref) (cfg : api_cfg) (rq : request) (refs : list authref)
  : list event * option nat :=
  match refs with
  | [] => ([], None)
  | a :: rest =>
    match index_of a fields 0 with
    | None => run_auth fields cfg rq rest
    | Some i =>
      match hook_policy cfg i with
      | PNil => run_auth fields cfg rq rest
      | p =>
        match credential a rq with
        | None => run_auth fields cfg rq rest
        | Some tok =>
          if accepts p tok then ([Auth i tok true], Some i)
          else let (evs, r) := run_auth fields cfg rq rest in (Auth i tok false :: evs, r)
        end
      end
    end
  end.

Record outcome := { status : nat; trace : list event }.

Definition serve (s : rspec) (cfg : api_cfg) (rq : request) : outcome :=
  let bp := gen_base s in
  if c_sf cfg && str_eqb (q_path rq) (bp ++ slash :: s_spec_name s)
  then {| status := 200; trace := [SpecFileEv] |}
  else
    (* the route functions return a handler for a preflight entry whether or not
       a CORS handler is installed: the CORS handler, or the not-found handler
       (`return rt.notFound(), "", false`), so that the search stops there *)
    match route_root true bp (gen_tree s) (q_path rq) (q_method rq) with
    | None => {| status := 404; trace := if c_nf cfg then [NotFoundEv] else [] |}
    | Some (RCors it) =>
      match i_cors it with
      | Some (ms, hs) =>
        if c_cors cfg then {| status := 204; trace := [CorsEv ms hs] |}
        else {| status := 404; trace := if c_nf cfg then [NotFoundEv] else [] |}
      | None => {| status := 404; trace := [] |}
      end
    | Some (RHandler it op) =>
      let enters := map (fun i => Enter i (i_raw it)) (seq 0 (c_mw cfg)) in
      let leaves := rev (map Leave (seq 0 (c_mw cfg))) in
      match o_auth op with
      | [] => {| status := 200; trace := enters ++ [HandlerEv (o_method op) (i_raw it) None] ++ leaves |}
      | refs =>
        let (evs, r) := run_auth (hook_fields s) cfg rq refs in
        match r with
        | Some i => {| status := 200;
                       trace := enters ++ evs ++ [HandlerEv (o_method op) (i_raw it) (Some i)] ++ leaves |}
        | None => {| status := 401; trace := enters ++ evs ++ leaves |}
        end
      end
    end.
