(* Model of the generated router.
   - [add]/[build] transcribe generator/file_router.go Route.add / NewRouter's
     tree construction;
   - [route] transcribes template "Route" (generator/file_router.gotmpl) at
     STRING level: real HasPrefix, slicing and splitPath;
   - [rsegs] is the same function at segment level (used by the proofs);
   - [serve] transcribes API.ServeHTTP (spec-file early return, routing,
     not-found, middleware wrapping) as a trace of events. *)
From Coq Require Import String.
From Coq Require Import List Bool Arith Ascii Lia.
Import ListNotations.
From Goag Require Import Base.Str.

(* ------------------------------------------------------------------ *)
(* splitPath (template "Router")                                        *)

(* text before the first slash, and the remainder starting at that slash *)
Fixpoint until_slash (s : str) : str * str :=
  match s with
  | [] => ([], [])
  | c :: r => if ascii_eqb c slash then ([], s)
              else let (a, b) := until_slash r in (c :: a, b)
  end.

Definition splitPath (s : str) : str * str :=
  match s with
  | c :: r => if ascii_eqb c slash
              then let (a, b) := until_slash r in (slash :: a, b)
              else (s, [])
  | [] => ([], [])
  end.

(* ------------------------------------------------------------------ *)
(* What a path item carries in the router                               *)

(* the arguments of authMiddlewareOr(...) for one operation, in order *)
Inductive authref :=
| ABearer
| AKeyHeader (name : str)
| AKeyQuery (name : str).

Record opentry := {
  o_method : str;          (* "GET", "POST", ... as compared by `switch method` *)
  o_id : nat;              (* which handler field of API *)
  o_auth : list authref;   (* empty: no auth wrapper is emitted *)
}.

Record item := {
  i_raw : str;                              (* PathSpec reported to middlewares *)
  i_ops : list opentry;
  i_cors : option (list str * list str);    (* synthetic OPTIONS entry: methods, headers *)
}.

Inductive res :=
| RHandler (it : item) (op : opentry)   (* h, PathSpec, hasPath = true *)
| RCors (it : item).                    (* CORSHandler(methods, headers), "", false *)

Definition method_options : str := S_ "OPTIONS".

Fixpoint find_op (m : str) (ops : list opentry) : option opentry :=
  match ops with
  | [] => None
  | o :: r => if str_eqb (o_method o) m then Some o else find_op m r
  end.

(* `switch method { case ...: return ... }` of one leaf path item.
   None            : no case matched, execution falls out of the switch
   Some None       : `return nil, "", false` (CORS entry with a nil CORSHandler)
   Some (Some r)   : a handler is returned *)
Definition leaf_lookup (cors_installed : bool) (it : item) (m : str) : option (option res) :=
  match find_op m (i_ops it) with
  | Some o => Some (Some (RHandler it o))
  | None =>
    match i_cors it with
    | Some _ => if str_eqb m method_options
                then (if cors_installed then Some (Some (RCors it)) else Some None)
                else None
    | None => None
    end
  end.

(* ------------------------------------------------------------------ *)
(* The route tree                                                       *)

Inductive node :=
| Node (statics : list (str * item))     (* PrefixPathItems, keyed by the segment text *)
       (var : option item)               (* Variable *)
       (kids : list (str * node))        (* Routes, keyed by the segment text *)
       (vkid : option node).             (* VariableRoute *)

Definition empty_node : node := Node [] None [] None.

Fixpoint find_static (k : str) (l : list (str * item)) : option item :=
  match l with
  | [] => None
  | (k', it) :: r => if str_eqb k' k then Some it else find_static k r
  end.

Definition is_nil {A} (l : list A) : bool := match l with [] => true | _ => false end.
Definition is_some {A} (o : option A) : bool := match o with Some _ => true | None => false end.

(* prefix = "/" ++ key ? *)
Definition prefix_is (prefix key : str) : bool := str_eqb prefix (slash :: key).

Fixpoint find_static_p (prefix : str) (l : list (str * item)) : option item :=
  match l with
  | [] => None
  | (k', it) :: r => if prefix_is prefix k' then Some it else find_static_p prefix r
  end.

(* the body of `if path == "" { ... return nil, "", false }` *)
Definition leaf_block (cors : bool) (statics : list (str * item)) (var : option item)
           (prefix m : str) : option res :=
  let var_part :=
    match var with
    | Some it => match leaf_lookup cors it m with Some r => r | None => None end
    | None => None
    end in
  match find_static_p prefix statics with
  | Some it => match leaf_lookup cors it m with Some r => r | None => var_part end
  | None => var_part
  end.

(* Template "Route", one generated function per node.  The guard
   `if !strings.HasPrefix(path, "/") { return nil, "", false }` is the first
   statement of every route function. *)
Fixpoint route (cors : bool) (n : node) (path m : str) {struct n} : option res :=
  match n with
  | Node statics var kids vkid =>
    if negb (has_prefix [slash] path) then None else
    let (prefix, rest) := splitPath path in
    if (negb (is_nil statics) || is_some var) && is_nil rest
    then leaf_block cors statics var prefix m
    else
      let fix go (ks : list (str * node)) : option (option res) :=
        match ks with
        | [] => None
        | (k, c) :: ks' => if prefix_is prefix k then Some (route cors c rest m) else go ks'
        end in
      match go kids with
      | Some r =>
        match vkid with
        | Some v => match r with Some x => Some x | None => route cors v rest m end
        | None => r
        end
      | None =>
        match vkid with
        | Some v => route cors v rest m
        | None => None
        end
      end
  end.

(* The root function with its base-path prologue:
     if !strings.HasPrefix(path, BasePath) { return nil }
     path = path[len(BasePath):]
   (emitted only when BasePath is non-empty; with an empty base path it is the
   identity, which is what HasPrefix/slicing by "" do). *)
Definition route_root (cors : bool) (bp : str) (n : node) (path m : str) : option res :=
  if has_prefix bp path then route cors n (skipn (length bp) path) m else None.

(* ------------------------------------------------------------------ *)
(* Segment level                                                        *)

Definition enc (segs : list str) : str := flat_map (fun s => slash :: s) segs.

Fixpoint rsegs (cors : bool) (n : node) (segs : list str) (m : str) {struct n} : option res :=
  match n with
  | Node statics var kids vkid =>
    match segs with
    | [] => None
    | s :: rest =>
      if (negb (is_nil statics) || is_some var) && is_nil rest
      then leaf_block cors statics var (slash :: s) m
      else
        let fix go (ks : list (str * node)) : option (option res) :=
          match ks with
          | [] => None
          | (k, c) :: ks' => if str_eqb s k then Some (rsegs cors c rest m) else go ks'
          end in
        match go kids with
        | Some r =>
          match vkid with
          | Some v => match r with Some x => Some x | None => rsegs cors v rest m end
          | None => r
          end
        | None =>
          match vkid with
          | Some v => rsegs cors v rest m
          | None => None
          end
        end
    end
  end.

(* ------------------------------------------------------------------ *)
(* Building the tree (file_router.go Route.add)                         *)

(* a template segment: a literal, or a variable (its name plays no part in
   routing; path-parameter parsing re-derives it from the raw template) *)
Inductive seg := Lit (s : str) | Var.
Definition tmpl := list seg.

Fixpoint add (n : node) (t : tmpl) (it : item) {struct t} : node :=
  match n with
  | Node statics var kids vkid =>
    match t with
    | [] => n
    | [Var] => Node statics (Some it) kids vkid
    | [Lit d] => Node (statics ++ [(d, it)]) var kids vkid
    | Var :: t' =>
      Node statics var kids
           (Some (add (match vkid with Some v => v | None => empty_node end) t' it))
    | Lit d :: t' =>
      let fix ins (ks : list (str * node)) : list (str * node) :=
        match ks with
        | [] => [(d, add empty_node t' it)]
        | (k, c) :: ks' => if str_eqb k d then (k, add c t' it) :: ks' else (k, c) :: ins ks'
        end in
      Node statics var (ins kids) vkid
    end
  end.

Definition build (ts : list (tmpl * item)) : node :=
  fold_left (fun n ti => add n (fst ti) (snd ti)) ts empty_node.

(* strings.Split(strings.TrimPrefix(raw, "/"), "/") and the {..} test *)
Fixpoint split_slash (s : str) : list str :=
  match s with
  | [] => [[]]
  | c :: r => if ascii_eqb c slash then [] :: split_slash r
              else match split_slash r with
                   | h :: t => (c :: h) :: t
                   | [] => [[c]]
                   end
  end.

Definition lbrace : ascii := "{"%char.
Definition rbrace : ascii := "}"%char.

Definition seg_of_dir (d : str) : seg :=
  match d with
  | c :: r => if ascii_eqb c lbrace && ascii_eqb (last d " "%char) rbrace
              then Var else Lit d
  | [] => Lit []
  end.

Definition tmpl_of_raw (raw : str) : tmpl :=
  map seg_of_dir (split_slash (match raw with
                               | c :: r => if ascii_eqb c slash then r else raw
                               | [] => []
                               end)).

