(* C01, layer 2: template holes are lexically inert.
   - [lex]: the Go lexer state machine the translator `vh holes` runs over the
     literal text of the templates (code / interpreted string / raw string /
     rune / line comment / block comment);
   - [comment]: transcription of generator/template.go commentFunc, the one
     sanitizer the templates apply to free text;
   - [hole_ok]: the reviewed classification of the holes the translator
     observes (Gen/HoleSites.v, regenerated from /repo on every run). *)
From Coq Require Import String.
From Coq Require Import List Bool Arith Ascii.
Import ListNotations.
From Goag Require Import Base.Str Model.GoLit Gen.HoleSites.

(* ------------------------------------------------------------------ *)
(* the lexer state machine (harness/cmd/vh/holes.go lexState.feed)       *)

Inductive lstate := LCode | LStr | LStrEsc | LRaw | LRune | LRuneEsc | LLine | LBlock (star : bool).

Definition sq : ascii := "'"%char.
Definition star_c : ascii := "*"%char.

(* one byte; [prev] is the previous byte of literal text (None at the start or
   right after a hole) *)
Definition lex1 (st : lstate) (prev : option ascii) (c : ascii) : lstate * option ascii :=
  match st with
  | LCode =>
    if ascii_eqb c dq then (LStr, Some c)
    else if ascii_eqb c bq then (LRaw, Some c)
    else if ascii_eqb c sq then (LRune, Some c)
    else match prev with
         | Some p =>
           if ascii_eqb p slash && ascii_eqb c slash then (LLine, Some c)
           else if ascii_eqb p slash && ascii_eqb c star_c then (LBlock false, None)
           else (LCode, Some c)
         | None => (LCode, Some c)
         end
  | LStr =>
    if ascii_eqb c bsl then (LStrEsc, Some c)
    else if ascii_eqb c dq || ascii_eqb c lf then (LCode, Some c)
    else (LStr, Some c)
  | LStrEsc => (LStr, Some c)
  | LRaw => if ascii_eqb c bq then (LCode, Some c) else (LRaw, Some c)
  | LRune =>
    if ascii_eqb c bsl then (LRuneEsc, Some c)
    else if ascii_eqb c sq || ascii_eqb c lf then (LCode, Some c)
    else (LRune, Some c)
  | LRuneEsc => (LRune, Some c)
  | LLine => if ascii_eqb c lf then (LCode, Some c) else (LLine, Some c)
  | LBlock st' =>
    if ascii_eqb c slash && st' then (LCode, Some c)
    else (LBlock (ascii_eqb c star_c), Some c)
  end.

Fixpoint lex (st : lstate) (prev : option ascii) (s : str) : lstate * option ascii :=
  match s with
  | [] => (st, prev)
  | c :: r => let '(st', p') := lex1 st prev c in lex st' p' r
  end.

Definition ctx_of (st : lstate) : hole_ctx :=
  match st with
  | LCode => HCode
  | LStr | LStrEsc => HStr
  | LRaw => HRaw
  | LRune | LRuneEsc => HRune
  | LLine => HLineComment
  | LBlock _ => HBlockComment
  end.

(* ------------------------------------------------------------------ *)
(* generator/template.go commentFunc:
     strings.ReplaceAll(strings.TrimRight(s, "\n"), "\n", "\n// ")          *)

Fixpoint all_lf (s : str) : bool :=
  match s with [] => true | c :: r => ascii_eqb c lf && all_lf r end.

Fixpoint trim_right_lf (s : str) : str :=
  match s with
  | [] => []
  | c :: r => if all_lf (c :: r) then [] else c :: trim_right_lf r
  end.

Definition comment_cont : str := [lf; slash; slash; sp].

Definition comment (s : str) : str :=
  replace_bytes [(lf, comment_cont)] (trim_right_lf s).

(* ------------------------------------------------------------------ *)
(* what "inert" means                                                    *)

(* the lines of a text (split at LF) *)
Fixpoint lines_aux (s : str) (cur : str) : list str :=
  match s with
  | [] => [cur]
  | c :: r => if ascii_eqb c lf then cur :: lines_aux r [] else lines_aux r (cur ++ [c])
  end.
Definition lines (s : str) : list str := lines_aux s [].

Definition is_comment_line (l : str) : bool := has_prefix [slash; slash] l.

(* bytes that cannot end or escape inside an interpreted string literal, a raw
   string literal, a line comment *)
Definition str_safe (c : ascii) : bool := negb (ascii_eqb c dq || ascii_eqb c bsl || ascii_eqb c lf).
Definition raw_safe (c : ascii) : bool := negb (ascii_eqb c bq).
Definition line_safe (c : ascii) : bool := negb (ascii_eqb c lf).

(* the name-like data of the dialect (DESIGN section 3): parameter names, JSON
   tags, header names, status keys, media types, path templates, base paths,
   file names: letters, digits and  _ . - / { } + * ; = space *)
Definition name_char (c : ascii) : bool :=
  let n := nat_of_ascii c in
  ((48 <=? n) && (n <=? 57)) || ((65 <=? n) && (n <=? 90)) || ((97 <=? n) && (n <=? 122)) ||
  existsb (ascii_eqb c) (S_ "_.-/{}+*;= ").

(* ------------------------------------------------------------------ *)
(* the reviewed classification of observed holes                         *)

Local Open Scope string_scope.

Fixpoint prefix_s (p s : string) : bool :=
  match p, s with
  | EmptyString, _ => true
  | String a p', String b s' => Ascii.eqb a b && prefix_s p' s'
  | _, _ => false
  end.

Fixpoint contains_s (needle hay : string) : bool :=
  prefix_s needle hay ||
  match hay with
  | EmptyString => false
  | String _ h' => contains_s needle h'
  end.

(* fields of the render tree that carry free text of the document *)
Definition free_text_fields : list string := ["Description"; "Summary"; "Comment"].

Definition mentions_free_text (pipe : string) : bool :=
  existsb (fun f => contains_s f pipe) free_text_fields.

Definition in_s (x : string) (l : list string) : bool := existsb (String.eqb x) l.

(* name-like values written after `//` as they are *)
Definition comment_names : list string :=
  [".Name"; ".HTTPMethod"; ".PathRaw"; "$name"; "$handlerFunc"; ".FieldName"; "$h.BasePathPrefix";
   ".Prefix"; "$basePath"; ".RefJSONMethods"].

(* name-like values written between double quotes as they are *)
Definition str_names : list string :=
  [".BasePath"; "$pr.Prefix"; "$h.Name"; ".Key"; ".ComponentRefName"; ".ContentType"; ".Name"; ".JSONTag"; "$k";
   ".PathRaw"; ".ParameterName"; "$h.BasePathPrefix"; ".Prefix"; ".FullPath"; "$basePath"; "."; ".PathSpec";
   ".SpecFilename"; ".SpecFileExt"; "$api"; "$i.Value"].

(* between back quotes *)
Definition raw_names : list string := [".OneOfStructure.DiscriminatorPropertyKey.Value"].

Definition hole_ok (h : string * string * string * hole_ctx * string) : bool :=
  let '(_, _, pipe, ctx, fn) := h in
  match ctx with
  | HLineComment => String.eqb fn "comment" || (negb (mentions_free_text pipe) && in_s pipe comment_names)
  | HStr => negb (mentions_free_text pipe) && in_s pipe str_names
  | HRaw => negb (mentions_free_text pipe) && in_s pipe raw_names
  | HRune | HBlockComment => false
  | HCode | HIdent => negb (mentions_free_text pipe)
  end.

(* {{define}}s whose {{if}} branches leave the lexer in different states, reviewed one by one: each is
   an optional `// name - text` line ({{if .Description}}// ...{{end}} followed by a newline) *)
Definition unbalanced_reviewed : list string :=
  ["file_components.gotmpl:ResponseComponent:Code>LineComment";
   "file_components.gotmpl:ResponseComponentAlias:Code>LineComment";
   "file_handler.gotmpl:Handler:Code>LineComment";
   "go_file.gotmpl:GoFile:Code>LineComment"].

Definition all_holes_classified (hs : list (string * string * string * hole_ctx * string)) : bool :=
  forallb hole_ok hs.

Definition unbalanced_ok (us : list string) : bool := forallb (fun u => in_s u unbalanced_reviewed) us.
