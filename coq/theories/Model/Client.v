(* Model of the generated client's request building (template
   "ClientOperation": RenderFormat / RenderFormatStrings snippets,
   Path.StringBuilder, url.Values, Header.Set) and of what the server side then
   sees (net/http transport as oracles applied per value). *)
From Coq Require Import String.
From Coq Require Import List Bool Arith Ascii NArith ZArith Lia.
Import ListNotations.
From Goag Require Import Base.Str Model.Router Model.Serve Model.Params Model.Json Model.UrlEscape.

Section Client.
  Variable fmt_float : Z -> str -> str.   (* strconv.FormatFloat(v, 'e', -1, bits) of the canonical value *)
  Variable fmt_time : str -> str.         (* t.Format(time.RFC3339Nano) *)

  Definition format_bool (b : bool) : str := if b then S_ "true" else S_ "false".

  (* <primitive>.RenderFormat *)
  Definition format_scalar (p : prim) (v : pval) : option str :=
    match p, v with
    | PStr, VS s => Some s
    | PInt _, VI z => Some (z_to_str z)
    | PFloat b, VF r => Some (fmt_float b r)
    | PBool, VB b => Some (format_bool b)
    | PTime, VT r => Some (fmt_time r)
    | _, _ => None
    end.

  (* <schema>.RenderFormat: one value -> one text (not available for arrays) *)
  Fixpoint format_string (sc : sch) (v : pval) : option str :=
    match sc with
    | SPrim p => format_scalar p v
    | SNullable s' => match v with VP x => format_string s' x | _ => None end
    | SArr _ => None
    | SRef _ t => format_string t v
    end.

  (* <schema>.RenderFormatStrings: one value -> the texts put on the wire *)
  Fixpoint format_strings (sc : sch) (v : pval) : option (list str) :=
    match sc with
    | SPrim p => option_map (fun s => [s]) (format_scalar p v)
    | SNullable s' => match v with VP x => format_strings s' x | _ => None end
    | SArr it => match v with VL l => map_opt (format_string it) l | _ => None end
    | SRef _ t => format_strings t v
    end.

  (* what the client puts on the wire for one declared query/header parameter:
     nothing for an unset optional *)
  Definition client_values (d : pdecl) (f : field) : option (list str) :=
    match f with
    | FVal v => format_strings (d_sch d) v
    | FMaybe None => Some []
    | FMaybe (Some v) => format_strings (d_sch d) v
    end.

  Fixpoint client_pairs (ds : list pdecl) (fs : list field) : option (list (str * str)) :=
    match ds, fs with
    | [], [] => Some []
    | d :: ds', f :: fs' =>
      match client_values d f, client_pairs ds' fs' with
      | Some vs, Some r => Some (map (fun v => (d_name d, v)) vs ++ r)
      | _, _ => None
      end
    | _, _ => None
    end.

  (* the request path: literal segments and, for variables, the formatted value
     (the client PathEscapes it, URL.Path is the unescaped text: oracle, applied
     per segment; values are non-empty and slash-free, DESIGN section 11) *)
  Fixpoint client_segs (dirs : list (str * option sch)) (fs : list field) : option (list str) :=
    match dirs with
    | [] => match fs with [] => Some [] | _ => None end
    | (d, None) :: r => option_map (cons d) (client_segs r fs)
    | (_, Some sc) :: r =>
      match fs with
      | FVal v :: fs' =>
        match format_string sc v, client_segs r fs' with
        | Some s, Some segs => Some (s :: segs)
        | _, _ => None
        end
      | _ => None
      end
    end.

  (* the same walk keeping apart what is written as it is (literal
     directories) and what goes through url.PathEscape (values) *)
  Fixpoint client_psegs (dirs : list (str * option sch)) (fs : list field) : option (list pseg) :=
    match dirs with
    | [] => match fs with [] => Some [] | _ => None end
    | (d, None) :: r => option_map (cons (WLit d)) (client_psegs r fs)
    | (_, Some sc) :: r =>
      match fs with
      | FVal v :: fs' =>
        match format_string sc v, client_psegs r fs' with
        | Some s, Some segs => Some (WVal s :: segs)
        | _, _ => None
        end
      | _ => None
      end
    end.

  (* the URL the client puts on the wire (relative to the host) *)
  Definition client_wire (bp : str) (od : opdecl) (v : parsed) : option str :=
    match client_pairs (od_query od) (pq v), client_psegs (od_path od) (pp v) with
    | Some q, Some ps =>
      Some (wire_url bp ps (match od_query od with [] => false | _ => true end) q)
    | _, _ => None
    end.

  (* the request as the server's handler sees it *)
  Definition client_request (bp : str) (method : str) (od : opdecl) (v : parsed) : option request :=
    match client_pairs (od_query od) (pq v), client_pairs (od_header od) (ph v), client_segs (od_path od) (pp v) with
    | Some q, Some h, Some segs =>
      Some {| q_method := method; q_path := bp ++ Router.enc segs; q_query := q; q_headers := h |}
    | _, _, _ => None
    end.
End Client.
