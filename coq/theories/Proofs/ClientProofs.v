(* C09: what the generated client sends, the generated server parses back to
   the same values (unset optionals stay unset). *)
From Coq Require Import String.
From Coq Require Import List Bool Arith Ascii NArith ZArith Lia.
Import ListNotations.
From Goag Require Import Base.Str Model.Router Model.Serve Model.Params Model.Json Model.Client
     Spec.RouterSpec Spec.ParamSpec Proofs.RouterStrings Proofs.ParamsProofs Proofs.PathProofs Proofs.IntFormat.

Local Open Scope Z_scope.

Section Agree.
  Variable fmt_float : Z -> str -> str.
  Variable fmt_time : str -> str.
  Variable pf : Z -> str -> option str.
  Variable pt : str -> option str.
  (* stdlib round-trip premises *)
  Hypothesis float_rt : forall b r, pf b (fmt_float b r) = Some r.
  Hypothesis time_rt : forall r, pt (fmt_time r) = Some r.

  Notation FS := (format_string fmt_float fmt_time).
  Notation FSS := (format_strings fmt_float fmt_time).

  (* values a caller can express, within the domain of DESIGN section 11 *)
  Definition scalar_ok (p : prim) (v : pval) : Prop :=
    match p, v with
    | PStr, VS _ | PFloat _, VF _ | PBool, VB _ | PTime, VT _ => True
    | PInt b, VI z => (b = 0 \/ b = 32 \/ b = 64) /\ - 2 ^ (bit_size b - 1) <= z < 2 ^ (bit_size b - 1)
    | _, _ => False
    end.

  Fixpoint val_ok1 (sc : sch) (v : pval) : Prop :=
    match sc with
    | SPrim p => scalar_ok p v
    | SNullable s' => match v with VP x => val_ok1 s' x | _ => False end
    | SArr _ => False
    | SRef _ t => val_ok1 t v
    end.

  Fixpoint val_ok (sc : sch) (v : pval) : Prop :=
    match sc with
    | SPrim p => scalar_ok p v
    | SNullable s' => match v with VP x => val_ok s' x | _ => False end
    | SArr it => match v with VL l => l <> [] /\ Forall (val_ok1 it) l | _ => False end
    | SRef _ t => val_ok t v
    end.

  Lemma format_parse_scalar p v : scalar_ok p v ->
    exists s, format_scalar fmt_float fmt_time p v = Some s /\ parse_scalar pf pt p s = Some v.
  Proof.
    destruct p, v; simpl; intros H; try contradiction.
    - eauto.
    - destruct H as [Hb Hr]. eexists. split; [reflexivity|]. now rewrite int_format_roundtrip.
    - eexists. split; [reflexivity|]. now rewrite float_rt.
    - eexists. split; [reflexivity|]. destruct b; reflexivity.
    - eexists. split; [reflexivity|]. now rewrite time_rt.
  Qed.

  Lemma format_parse_string sc : forall v, val_ok1 sc v ->
    exists s, FS sc v = Some s /\ parse_string pf pt sc s = Some v.
  Proof.
    induction sc as [p | s' IH | it IH | n t IH]; intros v H; simpl in *.
    - now apply format_parse_scalar.
    - destruct v; try contradiction. destruct (IH v H) as (s & Hf & Hp). exists s. split; [assumption|]. now rewrite Hp.
    - contradiction.
    - now apply IH.
  Qed.

  Lemma format_parse_strings sc : forall v, val_ok sc v ->
    exists ss, FSS sc v = Some ss /\ ss <> [] /\ parse_strings pf pt sc ss = Some v.
  Proof.
    induction sc as [p | s' IH | it IH | n t IH]; intros v H; simpl in *.
    - destruct (format_parse_scalar p v H) as (s & Hf & Hp). exists [s]. rewrite Hf. simpl. split; [reflexivity|]. split; [discriminate|assumption].
    - destruct v; try contradiction. destruct (IH v H) as (ss & Hf & Hn & Hp). exists ss. split; [assumption|]. split; [assumption|]. now rewrite Hp.
    - destruct v as [| | | | | l |]; try contradiction. destruct H as [Hne Hall].
      assert (Hl : exists ss, map_opt (FS it) l = Some ss /\ length ss = length l /\ map_opt (parse_string pf pt it) ss = Some l).
      { clear Hne. induction l as [|x r IHl]; [exists []; auto|]. inversion Hall as [|? ? Hx Hr]; subst.
        destruct (format_parse_string it x Hx) as (s & Hf & Hp). destruct (IHl Hr) as (ss & Hfs & Hlen & Hps).
        exists (s :: ss). simpl. rewrite Hf, Hfs, Hp, Hps. auto. }
      destruct Hl as (ss & Hf & Hlen & Hp). exists ss. split; [assumption|]. split.
      + destruct ss; [destruct l; [congruence|discriminate]|discriminate].
      + now rewrite Hp.
    - now apply IH.
  Qed.

  (* one declared parameter *)
  Definition field_ok_c (d : pdecl) (f : field) : Prop :=
    match f with
    | FVal v => d_required d = true /\ val_ok (d_sch d) v
    | FMaybe None => d_required d = false
    | FMaybe (Some v) => d_required d = false /\ val_ok (d_sch d) v
    end.

  Lemma client_param_agrees d f :
    field_ok_c d f -> exists vs, client_values fmt_float fmt_time d f = Some vs /\ parse_param pf pt d vs = Ok f.
  Proof.
    destruct f as [v | [v|]]; simpl.
    - intros [Hr Hv]. destruct (format_parse_strings _ v Hv) as (ss & Hf & Hn & Hp). exists ss. split; [assumption|].
      unfold parse_param. destruct ss; [congruence|]. now rewrite Hp, Hr.
    - intros [Hr Hv]. destruct (format_parse_strings _ v Hv) as (ss & Hf & Hn & Hp). exists ss. split; [assumption|].
      unfold parse_param. destruct ss; [congruence|]. now rewrite Hp, Hr.
    - intros Hr. exists []. split; [reflexivity|]. unfold parse_param. now rewrite Hr.
  Qed.

  (* the received multimap gives each declared parameter back its own texts *)
  Definition lookup_pairs (eqk : str -> str -> bool) (l : list (str * str)) (name : str) : list str :=
    flat_map (fun kv => if eqk (fst kv) name then [snd kv] else []) l.

  Lemma lookup_pairs_app eqk a b n : lookup_pairs eqk (a ++ b) n = lookup_pairs eqk a n ++ lookup_pairs eqk b n.
  Proof. unfold lookup_pairs. apply flat_map_app. Qed.

  Lemma lookup_own eqk name vs : eqk name name = true ->
    lookup_pairs eqk (map (fun v => (name, v)) vs) name = vs.
  Proof. intros H. induction vs as [|v r IH]; simpl; [reflexivity|]. rewrite H. simpl. now rewrite IH. Qed.

  Lemma lookup_other eqk name other vs : eqk other name = false ->
    lookup_pairs eqk (map (fun v => (other, v)) vs) name = [].
  Proof. intros H. induction vs as [|v r IH]; simpl; [reflexivity|]. now rewrite H. Qed.

  (* all declared parameters of one location, given pairwise distinct names
     under the location's key comparison *)
  Lemma client_all_agree (eqk : str -> str -> bool) :
    (forall a, eqk a a = true) ->
    forall ds fs pairs,
      Forall2 field_ok_c ds fs ->
      (forall i j di dj, nth_error ds i = Some di -> nth_error ds j = Some dj -> i <> j -> eqk (d_name di) (d_name dj) = false) ->
      client_pairs fmt_float fmt_time ds fs = Some pairs ->
      forall extra, (forall d, In d ds -> lookup_pairs eqk extra (d_name d) = []) ->
      parse_all pf pt (lookup_pairs eqk (extra ++ pairs)) ds = Ok fs.
  Proof.
    intros Hrefl ds. induction ds as [|d ds IH]; intros fs pairs Hok Hdist Hcp extra Hextra.
    - inversion Hok; subst. reflexivity.
    - inversion Hok as [|? f ? fs' Hd Hr]; subst. simpl in Hcp.
      destruct (client_param_agrees d f Hd) as (vs & Hcv & Hpp). rewrite Hcv in Hcp.
      destruct (client_pairs fmt_float fmt_time ds fs') as [rest|] eqn:Er; [|discriminate]. injection Hcp as <-.
      cbn [parse_all].
      assert (Hget : lookup_pairs eqk (extra ++ map (fun v => (d_name d, v)) vs ++ rest) (d_name d) = vs).
      { rewrite !lookup_pairs_app, Hextra by (simpl; auto). rewrite lookup_own by apply Hrefl. simpl.
        assert (Hrest : lookup_pairs eqk rest (d_name d) = []).
        { clear -Er Hdist Hr. revert fs' rest Er Hdist Hr. induction ds as [|d2 ds2 IH2]; intros fs' rest Er Hdist Hr.
          - destruct fs'; [|discriminate]. now injection Er as <-.
          - destruct fs' as [|f2 fs2]; [discriminate|]. simpl in Er.
            destruct (client_values fmt_float fmt_time d2 f2) as [vs2|]; [|discriminate].
            destruct (client_pairs fmt_float fmt_time ds2 fs2) as [rest2|] eqn:E2; [|discriminate]. injection Er as <-.
            rewrite lookup_pairs_app. rewrite lookup_other.
            + simpl. inversion Hr; subst. eapply (IH2 fs2 rest2 E2); [|assumption].
              intros i j di dj Hi Hj Hne. destruct i as [|i], j as [|j]; try congruence.
              * apply (Hdist 0%nat (S (S j)) di dj); simpl; auto.
              * apply (Hdist (S (S i)) 0%nat di dj); simpl; auto.
              * apply (Hdist (S (S i)) (S (S j)) di dj); simpl; auto.
            + apply (Hdist 1%nat 0%nat d2 d); simpl; auto. }
        rewrite Hrest. apply app_nil_r. }
      rewrite Hget, Hpp.
      assert (Hdist' : forall i j di dj, nth_error ds i = Some di -> nth_error ds j = Some dj -> i <> j ->
                                        eqk (d_name di) (d_name dj) = false).
      { intros i j di dj Hi Hj Hne. apply (Hdist (S i) (S j) di dj); simpl; auto. }
      assert (Hextra' : forall d', In d' ds -> lookup_pairs eqk (extra ++ map (fun v => (d_name d, v)) vs) (d_name d') = []).
      { intros d' Hin. rewrite lookup_pairs_app, Hextra by (simpl; auto). simpl.
        destruct (In_nth_error _ _ Hin) as [j Hj].
        apply lookup_other. apply (Hdist 0%nat (S j) d d'); simpl; auto. }
      rewrite app_assoc. rewrite (IH fs' rest Hr Hdist' Er _ Hextra'). reflexivity.
  Qed.

  (* ---------------- path parameters ---------------- *)

  Definition path_val_ok (sc : sch) (v : pval) : Prop :=
    val_ok1 sc v /\ forall s, FS sc v = Some s -> s <> [] /\ noslash s.

  Fixpoint path_fields_ok (dirs : list (str * option sch)) (fs : list field) : Prop :=
    match dirs with
    | [] => fs = []
    | (d, None) :: r => noslash d /\ path_fields_ok r fs
    | (_, Some sc) :: r =>
      match fs with
      | FVal v :: fs' => path_val_ok sc v /\ path_fields_ok r fs'
      | _ => False
      end
    end.

  Lemma client_path_agrees dirs : forall fs segs pending,
    path_fields_ok dirs fs -> client_segs fmt_float fmt_time dirs fs = Some segs ->
    parse_path_elems pf pt (path_builder pending dirs) (pending ++ Router.enc segs) = Ok fs.
  Proof.
    induction dirs as [|[d o] dirs IH]; intros fs segs pending Hok Hc.
    - simpl in Hok. subst fs. simpl in Hc. injection Hc as <-. simpl. rewrite app_nil_r.
      destruct pending; [reflexivity|]. cbn [parse_path_elems].
      rewrite <- (app_nil_r (a :: pending)) at 2. rewrite has_prefix_app. reflexivity.
    - destruct o as [sc|]; simpl in Hok, Hc.
      + destruct fs as [|[v|] fs']; try contradiction. destruct Hok as [[Hv Hshape] Hok].
        destruct (FS sc v) as [s|] eqn:Ef; [|discriminate].
        destruct (client_segs fmt_float fmt_time dirs fs') as [segs'|] eqn:Es; [|discriminate]. injection Hc as <-.
        destruct (Hshape s eq_refl) as [Hne Hns].
        destruct (format_parse_string sc v Hv) as (s' & Hf' & Hp). rewrite Ef in Hf'. injection Hf' as <-.
        cbn [path_builder parse_path_elems].
        replace (pending ++ Router.enc (s :: segs')) with ((pending ++ [slash]) ++ s ++ Router.enc segs')
          by (rewrite enc_cons, <- app_assoc; reflexivity).
        rewrite has_prefix_app, skipn_app_length. unfold take_seg.
        rewrite until_slash_app by (auto using enc_shape).
        destruct s as [|c s0]; [congruence|]. rewrite Hp.
        specialize (IH fs' segs' [] Hok Es). simpl app in IH. rewrite IH. reflexivity.
      + destruct Hok as [Hd Hok].
        destruct (client_segs fmt_float fmt_time dirs fs) as [segs'|] eqn:Es; [|discriminate]. injection Hc as <-.
        cbn [path_builder]. specialize (IH fs segs' (pending ++ slash :: d) Hok Es).
        rewrite <- IH. f_equal. rewrite enc_cons, <- app_assoc. reflexivity.
  Qed.

  (* ---------------- the whole request ---------------- *)

  Definition names_distinct (eqk : str -> str -> bool) (ds : list pdecl) : Prop :=
    forall i j di dj, nth_error ds i = Some di -> nth_error ds j = Some dj -> i <> j -> eqk (d_name di) (d_name dj) = false.

  Definition hdr_eq (a b : str) : bool := str_eqb (canon_key a) (canon_key b).

  Lemma query_values_lookup rq n : query_values rq n = lookup_pairs str_eqb (q_query rq) n.
  Proof. reflexivity. Qed.

  Lemma header_values_lookup rq n : header_values rq n = lookup_pairs hdr_eq (q_headers rq) n.
  Proof. reflexivity. Qed.

  Lemma parse_all_ext get1 get2 ds : (forall n, get1 n = get2 n) -> parse_all pf pt get1 ds = parse_all pf pt get2 ds.
  Proof. intros H. induction ds as [|d r IH]; simpl; [reflexivity|]. now rewrite H, IH. Qed.

  (* For every operation and every parameter set the request type can express
     (within the domain), the handler's Parse() of what the client sent is what
     was sent. *)
  Theorem client_server_agree bp method od v rq :
    Forall2 field_ok_c (od_query od) (pq v) -> names_distinct str_eqb (od_query od) ->
    Forall2 field_ok_c (od_header od) (ph v) -> names_distinct hdr_eq (od_header od) ->
    path_fields_ok (od_path od) (pp v) ->
    client_request fmt_float fmt_time bp method od v = Some rq ->
    parse_request pf pt bp od rq = Ok v.
  Proof.
    intros Hq Hqd Hh Hhd Hp Hc. unfold client_request in Hc.
    destruct (client_pairs fmt_float fmt_time (od_query od) (pq v)) as [qs|] eqn:Eq; [|discriminate].
    destruct (client_pairs fmt_float fmt_time (od_header od) (ph v)) as [hs|] eqn:Eh; [|discriminate].
    destruct (client_segs fmt_float fmt_time (od_path od) (pp v)) as [segs|] eqn:Es; [|discriminate].
    injection Hc as <-. unfold parse_request.
    rewrite (parse_all_ext _ (lookup_pairs str_eqb ([] ++ qs))) by reflexivity.
    rewrite (client_all_agree str_eqb str_eqb_refl _ _ _ Hq Hqd Eq []) by reflexivity.
    rewrite (parse_all_ext (header_values _) (lookup_pairs hdr_eq ([] ++ hs))) by reflexivity.
    rewrite (client_all_agree hdr_eq (fun a => str_eqb_refl _) _ _ _ Hh Hhd Eh []) by reflexivity.
    destruct v as [vq vh vp]. simpl in *.
    destruct (od_path od) as [|d0 ds0] eqn:Ed.
    - simpl in Hp. subst vp. reflexivity.
    - destruct (existsb (fun d => is_some (snd d)) (d0 :: ds0)) eqn:Ex.
      + pose proof (client_path_agrees (d0 :: ds0) vp segs [] Hp Es) as Hpe. simpl app in Hpe.
        unfold parse_path. destruct bp as [|b bp'].
        * simpl app. rewrite Hpe. reflexivity.
        * rewrite has_prefix_app, skipn_app_length.
          assert (Hsl : has_prefix [slash] (Router.enc segs) = true).
          { destruct segs as [|s r]; [|reflexivity]. exfalso. destruct d0 as [d [sc|]]; simpl in Es;
              repeat match type of Es with
                     | match ?x with _ => _ end = Some [] => destruct x; try discriminate
                     | option_map _ ?x = Some [] => destruct x; try discriminate
                     end. }
          rewrite Hsl, Hpe. reflexivity.
      + (* no variable in the template: no path fields *)
        assert (vp = []).
        { clear -Hp Ex. revert Hp Ex. generalize (d0 :: ds0). induction l as [|[d [sc|]] r IH]; simpl; intros Hp Ex; auto; try discriminate.
          destruct Hp as [_ Hp]. auto. }
        subst vp. reflexivity.
  Qed.
  (* the client can express every value of the domain *)
  Lemma client_pairs_defined ds : forall fs, Forall2 field_ok_c ds fs -> exists ps, client_pairs fmt_float fmt_time ds fs = Some ps.
  Proof.
    induction ds as [|d ds IH]; intros fs H; inversion H as [|? f ? fs' Hd Hr]; subst; simpl.
    - eauto.
    - destruct (client_param_agrees d f Hd) as (vs & Hv & _). destruct (IH fs' Hr) as (ps & Hps). rewrite Hv, Hps. eauto.
  Qed.

  Lemma client_segs_defined dirs : forall fs, path_fields_ok dirs fs -> exists segs, client_segs fmt_float fmt_time dirs fs = Some segs.
  Proof.
    induction dirs as [|[d [sc|]] r IH]; intros fs H; simpl in *.
    - subst. eauto.
    - destruct fs as [|[v|] fs']; try contradiction. destruct H as [[Hv _] Hr].
      destruct (format_parse_string sc v Hv) as (s & Hf & _). destruct (IH fs' Hr) as (segs & Hs). rewrite Hf, Hs. eauto.
    - destruct H as [_ Hr]. destruct (IH fs Hr) as (segs & Hs). rewrite Hs. simpl. eauto.
  Qed.

  Theorem client_server_agree_total bp method od v :
    Forall2 field_ok_c (od_query od) (pq v) -> names_distinct str_eqb (od_query od) ->
    Forall2 field_ok_c (od_header od) (ph v) -> names_distinct hdr_eq (od_header od) ->
    path_fields_ok (od_path od) (pp v) ->
    exists rq, client_request fmt_float fmt_time bp method od v = Some rq /\ parse_request pf pt bp od rq = Ok v.
  Proof.
    intros Hq Hqd Hh Hhd Hp.
    destruct (client_pairs_defined _ _ Hq) as (qs & Eq). destruct (client_pairs_defined _ _ Hh) as (hs & Eh).
    destruct (client_segs_defined _ _ Hp) as (segs & Es).
    assert (Hc : exists rq, client_request fmt_float fmt_time bp method od v = Some rq).
    { unfold client_request. rewrite Eq, Eh, Es. eauto. }
    destruct Hc as (rq & Hc). exists rq. split; [assumption|]. eapply client_server_agree; eassumption.
  Qed.
End Agree.
