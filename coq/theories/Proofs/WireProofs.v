(* C09 at the level of the bytes on the wire: the URL the generated client
   writes (Model/Client.v client_wire: PathEscape of every path value,
   url.Values.Encode of the query pairs) is read back by net/http
   (Model/UrlEscape.v unescape, parse_query) as exactly the request the
   parameter-level theorem C09_params_agree is about. *)
From Coq Require Import String.
From Coq Require Import List Bool Arith Ascii NArith ZArith Lia Permutation.
Import ListNotations.
From Goag Require Import Base.Str Model.Router Model.Serve Model.Params Model.Json Model.UrlEscape Model.Client
     Proofs.UrlEscapeProofs.

Section Wire.
  Variable fmt_float : Z -> str -> str.
  Variable fmt_time : str -> str.

  Lemma client_psegs_segs : forall dirs fs,
    client_segs fmt_float fmt_time dirs fs = option_map (map seg_text) (client_psegs fmt_float fmt_time dirs fs).
  Proof.
    induction dirs as [|[d [sc|]] dirs IH]; intros fs; cbn [client_segs client_psegs].
    - destruct fs; reflexivity.
    - destruct fs as [|[v|m] fs]; try reflexivity.
      rewrite IH. destruct (format_string fmt_float fmt_time sc v); [|reflexivity].
      destruct (client_psegs fmt_float fmt_time dirs fs); reflexivity.
    - rewrite IH. destruct (client_psegs fmt_float fmt_time dirs fs); reflexivity.
  Qed.

  Lemma enc_seg_text ps : Router.enc (map seg_text ps) = flat_map (fun s => slash :: seg_text s) ps.
  Proof. unfold Router.enc. induction ps as [|p ps IH]; [reflexivity|]. cbn [map flat_map]. now rewrite IH. Qed.

  Definition no_pct (s : str) : bool := forallb (fun c => negb (ascii_eqb c pct)) s.

  Lemma psegs_literals : forall dirs fs ps,
    Forall (fun d => match snd d with None => no_pct (fst d) = true | Some _ => True end) dirs ->
    client_psegs fmt_float fmt_time dirs fs = Some ps ->
    Forall (fun s => match s with WLit l => forallb (fun c => negb (ascii_eqb c pct)) l = true | WVal _ => True end) ps.
  Proof.
    induction dirs as [|[d [sc|]] dirs IH]; intros fs ps Hd H; cbn [client_psegs] in H.
    - destruct fs; [|discriminate]. injection H as <-. constructor.
    - destruct fs as [|[v|m] fs]; try discriminate.
      destruct (format_string fmt_float fmt_time sc v); [|discriminate].
      destruct (client_psegs fmt_float fmt_time dirs fs) as [r|] eqn:E; [|discriminate].
      injection H as <-. inversion Hd; subst. constructor; [exact I|]. eapply IH; eassumption.
    - destruct (client_psegs fmt_float fmt_time dirs fs) as [r|] eqn:E; [|discriminate].
      cbn in H. injection H as <-. inversion Hd; subst. constructor; [assumption|]. eapply IH; eassumption.
  Qed.

  (* the path: URL.Path computed by net/http from the raw path on the wire is the
     path of the request the handler-level model works with *)
  Theorem wire_path_agrees : forall bp method od v rq,
    client_request fmt_float fmt_time bp method od v = Some rq ->
    no_pct bp = true ->
    Forall (fun d => match snd d with None => no_pct (fst d) = true | Some _ => True end) (od_path od) ->
    exists ps, client_psegs fmt_float fmt_time (od_path od) (pp v) = Some ps /\
               unescape false (raw_path bp ps) = Some (q_path rq).
  Proof.
    intros bp method od v rq H Hbp Hd. unfold client_request in H.
    destruct (client_pairs fmt_float fmt_time (od_query od) (pq v)) as [q|]; [|discriminate].
    destruct (client_pairs fmt_float fmt_time (od_header od) (ph v)) as [h|]; [|discriminate].
    rewrite client_psegs_segs in H.
    destruct (client_psegs fmt_float fmt_time (od_path od) (pp v)) as [ps|] eqn:E; [|discriminate].
    cbn [option_map] in H. injection H as <-. cbn [q_path].
    exists ps. split; [reflexivity|].
    rewrite enc_seg_text. apply raw_path_unescapes; [exact Hbp|].
    eapply psegs_literals; eassumption.
  Qed.
End Wire.

(* ------------------------------------------------------------------ *)
(* the query: Encode sorts by key; lookups by key see the same values    *)

Lemma str_leb_refl a : str_leb a a = true.
Proof. induction a as [|x a IH]; [reflexivity|]. cbn [str_leb]. rewrite N.ltb_irrefl. exact IH. Qed.

Lemma vals_cons name kv ps :
  vals name (kv :: ps) = (if str_eqb (fst kv) name then [snd kv] else []) ++ vals name ps.
Proof. reflexivity. Qed.

Lemma vals_insert name x : forall l, vals name (insert_pair x l) = vals name (x :: l).
Proof.
  induction l as [|y r IH]; [reflexivity|].
  cbn [insert_pair]. destruct (str_leb (fst x) (fst y)) eqn:L; [reflexivity|].
  rewrite vals_cons, IH, !vals_cons.
  assert (Hne : fst x <> fst y) by (intros E; rewrite E, str_leb_refl in L; discriminate).
  destruct (str_eqb (fst y) name) eqn:Ey; destruct (str_eqb (fst x) name) eqn:Ex; try reflexivity.
  apply str_eqb_eq in Ey. apply str_eqb_eq in Ex. congruence.
Qed.

Theorem vals_sort : forall name ps, vals name (sort_pairs ps) = vals name ps.
Proof.
  intros name. induction ps as [|x ps IH]; [reflexivity|].
  cbn [sort_pairs fold_right]. fold (sort_pairs ps). rewrite vals_insert, !vals_cons, IH. reflexivity.
Qed.

(* r.URL.Query()[name] on the server = the values the client put under that
   name, in the order it put them, whatever bytes they contain *)
Theorem wire_query_agrees : forall (q : list (str * str)) name,
  vals name (parse_query (encode_query (sort_pairs q))) = vals name q.
Proof. intros q name. rewrite query_roundtrip. apply vals_sort. Qed.

Lemma query_values_vals rq name : query_values rq name = vals name (q_query rq).
Proof. reflexivity. Qed.

(* url.Values.Encode's ordering of the pairs loses and invents nothing *)
Lemma insert_pair_perm x : forall l, Permutation (insert_pair x l) (x :: l).
Proof.
  induction l as [|y r IH]; [reflexivity|].
  cbn [insert_pair]. destruct (str_leb (fst x) (fst y)); [reflexivity|].
  rewrite IH. apply perm_swap.
Qed.

Theorem sort_pairs_perm : forall l, Permutation (sort_pairs l) l.
Proof.
  induction l as [|x l IH]; [reflexivity|].
  cbn [sort_pairs fold_right]. fold (sort_pairs l). rewrite insert_pair_perm. now constructor.
Qed.
