(* strconv.FormatInt / ParseInt round trip for in-range integers (used by the
   JSON round trip and by the client/server agreement). *)
From Coq Require Import String.
From Coq Require Import List Bool Arith Ascii NArith ZArith Lia.
Import ListNotations.
From Goag Require Import Base.Str Model.Router Model.Serve Model.Params Model.Json.

Local Open Scope Z_scope.

Definition digit_char (d : Z) : ascii := ascii_of_N (Z.to_N (48 + d)).

Lemma digit_val_char d : 0 <= d < 10 -> digit_val (digit_char d) = Some d.
Proof.
  intros H. assert (d = 0 \/ d = 1 \/ d = 2 \/ d = 3 \/ d = 4 \/ d = 5 \/ d = 6 \/ d = 7 \/ d = 8 \/ d = 9) by lia.
  repeat (destruct H0 as [-> | H0]; [reflexivity|]). subst. reflexivity.
Qed.

Lemma digit_char_not_sign d : 0 <= d < 10 -> digit_char d <> "+"%char /\ digit_char d <> "-"%char.
Proof.
  intros H. assert (d = 0 \/ d = 1 \/ d = 2 \/ d = 3 \/ d = 4 \/ d = 5 \/ d = 6 \/ d = 7 \/ d = 8 \/ d = 9) by lia.
  repeat (destruct H0 as [-> | H0]; [split; discriminate|]). subst. split; discriminate.
Qed.

(* the digits written for n, in front of acc, read back as n *)
Lemma digits_roundtrip f : forall n acc a,
  0 <= n < 10 ^ Z.of_nat f -> (0 < f)%nat ->
  exists k, 0 <= k /\
    parse_digits a (z_digits_pos f n acc) = parse_digits (a * 10 ^ k + n) acc /\
    exists c r, z_digits_pos f n acc = c :: r /\ c <> "+"%char /\ c <> "-"%char.
Proof.
  induction f as [|f IH]; intros n acc a Hn Hf; [lia|].
  cbn [z_digits_pos]. destruct (n <? 10) eqn:E.
  - apply Z.ltb_lt in E. exists 1. split; [lia|]. split.
    + cbn [parse_digits]. fold (digit_char n). rewrite digit_val_char by lia. f_equal; lia.
    + exists (digit_char n), acc. split; [reflexivity|]. apply digit_char_not_sign. lia.
  - apply Z.ltb_ge in E.
    assert (Hf' : (0 < f)%nat).
    { destruct f; [|lia]. simpl in Hn. lia. }
    assert (Hdiv : 0 <= n / 10 < 10 ^ Z.of_nat f).
    { split; [apply Z.div_pos; lia|]. apply Z.div_lt_upper_bound; [lia|].
      rewrite Nat2Z.inj_succ, Z.pow_succ_r in Hn by lia. lia. }
    destruct (IH (n / 10) (digit_char (n mod 10) :: acc) a Hdiv Hf') as (k & Hk & Hp & c & r & Hc & Hs).
    exists (k + 1). split; [lia|]. split.
    + fold (digit_char (n mod 10)). rewrite Hp. cbn [parse_digits].
      rewrite digit_val_char by (apply Z.mod_pos_bound; lia). f_equal; [].
     
      rewrite Z.pow_add_r by lia. pose proof (Z.div_mod n 10 ltac:(lia)). lia.
    + fold (digit_char (n mod 10)). eauto.
Qed.

Lemma pow10_80_big : 2 ^ 63 < 10 ^ Z.of_nat 80.
Proof. vm_compute. reflexivity. Qed.

(* ParseInt(FormatInt(z, 10), 10, bits) = z for every z representable in bits *)
Theorem int_format_roundtrip bits z :
  (bits = 0 \/ bits = 32 \/ bits = 64) ->
  - 2 ^ (bit_size bits - 1) <= z < 2 ^ (bit_size bits - 1) ->
  parse_int bits (z_to_str z) = Some z.
Proof.
  intros Hb Hr.
  assert (Hbs : bit_size bits = 64 \/ bit_size bits = 32) by (destruct Hb as [-> | [-> | ->]]; cbn; auto).
  assert (Hcut : 2 ^ (bit_size bits - 1) <= 2 ^ 63).
  { destruct Hbs as [-> | ->]; [cbn; lia | apply Z.pow_le_mono_r; lia]. }
  pose proof pow10_80_big as Hbig.
  unfold z_to_str. destruct (z <? 0) eqn:Ez.
  - apply Z.ltb_lt in Ez.
    destruct (digits_roundtrip 80 (- z) [] 0 ltac:(lia) ltac:(lia)) as (k & Hk & Hp & c & r & Hc & _).
    unfold parse_int. replace (ascii_eqb "-" "+") with false by reflexivity. rewrite ascii_eqb_refl.
    rewrite Hc in *. rewrite Hp. cbn [parse_digits]. replace (0 * 10 ^ k + - z) with (- z) by lia.
    destruct (- z <=? 2 ^ (bit_size bits - 1)) eqn:E; [f_equal; lia|]. apply Z.leb_gt in E. lia.
  - apply Z.ltb_ge in Ez.
    destruct (digits_roundtrip 80 z [] 0 ltac:(lia) ltac:(lia)) as (k & Hk & Hp & c & r & Hc & Hcp & Hcm).
    unfold parse_int. rewrite Hc. apply ascii_eqb_neq in Hcp, Hcm. rewrite Hcp, Hcm.
    rewrite <- Hc, Hp. cbn [parse_digits]. replace (0 * 10 ^ k + z) with z by lia.
    destruct (z <? 2 ^ (bit_size bits - 1)) eqn:E; [reflexivity|]. apply Z.ltb_ge in E. lia.
Qed.
