(* Layer (ii): the segment-level route function returns the pref_lt-least
   matching template of the set the tree denotes (sound and complete).
   Layer (iii): the tree built by Route.add denotes exactly the inserted
   templates. *)
From Coq Require Import String.
From Coq Require Import List Bool Arith Ascii Lia.
Import ListNotations.
From Goag Require Import Base.Str Model.Router Spec.RouterSpec Proofs.RouterStrings.

(* ------------------------------------------------------------------ *)
(* what a tree stands for                                               *)

Fixpoint denote (n : node) : list (tmpl * item) :=
  match n with
  | Node statics var kids vkid =>
    map (fun ki => ([Lit (fst ki)], snd ki)) statics
    ++ (match var with Some it => [([Var], it)] | None => [] end)
    ++ (fix dk (ks : list (str * node)) : list (tmpl * item) :=
          match ks with
          | [] => []
          | (k, c) :: ks' => map (fun ti => (Lit k :: fst ti, snd ti)) (denote c) ++ dk ks'
          end) kids
    ++ (match vkid with
        | Some v => map (fun ti => (Var :: fst ti, snd ti)) (denote v)
        | None => []
        end)
  end.

Fixpoint denote_kids (ks : list (str * node)) : list (tmpl * item) :=
  match ks with
  | [] => []
  | (k, c) :: ks' => map (fun ti => (Lit k :: fst ti, snd ti)) (denote c) ++ denote_kids ks'
  end.

Lemma denote_unfold statics var kids vkid :
  denote (Node statics var kids vkid) =
  map (fun ki => ([Lit (fst ki)], snd ki)) statics
  ++ (match var with Some it => [([Var], it)] | None => [] end)
  ++ denote_kids kids
  ++ (match vkid with Some v => map (fun ti => (Var :: fst ti, snd ti)) (denote v) | None => [] end).
Proof.
  reflexivity.
Qed.

Lemma in_denote_kids ks t it :
  In (t, it) (denote_kids ks) <->
  exists k c t', t = Lit k :: t' /\ In (k, c) ks /\ In (t', it) (denote c).
Proof.
  induction ks as [|[k c] ks IH]; simpl.
  - split; [tauto|]. intros (? & ? & ? & _ & [] & _).
  - rewrite in_app_iff, IH, in_map_iff. split.
    + intros [[[t' it'] [E Hin]] | (k' & c' & t' & -> & Hin & Hd)].
      * simpl in E. injection E as <- <-. exists k, c, t'. auto.
      * exists k', c', t'. auto.
    + intros (k' & c' & t' & -> & [E | Hin] & Hd).
      * injection E as <- <-. left. exists (t', it). auto.
      * right. exists k', c', t'. auto.
Qed.

Lemma in_denote statics var kids vkid t it :
  In (t, it) (denote (Node statics var kids vkid)) <->
  (exists k, t = [Lit k] /\ In (k, it) statics) \/
  (t = [Var] /\ var = Some it) \/
  (exists k c t', t = Lit k :: t' /\ In (k, c) kids /\ In (t', it) (denote c)) \/
  (exists v t', t = Var :: t' /\ vkid = Some v /\ In (t', it) (denote v)).
Proof.
  rewrite denote_unfold, !in_app_iff, in_denote_kids, in_map_iff.
  split.
  - intros [[[k it'] [E Hin]] | [Hv | [Hk | Hvk]]].
    + simpl in E. injection E as <- <-. left. eauto.
    + right; left. destruct var as [it'|]; simpl in Hv; [|tauto].
      destruct Hv as [E|[]]. injection E as <- <-. auto.
    + right; right; left. exact Hk.
    + right; right; right. destruct vkid as [v|]; [|destruct Hvk].
      apply in_map_iff in Hvk as [[t' it'] [E Hin]]. simpl in E. injection E as <- <-. eauto.
  - intros [(k & -> & Hin) | [[-> ->] | [Hk | (v & t' & -> & -> & Hin)]]].
    + left. exists (k, it). auto.
    + right; left. simpl. auto.
    + right; right; left. exact Hk.
    + right; right; right. apply in_map_iff. exists (t', it). auto.
Qed.

Lemma denote_nonempty n t it : In (t, it) (denote n) -> t <> [].
Proof.
  destruct n as [statics var kids vkid]. rewrite in_denote.
  intros [(k & -> & _) | [[-> _] | [(k & c & t' & -> & _) | (v & t' & -> & _)]]]; discriminate.
Qed.

(* ------------------------------------------------------------------ *)
(* well-formed trees                                                    *)

Fixpoint wf_node (n : node) : Prop :=
  match n with
  | Node statics var kids vkid =>
    NoDup (map fst statics) /\ NoDup (map fst kids) /\
    (fix wk (ks : list (str * node)) : Prop :=
       match ks with [] => True | (_, c) :: ks' => wf_node c /\ wk ks' end) kids /\
    match vkid with Some v => wf_node v | None => True end
  end.

Lemma wf_unfold statics var kids vkid :
  wf_node (Node statics var kids vkid) <->
  NoDup (map fst statics) /\ NoDup (map fst kids) /\
  Forall (fun kc => wf_node (snd kc)) kids /\
  match vkid with Some v => wf_node v | None => True end.
Proof.
  simpl. split; intros (H1 & H2 & H3 & H4); repeat split; auto.
  - induction kids as [|[k c] ks IH]; constructor.
    + simpl. tauto.
    + apply IH; [now inversion H2 | tauto].
  - induction kids as [|[k c] ks IH]; [exact I|].
    inversion H3; subst. simpl in *. split; [assumption|]. apply IH; [now inversion H2 | assumption].
Qed.

(* the CORS entry of an item never makes the leaf switch `return nil`:
   either the CORS handler is installed or the item has no CORS entry *)
Definition tot (cors : bool) (it : item) : Prop := cors = true \/ i_cors it = None.

Lemma leaf_lookup_dispatch cors it m :
  tot cors it ->
  leaf_lookup cors it m = match dispatch it m with Some r => Some (Some r) | None => None end.
Proof.
  unfold leaf_lookup, dispatch. intros Ht.
  destruct (find_op m (i_ops it)); [reflexivity|].
  destruct (i_cors it) eqn:Ec; simpl; [|reflexivity].
  destruct (str_eqb m method_options); [|reflexivity].
  destruct Ht as [-> | Ht]; [reflexivity | congruence].
Qed.

Lemma has_method_dispatch it m : has_method it m = is_some (dispatch it m).
Proof.
  unfold has_method, dispatch. destruct (find_op m (i_ops it)); simpl; [reflexivity|].
  destruct (is_some (i_cors it) && str_eqb m method_options); reflexivity.
Qed.

Lemma find_static_p_spec s statics :
  find_static_p (slash :: s) statics = find_static s statics.
Proof.
  induction statics as [|[k it] r IH]; simpl; [reflexivity|].
  rewrite prefix_is_slash. rewrite IH.
  destruct (str_eqb s k) eqn:E1, (str_eqb k s) eqn:E2; try reflexivity.
  - apply str_eqb_eq in E1. subst. rewrite str_eqb_refl in E2. discriminate.
  - apply str_eqb_eq in E2. subst. rewrite str_eqb_refl in E1. discriminate.
Qed.

Lemma find_static_in s statics it :
  find_static s statics = Some it -> In (s, it) statics.
Proof.
  induction statics as [|[k it'] r IH]; simpl; [discriminate|].
  destruct (str_eqb k s) eqn:E.
  - apply str_eqb_eq in E. subst. intros H; injection H as ->. auto.
  - auto.
Qed.

Lemma find_static_unique s statics it it' :
  NoDup (map fst statics) -> find_static s statics = Some it -> In (s, it') statics -> it' = it.
Proof.
  induction statics as [|[k x] r IH]; simpl; [discriminate|].
  intros Hnd Hf Hin. inversion Hnd as [|? ? Hnotin Hnd']; subst.
  destruct (str_eqb k s) eqn:E.
  - apply str_eqb_eq in E. subst. injection Hf as ->.
    destruct Hin as [Hin | Hin]; [congruence|].
    exfalso. apply Hnotin. apply in_map_iff. exists (s, it'). auto.
  - destruct Hin as [Hin | Hin].
    + injection Hin as -> ->. rewrite str_eqb_refl in E. discriminate.
    + eauto.
Qed.

Lemma find_static_none s statics it :
  find_static s statics = None -> ~ In (s, it) statics.
Proof.
  induction statics as [|[k x] r IH]; simpl; [tauto|].
  destruct (str_eqb k s) eqn:E; [discriminate|].
  intros Hf [Hin | Hin].
  - injection Hin as -> ->. rewrite str_eqb_refl in E. discriminate.
  - now apply IH.
Qed.

(* kid lookup *)
Fixpoint find_kid (s : str) (ks : list (str * node)) : option node :=
  match ks with
  | [] => None
  | (k, c) :: ks' => if str_eqb s k then Some c else find_kid s ks'
  end.

Lemma go_rsegs_find cors s rest m ks :
  go_rsegs cors s rest m ks =
  match find_kid s ks with Some c => Some (rsegs cors c rest m) | None => None end.
Proof. induction ks as [|[k c] ks IH]; simpl; [reflexivity|]. destruct (str_eqb s k); auto. Qed.

Lemma find_kid_in s ks c : find_kid s ks = Some c -> In (s, c) ks.
Proof.
  induction ks as [|[k c'] r IH]; simpl; [discriminate|].
  destruct (str_eqb s k) eqn:E.
  - apply str_eqb_eq in E. subst. intros H; injection H as ->. auto.
  - auto.
Qed.

Lemma find_kid_unique s ks c c' :
  NoDup (map fst ks) -> find_kid s ks = Some c -> In (s, c') ks -> c' = c.
Proof.
  induction ks as [|[k x] r IH]; simpl; [discriminate|].
  intros Hnd Hf Hin. inversion Hnd as [|? ? Hnotin Hnd']; subst.
  destruct (str_eqb s k) eqn:E.
  - apply str_eqb_eq in E. subst. injection Hf as ->.
    destruct Hin as [Hin | Hin]; [congruence|].
    exfalso. apply Hnotin. apply in_map_iff. exists (k, c'). auto.
  - destruct Hin as [Hin | Hin].
    + injection Hin as -> ->. rewrite str_eqb_refl in E. discriminate.
    + eauto.
Qed.

Lemma find_kid_none s ks c : find_kid s ks = None -> ~ In (s, c) ks.
Proof.
  induction ks as [|[k x] r IH]; simpl; [tauto|].
  destruct (str_eqb s k) eqn:E; [discriminate|].
  intros Hf [Hin | Hin].
  - injection Hin as -> ->. rewrite str_eqb_refl in E. discriminate.
  - now apply IH.
Qed.

(* ------------------------------------------------------------------ *)
(* matching facts                                                       *)

Lemma seg_match_nil_r t : seg_match t [] = true -> t = [].
Proof. destruct t as [|[d|] t]; simpl; congruence. Qed.

Lemma seg_match_lit1 k s rest : seg_match [Lit k] (s :: rest) = true <-> k = s /\ rest = [].
Proof.
  simpl. destruct rest; simpl.
  - rewrite andb_true_r. rewrite str_eqb_eq. tauto.
  - rewrite andb_false_r. split; [discriminate | intros [_ H]; discriminate].
Qed.

Lemma seg_match_var1 s rest : seg_match [Var] (s :: rest) = true <-> rest = [].
Proof. simpl. destruct rest; split; auto; discriminate. Qed.

Lemma seg_match_lit k t s rest :
  seg_match (Lit k :: t) (s :: rest) = true <-> k = s /\ seg_match t rest = true.
Proof. simpl. rewrite andb_true_iff, str_eqb_eq. tauto. Qed.

(* The correctness statement for one tree. *)
Definition sel_ok (cors : bool) (n : node) (segs : list str) (m : str) (r : option res) : Prop :=
  match r with
  | Some x =>
    exists t it, In (t, it) (denote n) /\ candidate segs m (t, it) = true /\ dispatch it m = Some x /\
                 forall t' it', In (t', it') (denote n) -> candidate segs m (t', it') = true ->
                                (t', it') = (t, it) \/ pref_lt t t' = true
  | None => forall t it, In (t, it) (denote n) -> candidate segs m (t, it) = false
  end.

Definition items_tot (cors : bool) (n : node) : Prop :=
  forall t it, In (t, it) (denote n) -> tot cors it.

Lemma candidate_unfold segs m t it :
  candidate segs m (t, it) = seg_match t segs && is_some (dispatch it m).
Proof. unfold candidate. simpl. now rewrite has_method_dispatch. Qed.

Theorem rsegs_correct cors n :
  wf_node n -> items_tot cors n ->
  forall segs m, sel_ok cors n segs m (rsegs cors n segs m).
Proof.
  induction n as [statics var kids vkid IHk IHv] using node_ind2.
  intros Hwf Htot segs m. apply wf_unfold in Hwf as (Hnd1 & Hnd2 & Hwk & Hwv).
  destruct segs as [|s rest].
  { (* no segments: nothing matches, since no template is empty *)
    rewrite rsegs_nil. intros t it Hin. rewrite candidate_unfold.
    destruct (seg_match t []) eqn:E; [|reflexivity].
    apply seg_match_nil_r in E. apply denote_nonempty in Hin. contradiction. }
  rewrite rsegs_unfold.
  destruct ((negb (is_nil statics) || is_some var) && is_nil rest) eqn:Hleaf.
  - (* the leaf block *)
    apply andb_true_iff in Hleaf as [_ Hrest]. destruct rest; [|discriminate]. clear Hrest.
    unfold leaf_block. rewrite find_static_p_spec.
    (* the variable part, shared by two branches *)
    assert (Hvar : forall (Hstat : forall it, In (s, it) statics -> dispatch it m = None),
               sel_ok cors (Node statics var kids vkid) [s] m
                      (match var with
                       | Some it => match leaf_lookup cors it m with Some r => r | None => None end
                       | None => None
                       end)).
    { intros Hstat. destruct var as [vit|].
      - assert (Htv : tot cors vit) by (apply (Htot [Var]); apply in_denote; auto).
        rewrite leaf_lookup_dispatch by assumption.
        destruct (dispatch vit m) as [x|] eqn:Ed.
        + exists [Var], vit. split; [apply in_denote; auto|]. split.
          { rewrite candidate_unfold, Ed. reflexivity. }
          split; [exact Ed|].
          intros t' it' Hin' Hc'. rewrite candidate_unfold in Hc'. apply andb_true_iff in Hc' as [Hm' Hd'].
          apply in_denote in Hin' as [(k & -> & Hin') | [[-> E] | [(k & c & t'' & -> & Hin' & Hd) | (v & t'' & -> & Ev & Hd)]]].
          * apply seg_match_lit1 in Hm' as [-> _]. rewrite (Hstat _ Hin') in Hd'. discriminate.
          * injection E as ->. auto.
          * apply seg_match_lit in Hm' as [_ Hm']. apply seg_match_nil_r in Hm'.
            apply denote_nonempty in Hd. contradiction.
          * simpl in Hm'. apply seg_match_nil_r in Hm'. apply denote_nonempty in Hd. contradiction.
        + intros t' it' Hin'. rewrite candidate_unfold.
          destruct (seg_match t' [s]) eqn:Hm'; [|reflexivity]. simpl.
          apply in_denote in Hin' as [(k & -> & Hin') | [[-> E] | [(k & c & t'' & -> & Hin' & Hd) | (v & t'' & -> & Ev & Hd)]]].
          * apply seg_match_lit1 in Hm' as [-> _]. now rewrite (Hstat _ Hin').
          * injection E as ->. now rewrite Ed.
          * apply seg_match_lit in Hm' as [_ Hm']. apply seg_match_nil_r in Hm'.
            apply denote_nonempty in Hd. contradiction.
          * simpl in Hm'. apply seg_match_nil_r in Hm'. apply denote_nonempty in Hd. contradiction.
      - intros t' it' Hin'. rewrite candidate_unfold.
        destruct (seg_match t' [s]) eqn:Hm'; [|reflexivity]. simpl.
        apply in_denote in Hin' as [(k & -> & Hin') | [[-> E] | [(k & c & t'' & -> & Hin' & Hd) | (v & t'' & -> & Ev & Hd)]]].
        * apply seg_match_lit1 in Hm' as [-> _]. now rewrite (Hstat _ Hin').
        * discriminate.
        * apply seg_match_lit in Hm' as [_ Hm']. apply seg_match_nil_r in Hm'.
          apply denote_nonempty in Hd. contradiction.
        * simpl in Hm'. apply seg_match_nil_r in Hm'. apply denote_nonempty in Hd. contradiction. }
    destruct (find_static s statics) as [sit|] eqn:Hfs.
    + assert (Hts : tot cors sit).
      { apply (Htot [Lit s]). apply in_denote. left. exists s. split; [reflexivity|]. now apply find_static_in. }
      rewrite leaf_lookup_dispatch by assumption.
      destruct (dispatch sit m) as [x|] eqn:Ed.
      * exists [Lit s], sit. split.
        { apply in_denote. left. exists s. split; [reflexivity|]. now apply find_static_in. }
        split. { rewrite candidate_unfold, Ed. simpl. now rewrite str_eqb_refl. }
        split; [exact Ed|].
        intros t' it' Hin' Hc'. rewrite candidate_unfold in Hc'. apply andb_true_iff in Hc' as [Hm' Hd'].
        apply in_denote in Hin' as [(k & -> & Hin') | [[-> E] | [(k & c & t'' & -> & Hin' & Hd) | (v & t'' & -> & Ev & Hd)]]].
        -- apply seg_match_lit1 in Hm' as [-> _]. left. f_equal. eapply find_static_unique; eauto.
        -- right. reflexivity.
        -- apply seg_match_lit in Hm' as [_ Hm']. apply seg_match_nil_r in Hm'.
           apply denote_nonempty in Hd. contradiction.
        -- simpl in Hm'. apply seg_match_nil_r in Hm'. apply denote_nonempty in Hd. contradiction.
      * apply Hvar. intros it Hin. assert (it = sit) by (eapply find_static_unique; eauto). now subst.
    + apply Hvar. intros it Hin. exfalso. eapply find_static_none; eauto.
  - (* descending *)
    rewrite go_rsegs_find.
    (* templates of length one cannot match here *)
    assert (Hshort : forall t it, (exists k, t = [Lit k] /\ In (k, it) statics) \/ (t = [Var] /\ var = Some it) ->
                                  seg_match t (s :: rest) = true -> False).
    { intros t it Hcase Hm'. apply andb_false_iff in Hleaf.
      assert (Hr : rest = []).
      { destruct Hcase as [(k & -> & _) | [-> _]].
        - now apply seg_match_lit1 in Hm' as [_ ->].
        - now apply seg_match_var1 in Hm'. }
      subst rest. destruct Hleaf as [Hleaf | Hleaf]; [|discriminate].
      apply orb_false_iff in Hleaf as [H1 H2].
      destruct Hcase as [(k & -> & Hin) | [-> ->]].
      - destruct statics; [destruct Hin | discriminate].
      - discriminate. }
    (* what the variable child contributes *)
    assert (HVk : forall v, vkid = Some v -> sel_ok cors v rest m (rsegs cors v rest m)).
    { intros v ->. simpl in IHv. apply IHv; [exact Hwv|]. unfold items_tot. intros t it Hin.
      apply (Htot (Var :: t)). apply in_denote. right; right; right. exists v, t. auto. }
    destruct (find_kid s kids) as [c|] eqn:Hfk.
    + assert (Hcin : In (s, c) kids) by now apply find_kid_in.
      assert (Hc : sel_ok cors c rest m (rsegs cors c rest m)).
      { rewrite Forall_forall in IHk, Hwk. apply (IHk (s, c) Hcin); [apply (Hwk (s, c) Hcin)|].
        unfold items_tot. simpl. intros t it Hin. apply (Htot (Lit s :: t)). apply in_denote. right; right; left.
        exists s, c, t. auto. }
      destruct (rsegs cors c rest m) as [x|] eqn:Hrc.
      * (* the literal child answers *)
        destruct Hc as (t & it & Hin & Hcand & Hdis & Hmin).
        assert (Hres : descend (Some (Some x)) (match vkid with Some v => Some (rsegs cors v rest m) | None => None end) = Some x)
          by (destruct vkid; reflexivity).
        rewrite Hres. exists (Lit s :: t), it. split; [apply in_denote; right; right; left; exists s, c, t; auto|].
        rewrite candidate_unfold in Hcand |- *. split.
        { apply andb_true_iff in Hcand as [Hm1 Hd1]. apply andb_true_iff. split; [|assumption].
          apply seg_match_lit. auto. }
        split; [assumption|].
        intros t' it' Hin' Hc'. rewrite candidate_unfold in Hc'. apply andb_true_iff in Hc' as [Hm' Hd'].
        apply in_denote in Hin' as [Hs | [Hs | [(k & c' & t'' & -> & Hin' & Hd) | (v & t'' & -> & Ev & Hd)]]].
        -- exfalso. eapply Hshort; eauto.
        -- exfalso. eapply (Hshort t' it'); eauto.
        -- apply seg_match_lit in Hm' as [-> Hm'].
           assert (c' = c) by (eapply find_kid_unique; eauto). subst c'.
           destruct (Hmin t'' it' Hd) as [E | Hlt].
           { rewrite candidate_unfold. now rewrite Hm', Hd'. }
           { left. injection E as -> ->. reflexivity. }
           { right. exact Hlt. }
        -- right. reflexivity.
      * (* the literal child has no candidate: the variable child decides *)
        destruct vkid as [v|].
        -- specialize (HVk v eq_refl). cbn [descend]. destruct (rsegs cors v rest m) as [x|] eqn:Hrv.
           ++ destruct HVk as (t & it & Hin & Hcand & Hdis & Hmin).
              exists (Var :: t), it. split; [apply in_denote; right; right; right; exists v, t; auto|].
              rewrite candidate_unfold in Hcand |- *. split; [exact Hcand|]. split; [assumption|].
              intros t' it' Hin' Hc'. rewrite candidate_unfold in Hc'. apply andb_true_iff in Hc' as [Hm' Hd'].
              apply in_denote in Hin' as [Hs | [Hs | [(k & c' & t'' & -> & Hin' & Hd) | (v' & t'' & -> & Ev & Hd)]]].
              ** exfalso. eapply Hshort; eauto.
              ** exfalso. eapply (Hshort t' it'); eauto.
              ** apply seg_match_lit in Hm' as [-> Hm'].
                 assert (c' = c) by (eapply find_kid_unique; eauto). subst c'.
                 specialize (Hc t'' it' Hd). rewrite candidate_unfold, Hm', Hd' in Hc. discriminate.
              ** injection Ev as <-. destruct (Hmin t'' it' Hd) as [E | Hlt].
                 { rewrite candidate_unfold. simpl in Hm'. now rewrite Hm', Hd'. }
                 { left. injection E as -> ->. reflexivity. }
                 { right. exact Hlt. }
           ++ intros t' it' Hin'. rewrite candidate_unfold.
              destruct (seg_match t' (s :: rest)) eqn:Hm'; [|reflexivity]. simpl.
              apply in_denote in Hin' as [Hs | [Hs | [(k & c' & t'' & -> & Hin' & Hd) | (v' & t'' & -> & Ev & Hd)]]].
              ** exfalso. eapply Hshort; eauto.
              ** exfalso. eapply (Hshort t' it'); eauto.
              ** apply seg_match_lit in Hm' as [-> Hm'].
                 assert (c' = c) by (eapply find_kid_unique; eauto). subst c'.
                 specialize (Hc t'' it' Hd). rewrite candidate_unfold, Hm' in Hc. exact Hc.
              ** injection Ev as <-. specialize (HVk t'' it' Hd). simpl in Hm'.
                 rewrite candidate_unfold, Hm' in HVk. exact HVk.
        -- cbn [descend]. intros t' it' Hin'. rewrite candidate_unfold.
           destruct (seg_match t' (s :: rest)) eqn:Hm'; [|reflexivity]. simpl.
           apply in_denote in Hin' as [Hs | [Hs | [(k & c' & t'' & -> & Hin' & Hd) | (v' & t'' & -> & Ev & Hd)]]].
           ++ exfalso. eapply Hshort; eauto.
           ++ exfalso. eapply (Hshort t' it'); eauto.
           ++ apply seg_match_lit in Hm' as [-> Hm'].
              assert (c' = c) by (eapply find_kid_unique; eauto). subst c'.
              specialize (Hc t'' it' Hd). rewrite candidate_unfold, Hm' in Hc. exact Hc.
           ++ discriminate.
    + (* no literal child for this segment *)
      destruct vkid as [v|].
      * specialize (HVk v eq_refl). cbn [descend]. destruct (rsegs cors v rest m) as [x|] eqn:Hrv.
        -- destruct HVk as (t & it & Hin & Hcand & Hdis & Hmin).
           exists (Var :: t), it. split; [apply in_denote; right; right; right; exists v, t; auto|].
           rewrite candidate_unfold in Hcand |- *. split; [exact Hcand|]. split; [assumption|].
           intros t' it' Hin' Hc'. rewrite candidate_unfold in Hc'. apply andb_true_iff in Hc' as [Hm' Hd'].
           apply in_denote in Hin' as [Hs | [Hs | [(k & c' & t'' & -> & Hin' & Hd) | (v' & t'' & -> & Ev & Hd)]]].
           ++ exfalso. eapply Hshort; eauto.
           ++ exfalso. eapply (Hshort t' it'); eauto.
           ++ apply seg_match_lit in Hm' as [-> Hm']. exfalso. eapply find_kid_none; eauto.
           ++ injection Ev as <-. destruct (Hmin t'' it' Hd) as [E | Hlt].
              { rewrite candidate_unfold. simpl in Hm'. now rewrite Hm', Hd'. }
              { left. injection E as -> ->. reflexivity. }
              { right. exact Hlt. }
        -- intros t' it' Hin'. rewrite candidate_unfold.
           destruct (seg_match t' (s :: rest)) eqn:Hm'; [|reflexivity]. simpl.
           apply in_denote in Hin' as [Hs | [Hs | [(k & c' & t'' & -> & Hin' & Hd) | (v' & t'' & -> & Ev & Hd)]]].
           ++ exfalso. eapply Hshort; eauto.
           ++ exfalso. eapply (Hshort t' it'); eauto.
           ++ apply seg_match_lit in Hm' as [-> Hm']. exfalso. eapply find_kid_none; eauto.
           ++ injection Ev as <-. specialize (HVk t'' it' Hd). simpl in Hm'.
              rewrite candidate_unfold, Hm' in HVk. exact HVk.
      * cbn [descend]. intros t' it' Hin'. rewrite candidate_unfold.
        destruct (seg_match t' (s :: rest)) eqn:Hm'; [|reflexivity]. simpl.
        apply in_denote in Hin' as [Hs | [Hs | [(k & c' & t'' & -> & Hin' & Hd) | (v' & t'' & -> & Ev & Hd)]]].
        -- exfalso. eapply Hshort; eauto.
        -- exfalso. eapply (Hshort t' it'); eauto.
        -- apply seg_match_lit in Hm' as [-> Hm']. exfalso. eapply find_kid_none; eauto.
        -- discriminate.
Qed.

(* ------------------------------------------------------------------ *)
(* Layer (iii): Route.add builds a tree denoting the inserted templates  *)

Fixpoint ins_kid (d : str) (f : node -> node) (ks : list (str * node)) : list (str * node) :=
  match ks with
  | [] => [(d, f empty_node)]
  | (k, c) :: ks' => if str_eqb k d then (k, f c) :: ks' else (k, c) :: ins_kid d f ks'
  end.

Lemma add_nil n it : add n [] it = n.
Proof. destruct n; reflexivity. Qed.

Lemma add_var1 statics var kids vkid it :
  add (Node statics var kids vkid) [Var] it = Node statics (Some it) kids vkid.
Proof. reflexivity. Qed.

Lemma add_lit1 statics var kids vkid d it :
  add (Node statics var kids vkid) [Lit d] it = Node (statics ++ [(d, it)]) var kids vkid.
Proof. reflexivity. Qed.

Lemma add_var statics var kids vkid x t' it :
  add (Node statics var kids vkid) (Var :: x :: t') it =
  Node statics var kids (Some (add (match vkid with Some v => v | None => empty_node end) (x :: t') it)).
Proof. reflexivity. Qed.

Lemma add_lit statics var kids vkid d x t' it :
  add (Node statics var kids vkid) (Lit d :: x :: t') it =
  Node statics var (ins_kid d (fun c => add c (x :: t') it) kids) vkid.
Proof.
  cbn [add]. f_equal.
  induction kids as [|[k c] ks IH]; cbn [ins_kid]; [reflexivity|].
  destruct (str_eqb k d); [reflexivity|]. now rewrite IH.
Qed.

Lemma wf_empty : wf_node empty_node.
Proof. simpl. repeat split; constructor. Qed.

Lemma denote_empty : denote empty_node = [].
Proof. reflexivity. Qed.

Lemma in_map_fst {A B} (l : list (A * B)) a b : In (a, b) l -> In a (map fst l).
Proof. intros H. apply in_map_iff. exists (a, b). auto. Qed.

Lemma ins_kid_keys d f ks :
  map fst (ins_kid d f ks) = if existsb (fun kc => str_eqb (fst kc) d) ks then map fst ks else map fst ks ++ [d].
Proof.
  induction ks as [|[k c] ks IH]; simpl; [reflexivity|].
  destruct (str_eqb k d) eqn:E; simpl; [reflexivity|]. rewrite IH.
  destruct (existsb _ ks); reflexivity.
Qed.

Lemma existsb_key_in d (ks : list (str * node)) :
  existsb (fun kc => str_eqb (fst kc) d) ks = true <-> In d (map fst ks).
Proof.
  rewrite existsb_exists, in_map_iff. split.
  - intros [[k c] [Hin E]]. simpl in E. apply str_eqb_eq in E. subst. exists (d, c). auto.
  - intros [[k c] [E Hin]]. simpl in E. subst. exists (d, c). split; [assumption|]. apply str_eqb_refl.
Qed.

Lemma NoDup_app_snoc {A} (l : list A) a : NoDup l -> ~ In a l -> NoDup (l ++ [a]).
Proof.
  induction l as [|x l IH]; simpl; intros Hnd Hin.
  - constructor; [tauto|constructor].
  - inversion Hnd; subst. constructor.
    + rewrite in_app_iff. simpl. intros [H|[H|[]]]; [contradiction|]. subst. tauto.
    + apply IH; [assumption|tauto].
Qed.

Lemma ins_kid_nodup d f ks : NoDup (map fst ks) -> NoDup (map fst (ins_kid d f ks)).
Proof.
  intros H. rewrite ins_kid_keys. destruct (existsb _ ks) eqn:E; [assumption|].
  apply NoDup_app_snoc; auto. intros Hin. apply existsb_key_in in Hin. congruence.
Qed.

(* membership in the tree after one insertion *)
Lemma denote_kids_ins d f ks :
  NoDup (map fst ks) ->
  forall x, In x (denote_kids (ins_kid d f ks)) <->
            (exists t' it, x = (Lit d :: t', it) /\
                           In (t', it) (denote (f (match find_kid d ks with Some c => c | None => empty_node end)))) \/
            (In x (denote_kids ks) /\ forall t' it, x <> (Lit d :: t', it)).
Proof.
  induction ks as [|[k c] ks IH]; intros Hnd x.
  - simpl. rewrite app_nil_r, in_map_iff. split.
    + intros [[t' it] [E Hin]]. left. exists t', it. simpl in E. auto.
    + intros [(t' & it & -> & Hin) | [[] _]]. exists (t', it). auto.
  - inversion Hnd as [|? ? Hnotin Hnd']; subst. cbn [ins_kid find_kid].
    destruct (str_eqb k d) eqn:E.
    + apply str_eqb_eq in E. subst k. rewrite str_eqb_refl.
      cbn [denote_kids]. rewrite !in_app_iff, !in_map_iff. split.
      * intros [[[t' it] [Ex Hin]] | Hin].
        -- left. exists t', it. simpl in Ex. auto.
        -- right. split; [auto|]. intros t' it ->.
           apply in_denote_kids in Hin as (k' & c' & t'' & E' & Hin & _). injection E' as <- <-.
           apply Hnotin. eapply in_map_fst; eauto.
      * intros [(t' & it & -> & Hin) | [[[[t' it] [Ex Hin]] | Hin] Hne]].
        -- left. exists (t', it). auto.
        -- exfalso. simpl in Ex. subst x. eapply Hne. reflexivity.
        -- right. assumption.
    + assert (E' : str_eqb d k = false).
      { destruct (str_eqb d k) eqn:E2; [|reflexivity]. apply str_eqb_eq in E2. subst. now rewrite str_eqb_refl in E. }
      rewrite E'. cbn [denote_kids]. rewrite !in_app_iff, (IH Hnd'). split.
      * intros [Hin | [Hl | [Hin Hne]]].
        -- right. split; [auto|]. intros t' it ->. apply in_map_iff in Hin as [[t'' it'] [Ex _]].
           simpl in Ex. injection Ex as -> _ _. now rewrite str_eqb_refl in E.
        -- left. exact Hl.
        -- right. auto.
      * intros [Hl | [[Hin | Hin] Hne]]; auto.
Qed.

Lemma find_kid_not_in d ks : ~ In d (map fst ks) -> find_kid d ks = None.
Proof.
  induction ks as [|[k c] ks IH]; simpl; [reflexivity|]. intros H.
  destruct (str_eqb d k) eqn:E; [apply str_eqb_eq in E; subst; tauto|]. apply IH. tauto.
Qed.

Lemma wf_kids_ins d f ks :
  Forall (fun kc => wf_node (snd kc)) ks ->
  wf_node (f (match find_kid d ks with Some c => c | None => empty_node end)) ->
  NoDup (map fst ks) ->
  Forall (fun kc => wf_node (snd kc)) (ins_kid d f ks).
Proof.
  induction ks as [|[k c] ks IH]; intros Hw Hf Hnd; cbn [ins_kid find_kid] in *.
  - constructor; [exact Hf|constructor].
  - inversion Hw; subst. inversion Hnd as [|? ? Hnotin Hnd']; subst.
    destruct (str_eqb k d) eqn:E.
    + apply str_eqb_eq in E. subst k. rewrite str_eqb_refl in Hf. constructor; assumption.
    + assert (E' : str_eqb d k = false).
      { destruct (str_eqb d k) eqn:E2; [|reflexivity]. apply str_eqb_eq in E2. subst. now rewrite str_eqb_refl in E. }
      rewrite E' in Hf. constructor; [assumption|]. apply IH; assumption.
Qed.

Theorem add_correct t : forall n it,
  t <> [] -> wf_node n -> (forall it', ~ In (t, it') (denote n)) ->
  wf_node (add n t it) /\
  forall x, In x (denote (add n t it)) <-> x = (t, it) \/ In x (denote n).
Proof.
  induction t as [|sg t IH]; intros n it Hne Hwf Hfresh; [congruence|].
  destruct n as [statics var kids vkid].
  pose proof Hwf as Hwf0. apply wf_unfold in Hwf as (Hnd1 & Hnd2 & Hwk & Hwv).
  destruct t as [|x t'].
  - (* last segment *)
    destruct sg as [d|].
    + rewrite add_lit1. split.
      * apply wf_unfold. repeat split; auto. rewrite map_app. simpl.
        apply NoDup_app_snoc; [assumption|]. intros Hin. apply in_map_iff in Hin as [[k it'] [E Hin]].
        simpl in E. subst k. apply (Hfresh it'). apply in_denote. left. eauto.
      * intros [t0 it0]. rewrite !in_denote. split.
        -- intros [(k & -> & Hin) | H]; [|tauto]. apply in_app_iff in Hin as [Hin | [E|[]]].
           ++ right. left. eauto.
           ++ injection E as <- <-. left. reflexivity.
        -- intros [E | [(k & -> & Hin) | H]]; [| |tauto].
           ++ injection E as -> ->. left. exists d. split; [reflexivity|]. apply in_app_iff. simpl. auto.
           ++ left. exists k. split; [reflexivity|]. apply in_app_iff. auto.
    + rewrite add_var1. split.
      * apply wf_unfold. repeat split; auto.
      * intros [t0 it0]. rewrite !in_denote. split.
        -- intros [H | [[-> E] | H]]; [tauto| |tauto]. injection E as ->. left. reflexivity.
        -- intros [E | [H | [[-> E] | H]]]; [| tauto | | tauto].
           ++ injection E as -> ->. right. left. auto.
           ++ exfalso. subst var. apply (Hfresh it0). apply in_denote. right. left. auto.
  - (* inner segment *)
    destruct sg as [d|].
    + rewrite add_lit.
      set (c0 := match find_kid d kids with Some c => c | None => empty_node end).
      assert (Hc0wf : wf_node c0).
      { unfold c0. destruct (find_kid d kids) eqn:E; [|apply wf_empty].
        apply find_kid_in in E. rewrite Forall_forall in Hwk. apply (Hwk _ E). }
      assert (Hc0fresh : forall it', ~ In (x :: t', it') (denote c0)).
      { intros it' Hin. unfold c0 in Hin. destruct (find_kid d kids) eqn:E; [|destruct Hin].
        apply find_kid_in in E. apply (Hfresh it'). apply in_denote. right; right; left.
        exists d, n, (x :: t'). auto. }
      destruct (IH c0 it ltac:(discriminate) Hc0wf Hc0fresh) as [IHwf IHin].
      split.
      * apply wf_unfold. repeat split; auto.
        -- now apply ins_kid_nodup.
        -- apply wf_kids_ins; assumption.
      * intros [t0 it0]. rewrite !in_denote. rewrite <- !in_denote_kids.
        rewrite (denote_kids_ins d _ kids Hnd2). fold c0. split.
        -- intros [H | [H | [[(t'' & it'' & E & Hin) | [Hin Hnot]] | H]]]; try tauto.
           ++ injection E as -> ->. apply IHin in Hin as [E | Hin].
              ** injection E as -> ->. left. reflexivity.
              ** right. right. right. left. apply in_denote_kids.
                 unfold c0 in Hin. destruct (find_kid d kids) eqn:Ef; [|destruct Hin].
                 apply find_kid_in in Ef. exists d, n, t''. auto.
        -- intros [E | [H | [H | [Hin | H]]]]; try tauto.
           ++ injection E as -> ->. right. right. left. left. exists (x :: t'), it. split; [reflexivity|].
              apply IHin. left. reflexivity.
           ++ right. right. left.
              destruct t0 as [|[k|] t0']; try (right; split; [assumption|]; intros ? ? E; discriminate).
              destruct (str_eqb k d) eqn:Ek.
              ** apply str_eqb_eq in Ek. subst k. left. exists t0', it0. split; [reflexivity|].
                 apply IHin. right. apply in_denote_kids in Hin as (k & c & t'' & E & Hin & Hd).
                 injection E as <- <-. unfold c0.
                 destruct (find_kid d kids) eqn:Ef.
                 --- assert (c = n) by (eapply find_kid_unique; eauto). now subst.
                 --- exfalso. eapply find_kid_none; eauto.
              ** right. split; [assumption|]. intros ? ? E. injection E as -> _ _. now rewrite str_eqb_refl in Ek.
    + rewrite add_var.
      set (v0 := match vkid with Some v => v | None => empty_node end).
      assert (Hv0wf : wf_node v0) by (unfold v0; destruct vkid; [assumption|apply wf_empty]).
      assert (Hv0fresh : forall it', ~ In (x :: t', it') (denote v0)).
      { intros it' Hin. unfold v0 in Hin. destruct vkid as [v|] eqn:E; [|destruct Hin].
        apply (Hfresh it'). apply in_denote. right; right; right. exists v, (x :: t'). auto. }
      destruct (IH v0 it ltac:(discriminate) Hv0wf Hv0fresh) as [IHwf IHin].
      split.
      * apply wf_unfold. repeat split; auto.
      * intros [t0 it0]. rewrite !in_denote. split.
        -- intros [H | [H | [H | (v & t'' & -> & E & Hin)]]]; try tauto.
           injection E as <-. apply IHin in Hin as [E | Hin].
           ++ injection E as -> ->. left. reflexivity.
           ++ right. right. right. right. unfold v0 in Hin. destruct vkid as [v|]; [|destruct Hin].
              exists v, t''. auto.
        -- intros [E | [H | [H | [H | (v & t'' & -> & E & Hin)]]]]; try tauto.
           ++ injection E as -> ->. right. right. right. eexists. exists (x :: t'). split; [reflexivity|].
              split; [reflexivity|]. apply IHin. left. reflexivity.
           ++ right. right. right. eexists. exists t''. split; [reflexivity|]. split; [reflexivity|].
              apply IHin. right. unfold v0. now rewrite E.
Qed.
