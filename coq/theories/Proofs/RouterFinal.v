(* C03: the generated routing (strings, tree, base-path prologue) equals
   OpenAPI path matching (declarative spec + its executable form). *)
From Coq Require Import String.
From Coq Require Import List Bool Arith Ascii Lia.
Import ListNotations.
From Goag Require Import Base.Str Model.Router Spec.RouterSpec
     Proofs.RouterStrings Proofs.RouterTrie.

(* ---------------- build ---------------- *)

Lemma build_gen ts : forall n,
  wf_node n -> NoDup (map fst ts) ->
  (forall t it, In (t, it) ts -> t <> [] /\ forall it', ~ In (t, it') (denote n)) ->
  wf_node (fold_left (fun n ti => add n (fst ti) (snd ti)) ts n) /\
  forall x, In x (denote (fold_left (fun n ti => add n (fst ti) (snd ti)) ts n)) <-> In x ts \/ In x (denote n).
Proof.
  induction ts as [|[t it] ts IH]; intros n Hwf Hnd Hfresh; simpl.
  - split; [assumption|]. intros x. tauto.
  - inversion Hnd as [|? ? Hnotin Hnd']; subst.
    destruct (Hfresh t it (or_introl eq_refl)) as [Hne Hfr].
    destruct (add_correct t n it Hne Hwf Hfr) as [Hwf' Hin'].
    destruct (IH (add n t it) Hwf' Hnd') as [Hwf'' Hin''].
    + intros t0 it0 Hin0. destruct (Hfresh t0 it0 (or_intror Hin0)) as [Hne0 Hfr0]. split; [assumption|].
      intros it' Hd. apply Hin' in Hd as [E | Hd].
      * injection E as -> _. apply Hnotin. eapply in_map_fst; eauto.
      * eapply Hfr0; eauto.
    + split; [assumption|]. intros x. rewrite Hin'', Hin'. intuition (subst; auto).
Qed.

Theorem build_correct ts :
  NoDup (map fst ts) -> (forall t it, In (t, it) ts -> t <> []) ->
  wf_node (build ts) /\ forall x, In x (denote (build ts)) <-> In x ts.
Proof.
  intros Hnd Hne. destruct (build_gen ts empty_node wf_empty Hnd) as [Hwf Hin].
  - intros t it H. split; [eauto|]. intros it' [].
  - split; [exact Hwf|]. intros x. rewrite (Hin x). simpl. tauto.
Qed.

(* ---------------- the executable matcher realises the relation ---------------- *)

Lemma pref_lt_asym a : forall b, pref_lt a b = true -> pref_lt b a = false.
Proof.
  induction a as [|[x|] a IH]; intros [|[y|] b]; simpl; try discriminate; auto.
Qed.

Lemma pref_lt_trans a : forall b c, pref_lt a b = true -> pref_lt b c = true -> pref_lt a c = true.
Proof.
  induction a as [|[x|] a IH]; intros [|[y|] b] [|[z|] c]; simpl; try discriminate; eauto.
Qed.

Lemma pref_lt_total segs : forall a b,
  seg_match a segs = true -> seg_match b segs = true -> a <> b ->
  pref_lt a b = true \/ pref_lt b a = true.
Proof.
  induction segs as [|s segs IH]; intros a b Ha Hb Hne.
  - apply seg_match_nil_r in Ha, Hb. congruence.
  - destruct a as [|[x|] a], b as [|[y|] b]; simpl in *; try discriminate; auto.
    + apply andb_true_iff in Ha as [Hx Ha]. apply andb_true_iff in Hb as [Hy Hb].
      apply str_eqb_eq in Hx, Hy. subst. apply IH; auto. congruence.
    + apply IH; auto. congruence.
Qed.

(* [best] keeps the pref_lt-least element *)
Lemma best_min segs cands : forall cur,
  let all := (match cur with Some c => [c] | None => [] end) ++ cands in
  (forall c, In c all -> seg_match (fst c) segs = true) ->
  (forall c1 c2, In c1 all -> In c2 all -> c1 = c2 \/ fst c1 <> fst c2) ->
  match best cands cur with
  | Some b => In b all /\ forall c, In c all -> c = b \/ pref_lt (fst b) (fst c) = true
  | None => all = []
  end.
Proof.
  induction cands as [|c cands IH]; intros cur all Hm Hd.
  - destruct cur as [b|]; simpl in *; [|reflexivity]. split; [auto|]. intros c [<-|[]]. auto.
  - destruct cur as [b|]; cbn [best].
    + destruct (pref_lt (fst c) (fst b)) eqn:Hlt.
      * specialize (IH (Some c)). cbn zeta in IH.
        assert (Hsub : forall x, In x ([c] ++ cands) -> In x all) by (intros x [<-|H]; unfold all; simpl; auto).
        specialize (IH (fun x H => Hm x (Hsub x H)) (fun x y Hx Hy => Hd x y (Hsub x Hx) (Hsub y Hy))).
        destruct (best cands (Some c)) as [mn|]; [|discriminate].
        destruct IH as [Hin Hmin]. split; [auto|].
        intros x Hx. unfold all in Hx. simpl in Hx. destruct Hx as [<- | Hx]; [|apply Hmin; exact Hx].
        destruct (Hmin c (or_introl eq_refl)) as [E | Hlt'].
        -- subst mn. auto.
        -- right. eapply pref_lt_trans; eauto.
      * specialize (IH (Some b)). cbn zeta in IH.
        assert (Hsub : forall x, In x ([b] ++ cands) -> In x all) by (intros x [<-|H]; unfold all; simpl; auto).
        specialize (IH (fun x H => Hm x (Hsub x H)) (fun x y Hx Hy => Hd x y (Hsub x Hx) (Hsub y Hy))).
        destruct (best cands (Some b)) as [mn|]; [|discriminate].
        destruct IH as [Hin Hmin]. split; [auto|].
        intros x Hx. unfold all in Hx. simpl in Hx. destruct Hx as [<- | [<- | Hx]].
        -- apply Hmin. simpl. auto.
        -- assert (Hcb : c = b \/ fst c <> fst b) by (apply Hd; unfold all; simpl; auto).
           destruct Hcb as [-> | Hne]; [apply Hmin; simpl; auto|].
           assert (Hbc : pref_lt (fst b) (fst c) = true).
           { destruct (pref_lt_total segs (fst c) (fst b)) as [H|H]; auto; try congruence;
               apply Hm; unfold all; simpl; auto. }
           destruct (Hmin b (or_introl eq_refl)) as [E | Hlt'].
           ++ subst mn. auto.
           ++ right. eapply pref_lt_trans; eauto.
        -- apply Hmin. simpl. auto.
    + specialize (IH (Some c)). cbn zeta in IH. apply IH.
      * intros x Hx. apply Hm. exact Hx.
      * intros x y Hx Hy. apply Hd; assumption.
Qed.

Lemma NoDup_fst_pairwise (ts : list (tmpl * item)) :
  NoDup (map fst ts) -> forall c1 c2, In c1 ts -> In c2 ts -> c1 = c2 \/ fst c1 <> fst c2.
Proof.
  induction ts as [|x ts IH]; intros Hnd c1 c2 H1 H2; [destruct H1|].
  inversion Hnd as [|? ? Hnotin Hnd']; subst.
  destruct H1 as [<- | H1], H2 as [<- | H2]; auto.
  - right. intros E. apply Hnotin. rewrite E. now apply in_map.
  - right. intros E. apply Hnotin. rewrite <- E. now apply in_map.
Qed.

(* the executable reference matcher satisfies the relational specification *)
Theorem match_spec_ok ts segs m :
  NoDup (map fst ts) -> spec_ok ts segs m (match_spec ts segs m).
Proof.
  intros Hnd. unfold match_spec.
  pose proof (best_min segs (filter (candidate segs m) ts) None) as H. cbn zeta in H. simpl app in H.
  assert (Hm : forall c, In c (filter (candidate segs m) ts) -> seg_match (fst c) segs = true).
  { intros c Hc. apply filter_In in Hc as [_ Hc]. unfold candidate in Hc. now apply andb_true_iff in Hc as [Hc _]. }
  assert (Hd : forall c1 c2, In c1 (filter (candidate segs m) ts) -> In c2 (filter (candidate segs m) ts) ->
                             c1 = c2 \/ fst c1 <> fst c2).
  { intros c1 c2 H1 H2. apply filter_In in H1 as [H1 _], H2 as [H2 _]. now apply NoDup_fst_pairwise with ts. }
  specialize (H Hm Hd).
  destruct (best (filter (candidate segs m) ts) None) as [b|].
  - destruct H as [Hin Hmin]. apply filter_In in Hin as [Hin Hc]. simpl. split; [assumption|]. split; [assumption|].
    intros ti' Hin' Hc'. apply Hmin. apply filter_In. auto.
  - simpl. intros ti' Hin'. destruct (candidate segs m ti') eqn:E; [|reflexivity].
    assert (In ti' (filter (candidate segs m) ts)) by (apply filter_In; auto). rewrite H in *. contradiction.
Qed.

(* the relation determines its result *)
Lemma spec_ok_unique ts segs m r1 r2 :
  spec_ok ts segs m r1 -> spec_ok ts segs m r2 -> r1 = r2.
Proof.
  destruct r1 as [a|], r2 as [b|]; simpl; auto.
  - intros (Ha & Hca & Hmina) (Hb & Hcb & Hminb).
    destruct (Hmina b Hb Hcb) as [E | H1]; [congruence|].
    destruct (Hminb a Ha Hca) as [E | H2]; [congruence|].
    apply pref_lt_asym in H1. congruence.
  - intros (Ha & Hca & _) Hn. rewrite (Hn a Ha) in Hca. discriminate.
  - intros Hn (Hb & Hcb & _). rewrite (Hn b Hb) in Hcb. discriminate.
Qed.

(* ---------------- the whole router ---------------- *)

Lemma route_no_slash cors n p m : has_prefix [slash] p = false -> route cors n p m = None.
Proof. intros H. destruct n. rewrite route_unfold, H. reflexivity. Qed.

Theorem route_tree_match cors ts segs m :
  NoDup (map fst ts) -> (forall t it, In (t, it) ts -> t <> [] /\ tot cors it) ->
  Forall noslash segs ->
  route cors (build ts) (enc segs) m =
  match match_spec ts segs m with Some (_, it) => dispatch it m | None => None end.
Proof.
  intros Hnd Hts Hns.
  destruct (build_correct ts Hnd (fun t it H => proj1 (Hts t it H))) as [Hwf Hden].
  rewrite route_strings_segments by assumption.
  assert (Htot : items_tot cors (build ts)).
  { intros t it Hin. apply Hden in Hin. apply (Hts t it Hin). }
  pose proof (rsegs_correct cors (build ts) Hwf Htot segs m) as Hsel.
  pose proof (match_spec_ok ts segs m Hnd) as Hms.
  destruct (rsegs cors (build ts) segs m) as [x|].
  - destruct Hsel as (t & it & Hin & Hc & Hd & Hmin).
    assert (Hok : spec_ok ts segs m (Some (t, it))).
    { simpl. split; [now apply Hden|]. split; [assumption|].
      intros [t' it'] Hin' Hc'. apply (Hmin t' it'); [now apply Hden | assumption]. }
    rewrite (spec_ok_unique _ _ _ _ _ Hms Hok). symmetry. exact Hd.
  - assert (Hok : spec_ok ts segs m None).
    { simpl. intros [t' it'] Hin'. apply Hsel. now apply Hden. }
    now rewrite (spec_ok_unique _ _ _ _ _ Hms Hok).
Qed.

Theorem route_root_match cors bp0 ts path m :
  NoDup (map fst ts) -> (forall t it, In (t, it) ts -> t <> [] /\ tot cors it) ->
  route_root cors (norm_base bp0) (build ts) path m = match_request ts bp0 path m.
Proof.
  intros Hnd Hts. unfold route_root, match_request, segs_under.
  destruct (has_prefix (norm_base bp0) path); [|reflexivity].
  destruct (skipn (length (norm_base bp0)) path) as [|c r] eqn:Er.
  - now apply route_no_slash.
  - destruct (ascii_eqb c slash) eqn:Ec.
    + apply ascii_eqb_eq in Ec. subst c.
      destruct (split_slash_enc r) as [Henc Hns]. rewrite <- Henc.
      now apply route_tree_match.
    + apply route_no_slash. cbn [has_prefix].
      destruct (ascii_eqb slash c) eqn:E2; [|reflexivity].
      apply ascii_eqb_eq in E2. subst c. rewrite ascii_eqb_refl in Ec. discriminate.
Qed.

(* a trailing slash on the REQUEST path is significant: the two requests
   denote different segment lists, so they can never be confused *)
Lemma trailing_slash_significant r : split_slash r <> split_slash (r ++ [slash]).
Proof.
  assert (H : forall r, length (split_slash (r ++ [slash])) = S (length (split_slash r))).
  { induction r0 as [|c r0 IH]; [reflexivity|]. simpl.
    destruct (ascii_eqb c slash); simpl; [now rewrite IH|].
    destruct (split_slash (r0 ++ [slash])) eqn:E1, (split_slash r0) eqn:E2; simpl in *; try lia;
      exfalso; eapply split_slash_nonempty; eauto. }
  intros E. specialize (H r). rewrite <- E in H. lia.
Qed.

(* Non-vacuity: a template set with a shared prefix, a literal/variable
   conflict and a trailing-slash template; the request that used to be
   mis-dispatched (one segment short) is a 404 and the others go where OpenAPI
   says. *)
Definition ex_item (raw : String.string) : item :=
  {| i_raw := S_ raw; i_ops := [{| o_method := S_ "GET"; o_id := 0; o_auth := [] |}]; i_cors := None |}.
Definition ex_ts : list (tmpl * item) :=
  [ (tmpl_of_raw (S_ "/shops/{shop}"), ex_item "/shops/{shop}");
    (tmpl_of_raw (S_ "/shops/activate"), ex_item "/shops/activate");
    (tmpl_of_raw (S_ "/shops/{shop}/"), ex_item "/shops/{shop}/") ].

Example ex_hyps : NoDup (map fst ex_ts) /\ forall t it, In (t, it) ex_ts -> t <> [] /\ tot false it.
Proof.
  split.
  - repeat constructor; simpl; intuition discriminate.
  - intros t it [E|[E|[E|[]]]]; injection E as <- <-; (split; [discriminate | right; reflexivity]).
Qed.

Example ex_routes :
  let go p := match route_root false (S_ "/v1") (build ex_ts) (S_ p) (S_ "GET") with
              | Some (RHandler it _) => Some (i_raw it) | _ => None end in
  go "/v1/shops"%string = None /\
  go "/v1/shops/activate"%string = Some (S_ "/shops/activate") /\
  go "/v1/shops/x"%string = Some (S_ "/shops/{shop}") /\
  go "/v1/shops/x/"%string = Some (S_ "/shops/{shop}/") /\
  go "/shops/x"%string = None.
Proof. vm_compute. repeat split. Qed.
