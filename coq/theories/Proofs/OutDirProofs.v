From Coq Require Import List Bool Arith Lia.
Import ListNotations.
From Goag Require Import Model.OutDir.

Lemma fname_eqb_refl f : fname_eqb f f = true.
Proof. destruct f; simpl; auto using Nat.eqb_refl. Qed.

Lemma fname_eqb_eq a b : fname_eqb a b = true <-> a = b.
Proof.
  split; [|intros ->; apply fname_eqb_refl].
  destruct a, b; simpl; try discriminate; auto.
  intros H; apply Nat.eqb_eq in H; now subst.
Qed.

(* The step lemma: on owned names the result of a run does not depend on the
   directory it ran in. *)
Lemma run_owned d i f : owned f = true -> run d i f = spec_dir i f.
Proof.
  intros Hf. unfold run, spec_dir, wanted, write, remove.
  destruct i as [sid hc gc ga]; simpl.
  destruct f; simpl in *; try discriminate;
    destruct hc, gc, ga; simpl; reflexivity.
Qed.

Lemma run_foreign d i f : owned f = false -> run d i f = d f.
Proof.
  intros Hf. unfold run, write, remove.
  destruct f; simpl in *; try discriminate.
  destruct (has_components i), (gen_api i), (gen_client i); simpl; reflexivity.
Qed.

Lemma last_wins d0 h i f :
  owned f = true -> run_history d0 (h ++ [i]) f = run empty_dir i f.
Proof.
  intros Hf. unfold run_history. rewrite fold_left_app. simpl.
  now rewrite !run_owned.
Qed.

Lemma last_wins_spec d0 h i f :
  owned f = true -> run_history d0 (h ++ [i]) f = spec_dir i f.
Proof.
  intros Hf. unfold run_history. rewrite fold_left_app. simpl.
  now rewrite run_owned.
Qed.

Lemma foreign_untouched d0 h f :
  owned f = false -> run_history d0 h f = d0 f.
Proof.
  intros Hf. unfold run_history. revert d0.
  induction h as [|i h IH]; intros d0; simpl; [reflexivity|].
  rewrite IH. now apply run_foreign.
Qed.

Lemma idempotent d i f : run (run d i) i f = run d i f.
Proof.
  destruct (owned f) eqn:Hf.
  - now rewrite !run_owned.
  - now rewrite !run_foreign.
Qed.

(* Files the last invocation does not call for are gone; those it calls for
   hold exactly its rendering. *)
Lemma stale_gone d0 h i f :
  owned f = true -> wanted i f = false -> run_history d0 (h ++ [i]) f = None.
Proof.
  intros Hf Hw. rewrite last_wins_spec by assumption. unfold spec_dir. now rewrite Hw.
Qed.

Lemma wanted_rewritten d0 h i f :
  wanted i f = true -> run_history d0 (h ++ [i]) f = Some (Gen i f).
Proof.
  intros Hw. assert (Hf : owned f = true) by (destruct f; simpl in *; auto; discriminate).
  rewrite last_wins_spec by assumption. unfold spec_dir. now rewrite Hw.
Qed.

(* Non-vacuity: a three-step history that flips every flag, starting from a
   directory holding a stale client.go and a user file. *)
Definition ex_i1 := {| spec_id := 1; has_components := true;  gen_client := true;  gen_api := true |}.
Definition ex_i2 := {| spec_id := 2; has_components := false; gen_client := false; gen_api := false |}.
Definition ex_i3 := {| spec_id := 1; has_components := true;  gen_client := false; gen_api := true |}.
Definition ex_d0 : dir := write (write empty_dir Client (User 7)) (Other 0) (User 8).

Example history_example :
  observe 1 (run_history ex_d0 [ex_i1; ex_i2; ex_i3])
  = [Some (Gen ex_i3 Components); Some (Gen ex_i3 Handler); Some (Gen ex_i3 Router);
     Some (Gen ex_i3 SpecFile); None; Some (User 8)].
Proof. reflexivity. Qed.
