(* C06, second half: decoding the encoding of a well-typed value returns the
   value (unset optionals stay unset, null nullables stay null, map entries and
   allOf members are preserved).  Also the strictness facts of C08. *)
From Coq Require Import String.
From Coq Require Import List Bool Arith Ascii NArith ZArith Lia.
Import ListNotations.
From Goag Require Import Base.Str Model.Router Model.Serve Model.Params Model.Json Spec.JsonSpec
     Proofs.JsonEncProofs.

Section RT.
  Variable fmt_float : Z -> str -> str.
  Variable fmt_time : str -> str.
  Variable parse_num : Z -> str -> option str.
  Variable parse_time : str -> option str.

  (* the standard-library round-trip premises (strconv / time) *)
  Hypothesis float_rt : forall b r, parse_num b (fmt_float b r) = Some r.
  Hypothesis time_rt : forall r, parse_time (fmt_time r) = Some r.

  Notation EI := (enc_items fmt_float fmt_time).
  Notation ENC := (enc fmt_float fmt_time).
  Notation DI := (dec_items parse_num parse_time).
  Notation DEC := (dec parse_num parse_time).

  (* ---------------- named forms of the two inner loops ---------------- *)

  Section Inner.
    Variable addl : option jsch.
    Variable ad : list (str * gval).

    Fixpoint enc_inner (ms : list (mkind * jsch)) (fs : list gval) (comma : bool) {struct ms}
      : res (list item * bool) :=
      match ms, fs with
      | [], [] =>
        match addl with
        | Some sa => enc_addl (fun x => value_of (is_obj sa) (EI sa x false)) ad comma
        | None => Ok ([], comma)
        end
      | (MField k req, sf) :: ms', f :: fs' =>
        if req then
          bind (value_of (is_obj sf) (EI sf f false)) (fun j =>
            bind (enc_inner ms' fs' true) (fun rr => Ok (write_property comma k j ++ fst rr, snd rr)))
        else
          match f with
          | GMaybe None => enc_inner ms' fs' comma
          | GMaybe (Some x) =>
            bind (value_of (is_obj sf) (EI sf x false)) (fun j =>
              bind (enc_inner ms' fs' true) (fun rr => Ok (write_property comma k j ++ fst rr, snd rr)))
          | _ => ErrOther
          end
      | (MEmbed, se) :: ms', f :: fs' =>
        if is_obj se then
          bind (EI se f comma) (fun er =>
            bind (enc_inner ms' fs' (snd er)) (fun rr => Ok (fst er ++ fst rr, snd rr)))
        else ErrOther
      | _, _ => ErrOther
      end.

    Fixpoint dec_inner (ms : list (mkind * jsch)) (m : kvmap) {struct ms}
      : res (list gval * kvmap * list (str * gval)) :=
      match ms with
      | [] =>
        match addl with
        | Some sa => bind (dec_addl (fun x => bind (DI sa x [] false) (fun r => Ok (fst r))) m)
                          (fun ad => Ok ([], m, ad))
        | None => Ok ([], m, [])
        end
      | (MField k req, sf) :: ms' =>
        match kv_get m k with
        | Some raw =>
          bind (under_key k (DI sf raw [] false)) (fun r =>
            bind (dec_inner ms' (kv_del m k)) (fun rr =>
              Ok ((if req then fst r else GMaybe (Some (fst r))) :: fst (fst rr), snd (fst rr), snd rr)))
        | None =>
          if req then Err k
          else bind (dec_inner ms' m) (fun rr => Ok (GMaybe None :: fst (fst rr), snd (fst rr), snd rr))
        end
      | (MEmbed, se) :: ms' =>
        bind (DI se JNull m true) (fun er =>
          bind (dec_inner ms' (snd er)) (fun rr => Ok (fst er :: fst (fst rr), snd (fst rr), snd rr)))
      end.
  End Inner.

  Lemma enc_items_obj ms addl fs ad c :
    EI (JObjS ms addl) (GStruct fs ad) c = enc_inner addl ad ms fs c.
  Proof. reflexivity. Qed.

  Lemma dec_items_obj ms addl j m e :
    DI (JObjS ms addl) j m e =
    bind (if e then Ok m
          else match j with
               | JObj members => Ok (kv_of_members members)
               | JNull => Ok []
               | _ => ErrOther
               end)
         (fun m0 => bind (dec_inner addl ms m0)
                         (fun x => Ok (GStruct (fst (fst x)) (snd x), snd (fst x)))).
  Proof. reflexivity. Qed.

  (* ---------------- members of an item sequence ---------------- *)

  Definition mem_items (its : list item) : list (str * json) :=
    flat_map (fun it => match it with ItMember k v => [(k, v)] | ItComma => [] end) its.

  Lemma mem_items_app a b : mem_items (a ++ b) = mem_items a ++ mem_items b.
  Proof. unfold mem_items. apply flat_map_app. Qed.

  Lemma mem_write_property c k j : mem_items (write_property c k j) = [(k, j)].
  Proof. unfold write_property. destruct c; reflexivity. Qed.

  Lemma assemble_tail_mem its : forall st,
    wrun WAfter its = Some st -> st <> WComma -> assemble_tail its = Some (mem_items its).
  Proof.
    assert (H : forall n its st, length its <= n -> wrun WAfter its = Some st -> st <> WComma ->
                                 assemble_tail its = Some (mem_items its)).
    { induction n as [|n IH]; intros its0 st Hl Hr Hst.
      - destruct its0; [reflexivity | simpl in Hl; lia].
      - destruct its0 as [|[|k v] r]; [reflexivity| |simpl in Hr; discriminate].
        destruct r as [|[|k v] r']; simpl in Hr.
        + injection Hr as <-. congruence.
        + discriminate.
        + simpl in Hl. cbn [assemble_tail]. rewrite (IH r' st ltac:(lia) Hr Hst). reflexivity. }
    intros st Hr Hst. eapply H; eauto.
  Qed.

  Lemma assemble_mem its c' : shape false its = Some c' -> assemble its = Some (mem_items its).
  Proof.
    unfold shape. simpl. destruct its as [|[|k v] r]; simpl; [reflexivity|discriminate|].
    destruct (wrun WAfter r) as [st|] eqn:E; [|discriminate].
    intros Hs. assert (st <> WComma) by (destruct st; discriminate).
    now rewrite (assemble_tail_mem r st E H).
  Qed.

  (* ---------------- key/value maps ---------------- *)

  Definition keys {A} (l : list (str * A)) : list str := map fst l.

  Lemma kv_get_notin m k : ~ In k (keys m) -> kv_get m k = None.
  Proof.
    induction m as [|[k' v] r IH]; simpl; [reflexivity|]. intros H.
    destruct (str_eqb k' k) eqn:E; [apply str_eqb_eq in E; subst; tauto|]. apply IH. tauto.
  Qed.

  Lemma kv_set_notin m k v : ~ In k (keys m) -> kv_set m k v = m ++ [(k, v)].
  Proof.
    induction m as [|[k' v'] r IH]; simpl; [reflexivity|]. intros H.
    destruct (str_eqb k' k) eqn:E; [apply str_eqb_eq in E; subst; tauto|]. rewrite IH; tauto.
  Qed.

  Lemma kv_of_members_nodup l : NoDup (keys l) -> kv_of_members l = l.
  Proof.
    unfold kv_of_members.
    assert (H : forall l acc, NoDup (keys (acc ++ l)) ->
                fold_left (fun m kv => kv_set m (fst kv) (snd kv)) l acc = acc ++ l).
    { induction l0 as [|[k v] r IH]; intros acc Hnd; simpl; [now rewrite app_nil_r|].
      assert (Hk : ~ In k (keys acc)).
      { unfold keys in *. rewrite map_app in Hnd. simpl in Hnd. apply NoDup_remove_2 in Hnd.
        intros Hin. apply Hnd. apply in_app_iff. auto. }
      rewrite kv_set_notin by assumption. rewrite IH.
      - now rewrite <- app_assoc.
      - now rewrite <- app_assoc. }
    intros Hnd. apply (H l []). exact Hnd.
  Qed.

  Lemma kv_get_head k j r : kv_get ((k, j) :: r) k = Some j.
  Proof. simpl. now rewrite str_eqb_refl. Qed.

  Lemma kv_del_head k (j : json) r : kv_del ((k, j) :: r) k = r.
  Proof. simpl. now rewrite str_eqb_refl. Qed.

  (* ---------------- values for which the round trip is claimed ---------------- *)

  Definition non_null (s : jsch) : bool :=
    match s with JPrimS QAny => false | JNullS _ => false | _ => true end.

  Definition dk (ms : list (mkind * jsch)) : list str := declared_keys (JObjS ms None).

  Lemma dk_field k r sf ms : dk ((MField k r, sf) :: ms) = k :: dk ms.
  Proof. reflexivity. Qed.
  Lemma dk_embed se ms : dk ((MEmbed, se) :: ms) = declared_keys se ++ dk ms.
  Proof. reflexivity. Qed.
  Lemma declared_keys_obj ms addl : declared_keys (JObjS ms addl) = dk ms.
  Proof. reflexivity. Qed.

  (* [rt_ok s v]: v is a value of the type generated for s, within the domain of
     DESIGN section 11: integers survive FormatInt/ParseInt (i.e. are in range),
     a nullable's inner schema never encodes to null, declared property names and
     additional-property keys are pairwise distinct, embedded (allOf $ref)
     members declare no additionalProperties of their own (D28). *)
  Fixpoint rt_ok (s : jsch) (v : gval) {struct s} : Prop :=
    match s with
    | JPrimS p =>
      match p, v with
      | QInt b, GInt z => parse_int b (z_to_str z) = Some z
      | _, _ => typed_prim p v
      end
    | JNullS s' =>
      non_null s' = true /\
      match v with GNullable None => True | GNullable (Some x) => rt_ok s' x | _ => False end
    | JArrS it => match v with GList l => Forall (rt_ok it) l | _ => False end
    | JObjS ms addl =>
      match v with
      | GStruct fs ad =>
        (fix go (ms : list (mkind * jsch)) (fs : list gval) : Prop :=
           match ms, fs with
           | [], [] => True
           | (MField _ req, sf) :: ms', f :: fs' =>
             (if req then rt_ok sf f
              else match f with GMaybe None => True | GMaybe (Some x) => rt_ok sf x | _ => False end)
             /\ go ms' fs'
           | (MEmbed, se) :: ms', f :: fs' =>
             (exists ems, se = JObjS ems None) /\ rt_ok se f /\ go ms' fs'
           | _, _ => False
           end) ms fs
        /\ match addl with
           | Some sa => Forall (fun kv => rt_ok sa (snd kv)) ad
           | None => ad = []
           end
        /\ NoDup (dk ms ++ keys ad)
      | _ => False
      end
    end.

  (* the same fixpoint over members, named *)
  Fixpoint rt_go (ms : list (mkind * jsch)) (fs : list gval) : Prop :=
    match ms, fs with
    | [], [] => True
    | (MField _ req, sf) :: ms', f :: fs' =>
      (if req then rt_ok sf f
       else match f with GMaybe None => True | GMaybe (Some x) => rt_ok sf x | _ => False end)
      /\ rt_go ms' fs'
    | (MEmbed, se) :: ms', f :: fs' =>
      (exists ems, se = JObjS ems None) /\ rt_ok se f /\ rt_go ms' fs'
    | _, _ => False
    end.

  Lemma rt_ok_obj ms addl fs ad :
    rt_ok (JObjS ms addl) (GStruct fs ad) <->
    rt_go ms fs /\
    match addl with Some sa => Forall (fun kv => rt_ok sa (snd kv)) ad | None => ad = [] end /\
    NoDup (dk ms ++ keys ad).
  Proof. reflexivity. Qed.

  Lemma non_null_enc s x j :
    non_null s = true -> value_of (is_obj s) (EI s x false) = Ok j -> j <> JNull.
  Proof.
    destruct s as [p | s' | it | ms addl]; intros Hn Hj; cbn [non_null] in Hn; try discriminate.
    - destruct p, x; simpl in *; try discriminate; injection Hj as <-; discriminate.
    - destruct x; simpl in Hj; try discriminate.
      destruct (enc_list _ l); simpl in Hj; try discriminate. injection Hj as <-. discriminate.
    - unfold value_of in Hj. cbn [is_obj] in Hj.
      destruct (EI (JObjS ms addl) x false) as [[its c']| |]; cbn [bind fst] in Hj; try discriminate.
      destruct (assemble its); try discriminate. injection Hj as <-. discriminate.
  Qed.

  (* the round-trip statement for one schema *)
  Definition RTP (s : jsch) : Prop :=
    forall v, rt_ok s v ->
      (* value position *)
      (forall j, value_of (is_obj s) (EI s v false) = Ok j -> exists m', DI s j [] false = Ok (v, m')) /\
      (* embedded position (a struct without additionalProperties): the shared map *)
      (forall ems, s = JObjS ems None ->
         forall c its c' T, EI s v c = Ok (its, c') ->
           (forall k, In k (declared_keys s) -> ~ In k (keys T)) ->
           DI s JNull (mem_items its ++ T) true = Ok (v, T) /\
           incl (keys (mem_items its)) (declared_keys s) /\
           NoDup (keys (mem_items its))).

  Lemma addl_rt sa ad : forall c its c',
    Forall (fun kv => forall j, value_of (is_obj sa) (EI sa (snd kv) false) = Ok j ->
                                exists m', DI sa j [] false = Ok (snd kv, m')) ad ->
    enc_addl (fun x => value_of (is_obj sa) (EI sa x false)) ad c = Ok (its, c') ->
    dec_addl (fun x => bind (DI sa x [] false) (fun r => Ok (fst r))) (mem_items its) = Ok ad /\
    keys (mem_items its) = keys ad.
  Proof.
    induction ad as [|[k x] r IH]; intros c its c' Hall He; simpl in He.
    - injection He as <- <-. split; reflexivity.
    - inversion Hall as [|? ? Hx Hr]; subst. simpl in Hx.
      destruct (value_of (is_obj sa) (EI sa x false)) as [j| |] eqn:Ej; simpl in He; try discriminate.
      destruct (enc_addl _ r true) as [[its' c'']| |] eqn:Er; simpl in He; try discriminate.
      injection He as <- <-. destruct (IH true its' c'' Hr Er) as [Hd Hk].
      destruct (Hx j eq_refl) as [m' Hm'].
      rewrite mem_items_app, mem_write_property. simpl. rewrite Hm'. simpl. rewrite Hd. simpl.
      split; [reflexivity|]. unfold keys in *. simpl. now rewrite Hk.
  Qed.

  (* rt_ok refines typed *)
  Lemma rt_ok_typed s : forall v, rt_ok s v -> typed s v.
  Proof.
    induction s as [p | s' IH | it IH | ms addl IHms IHad] using jsch_ind2; intros v H.
    - destruct p, v; simpl in *; auto.
    - destruct v as [| | | | | | [x|] | | |]; simpl in *; try tauto. destruct H as [_ H]. auto.
    - destruct v as [| | | | | | | | l |]; simpl in *; try tauto.
      rewrite Forall_forall in *. auto.
    - destruct v as [| | | | | | | | | fs ad]; [simpl in H; tauto..|].
      apply rt_ok_obj in H as (Hgo & Had & _). simpl. split.
      + revert fs Hgo. induction ms as [|[k sf] ms IHm]; intros fs Hgo; destruct fs as [|f fs]; simpl in *; auto;
          try contradiction; try (destruct k; contradiction).
        inversion IHms as [|? ? Hsf Hms]; subst. simpl in Hsf. destruct k as [k req|].
        * destruct Hgo as [Hf Hgo]. split; [|now apply IHm].
          destruct req; [auto|]. destruct f as [| | | | | | | [x|] | |]; auto.
        * destruct Hgo as ([ems ->] & Hf & Hgo). split; [reflexivity|]. split; [auto | now apply IHm].
      + destruct addl as [sa|]; [|assumption]. simpl in IHad. rewrite Forall_forall in *. auto.
  Qed.

  Lemma NoDup_app_intro {A} (a b : list A) :
    NoDup a -> NoDup b -> (forall x, In x a -> ~ In x b) -> NoDup (a ++ b).
  Proof.
    induction a as [|x a IH]; intros Ha Hb Hd; simpl; [assumption|].
    inversion Ha; subst. constructor.
    - rewrite in_app_iff. intros [H|H]; [contradiction|]. apply (Hd x); simpl; auto.
    - apply IH; auto. intros y Hy. apply Hd. simpl. auto.
  Qed.

  Lemma NoDup_app_l {A} (a b : list A) : NoDup (a ++ b) -> NoDup a.
  Proof. induction a; simpl; intros H; [constructor|]. inversion H; subst. constructor; [rewrite in_app_iff in *; tauto | auto]. Qed.
  Lemma NoDup_app_r {A} (a b : list A) : NoDup (a ++ b) -> NoDup b.
  Proof. induction a; simpl; intros H; [assumption|]. inversion H; subst. auto. Qed.
  Lemma NoDup_app_disj {A} (a b : list A) x : NoDup (a ++ b) -> In x a -> ~ In x b.
  Proof.
    induction a as [|y a IH]; simpl; intros H Hin; [destruct Hin|]. inversion H; subst.
    destruct Hin as [-> | Hin]; [rewrite in_app_iff in *; tauto | auto].
  Qed.

  (* the inner loops are inverse to each other *)
  Lemma inner_rt addl ad ms :
    Forall (fun ks => RTP (snd ks)) ms ->
    match addl with
    | Some sa => Forall (fun kv => forall j, value_of (is_obj sa) (EI sa (snd kv) false) = Ok j ->
                                             exists m', DI sa j [] false = Ok (snd kv, m')) ad
    | None => ad = []
    end ->
    forall fs c its c' T,
      rt_go ms fs -> NoDup (dk ms ++ keys ad) -> (forall k, In k (dk ms) -> ~ In k (keys T)) ->
      (addl <> None -> T = []) ->
      enc_inner addl ad ms fs c = Ok (its, c') ->
      exists mrest ad',
        dec_inner addl ms (mem_items its ++ T) = Ok (fs, mrest, ad') /\
        (addl = None -> mrest = T /\ ad' = []) /\ (addl <> None -> ad' = ad) /\
        incl (keys (mem_items its)) (dk ms ++ keys ad) /\
        NoDup (keys (mem_items its)).
  Proof.
    intros Hall Haddl. induction ms as [|[k sf] ms IHm]; intros fs c its c' T Hgo Hnd HT HaT He.
    - destruct fs; [|contradiction]. simpl in He. destruct addl as [sa|].
      + destruct (addl_rt sa ad c its c' Haddl He) as [Hd Hk].
        rewrite (HaT ltac:(discriminate)), app_nil_r. simpl. rewrite Hd. simpl.
        exists (mem_items its), ad. split; [reflexivity|]. split; [discriminate|]. split; [reflexivity|]. split.
        * rewrite Hk. simpl. apply incl_refl.
        * rewrite Hk. exact Hnd.
      + injection He as <- <-. simpl. exists T, []. split; [reflexivity|]. split; [auto|]. split; [congruence|]. split.
        * intros x [].
        * constructor.
    - destruct fs as [|f fs]; [destruct k; contradiction|].
      inversion Hall as [|? ? Hsf Hms]; subst. simpl in Hsf. specialize (IHm Hms).
      destruct k as [k req|].
      + (* a declared property *)
        rewrite dk_field in *. simpl in Hnd. inversion Hnd as [|? ? Hk Hnd']; subst.
        destruct Hgo as [Hf Hgo].
        assert (HT' : forall k0, In k0 (dk ms) -> ~ In k0 (keys T)) by (intros k0 H0; apply HT; simpl; auto).
        (* the two ways a member is written *)
        assert (Hpresent : forall x, rt_ok sf x ->
                  forall its0, bind (value_of (is_obj sf) (EI sf x false)) (fun j =>
                                  bind (enc_inner addl ad ms fs true) (fun rr => Ok (write_property c k j ++ fst rr, snd rr))) = Ok (its0, c') ->
                  exists mrest ad',
                    dec_inner addl ((MField k req, sf) :: ms) (mem_items its0 ++ T)
                    = Ok ((if req then x else GMaybe (Some x)) :: fs, mrest, ad') /\
                    (addl = None -> mrest = T /\ ad' = []) /\ (addl <> None -> ad' = ad) /\
                    incl (keys (mem_items its0)) (k :: dk ms ++ keys ad) /\ NoDup (keys (mem_items its0))).
        { intros x Hx its0 He0.
          destruct (value_of (is_obj sf) (EI sf x false)) as [j| |] eqn:Ej; simpl in He0; try discriminate.
          destruct (enc_inner addl ad ms fs true) as [[its' c'']| |] eqn:Er; simpl in He0; try discriminate.
          injection He0 as <- <-.
          destruct (IHm fs true its' c'' T Hgo Hnd' HT' HaT Er) as (mrest & ad' & Hd & Hn & Hs & Hincl & Hndk).
          destruct (Hsf x Hx) as [HA _]. destruct (HA j Ej) as [m' Hm'].
          rewrite mem_items_app, mem_write_property. cbn [app dec_inner]. rewrite kv_get_head, Hm'. cbn [under_key bind fst].
          rewrite kv_del_head, Hd. cbn [bind fst snd].
          exists mrest, ad'. split; [reflexivity|]. split; [exact Hn|]. split; [exact Hs|]. split.
          - intros y [<- | Hy]; [simpl; auto | right; now apply Hincl].
          - simpl. constructor; [|assumption]. intros Hin. apply Hk. now apply Hincl. }
        destruct req.
        * simpl in He. apply (Hpresent f Hf its He).
        * destruct f as [| | | | | | | [x|] | |]; try contradiction.
          -- simpl in He. apply (Hpresent x Hf its He).
          -- (* unset optional: nothing written, and the key is not in the map *)
             simpl in He.
             destruct (IHm fs c its c' T Hgo Hnd' HT' HaT He) as (mrest & ad' & Hd & Hn & Hs & Hincl & Hndk).
             cbn [dec_inner]. rewrite kv_get_notin.
             ++ rewrite Hd. cbn [bind fst snd]. exists mrest, ad'.
                split; [reflexivity|]. split; [exact Hn|]. split; [exact Hs|]. split; [|exact Hndk].
                intros y Hy. right. now apply Hincl.
             ++ unfold keys. rewrite map_app, in_app_iff. intros [Hin | Hin].
                ** apply Hk. now apply Hincl.
                ** apply (HT k); simpl; auto.
      + (* an embedded member *)
        destruct Hgo as ([ems ->] & Hf & Hgo). rewrite dk_embed in *.
        cbn [enc_inner is_obj] in He.
        destruct (EI (JObjS ems None) f c) as [[eits ec]| |] eqn:Ee; cbn [bind fst snd] in He; try discriminate.
        destruct (enc_inner addl ad ms fs ec) as [[its' c'']| |] eqn:Er; cbn [bind fst snd] in He; try discriminate.
        injection He as <- <-.
        rewrite <- app_assoc in Hnd.
        assert (Hnd' : NoDup (dk ms ++ keys ad)) by (eapply NoDup_app_r; eauto).
        assert (HT' : forall k0, In k0 (dk ms) -> ~ In k0 (keys T)) by (intros k0 H0; apply HT; apply in_app_iff; auto).
        destruct (IHm fs ec its' c'' T Hgo Hnd' HT' HaT Er) as (mrest & ad' & Hd & Hn & Hs & Hincl & Hndk).
        destruct (Hsf f Hf) as [_ HB].
        destruct (HB ems eq_refl c eits ec (mem_items its' ++ T) Ee) as (Hde & Hince & Hnde).
        { intros k0 Hk0. unfold keys. rewrite map_app, in_app_iff. intros [Hin | Hin].
          - apply (NoDup_app_disj _ _ k0 Hnd Hk0). now apply Hincl.
          - apply (HT k0); [apply in_app_iff; auto | exact Hin]. }
        rewrite mem_items_app, <- app_assoc. cbn [dec_inner]. rewrite Hde. cbn [bind fst snd]. rewrite Hd. cbn [bind fst snd].
        exists mrest, ad'. split; [reflexivity|]. split; [exact Hn|]. split; [exact Hs|]. split.
        * unfold keys. rewrite map_app. intros y Hy. apply in_app_iff in Hy as [Hy | Hy].
          -- apply in_app_iff. left. apply in_app_iff. left. now apply Hince.
          -- apply Hincl in Hy. rewrite <- app_assoc. apply in_app_iff. right. exact Hy.
        * unfold keys. rewrite map_app. apply NoDup_app_intro; auto.
          intros y Hy Hy'. apply (NoDup_app_disj _ _ y Hnd); [now apply Hince | now apply Hincl].
  Qed.

  Lemma dec_list_rt it l :
    Forall (fun x => forall j, value_of (is_obj it) (EI it x false) = Ok j -> exists m', DI it j [] false = Ok (x, m')) l ->
    forall js, enc_list (fun x => value_of (is_obj it) (EI it x false)) l = Ok js ->
    dec_list (fun x => bind (DI it x [] false) (fun r => Ok (fst r))) js = Ok l.
  Proof.
    induction l as [|x r IH]; intros Hall js He; simpl in He.
    - injection He as <-. reflexivity.
    - inversion Hall as [|? ? Hx Hr]; subst.
      destruct (value_of (is_obj it) (EI it x false)) as [j| |] eqn:Ej; simpl in He; try discriminate.
      destruct (enc_list _ r) as [js'| |] eqn:Er; simpl in He; try discriminate.
      injection He as <-. destruct (Hx j eq_refl) as [m' Hm']. simpl. rewrite Hm'. simpl.
      rewrite (IH Hr js' eq_refl). reflexivity.
  Qed.

  Lemma value_of_one r c : value_of false (one_value r c) = r.
  Proof. destruct r; reflexivity. Qed.

  (* The round trip, for every schema of the dialect. *)
  Theorem rt_all s : RTP s.
  Proof.
    induction s as [p | s' IH | it IH | ms addl IHms IHad] using jsch_ind2; intros v Hv; split.
    - (* primitive, value position *)
      intros j Hj. destruct p, v; simpl in *; try contradiction; try discriminate;
        injection Hj as <-; simpl; rewrite ?Hv, ?float_rt, ?time_rt; simpl; eauto.
    - intros ems E. discriminate.
    - (* nullable *)
      destruct Hv as [Hnn Hv]. intros j Hj.
      destruct v as [| | | | | | [x|] | | |]; try contradiction.
      + cbn [is_obj enc_items] in Hj. rewrite value_of_one in Hj. rename j into jx. rename Hj into Ex.
        destruct (IH x Hv) as [HA _]. destruct (HA jx Ex) as [m' Hm'].
        pose proof (non_null_enc s' x jx Hnn Ex) as Hne.
        cbn [dec_items]. destruct jx; try congruence; rewrite Hm'; simpl; eauto.
      + simpl in Hj. injection Hj as <-. simpl. eauto.
    - intros ems E. discriminate.
    - (* array *)
      intros j Hj. destruct v as [| | | | | | | | l |]; try contradiction.
      cbn [is_obj enc_items] in Hj. rewrite value_of_one in Hj.
      destruct (enc_list _ l) as [js| |] eqn:El; cbn [bind] in Hj; try discriminate.
      injection Hj as <-. cbn [dec_items].
      rewrite (dec_list_rt it l); [simpl; eauto | | exact El].
      simpl in Hv. rewrite Forall_forall in *. intros x Hx. destruct (IH x (Hv x Hx)) as [HA _]. exact HA.
    - intros ems E. discriminate.
    - (* object, value position *)
      intros j Hj. destruct v as [| | | | | | | | | fs ad]; [simpl in Hv; tauto..|].
      pose proof (rt_ok_typed _ _ Hv) as Ht.
      apply rt_ok_obj in Hv as (Hgo & Had & Hnd).
      destruct (enc_items_ok fmt_float fmt_time (JObjS ms addl) (GStruct fs ad) false Ht) as [(its & c' & Ee & Hs) _].
      specialize (Hs eq_refl).
      unfold value_of in Hj. cbn [is_obj] in Hj. rewrite Ee in Hj. cbn [bind fst] in Hj.
      rewrite (assemble_mem its c' Hs) in Hj. injection Hj as <-.
      rewrite enc_items_obj in Ee.
      assert (Haddl : match addl with
                      | Some sa => Forall (fun kv => forall j, value_of (is_obj sa) (EI sa (snd kv) false) = Ok j ->
                                                               exists m', DI sa j [] false = Ok (snd kv, m')) ad
                      | None => ad = []
                      end).
      { destruct addl as [sa|]; [|assumption]. simpl in IHad. rewrite Forall_forall in *.
        intros kv Hkv. destruct (IHad (snd kv) (Had kv Hkv)) as [HA _]. exact HA. }
      destruct (inner_rt addl ad ms IHms Haddl fs false its c' [] Hgo Hnd) as (mrest & ad' & Hd & Hn & Hsome & Hincl & Hndk); auto.
      rewrite app_nil_r in Hd. rewrite dec_items_obj. cbn [bind].
      rewrite (kv_of_members_nodup _ Hndk). cbn [bind]. rewrite Hd. cbn [bind fst snd].
      assert (ad' = ad).
      { destruct addl as [sa|]; [apply Hsome; discriminate|]. destruct (Hn eq_refl) as [_ ->]. now subst ad. }
      subst ad'. eauto.
    - (* object, embedded position *)
      intros ems E c its c' T Ee HT. injection E as -> ->.
      destruct v as [| | | | | | | | | fs ad]; [simpl in Hv; tauto..|].
      apply rt_ok_obj in Hv as (Hgo & Had & Hnd). subst ad.
      rewrite enc_items_obj in Ee.
      destruct (inner_rt None [] ems IHms eq_refl fs c its c' T Hgo Hnd HT) as (mrest & ad' & Hd & Hn & Hsome & Hincl & Hndk);
        [congruence | exact Ee |].
      destruct (Hn eq_refl) as [-> ->].
      rewrite dec_items_obj. cbn [bind]. rewrite Hd. cbn [bind fst snd].
      split; [reflexivity|]. split; [|exact Hndk]. unfold keys in *. simpl in Hincl. now rewrite app_nil_r in Hincl.
  Qed.

  (* json.Unmarshal(json.Marshal(v)) = v *)
  Theorem roundtrip s v j : rt_ok s v -> ENC s v = Ok j -> DEC s j = Ok v.
  Proof.
    intros Hv He. destruct (rt_all s v Hv) as [HA _]. unfold enc in He. destruct (HA j He) as [m' Hm'].
    unfold dec. now rewrite Hm'.
  Qed.
End RT.
