(* C08, losslessness in full: the value a valid document decodes to re-encodes
   to [keep s j], the part of the document the generated type keeps, in the
   encoder's canonical form — declared properties in schema order (allOf
   members spliced in), then the undeclared members in document order when the
   schema has additionalProperties (dropped when it has not), numbers and
   date-times re-spelt by strconv / time.Format, everything else verbatim. *)
From Coq Require Import String.
From Coq Require Import List Bool Arith Ascii NArith ZArith Lia.
Import ListNotations.
From Goag Require Import Base.Str Model.Router Model.Serve Model.Params Model.Json Spec.JsonSpec
     Proofs.IntFormat Proofs.ParamsProofs
     Proofs.JsonEncProofs Proofs.JsonRtProofs Proofs.JsonStrictProofs Proofs.JsonConfProofs
     Proofs.JsonCompleteProofs Proofs.JsonStableProofs.

Section KeepGo.
  Variable fmt_float : Z -> str -> str.
  Variable fmt_time : str -> str.
  Variable parse_num : Z -> str -> option str.
  Variable parse_time : str -> option str.
  Notation keep := (keep fmt_float fmt_time parse_num parse_time).

  (* the member loop, named *)
  Fixpoint keep_go (m : list (str * json)) (ms : list (mkind * jsch)) : list (str * json) :=
    match ms with
    | [] => []
    | (MField k _, sf) :: r =>
      (match kv_get m k with Some x => [(k, keep sf x [] false)] | None => [] end) ++ keep_go m r
    | (MEmbed, se) :: r =>
      (match keep se JNull m true with JObj l => l | _ => [] end) ++ keep_go m r
    end.

  Lemma keep_obj ms addl j obj e :
    keep (JObjS ms addl) j obj e =
    let m := if e then obj else match j with JObj m => m | _ => [] end in
    JObj (keep_go m ms ++
          (if e then [] else
             match addl with
             | Some sa => map (fun kv => (fst kv, keep sa (snd kv) [] false)) (filt (dk ms) m)
             | None => []
             end)).
  Proof.
    cbn [keep]. cbv zeta.
    set (m := if e then obj else match j with JObj m => m | _ => [] end).
    assert (E : (fix go (ms : list (mkind * jsch)) : list (str * json) :=
                   match ms with
                   | [] => []
                   | (MField k _, sf) :: r =>
                     (match kv_get m k with Some x => [(k, keep sf x [] false)] | None => [] end) ++ go r
                   | (MEmbed, se) :: r =>
                     (match keep se JNull m true with JObj l => l | _ => [] end) ++ go r
                   end) ms = keep_go m ms).
    { induction ms as [|[[k r|] sf] ms IH]; cbn [keep_go]; [reflexivity| |]; now rewrite IH. }
    rewrite E. reflexivity.
  Qed.
End KeepGo.

(* ------------------------------------------------------------------ *)
(* maps as filtered member lists                                        *)

Lemma filt_nil m : filt [] m = m.
Proof. unfold filt. induction m as [|kv m IH]; cbn; [reflexivity|]. f_equal. exact IH. Qed.

Lemma filt_app D E m : filt (D ++ E) m = filt E (filt D m).
Proof.
  unfold filt. induction m as [|kv m IH]; cbn; [reflexivity|].
  rewrite existsb_app. destruct (existsb (str_eqb (fst kv)) D); cbn; [exact IH|].
  destruct (existsb (str_eqb (fst kv)) E); cbn; [exact IH | now rewrite IH].
Qed.

Lemma filt_in D m k x : In (k, x) (filt D m) <-> In (k, x) m /\ ~ In k D.
Proof.
  unfold filt. rewrite filter_In. cbn [fst]. split; intros [H1 H2]; split; auto.
  - intros Hin. apply negb_true_iff in H2.
    assert (existsb (str_eqb k) D = true) by (apply existsb_exists; exists k; split; [exact Hin | apply str_eqb_refl]).
    congruence.
  - apply negb_true_iff. destruct (existsb (str_eqb k) D) eqn:E; [|reflexivity].
    exfalso. apply H2. apply existsb_exists in E as (y & Hy & Ey). apply str_eqb_eq in Ey. now subst.
Qed.

Lemma filt_keys_nodup D m : NoDup (keys m) -> NoDup (keys (filt D m)).
Proof.
  unfold filt, keys. induction m as [|[k x] m IH]; cbn; intros H; [constructor|].
  inversion H as [|? ? Hk Hm]; subst. destruct (negb (existsb (str_eqb k) D)); cbn; [|now apply IH].
  constructor; [|now apply IH]. intros Hin. apply Hk. apply in_map_iff in Hin as ([k' x'] & E & Hin). cbn in E. subst.
  apply filter_In in Hin as [Hin _]. apply in_map_iff. exists (k, x'). auto.
Qed.

Lemma kv_get_filt D m k : ~ In k D -> kv_get (filt D m) k = kv_get m k.
Proof.
  intros Hk. unfold filt. induction m as [|[k' x] m IH]; cbn; [reflexivity|].
  destruct (existsb (str_eqb k') D) eqn:E; cbn.
  - destruct (str_eqb k' k) eqn:Ek; [|exact IH]. apply str_eqb_eq in Ek. subst.
    exfalso. apply Hk. apply existsb_exists in E as (y & Hy & Ey). apply str_eqb_eq in Ey. now subst.
  - destruct (str_eqb k' k); [reflexivity | exact IH].
Qed.

Lemma filt_single k m : filt [k] m = filter (fun kv => negb (str_eqb (fst kv) k)) m.
Proof. unfold filt. apply filter_ext. intros a. cbn. now rewrite orb_false_r. Qed.

Lemma filter_notin (m : list (str * json)) k :
  ~ In k (keys m) -> filter (fun kv => negb (str_eqb (fst kv) k)) m = m.
Proof.
  unfold keys. induction m as [|[k' x] m IH]; intros H; [reflexivity|].
  cbn [filter fst]. destruct (str_eqb k' k) eqn:E.
  - apply str_eqb_eq in E. subst. exfalso. apply H. now left.
  - cbn [negb]. f_equal. apply IH. intros F. apply H. now right.
Qed.

Lemma kv_del_filt m k : NoDup (keys m) -> kv_del m k = filt [k] m.
Proof.
  rewrite filt_single. unfold keys. induction m as [|[k' x] m IH]; intros H; [reflexivity|].
  inversion H as [|? ? Hk Hm]; subst. cbn [kv_del filter fst]. destruct (str_eqb k' k) eqn:E.
  - apply str_eqb_eq in E. subst. cbn [negb]. symmetry. now apply filter_notin.
  - cbn [negb]. f_equal. now apply IH.
Qed.

Lemma filt_notin m k : ~ In k (keys m) -> filt [k] m = m.
Proof. intros H. rewrite filt_single. now apply filter_notin. Qed.

Lemma filt_sub D m : sub (filt D m) m.
Proof. intros k x H. now apply filt_in in H. Qed.

(* ------------------------------------------------------------------ *)

Section KeepProofs.
  Variable fmt_float : Z -> str -> str.
  Variable fmt_time : str -> str.
  Variable parse_num : Z -> str -> option str.
  Variable parse_time : str -> option str.

  Notation EI := (enc_items fmt_float fmt_time).
  Notation ENC := (enc fmt_float fmt_time).
  Notation ENCIN := (enc_inner fmt_float fmt_time).
  Notation DI := (dec_items parse_num parse_time).
  Notation DEC := (dec parse_num parse_time).
  Notation DIN := (dec_inner parse_num parse_time).
  Notation VLD := (vld parse_num parse_time).
  Notation GOV := (go_vld parse_num parse_time).
  Notation KEEP := (keep fmt_float fmt_time parse_num parse_time).
  Notation KGO := (keep_go fmt_float fmt_time parse_num parse_time).

  Definition VO (s : jsch) (v : gval) : res json := value_of (is_obj s) (EI s v false).

  (* ---------------- lists and maps ---------------- *)

  Lemma list_keep (d : json -> res gval) (e : gval -> res json) (k : json -> json) l : forall vs,
    (forall x v, In x l -> d x = Ok v -> e v = Ok (k x)) ->
    dec_list d l = Ok vs -> enc_list e vs = Ok (map k l).
  Proof.
    induction l as [|x r IH]; intros vs H Hd; cbn in Hd.
    - injection Hd as <-. reflexivity.
    - destruct (d x) as [v| |] eqn:Ex; cbn in Hd; try discriminate.
      destruct (dec_list d r) as [vs'| |] eqn:Er; cbn in Hd; try discriminate.
      injection Hd as <-. cbn. rewrite (H x v (or_introl eq_refl) Ex). cbn.
      rewrite (IH vs'); [reflexivity | | reflexivity]. intros y w Hy. apply H. now right.
  Qed.

  Lemma addl_keep (d : json -> res gval) (e : gval -> res json) (k : json -> json) m : forall ad c its c',
    (forall key x v, In (key, x) m -> d x = Ok v -> e v = Ok (k x)) ->
    dec_addl d m = Ok ad -> enc_addl e ad c = Ok (its, c') ->
    mem_items its = map (fun kv => (fst kv, k (snd kv))) m.
  Proof.
    induction m as [|[key x] r IH]; intros ad c its c' H Hd He; cbn in Hd.
    - injection Hd as <-. cbn in He. injection He as <- <-. reflexivity.
    - destruct (d x) as [v| |] eqn:Ex; try discriminate.
      destruct (dec_addl d r) as [ad'| |] eqn:Er; cbn in Hd; try discriminate.
      injection Hd as <-. cbn [enc_addl] in He. rewrite (H key x v (or_introl eq_refl) Ex) in He. cbn [bind] in He.
      destruct (enc_addl e ad' true) as [[its0 c0]| |] eqn:Ea; cbn [bind fst snd] in He; try discriminate.
      injection He as <- <-. rewrite mem_items_app, mem_write_property. cbn [map fst snd app].
      f_equal. apply (IH ad' true its0 c0); [|reflexivity | exact Ea]. intros key' y w Hy. apply (H key'). now right.
  Qed.

  (* ---------------- the statement ---------------- *)

  Definition KP (s : jsch) : Prop :=
    wf_sch s -> dom_sch s ->
    (forall j v m', VLD s j [] false = true -> DI s j [] false = Ok (v, m') ->
                    VO s v = Ok (KEEP s j [] false)) /\
    (forall ems, s = JObjS ems None ->
       forall o D m v m' c its c',
         NoDup (keys o) -> m = filt D o -> (forall k, In k (dk ems) -> ~ In k D) ->
         VLD s JNull o true = true ->
         DI s JNull m true = Ok (v, m') -> EI s v c = Ok (its, c') ->
         m' = filt (D ++ dk ems) o /\ JObj (mem_items its) = KEEP s JNull o true).

  Lemma inner_keep addl ms :
    Forall (fun ks => KP (snd ks)) ms -> opt_PJ KP addl ->
    forall o, NoDup (keys o) ->
    forall D m, m = filt D o -> (forall k, In k (dk ms) -> ~ In k D) ->
      NoDup (dk ms) -> wf_go ms -> dom_go ms ->
      match addl with Some sa => wf_sch sa /\ dom_sch sa | None => True end ->
      GOV o ms = true ->
      match addl with
      | Some sa => forall k x, In (k, x) m -> ~ In k (dk ms) -> VLD sa x [] false = true
      | None => True
      end ->
      forall fs m' ad, DIN addl ms m = Ok (fs, m', ad) ->
      forall c its c', ENCIN addl ad ms fs c = Ok (its, c') ->
        m' = filt (D ++ dk ms) o /\
        mem_items its = KGO o ms ++
                        match addl with
                        | Some sa => map (fun kv => (fst kv, KEEP sa (snd kv) [] false)) m'
                        | None => []
                        end.
  Proof.
    intros Hall Haddl o Hndo. induction ms as [|[kd sf] ms IH];
      intros D m Hm HD Hnd Hwf Hdom Hwfa Hgo Hleft fs m' ad Hd c its c' He.
    - cbn [dec_inner] in Hd. cbn [enc_inner] in He. cbn [keep_go app]. destruct addl as [sa|].
      + destruct (dec_addl _ m) as [ad0| |] eqn:Ea; cbn in Hd; try discriminate.
        injection Hd as <- <- <-. destruct Hwfa as [Hwsa Hdsa]. split; [now rewrite app_nil_r|].
        apply (addl_keep (fun x => bind (DI sa x [] false) (fun r => Ok (fst r))) (VO sa)
                         (fun x => KEEP sa x [] false) m ad0 c its c'); [|exact Ea | exact He].
        intros key x v Hin Hx. destruct (DI sa x [] false) as [[v0 m0]| |] eqn:Ex; cbn in Hx; try discriminate.
        injection Hx as <-. destruct (Haddl Hwsa Hdsa) as [HA _].
        apply (HA x v0 m0); [apply (Hleft key x Hin (fun F => F)) | exact Ex].
      + injection Hd as <- <- <-. injection He as <- <-. split; [now rewrite app_nil_r | reflexivity].
    - inversion Hall as [|? ? Hsf Hms]; subst. destruct kd as [k req|].
      + rewrite dk_field in *. inversion Hnd as [|? ? Hk Hnd']; subst.
        destruct Hwf as [Hwsf Hwf']. destruct Hdom as [Hdsf Hdom'].
        cbn [go_vld] in Hgo. apply andb_true_iff in Hgo as [Hv Hgo'].
        assert (HkD : ~ In k D) by (apply HD; now left).
        assert (Hgk : kv_get (filt D o) k = kv_get o k) by (now apply kv_get_filt).
        assert (Hndm : NoDup (keys (filt D o))) by (now apply filt_keys_nodup).
        cbn [dec_inner] in Hd. rewrite Hgk in Hd. cbn [keep_go].
        destruct (kv_get o k) as [raw|] eqn:Eo.
        * destruct (DI sf raw [] false) as [[v0 m0]| |] eqn:Ex; cbn [under_key bind] in Hd; try discriminate.
          destruct (DIN addl ms (kv_del (filt D o) k)) as [[[fs0 m1] ad0]| |] eqn:Er; cbn [bind fst snd] in Hd; try discriminate.
          injection Hd as <- <- <-.
          cbn [snd] in Hsf. destruct (Hsf Hwsf Hdsf) as [HA _]. pose proof (HA raw v0 m0 Hv Ex) as Hkeep. unfold VO in Hkeep.
          assert (Hmid : kv_del (filt D o) k = filt (D ++ [k]) o).
          { rewrite (kv_del_filt _ k Hndm). now rewrite filt_app. }
          (* the encoder writes the property, then the rest *)
          assert (Henc : exists its0 c0, ENCIN addl ad0 ms fs0 true = Ok (its0, c0) /\
                                          its = write_property c k (KEEP sf raw [] false) ++ its0).
          { cbn [enc_inner] in He. destruct req.
            - rewrite Hkeep in He. cbn [bind] in He.
              destruct (ENCIN addl ad0 ms fs0 true) as [[its0 c0]| |]; cbn [bind fst snd] in He; try discriminate.
              injection He as <- <-. eauto.
            - rewrite Hkeep in He. cbn [bind] in He.
              destruct (ENCIN addl ad0 ms fs0 true) as [[its0 c0]| |]; cbn [bind fst snd] in He; try discriminate.
              injection He as <- <-. eauto. }
          destruct Henc as (its0 & c0 & He0 & ->).
          destruct (IH Hms (D ++ [k]) (kv_del (filt D o) k) Hmid) with (fs := fs0) (m' := m1) (ad := ad0) (c := true) (its := its0) (c' := c0)
            as [Hm1 Hmem]; auto.
          { intros k' Hk' Hin. apply in_app_iff in Hin as [Hin|[<-|[]]]; [apply (HD k'); [now right | exact Hin] | contradiction]. }
          { destruct addl as [sa|]; [|exact I]. intros k' x Hin' Hnk'. apply (Hleft k' x).
            - now apply (kv_del_sub (filt D o) k).
            - intros [->|F]; [|contradiction]. apply (kv_del_gone (filt D o) k' Hndm). apply keys_in. eauto. }
          split.
          -- rewrite Hm1. rewrite <- app_assoc. reflexivity.
          -- rewrite mem_items_app, mem_write_property, Hmem. reflexivity.
        * destruct req; [discriminate Hv|].
          destruct (DIN addl ms (filt D o)) as [[[fs0 m1] ad0]| |] eqn:Er; cbn [bind fst snd] in Hd; try discriminate.
          injection Hd as <- <- <-. cbn [enc_inner] in He.
          assert (Hnone : kv_get (filt D o) k = None) by (now rewrite Hgk).
          assert (Hmid : filt D o = filt (D ++ [k]) o).
          { rewrite filt_app. symmetry. apply filt_notin. now apply (kv_get_none_notin parse_time). }
          destruct (IH Hms (D ++ [k]) (filt D o) Hmid) with (fs := fs0) (m' := m1) (ad := ad0) (c := c) (its := its) (c' := c')
            as [Hm1 Hmem]; auto.
          { intros k' Hk' Hin. apply in_app_iff in Hin as [Hin|[<-|[]]]; [apply (HD k'); [now right | exact Hin] | contradiction]. }
          { destruct addl as [sa|]; [|exact I]. intros k' x Hin' Hnk'. apply (Hleft k' x Hin').
            intros [->|F]; [|contradiction]. apply (kv_get_none_notin parse_time _ _ Hnone). apply keys_in. eauto. }
          split.
          -- rewrite Hm1. rewrite <- app_assoc. reflexivity.
          -- exact Hmem.
      + rewrite dk_embed in *. destruct Hwf as ([ems ->] & Hwse & Hwf'). destruct Hdom as [Hdse Hdom'].
        cbn [go_vld] in Hgo. apply andb_true_iff in Hgo as [Hv Hgo'].
        cbn [dec_inner] in Hd.
        destruct (DI (JObjS ems None) JNull (filt D o) true) as [[v1 m1]| |] eqn:Ee; cbn [bind fst snd] in Hd; try discriminate.
        destruct (DIN addl ms m1) as [[[fs0 m2] ad0]| |] eqn:Er; cbn [bind fst snd] in Hd; try discriminate.
        injection Hd as <- <- <-.
        cbn [enc_inner is_obj] in He.
        destruct (EI (JObjS ems None) v1 c) as [[itse ce]| |] eqn:Eenc; cbn [bind fst snd] in He; try discriminate.
        destruct (ENCIN addl ad0 ms fs0 ce) as [[its0 c0]| |] eqn:He0; cbn [bind fst snd] in He; try discriminate.
        injection He as <- <-.
        cbn [snd] in Hsf. destruct (Hsf Hwse Hdse) as [_ HB].
        destruct (HB ems eq_refl o D (filt D o) v1 m1 c itse ce Hndo eq_refl) as [Hm1 Hkeep]; auto.
        { intros k Hk. apply HD. apply in_app_iff. now left. }
        destruct (IH Hms (D ++ dk ems) m1 Hm1) with (fs := fs0) (m' := m2) (ad := ad0) (c := ce) (its := its0) (c' := c0)
          as [Hm2 Hmem]; auto.
        { intros k Hk Hin. apply in_app_iff in Hin as [Hin|Hin].
          - apply (HD k); [apply in_app_iff; now right | exact Hin].
          - apply (NoDup_app_disj _ _ k Hnd Hin Hk). }
        { now apply NoDup_app_r in Hnd. }
        { destruct addl as [sa|]; [|exact I]. intros k x Hin' Hnk'. subst m1. apply filt_in in Hin' as [Hin' Hnot].
          apply (Hleft k x).
          - apply filt_in. split; [exact Hin'|]. intros F. apply Hnot. apply in_app_iff. now left.
          - intros F. apply in_app_iff in F as [F|F]; [|contradiction]. apply Hnot. apply in_app_iff. now right. }
        split.
        * rewrite Hm2. rewrite <- app_assoc. reflexivity.
        * rewrite mem_items_app, Hmem. cbn [keep_go]. rewrite <- Hkeep. now rewrite app_assoc.
  Qed.

  Theorem keep_all s : KP s.
  Proof.
    induction s as [p | s' IH | it IH | ms addl IHms IHad] using jsch_ind2; intros Hwf Hdom; split.
    - (* primitives *)
      intros j v m' Hv Hd. cbn [dec_items] in Hd.
      destruct (dec_prim parse_num parse_time p j) as [v0| |] eqn:Ep; cbn in Hd; try discriminate.
      injection Hd as <- <-. unfold VO. cbn [is_obj enc_items keep]. rewrite value_of_one. unfold keep_prim.
      destruct p, j; cbn in Hv, Ep; try discriminate; try (injection Ep as <-; reflexivity).
      + destruct (parse_int bits text) as [z|]; [injection Ep as <-; reflexivity | discriminate].
      + destruct (parse_num bits text) as [r|]; [injection Ep as <-; reflexivity | discriminate].
      + destruct (parse_time s) as [r|]; [injection Ep as <-; reflexivity | discriminate].
    - intros ems E. discriminate.
    - (* nullable *)
      intros j v m' Hv Hd. cbn [wf_sch] in Hwf. cbn [dom_sch] in Hdom. destruct Hdom as [Hnn Hdom].
      destruct (IH Hwf Hdom) as [HA _]. cbn [vld] in Hv. cbn [dec_items] in Hd. unfold VO. cbn [is_obj enc_items keep].
      destruct j; [injection Hd as <- <-; reflexivity | | | | |];
        (destruct (DI s' _ [] false) as [[v0 m0]| |] eqn:Ex; cbn in Hd; try discriminate;
         injection Hd as <- <-; cbn [enc_items]; rewrite value_of_one; apply (HA _ v0 m0 Hv Ex)).
    - intros ems E. discriminate.
    - (* array *)
      intros j v m' Hv Hd. cbn [wf_sch] in Hwf. cbn [dom_sch] in Hdom. destruct (IH Hwf Hdom) as [HA _].
      cbn [vld] in Hv. destruct j as [| | | | l |]; try discriminate. cbn [dec_items] in Hd.
      destruct (dec_list _ l) as [vs| |] eqn:El; cbn in Hd; try discriminate. injection Hd as <- <-.
      unfold VO. cbn [is_obj enc_items keep]. rewrite value_of_one.
      rewrite (list_keep (fun x => bind (DI it x [] false) (fun r => Ok (fst r)))
                         (fun x => value_of (is_obj it) (EI it x false)) (fun x => KEEP it x [] false) l vs);
        [reflexivity | | exact El].
      intros x w Hx Hw. destruct (DI it x [] false) as [[v0 m0]| |] eqn:Ex; cbn in Hw; try discriminate.
      injection Hw as <-. rewrite forallb_forall in Hv. apply (HA x v0 m0 (Hv x Hx) Ex).
    - intros ems E. discriminate.
    - (* object in value position *)
      intros j v m' Hv Hd.
      pose proof (proj1 (sound_all parse_num parse_time (JObjS ms addl) Hwf Hdom) j v m' Hv Hd) as Hrt.
      pose proof (rt_ok_typed _ _ Hrt) as Ht.
      apply wf_obj in Hwf as (Hwg & Hwa & Hnd). apply dom_obj in Hdom as (Hdg & Hda).
      rewrite vld_obj in Hv. destruct j as [| | | | | members]; try discriminate.
      destruct (keys_nodup members) eqn:Ek; [|discriminate]. apply keys_nodup_NoDup in Ek.
      apply andb_true_iff in Hv as [Hgo Hrest].
      rewrite dec_items_obj in Hd. cbn [bind] in Hd. rewrite (kv_of_members_nodup _ Ek) in Hd. cbn [bind] in Hd.
      destruct (DIN addl ms members) as [[[fs m1] ad]| |] eqn:Ein; cbn [bind fst snd] in Hd; try discriminate.
      injection Hd as <- <-.
      destruct (enc_items_ok fmt_float fmt_time (JObjS ms addl) (GStruct fs ad) false Ht) as [(its & c' & Ee & Hs) _].
      specialize (Hs eq_refl).
      unfold VO, value_of. cbn [is_obj]. rewrite Ee. cbn [bind fst]. rewrite (assemble_mem its c' Hs).
      rewrite (enc_items_obj fmt_float fmt_time) in Ee.
      destruct (inner_keep addl ms IHms IHad members Ek [] members (eq_sym (filt_nil members)))
        with (fs := fs) (m' := m1) (ad := ad) (c := false) (its := its) (c' := c') as [Hm1 Hmem]; auto.
      { destruct addl as [sa|]; [split; assumption | exact I]. }
      { destruct addl as [sa|]; [|exact I]. intros k x Hin Hnk. rewrite forallb_forall in Hrest.
        specialize (Hrest (k, x) Hin). cbn [fst snd] in Hrest. apply orb_true_iff in Hrest as [Hd|Hd]; [|exact Hd].
        exfalso. apply Hnk. apply existsb_exists in Hd as (k' & Hk' & Ee'). apply str_eqb_eq in Ee'. subst. exact Hk'. }
      rewrite keep_obj. cbv zeta. rewrite Hmem. cbn [app] in Hm1. rewrite Hm1. reflexivity.
    - (* object in embedded position *)
      intros ems E o D m v m' c its c' Hndo Hm HD Hv Hd He. injection E as -> ->.
      apply wf_obj in Hwf as (Hwg & _ & Hnd). apply dom_obj in Hdom as (Hdg & _).
      rewrite vld_obj in Hv. rewrite andb_true_r in Hv.
      rewrite dec_items_obj in Hd. cbn [bind] in Hd.
      destruct (DIN None ems m) as [[[fs m1] ad]| |] eqn:Ein; cbn [bind fst snd] in Hd; try discriminate.
      injection Hd as <- <-. rewrite (enc_items_obj fmt_float fmt_time) in He.
      destruct (inner_keep None ems IHms I o Hndo D m Hm HD Hnd Hwg Hdg I Hv I fs m1 ad Ein c its c' He) as [Hm1 Hmem].
      split; [exact Hm1|]. rewrite keep_obj. cbv zeta. rewrite Hmem. now rewrite !app_nil_r.
  Qed.

  (* C08, in full: a valid document decodes, and the value re-encodes to the kept part of the document *)
  Theorem lossless s j :
    wf_sch s -> dom_sch s -> validates parse_num parse_time s j = true ->
    exists v, DEC s j = Ok v /\ ENC s v = Ok (KEEP s j [] false).
  Proof.
    intros Hwf Hdom Hv. destruct (valid_accepted parse_num parse_time s j Hwf Hv) as [v Hd].
    exists v. split; [exact Hd|]. unfold dec in Hd.
    destruct (DI s j [] false) as [[v0 m0]| |] eqn:Ex; cbn in Hd; try discriminate. injection Hd as <-.
    destruct (keep_all s Hwf Hdom) as [HA _]. exact (HA j v0 m0 Hv Ex).
  Qed.
End KeepProofs.

(* ---------------- the theorem is not vacuous, and [keep] is not the identity ---------------- *)
Module KeepExample.
  Import String.
  Local Open Scope string_scope.
  Definition fmtf (_ : Z) (r : str) : str := r.
  Definition fmtt (r : str) : str := r.
  Definition pnum (_ : Z) (r : str) : option str := Some r.
  Definition ptime (r : str) : option str := Some r.
  Definition s1 := CompleteExample.s1.
  (* {"name":"x","junk":true,"id":"+7","tags":["a",null]}: members out of order, an undeclared key, a signed integer *)
  Definition doc := JObj [(S_ "name", JStr (S_ "x")); (S_ "junk", JBool true); (S_ "id", JNum (S_ "+7"));
                          (S_ "tags", JArr [JStr (S_ "a"); JNull])].
  Definition kept := JObj [(S_ "id", JNum (S_ "7")); (S_ "name", JStr (S_ "x"));
                           (S_ "tags", JArr [JStr (S_ "a"); JNull]); (S_ "junk", JBool true)].
  Example doc_valid : validates pnum ptime s1 doc = true.
  Proof. vm_compute. reflexivity. Qed.
  Example doc_kept : keep fmtf fmtt pnum ptime s1 doc [] false = kept.
  Proof. vm_compute. reflexivity. Qed.
  Example doc_reencodes :
    match dec pnum ptime s1 doc with Ok v => enc fmtf fmtt s1 v | _ => ErrOther end = Ok kept.
  Proof. vm_compute. reflexivity. Qed.
End KeepExample.
