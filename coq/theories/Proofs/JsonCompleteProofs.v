(* C08, completeness: every document that is valid for a schema (Spec/JsonSpec.v)
   is accepted by the generated decoder.  The decoder works on a shared
   key/value map from which consumed keys are deleted; the proof carries the
   relation between that shrinking map and the document's members, which is
   what the validator looks at. *)
From Coq Require Import String.
From Coq Require Import List Bool Arith Ascii NArith ZArith Lia.
Import ListNotations.
From Goag Require Import Base.Str Model.Router Model.Serve Model.Params Model.Json Spec.JsonSpec
     Proofs.JsonEncProofs Proofs.JsonRtProofs Proofs.JsonStrictProofs Proofs.JsonConfProofs.

(* schemas the dialect produces: an allOf member given by $ref is an object
   schema without additionalProperties of its own (DESIGN section 11, D28),
   and no property name is declared twice in one object *)
Fixpoint wf_sch (s : jsch) : Prop :=
  match s with
  | JPrimS _ => True
  | JNullS s' => wf_sch s'
  | JArrS it => wf_sch it
  | JObjS ms addl =>
    (fix go (ms : list (mkind * jsch)) : Prop :=
       match ms with
       | [] => True
       | (MField _ _, sf) :: r => wf_sch sf /\ go r
       | (MEmbed, se) :: r => (exists ems, se = JObjS ems None) /\ wf_sch se /\ go r
       end) ms
    /\ match addl with Some sa => wf_sch sa | None => True end
    /\ NoDup (dk ms)
  end.

Fixpoint wf_go (ms : list (mkind * jsch)) : Prop :=
  match ms with
  | [] => True
  | (MField _ _, sf) :: r => wf_sch sf /\ wf_go r
  | (MEmbed, se) :: r => (exists ems, se = JObjS ems None) /\ wf_sch se /\ wf_go r
  end.

Lemma wf_obj ms addl :
  wf_sch (JObjS ms addl) <->
  wf_go ms /\ match addl with Some sa => wf_sch sa | None => True end /\ NoDup (dk ms).
Proof.
  cbn [wf_sch].
  assert (E : (fix go (ms : list (mkind * jsch)) : Prop :=
                 match ms with
                 | [] => True
                 | (MField _ _, sf) :: r => wf_sch sf /\ go r
                 | (MEmbed, se) :: r => (exists ems, se = JObjS ems None) /\ wf_sch se /\ go r
                 end) ms = wf_go ms).
  { induction ms as [|[[k r|] sf] ms IH]; cbn; [reflexivity| |]; now rewrite IH. }
  rewrite E. tauto.
Qed.

Section Complete.
  Variable parse_num : Z -> str -> option str.
  Variable parse_time : str -> option str.

  Notation DI := (dec_items parse_num parse_time).
  Notation DEC := (dec parse_num parse_time).
  Notation DIN := (dec_inner parse_num parse_time).
  Notation VLD := (vld parse_num parse_time).
  Notation GOV := (go_vld parse_num parse_time).

  (* ---------------- maps as sets of members ---------------- *)

  Definition sub (m o : kvmap) : Prop := forall k x, In (k, x) m -> In (k, x) o.

  Lemma sub_refl m : sub m m.
  Proof. intros k x H. exact H. Qed.

  Lemma sub_trans a b c : sub a b -> sub b c -> sub a c.
  Proof. intros H1 H2 k x H. auto. Qed.

  Lemma kv_del_sub m k : sub (kv_del m k) m.
  Proof.
    induction m as [|[k' v] r IH]; intros a x H; [destruct H|].
    cbn [kv_del] in H. destruct (str_eqb k' k); [now right|].
    destruct H as [E|H]; [now left | right; now apply IH].
  Qed.

  Lemma keys_in {A} (m : list (str * A)) k : In k (keys m) <-> exists x, In (k, x) m.
  Proof.
    unfold keys. rewrite in_map_iff. split.
    - intros [[k' x] [E H]]. simpl in E. subst. eauto.
    - intros [x H]. exists (k, x). auto.
  Qed.

  Lemma sub_keys m o : sub m o -> incl (keys m) (keys o).
  Proof. intros H k Hk. apply keys_in in Hk as [x Hx]. apply keys_in. eauto. Qed.

  Lemma kv_del_nodup m k : NoDup (keys m) -> NoDup (keys (kv_del m k)).
  Proof.
    induction m as [|[k' v] r IH]; intros H; [constructor|].
    cbn [kv_del]. inversion H as [|? ? Hk Hr]; subst. destruct (str_eqb k' k); [exact Hr|].
    cbn. constructor; [|now apply IH].
    intros Hin. apply Hk. apply (kv_del_incl r k). exact Hin.
  Qed.

  Lemma kv_del_gone m k : NoDup (keys m) -> ~ In k (keys (kv_del m k)).
  Proof.
    induction m as [|[k' v] r IH]; intros H; [intros []|].
    cbn [kv_del]. inversion H as [|? ? Hk Hr]; subst. destruct (str_eqb k' k) eqn:E.
    - apply str_eqb_eq in E. subst. exact Hk.
    - cbn. intros [E'|Hin]; [apply str_eqb_neq in E; congruence | now apply IH].
  Qed.

  Lemma kv_get_none_notin m k : kv_get m k = None -> ~ In k (keys m).
  Proof.
    induction m as [|[k' v] r IH]; cbn; [tauto|].
    destruct (str_eqb k' k) eqn:E; [discriminate|]. intros H [E'|Hin]; [apply str_eqb_neq in E; congruence | now apply IH].
  Qed.

  Lemma kv_get_in m k x : kv_get m k = Some x -> In (k, x) m.
  Proof.
    induction m as [|[k' v] r IH]; cbn; [discriminate|].
    destruct (str_eqb k' k) eqn:E.
    - apply str_eqb_eq in E. subst. intros H. injection H as ->. now left.
    - intros H. right. now apply IH.
  Qed.

  Lemma keys_nodup_NoDup (M : list (str * json)) : keys_nodup M = true -> NoDup (keys M).
  Proof.
    induction M as [|[k v] r IH]; cbn; intros H; [constructor|].
    apply andb_true_iff in H as [H1 H2]. constructor; [|now apply IH].
    intros Hin. apply keys_in in Hin as [x Hx]. apply negb_true_iff in H1.
    assert (existsb (fun kv : str * json => str_eqb (fst kv) k) r = true) as T.
    { apply existsb_exists. exists (k, x). split; [exact Hx | apply str_eqb_refl]. }
    congruence.
  Qed.

  (* ---------------- leaves ---------------- *)

  Lemma valid_prim_dec p j : valid_prim parse_num parse_time p j = true -> exists v, dec_prim parse_num parse_time p j = Ok v.
  Proof.
    destruct p, j; cbn; try discriminate; eauto.
    - destruct (parse_int bits text); cbn; [eauto | discriminate].
    - destruct (parse_num bits text); cbn; [eauto | discriminate].
    - destruct (parse_time s); cbn; [eauto | discriminate].
  Qed.

  Lemma dec_list_ok (d : json -> res gval) l :
    (forall x, In x l -> exists v, d x = Ok v) -> exists vs, dec_list d l = Ok vs.
  Proof.
    induction l as [|x r IH]; intros H; [cbn; eauto|].
    destruct (H x (or_introl eq_refl)) as [v Hv]. destruct IH as [vs Hvs]; [intros y Hy; apply H; now right|].
    cbn. rewrite Hv. cbn. rewrite Hvs. cbn. eauto.
  Qed.

  Lemma dec_addl_ok (d : json -> res gval) m :
    (forall k x, In (k, x) m -> exists v, d x = Ok v) -> exists ad, dec_addl d m = Ok ad.
  Proof.
    induction m as [|[k x] r IH]; intros H; [cbn; eauto|].
    destruct (H k x (or_introl eq_refl)) as [v Hv]. destruct IH as [ad Had]; [intros k' y Hy; apply (H k'); now right|].
    cbn. rewrite Hv. rewrite Had. cbn. eauto.
  Qed.

  (* ---------------- the statement, by nested induction over the schema ---------------- *)

  Definition after (ms : list (mkind * jsch)) (m m' : kvmap) : Prop :=
    NoDup (keys m') /\ sub m' m /\ (forall k, In k (dk ms) -> ~ In k (keys m')) /\
    (forall k, ~ In k (dk ms) -> kv_get m' k = kv_get m k).

  Definition CP (s : jsch) : Prop :=
    wf_sch s ->
    (forall j, VLD s j [] false = true -> exists v m', DI s j [] false = Ok (v, m')) /\
    (forall ems, s = JObjS ems None ->
       forall o m, NoDup (keys o) -> NoDup (keys m) -> sub m o ->
         (forall k, In k (dk ems) -> kv_get m k = kv_get o k) ->
         VLD s JNull o true = true ->
         exists v m', DI s JNull m true = Ok (v, m') /\ after ems m m').

  Lemma inner_complete addl ms :
    Forall (fun ks => CP (snd ks)) ms -> opt_PJ CP addl ->
    forall o, NoDup (keys o) ->
    forall m, NoDup (keys m) -> sub m o ->
      (forall k, In k (dk ms) -> kv_get m k = kv_get o k) ->
      NoDup (dk ms) -> wf_go ms ->
      match addl with Some sa => wf_sch sa | None => True end ->
      GOV o ms = true ->
      match addl with
      | Some sa => forall k x, In (k, x) m -> ~ In k (dk ms) -> VLD sa x [] false = true
      | None => True
      end ->
      exists fs m' ad, DIN addl ms m = Ok (fs, m', ad) /\ after ms m m'.
  Proof.
    intros Hall Haddl o Hndo. induction ms as [|[kd sf] ms IH]; intros m Hndm Hsub Hget Hnd Hwf Hwfa Hgo Hleft.
    - (* no member left: the leftovers go to AdditionalProperties *)
      cbn [dec_inner]. destruct addl as [sa|].
      + destruct (dec_addl_ok (fun x => bind (DI sa x [] false) (fun r => Ok (fst r))) m) as [ad Had].
        { intros k x Hin. destruct (Haddl Hwfa) as [HA _].
          destruct (HA x (Hleft k x Hin (fun F => F))) as (v & m' & Hd). rewrite Hd. cbn. eauto. }
        rewrite Had. cbn. exists [], m, ad. split; [reflexivity|].
        repeat split; auto using sub_refl; intros k [].
      + exists [], m, []. split; [reflexivity|]. repeat split; auto using sub_refl; intros k [].
    - inversion Hall as [|? ? Hsf Hms]; subst. destruct kd as [k req|].
      + (* a declared property *)
        rewrite dk_field in *. inversion Hnd as [|? ? Hk Hnd']; subst.
        destruct Hwf as [Hwsf Hwf']. cbn [go_vld] in Hgo. apply andb_true_iff in Hgo as [Hv Hgo'].
        cbn [dec_inner]. rewrite (Hget k (or_introl eq_refl)) in *.
        destruct (kv_get o k) as [raw|] eqn:Eo.
        * (* present: valid under its own schema, hence decoded; the key is deleted *)
          assert (Em : kv_get m k = Some raw) by (rewrite (Hget k (or_introl eq_refl)); exact Eo).
          destruct (Hsf Hwsf) as [HA _]. destruct (HA raw Hv) as (v & m0 & Hd).
          cbn [snd] in Hd. rewrite Hd. cbn [under_key bind].
          destruct (IH Hms (kv_del m k)) as (fs & m' & ad & Hin & Hn' & Hs' & Hgone & Hsame); auto.
          { now apply kv_del_nodup. }
          { eapply sub_trans; [apply kv_del_sub | exact Hsub]. }
          { intros k' Hk'. rewrite kv_get_del_other; [apply Hget; now right|]. intros ->. contradiction. }
          { destruct addl as [sa|]; [|exact I]. intros k' x Hin' Hnk'. apply (Hleft k' x).
            - now apply (kv_del_sub m k).
            - intros [->|F]; [|contradiction]. apply (kv_del_gone m k' Hndm). apply keys_in. eauto. }
          rewrite Hin. cbn [bind fst snd]. eexists _, m', ad. split; [reflexivity|].
          split; [exact Hn'|]. split; [eapply sub_trans; [exact Hs' | apply kv_del_sub]|]. split.
          -- intros k' [<-|Hk'] Hink'; [|now apply (Hgone k' Hk')].
             apply (kv_del_gone m k Hndm). apply (sub_keys _ _ Hs'). exact Hink'.
          -- intros k' Hnk'. rewrite Hsame; [|intros F; apply Hnk'; now right].
             apply kv_get_del_other. intros ->. apply Hnk'. now left.
        * (* absent: allowed only when optional *)
          assert (Em : kv_get m k = None) by (rewrite (Hget k (or_introl eq_refl)); exact Eo).
          destruct req; [discriminate Hv|].
          destruct (IH Hms m) as (fs & m' & ad & Hin & Hn' & Hs' & Hgone & Hsame); auto.
          { intros k' Hk'. apply Hget. now right. }
          { destruct addl as [sa|]; [|exact I]. intros k' x Hin' Hnk'. apply (Hleft k' x Hin').
            intros [->|F]; [|contradiction]. apply (kv_get_none_notin m k' Em). apply keys_in. eauto. }
          rewrite Hin. cbn [bind fst snd]. eexists _, m', ad. split; [reflexivity|].
          split; [exact Hn'|]. split; [exact Hs'|]. split.
          -- intros k' [<-|Hk'] Hink'; [|now apply (Hgone k' Hk')].
             apply (kv_get_none_notin m k Em). apply (sub_keys _ _ Hs'). exact Hink'.
          -- intros k' Hnk'. apply Hsame. intros F. apply Hnk'. now right.
      + (* an allOf member given by $ref: decoded from the shared map *)
        rewrite dk_embed in *. destruct Hwf as ([ems ->] & Hwse & Hwf').
        cbn [go_vld] in Hgo. apply andb_true_iff in Hgo as [Hv Hgo'].
        cbn [snd] in Hsf. destruct (Hsf Hwse) as [_ HB].
        destruct (HB ems eq_refl o m Hndo Hndm Hsub) as (v & m1 & Hd & Hn1 & Hs1 & Hgone1 & Hsame1); auto.
        { intros k Hk. apply Hget. apply in_app_iff. now left. }
        cbn [dec_inner]. rewrite Hd. cbn [bind fst snd].
        destruct (IH Hms m1) as (fs & m' & ad & Hin & Hn' & Hs' & Hgone & Hsame); auto.
        { eapply sub_trans; [exact Hs1 | exact Hsub]. }
        { intros k Hk. rewrite Hsame1; [apply Hget; apply in_app_iff; now right|].
          intros F. apply (NoDup_app_disj _ _ k Hnd F Hk). }
        { now apply NoDup_app_r in Hnd. }
        { destruct addl as [sa|]; [|exact I]. intros k x Hin' Hnk'. apply (Hleft k x).
          - now apply Hs1.
          - intros F. apply in_app_iff in F as [F|F]; [|contradiction].
            apply (Hgone1 k F). apply keys_in. eauto. }
        rewrite Hin. cbn [bind fst snd]. eexists _, m', ad. split; [reflexivity|].
        split; [exact Hn'|]. split; [eapply sub_trans; eauto|]. split.
        * intros k Hk Hink. apply in_app_iff in Hk as [Hk|Hk]; [|now apply (Hgone k Hk)].
          apply (Hgone1 k Hk). apply (sub_keys _ _ Hs'). exact Hink.
        * intros k Hnk. rewrite Hsame; [|intros F; apply Hnk; apply in_app_iff; now right].
          apply Hsame1. intros F. apply Hnk. apply in_app_iff. now left.
  Qed.

  Theorem complete_all s : CP s.
  Proof.
    induction s as [p | s' IH | it IH | ms addl IHms IHad] using jsch_ind2; intros Hwf; split.
    - intros j Hv. cbn in Hv. destruct (valid_prim_dec p j Hv) as [v Hd]. cbn [dec_items]. rewrite Hd. cbn. eauto.
    - intros ems E. discriminate.
    - intros j Hv. cbn [wf_sch] in Hwf. destruct (IH Hwf) as [HA _]. cbn [vld] in Hv. cbn [dec_items].
      destruct j; [cbn; eauto | | | | |];
        (destruct (HA _ Hv) as (v & m' & Hd); rewrite Hd; cbn; eauto).
    - intros ems E. discriminate.
    - intros j Hv. cbn [wf_sch] in Hwf. destruct (IH Hwf) as [HA _]. cbn [vld] in Hv.
      destruct j as [| | | | l |]; try discriminate. cbn [dec_items].
      destruct (dec_list_ok (fun x => bind (DI it x [] false) (fun r => Ok (fst r))) l) as [vs Hvs].
      { intros x Hx. rewrite forallb_forall in Hv. destruct (HA x (Hv x Hx)) as (v & m' & Hd). rewrite Hd. cbn. eauto. }
      rewrite Hvs. cbn. eauto.
    - intros ems E. discriminate.
    - (* object in value position *)
      intros j Hv. apply wf_obj in Hwf as (Hwg & Hwa & Hnd).
      rewrite vld_obj in Hv. destruct j as [| | | | | members]; try discriminate.
      destruct (keys_nodup members) eqn:Ek; [|discriminate]. apply keys_nodup_NoDup in Ek.
      apply andb_true_iff in Hv as [Hgo Hrest].
      rewrite dec_items_obj. cbn [bind]. rewrite (kv_of_members_nodup _ Ek). cbn [bind].
      destruct (inner_complete addl ms IHms IHad members Ek members Ek (sub_refl _)) as (fs & m' & ad & Hin & _); auto.
      { destruct addl as [sa|]; [|exact I]. intros k x Hin Hnk. rewrite forallb_forall in Hrest.
        specialize (Hrest (k, x) Hin). cbn [fst snd] in Hrest. apply orb_true_iff in Hrest as [Hd|Hd]; [|exact Hd].
        exfalso. apply Hnk. apply existsb_exists in Hd as (k' & Hk' & Ee). apply str_eqb_eq in Ee. subst. exact Hk'. }
      rewrite Hin. cbn. eauto.
    - (* object in embedded position *)
      intros ems E o m Hndo Hndm Hsub Hget Hv. injection E as -> ->.
      apply wf_obj in Hwf as (Hwg & _ & Hnd). rewrite vld_obj in Hv. rewrite andb_true_r in Hv.
      rewrite dec_items_obj. cbn [bind].
      destruct (inner_complete None ems IHms I o Hndo m Hndm Hsub Hget Hnd Hwg I Hv I) as (fs & m' & ad & Hin & Haft).
      rewrite Hin. cbn [bind fst snd]. eauto.
  Qed.

  (* C08, first half: a valid document is accepted *)
  Theorem valid_accepted s j : wf_sch s -> validates parse_num parse_time s j = true -> exists v, DEC s j = Ok v.
  Proof.
    intros Hwf Hv. destruct (complete_all s Hwf) as [HA _]. destruct (HA j Hv) as (v & m' & Hd).
    unfold dec. rewrite Hd. cbn. eauto.
  Qed.
End Complete.

(* the well-formedness premise holds of ordinary schemas: an object with a
   required and an optional property, an allOf member given by $ref and a typed
   additionalProperties *)
Module CompleteExample.
  Import String.
  Local Open Scope string_scope.
  Definition base := JObjS [(MField (S_ "id") true, JPrimS (QInt 64))] None.
  Definition s1 := JObjS [(MEmbed, base); (MField (S_ "name") true, JPrimS QStr);
                          (MField (S_ "tags") false, JArrS (JNullS (JPrimS QStr)))] (Some (JPrimS QBool)).
  Example s1_wf : wf_sch s1.
  Proof.
    unfold s1, base. cbn.
    repeat match goal with
           | |- _ /\ _ => split
           | |- True => exact I
           | |- exists _, _ = _ => eexists; reflexivity
           | |- NoDup _ => repeat constructor; cbn; intuition discriminate
           end.
  Qed.
End CompleteExample.
