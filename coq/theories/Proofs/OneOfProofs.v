(* oneOf: the codec of Model/OneOf.v on top of the codec of Model/Json.v.
   Round trip and conformance are reduced to the theorems about the variant's
   own schema; what oneOf adds is the choice of the variant, and the theorems
   state exactly when that choice is the right one. *)
From Coq Require Import String.
From Coq Require Import List Bool Arith Ascii ZArith Lia.
Import ListNotations.
From Goag Require Import Base.Str Model.Router Model.Serve Model.Params Model.Json Model.OneOf
     Spec.JsonSpec Proofs.JsonEncProofs Proofs.JsonRtProofs Proofs.JsonConfProofs.

Section OneOfProofs.
  Variable fmt_float : Z -> str -> str.
  Variable fmt_time : str -> str.
  Variable parse_num : Z -> str -> option str.
  Variable parse_time : str -> option str.
  Hypothesis float_rt : forall b r, parse_num b (fmt_float b r) = Some r.
  Hypothesis time_rt : forall r, parse_time (fmt_time r) = Some r.

  Notation ENC := (enc fmt_float fmt_time).
  Notation DEC := (dec parse_num parse_time).
  Notation ENC1 := (enc_oneof fmt_float fmt_time).
  Notation DEC1 := (dec_oneof parse_num parse_time).

  (* ---------------- the value with exactly field i set ---------------- *)

  (* fields k.. of [single]: described by position *)
  Definition fields_from (k n i : nat) (v : gval) : oval :=
    map (fun x => if Nat.eqb x i then Some v else None) (seq k n).

  Lemma single_is_fields n i v : single n i v = fields_from 0 n i v.
  Proof. reflexivity. Qed.

  (* MarshalJSON on a value with exactly one field set encodes that field *)
  Lemma enc_fields vs : forall k i v s,
    nth_error vs (i - k) = Some s -> k <= i ->
    ENC1 vs (fields_from k (length vs) i v) = ENC s v.
  Proof.
    induction vs as [|s0 vs IH]; intros k i v s Hn Hk.
    - destruct (i - k); discriminate Hn.
    - cbn [length]. unfold fields_from. cbn [seq map].
      destruct (Nat.eqb_spec k i) as [E|NE].
      + subst k. rewrite Nat.sub_diag in Hn. cbn in Hn. injection Hn as <-. reflexivity.
      + cbn [enc_oneof]. apply (IH (S k) i v s); [|lia].
        replace (i - k) with (S (i - S k)) in Hn by lia. exact Hn.
  Qed.

  Theorem enc_single vs i v s :
    nth_error vs i = Some s -> ENC1 vs (single (length vs) i v) = ENC s v.
  Proof. intros H. rewrite single_is_fields. apply enc_fields; [now rewrite Nat.sub_0_r | lia]. Qed.

  (* ---------------- decoding without a discriminator ---------------- *)

  (* the first variant, in declaration order, that accepts the document wins *)
  Lemma try_variants_first n vs : forall k j i s v,
    nth_error vs i = Some s -> DEC s j = Ok v ->
    (forall i' s', i' < i -> nth_error vs i' = Some s' -> forall v', DEC s' j <> Ok v') ->
    try_variants parse_num parse_time n k vs j = Ok (single n (k + i) v).
  Proof.
    induction vs as [|s0 vs IH]; intros k j i s v Hn Hd Hfirst.
    - destruct i; discriminate Hn.
    - cbn [try_variants]. destruct i as [|i].
      + cbn in Hn. injection Hn as <-. rewrite Hd. now rewrite Nat.add_0_r.
      + destruct (DEC s0 j) as [v0| |] eqn:E0.
        * exfalso. apply (Hfirst 0 s0 (Nat.lt_0_succ i) eq_refl v0). exact E0.
        * replace (k + S i) with (S k + i) by lia. apply (IH (S k) j i s v Hn Hd).
          intros i' s' Hlt Hn'. apply (Hfirst (S i') s'); [lia | exact Hn'].
        * replace (k + S i) with (S k + i) by lia. apply (IH (S k) j i s v Hn Hd).
          intros i' s' Hlt Hn'. apply (Hfirst (S i') s'); [lia | exact Hn'].
  Qed.

  (* no variant accepts: the document is rejected *)
  Lemma try_variants_none n vs : forall k j,
    (forall s, In s vs -> forall v, DEC s j <> Ok v) ->
    try_variants parse_num parse_time n k vs j = ErrOther.
  Proof.
    induction vs as [|s0 vs IH]; intros k j H; [reflexivity|].
    cbn [try_variants]. destruct (DEC s0 j) as [v0| |] eqn:E0.
    - exfalso. apply (H s0 (or_introl eq_refl) v0 E0).
    - apply IH. intros s Hs. apply H. now right.
    - apply IH. intros s Hs. apply H. now right.
  Qed.

  (* whatever is accepted was decoded by one of the variants, into that variant's field only *)
  Lemma try_variants_sound n vs : forall k j fs,
    try_variants parse_num parse_time n k vs j = Ok fs ->
    exists i s v, nth_error vs i = Some s /\ DEC s j = Ok v /\ fs = single n (k + i) v.
  Proof.
    induction vs as [|s0 vs IH]; intros k j fs H; [discriminate H|].
    cbn [try_variants] in H. destruct (DEC s0 j) as [v0| |] eqn:E0.
    - injection H as <-. exists 0, s0, v0. rewrite Nat.add_0_r. auto.
    - destruct (IH (S k) j fs H) as (i & s & v & Hn & Hd & ->).
      exists (S i), s, v. replace (k + S i) with (S k + i) by lia. auto.
    - destruct (IH (S k) j fs H) as (i & s & v & Hn & Hd & ->).
      exists (S i), s, v. replace (k + S i) with (S k + i) by lia. auto.
  Qed.

  (* C06 for oneOf without discriminator: the value comes back provided no
     EARLIER variant also accepts its encoding (OpenAPI's "exactly one"
     restricted to what the generated decoder can observe) *)
  Theorem oneof_roundtrip_nodisc o i s v j :
    o_disc o = None ->
    nth_error (o_variants o) i = Some s ->
    rt_ok s v ->
    ENC1 (o_variants o) (single (length (o_variants o)) i v) = Ok j ->
    (forall i' s', i' < i -> nth_error (o_variants o) i' = Some s' -> forall v', DEC s' j <> Ok v') ->
    DEC1 o j = Ok (single (length (o_variants o)) i v).
  Proof.
    intros Hd Hn Hv He Hfirst. rewrite (enc_single _ _ _ _ Hn) in He.
    unfold dec_oneof. rewrite Hd.
    change i with (0 + i). apply (try_variants_first _ _ 0 j i s v Hn); [|exact Hfirst].
    apply (roundtrip fmt_float fmt_time parse_num parse_time float_rt time_rt s v j Hv He).
  Qed.

  (* ... and when an earlier variant does accept the encoding, the decoder
     returns THAT variant: the deviation from "exactly one" the model documents *)
  Theorem oneof_nodisc_first_match o i s v j :
    o_disc o = None ->
    nth_error (o_variants o) i = Some s -> DEC s j = Ok v ->
    (forall i' s', i' < i -> nth_error (o_variants o) i' = Some s' -> forall v', DEC s' j <> Ok v') ->
    DEC1 o j = Ok (single (length (o_variants o)) i v).
  Proof.
    intros Hd Hn Hdec Hfirst. unfold dec_oneof. rewrite Hd.
    change i with (0 + i). now apply (try_variants_first _ _ 0 j i s v Hn).
  Qed.

  (* ---------------- decoding with a discriminator ---------------- *)

  (* C06 with a discriminator: the value comes back when the encoded object
     carries, under the discriminator property, a name that the switch maps to
     the variant the value was built from *)
  Theorem oneof_roundtrip_disc o key cases i s v j k :
    o_disc o = Some (key, cases) ->
    nth_error (o_variants o) i = Some s ->
    rt_ok s v ->
    ENC1 (o_variants o) (single (length (o_variants o)) i v) = Ok j ->
    disc_key key j = Ok k ->
    find_case cases k = Some i ->
    DEC1 o j = Ok (single (length (o_variants o)) i v).
  Proof.
    intros Hd Hn Hv He Hk Hc. rewrite (enc_single _ _ _ _ Hn) in He.
    unfold dec_oneof. rewrite Hd. cbn [bind]. rewrite Hk. cbn [bind]. rewrite Hc, Hn.
    rewrite (roundtrip fmt_float fmt_time parse_num parse_time float_rt time_rt s v j Hv He).
    reflexivity.
  Qed.

  (* a name the switch does not list is rejected, whatever the document holds *)
  Theorem oneof_disc_unknown o key cases j k :
    o_disc o = Some (key, cases) -> disc_key key j = Ok k -> find_case cases k = None ->
    DEC1 o j = ErrOther.
  Proof. intros Hd Hk Hc. unfold dec_oneof. rewrite Hd. cbn [bind]. rewrite Hk. cbn [bind]. now rewrite Hc. Qed.

  (* the switch takes the FIRST case that lists the name *)
  Lemma find_case_first cases : forall k i names,
    In (i, names) cases -> In k names ->
    (forall i' names', In (i', names') cases -> In k names' -> i' = i) ->
    find_case cases k = Some i.
  Proof.
    induction cases as [|[i0 n0] cases IH]; intros k i names Hin Hk Huniq; [destruct Hin|].
    cbn [find_case]. destruct (existsb (str_eqb k) n0) eqn:E.
    - apply existsb_exists in E. destruct E as (x & Hx & Ex). apply str_eqb_eq in Ex. subst x.
      f_equal. apply (Huniq i0 n0); [now left | exact Hx].
    - destruct Hin as [Heq|Hin].
      + injection Heq as -> ->. exfalso.
        assert (existsb (str_eqb k) names = true) as T.
        { apply existsb_exists. exists k. split; [exact Hk | apply str_eqb_refl]. }
        congruence.
      + apply (IH k i names Hin Hk). intros i' names' Hin' Hk'. apply (Huniq i' names'); [now right | exact Hk'].
  Qed.

  (* ---------------- C07: the encoding conforms to the chosen variant ---------------- *)

  Theorem oneof_conforms vs i s v j :
    nth_error vs i = Some s -> rt_ok s v ->
    ENC1 vs (single (length vs) i v) = Ok j ->
    validates parse_num parse_time s j = true.
  Proof.
    intros Hn Hv He. rewrite (enc_single _ _ _ _ Hn) in He.
    apply (conforms fmt_float fmt_time parse_num parse_time float_rt time_rt s v j Hv He).
  Qed.

  (* a value with no field set has no encoding (MarshalJSON returns an error) *)
  Lemma enc_none vs : forall fs, (forall f, In f fs -> f = None) -> ENC1 vs fs = ErrOther.
  Proof.
    induction vs as [|s vs IH]; intros fs H; [destruct fs; reflexivity|].
    destruct fs as [|[x|] fs]; [reflexivity| |].
    - specialize (H (Some x) (or_introl eq_refl)). discriminate H.
    - cbn [enc_oneof]. apply IH. intros f Hf. apply H. now right.
  Qed.

  (* ---------------- C08: what is accepted was accepted by a variant ---------------- *)

  Theorem oneof_dec_sound o j fs :
    DEC1 o j = Ok fs ->
    exists i s v, nth_error (o_variants o) i = Some s /\ DEC s j = Ok v /\
                  fs = single (length (o_variants o)) i v.
  Proof.
    unfold dec_oneof. destruct (o_disc o) as [[key cases]|].
    - destruct (disc_key key j) as [k| |]; cbn [bind]; try discriminate.
      destruct (find_case cases k) as [i|]; try discriminate.
      destruct (nth_error (o_variants o) i) as [s|] eqn:Hn; try discriminate.
      destruct (DEC s j) as [v| |] eqn:Hd; cbn [bind]; try discriminate.
      intros H. injection H as <-. exists i, s, v. auto.
    - intros H. destruct (try_variants_sound _ _ 0 j fs H) as (i & s & v & Hn & Hd & ->).
      exists i, s, v. auto.
  Qed.
End OneOfProofs.

(* ---------------- the premises are satisfiable ---------------- *)
Module OneOfExample.
  Import String.
  Local Open Scope string_scope.
  Definition fmtf (_ : Z) (r : str) : str := r.
  Definition fmtt (r : str) : str := r.
  Definition pnum (_ : Z) (r : str) : option str := Some r.
  Definition ptime (r : str) : option str := Some r.
  Definition vA := JObjS [(MField (S_ "a") true, JPrimS QStr); (MField (S_ "kind") true, JPrimS QStr)] None.
  Definition vB := JObjS [(MField (S_ "b") true, JPrimS (QInt 64)); (MField (S_ "kind") true, JPrimS QStr)] None.
  Definition o1 := {| o_variants := [vA; vB]; o_disc := None |}.
  Definition o2 := {| o_variants := [vA; vB];
                      o_disc := Some (S_ "kind", [(0, [S_ "VarA"; S_ "a"]); (1, [S_ "VarB"])]) |}.
  Definition valB := GStruct [GInt 7; GStr (S_ "VarB")] [].

  Definition via (o : oneof) : res oval :=
    match enc_oneof fmtf fmtt (o_variants o) (single 2 1 valB) with
    | Ok j => dec_oneof pnum ptime o j
    | _ => ErrOther
    end.

  (* the second variant's value survives both decoders; the first variant rejects its encoding *)
  Example nodisc_roundtrip : via o1 = Ok (single 2 1 valB).
  Proof. vm_compute. reflexivity. Qed.
  Example disc_roundtrip : via o2 = Ok (single 2 1 valB).
  Proof. vm_compute. reflexivity. Qed.
  Example earlier_variant_rejects :
    match enc fmtf fmtt vB valB with Ok j => dec pnum ptime vA j | _ => ErrOther end = Err (S_ "a").
  Proof. vm_compute. reflexivity. Qed.
  Example in_domain : rt_ok vB valB.
  Proof.
    cbn. repeat split; try reflexivity.
    repeat constructor; cbn; intuition discriminate.
  Qed.
End OneOfExample.
