(* net/url escaping round trips (C09): what the client escapes, the server
   unescapes to the same bytes, for every byte string; the escaped text cannot
   disturb the structure of the URL around it. *)
From Coq Require Import String.
From Coq Require Import List Bool Arith Ascii NArith Lia.
Import ListNotations.
From Goag Require Import Base.Str Model.UrlEscape.

(* ------------------------------------------------------------------ *)
(* byte-level facts, by enumeration of the 256 bytes                     *)

Ltac all_bytes c :=
  destruct c as [b0 b1 b2 b3 b4 b5 b6 b7];
  destruct b0, b1, b2, b3, b4, b5, b6, b7.

Lemma esc_byte_rt : forall c,
  unhex (hex_digit (ncode c / 16)) = Some (ncode c / 16)%N /\
  unhex (hex_digit (ncode c mod 16)) = Some (ncode c mod 16)%N /\
  ascii_of_N (16 * (ncode c / 16) + ncode c mod 16) = c.
Proof. intros c. all_bytes c; vm_compute; repeat split. Qed.

Lemma path_keep_plain : forall c, path_keep c = true -> ascii_eqb c pct = false.
Proof. intros c. all_bytes c; vm_compute; intros H; try reflexivity; discriminate. Qed.

Lemma unreserved_plain : forall c, unreserved c = true ->
  ascii_eqb c pct = false /\ ascii_eqb c plus_c = false /\ ascii_eqb c amp = false /\
  ascii_eqb c eq_c = false /\ ascii_eqb c semi = false.
Proof. intros c. all_bytes c; vm_compute; intros H; try discriminate; repeat split. Qed.

(* the bytes escape() can write *)
Definition path_out (c : ascii) : bool := path_keep c || ascii_eqb c pct.
Definition query_out (c : ascii) : bool := unreserved c || ascii_eqb c pct || ascii_eqb c plus_c.

Lemma hex_digit_unreserved : forall c,
  unreserved (hex_digit (ncode c / 16)) = true /\ unreserved (hex_digit (ncode c mod 16)) = true.
Proof. intros c. all_bytes c; vm_compute; split; reflexivity. Qed.

Lemma unreserved_path_keep c : unreserved c = true -> path_keep c = true.
Proof. intros H. unfold path_keep. now rewrite H. Qed.

(* ------------------------------------------------------------------ *)
(* unescape . escape = id                                                *)

Lemma unescape_esc_byte plus c r :
  unescape plus (esc_byte c ++ r) =
  match unescape plus r with Some t => Some (c :: t) | None => None end.
Proof.
  unfold esc_byte. cbn [app unescape]. rewrite ascii_eqb_refl.
  destruct (esc_byte_rt c) as (H1 & H2 & H3). rewrite H1, H2, H3. reflexivity.
Qed.

Lemma escape_cons keep plus c s :
  escape_with keep plus (c :: s) =
  (if plus && ascii_eqb c space_c then [plus_c] else if keep c then [c] else esc_byte c) ++ escape_with keep plus s.
Proof. reflexivity. Qed.

Theorem path_unescape_escape : forall s, unescape false (path_escape s) = Some s.
Proof.
  unfold path_escape. induction s as [|c s IH]; [reflexivity|].
  rewrite escape_cons. cbn [andb].
  destruct (path_keep c) eqn:K.
  - cbn [app unescape]. rewrite (path_keep_plain c K). cbn [andb]. rewrite IH. reflexivity.
  - rewrite unescape_esc_byte. rewrite IH. reflexivity.
Qed.

Theorem query_unescape_escape : forall s, unescape true (query_escape s) = Some s.
Proof.
  unfold query_escape. induction s as [|c s IH]; [reflexivity|].
  rewrite escape_cons. cbn [andb].
  destruct (ascii_eqb c space_c) eqn:Sp.
  - apply ascii_eqb_eq in Sp. subst c. cbn [app unescape].
    assert (H1 : ascii_eqb plus_c pct = false) by reflexivity. rewrite H1.
    rewrite ascii_eqb_refl. cbn [andb]. rewrite IH. reflexivity.
  - destruct (unreserved c) eqn:K.
    + destruct (unreserved_plain c K) as (Hp & Hq & _).
      cbn [app unescape]. rewrite Hp, Hq. cbn [andb]. rewrite IH. reflexivity.
    + rewrite unescape_esc_byte. rewrite IH. reflexivity.
Qed.

(* ------------------------------------------------------------------ *)
(* what an escaped text consists of                                      *)

Lemma path_escape_out : forall s, forallb path_out (path_escape s) = true.
Proof.
  unfold path_escape. induction s as [|c s IH]; [reflexivity|].
  rewrite escape_cons. cbn [andb].
  rewrite forallb_app, IH, andb_true_r.
  destruct (path_keep c) eqn:K.
  - cbn [forallb]. unfold path_out. rewrite K. reflexivity.
  - unfold esc_byte. cbn [forallb]. destruct (hex_digit_unreserved c) as [H1 H2].
    assert (Hp : path_out pct = true) by reflexivity. rewrite Hp.
    unfold path_out. rewrite (unreserved_path_keep _ H1), (unreserved_path_keep _ H2). reflexivity.
Qed.

Lemma query_escape_out : forall s, forallb query_out (query_escape s) = true.
Proof.
  unfold query_escape. induction s as [|c s IH]; [reflexivity|].
  rewrite escape_cons. cbn [andb].
  rewrite forallb_app, IH, andb_true_r.
  destruct (ascii_eqb c space_c) eqn:Sp.
  - reflexivity.
  - destruct (unreserved c) eqn:K.
    + cbn [forallb]. unfold query_out. rewrite K. reflexivity.
    + unfold esc_byte. cbn [forallb]. destruct (hex_digit_unreserved c) as [H1 H2].
      assert (Hp : query_out pct = true) by reflexivity. rewrite Hp.
      unfold query_out. rewrite H1, H2. reflexivity.
Qed.

Lemma path_out_structure : forall c, path_out c = true ->
  ascii_eqb c slash = false /\ ascii_eqb c "?"%char = false /\ ascii_eqb c "#"%char = false.
Proof. intros c. all_bytes c; vm_compute; intros H; try discriminate; repeat split. Qed.

Lemma query_out_structure : forall c, query_out c = true ->
  ascii_eqb c amp = false /\ ascii_eqb c eq_c = false /\ ascii_eqb c semi = false /\ ascii_eqb c "#"%char = false.
Proof. intros c. all_bytes c; vm_compute; intros H; try discriminate; repeat split. Qed.

(* an escaped path value contains no '/', '?' or '#': the URL keeps the
   segment structure the client intended *)
Theorem path_escape_no_structure : forall s c,
  In c (path_escape s) -> c <> slash /\ c <> "?"%char /\ c <> "#"%char.
Proof.
  intros s c Hin. pose proof (path_escape_out s) as H. rewrite forallb_forall in H.
  destruct (path_out_structure c (H c Hin)) as (H1 & H2 & H3).
  repeat split; now apply ascii_eqb_neq.
Qed.

(* ------------------------------------------------------------------ *)
(* concatenation: unescape distributes over complete pieces              *)

Lemma unescape_app plus : forall n a b a' b',
  length a <= n -> unescape plus a = Some a' -> unescape plus b = Some b' ->
  unescape plus (a ++ b) = Some (a' ++ b').
Proof.
  induction n as [|n IH]; intros a b a' b' Hl Ha Hb.
  - destruct a; [|cbn in Hl; lia]. cbn in Ha. injection Ha as <-. exact Hb.
  - destruct a as [|c a]; [cbn in Ha; injection Ha as <-; exact Hb|].
    cbn [unescape app] in *. destruct (ascii_eqb c pct) eqn:E.
    + destruct a as [|x [|y a]]; try discriminate.
      cbn [app]. destruct (unhex x); [|discriminate]. destruct (unhex y); [|discriminate].
      destruct (unescape plus a) as [t|] eqn:Et; [|discriminate].
      injection Ha as <-. rewrite (IH a b t b'); [reflexivity| cbn in Hl; lia | exact Et | exact Hb].
    + destruct (unescape plus a) as [t|] eqn:Et; [|discriminate].
      cbn in Ha. injection Ha as <-.
      rewrite (IH a b t b'); [reflexivity| cbn in Hl; lia | exact Et | exact Hb].
Qed.

Lemma unescape_plain : forall s, forallb (fun c => negb (ascii_eqb c pct)) s = true -> unescape false s = Some s.
Proof.
  induction s as [|c s IH]; intros H; [reflexivity|].
  cbn [forallb] in H. apply andb_true_iff in H as [Hc Hs]. apply negb_true_iff in Hc.
  cbn [unescape]. rewrite Hc. cbn [andb]. rewrite (IH Hs). reflexivity.
Qed.

(* the whole request path: URL.Path, as net/http computes it from the raw path
   the client built, is the base path followed by the literal directories and
   the VALUES (not their escaped texts), provided base path and literals contain
   no '%' *)
Theorem raw_path_unescapes : forall bp segs,
  forallb (fun c => negb (ascii_eqb c pct)) bp = true ->
  Forall (fun s => match s with WLit l => forallb (fun c => negb (ascii_eqb c pct)) l = true | WVal _ => True end) segs ->
  unescape false (raw_path bp segs) = Some (bp ++ flat_map (fun s => slash :: seg_text s) segs).
Proof.
  intros bp segs Hbp Hs. unfold raw_path.
  apply (unescape_app false (length bp)); [lia | now apply unescape_plain |].
  induction Hs as [|s segs Hs1 Hs2 IH]; [reflexivity|].
  cbn [flat_map].
  change (slash :: match s with WLit l => l | WVal v => path_escape v end) with
         ([slash] ++ match s with WLit l => l | WVal v => path_escape v end).
  change (slash :: seg_text s) with ([slash] ++ seg_text s).
  rewrite <- !app_assoc.
  apply (unescape_app false 1); [cbn; lia | reflexivity |].
  apply (unescape_app false (length (match s with WLit l => l | WVal v => path_escape v end))); [lia | | exact IH].
  destruct s as [l|v]; cbn [seg_text]; [now apply unescape_plain | apply path_unescape_escape].
Qed.

(* ------------------------------------------------------------------ *)
(* the query string                                                      *)

Lemma split_on_nosep sep : forall a cur r,
  forallb (fun c => negb (ascii_eqb c sep)) a = true ->
  split_on sep (a ++ r) cur = split_on sep r (cur ++ a).
Proof.
  induction a as [|c a IH]; intros cur r H; [now rewrite app_nil_r|].
  cbn [forallb] in H. apply andb_true_iff in H as [Hc Ha]. apply negb_true_iff in Hc.
  cbn [app split_on]. rewrite Hc. rewrite IH by exact Ha. now rewrite <- app_assoc.
Qed.

Lemma cut_nosep sep : forall a r,
  forallb (fun c => negb (ascii_eqb c sep)) a = true ->
  cut sep (a ++ sep :: r) = (a, Some r).
Proof.
  induction a as [|c a IH]; intros r H.
  - cbn. now rewrite ascii_eqb_refl.
  - cbn [forallb] in H. apply andb_true_iff in H as [Hc Ha]. apply negb_true_iff in Hc.
    cbn [app cut]. rewrite Hc. now rewrite IH.
Qed.

Lemma query_escape_no (sep : ascii) :
  (forall c, query_out c = true -> ascii_eqb c sep = false) ->
  forall s, forallb (fun c => negb (ascii_eqb c sep)) (query_escape s) = true.
Proof.
  intros Hsep s. pose proof (query_escape_out s) as H.
  rewrite forallb_forall in *. intros c Hin. now rewrite (Hsep c (H c Hin)).
Qed.

Definition piece (kv : str * str) : str := query_escape (fst kv) ++ eq_c :: query_escape (snd kv).

Lemma piece_no_amp kv : forallb (fun c => negb (ascii_eqb c amp)) (piece kv) = true.
Proof.
  unfold piece. rewrite forallb_app. cbn [forallb].
  rewrite !(query_escape_no amp) by (intros c H; apply (query_out_structure c H)).
  reflexivity.
Qed.

Lemma piece_pairs_piece kv : piece_pairs (piece kv) = [kv].
Proof.
  destruct kv as [k v]. unfold piece. cbn [fst snd].
  unfold piece_pairs.
  assert (Hne : query_escape k ++ eq_c :: query_escape v <> []) by (destruct (query_escape k); discriminate).
  destruct (query_escape k ++ eq_c :: query_escape v) as [|c0 p0] eqn:Ep; [contradiction|].
  rewrite <- Ep. clear Hne.
  assert (Hs : contains semi (query_escape k ++ eq_c :: query_escape v) = false).
  { rewrite contains_app. cbn [contains].
    assert (Hc : forall s, contains semi (query_escape s) = false).
    { intros s. destruct (contains semi (query_escape s)) eqn:E; [|reflexivity].
      apply contains_In in E. pose proof (query_escape_out s) as H. rewrite forallb_forall in H.
      destruct (query_out_structure semi (H semi E)) as (_ & _ & H3 & _). now rewrite ascii_eqb_refl in H3. }
    rewrite !Hc. reflexivity. }
  rewrite Hs.
  rewrite cut_nosep by (apply query_escape_no; intros c H; apply (query_out_structure c H)).
  rewrite !query_unescape_escape. reflexivity.
Qed.

Lemma encode_query_cons kv r : r <> [] -> encode_query (kv :: r) = piece kv ++ amp :: encode_query r.
Proof.
  intros H. destruct kv as [k v]. destruct r as [|kv' r]; [contradiction|].
  cbn [encode_query]. unfold piece. cbn [fst snd]. rewrite <- app_assoc. reflexivity.
Qed.

Lemma split_encode : forall ps cur, ps <> [] ->
  split_on amp (encode_query ps) cur =
  match ps with [] => [] | kv :: r => (cur ++ piece kv) :: map piece r end.
Proof.
  induction ps as [|kv ps IH]; intros cur Hne; [contradiction|].
  destruct ps as [|kv' ps].
  - destruct kv as [k v]. cbn [encode_query map].
    change (query_escape k ++ eq_c :: query_escape v) with (piece (k, v)).
    rewrite <- (app_nil_r (piece (k, v))) at 1.
    rewrite split_on_nosep by apply piece_no_amp. reflexivity.
  - rewrite encode_query_cons by discriminate.
    rewrite split_on_nosep by apply piece_no_amp.
    cbn [split_on]. rewrite ascii_eqb_refl.
    rewrite IH by discriminate. cbn [map app]. reflexivity.
Qed.

(* URL.Query() of what url.Values.Encode wrote is the list of pairs that was
   encoded: every key and value byte for byte, in order, whatever they contain *)
Theorem query_roundtrip : forall ps, parse_query (encode_query ps) = ps.
Proof.
  intros ps. unfold parse_query. destruct ps as [|kv ps]; [reflexivity|].
  rewrite split_encode by discriminate. cbn [app flat_map].
  rewrite piece_pairs_piece. cbn [app]. f_equal.
  induction ps as [|kv' ps IH]; [reflexivity|].
  cbn [map flat_map]. rewrite piece_pairs_piece. cbn [app]. now rewrite IH.
Qed.

(* non-vacuity *)
Example path_escape_example :
  path_escape (S_ "a b/c?d%e+f") = S_ "a%20b%2Fc%3Fd%25e+f".
Proof. reflexivity. Qed.

Example query_example :
  encode_query [(S_ "q", S_ "a b&c=d"); (S_ "tag", S_ "x+y"); (S_ "tag", [])] = S_ "q=a+b%26c%3Dd&tag=x%2By&tag=".
Proof. reflexivity. Qed.
