(* C10 (and the Write half of C02): the client's reconstruction of what the
   server wrote. *)
From Coq Require Import String.
From Coq Require Import List Bool Arith Ascii NArith ZArith Lia.
Import ListNotations.
From Goag Require Import Base.Str Model.Router Model.Serve Model.Params Model.Json Model.Client Model.Response
     Spec.JsonSpec Proofs.IntFormat Proofs.ClientProofs Proofs.JsonEncProofs Proofs.JsonRtProofs.

Section Resp.
  Variable fmt_float : Z -> str -> str.
  Variable fmt_num : Z -> str -> str.
  Variable fmt_time : str -> str.
  Variable pf : Z -> str -> option str.
  Variable pt : str -> option str.
  Variable parse_num : Z -> str -> option str.

  Hypothesis float_rt : forall b r, pf b (fmt_float b r) = Some r.
  Hypothesis time_rt : forall r, pt (fmt_time r) = Some r.
  Hypothesis num_rt : forall b r, parse_num b (fmt_num b r) = Some r.

  Notation WRITE := (write fmt_float fmt_num fmt_time).
  Notation READ := (read pf pt parse_num).
  Notation DECODE := (client_decode pf pt parse_num).

  (* ---------------- well-formed response lists ---------------- *)
  Definition codes (ps : list rplan) : list Z :=
    flat_map (fun p => match rp_status p with Some c => [c] | None => [] end) ps.

  Definition plan_wf (p : rplan) : Prop :=
    names_distinct hdr_eq (rp_headers p) /\
    forall d, In d (rp_headers p) -> hdr_eqb (d_name d) content_type = false.

  Definition plans_wf (ps : list rplan) : Prop :=
    Forall plan_wf ps /\ NoDup (codes ps) /\
    (forall i j pi pj, nth_error ps i = Some pi -> nth_error ps j = Some pj ->
                       rp_status pi = None -> rp_status pj = None -> i = j).

  Definition body_ok (k : bkind) (b : bval) : Prop :=
    match k, b with
    | BNone, VBNone => True
    | BJson s, VBJson v => rt_ok s v
    | BRaw, VBRaw _ => True
    | _, _ => False
    end.

  (* the values a handler can return for plan p (DESIGN section 11: a `default`
     value carries a code the operation does not otherwise document) *)
  Definition value_ok (ps : list rplan) (p : rplan) (v : rvalue) : Prop :=
    Forall2 (field_ok_c) (rp_headers p) (rv_headers v) /\
    body_ok (rp_body p) (rv_body v) /\
    match rp_status p with Some _ => rv_code v = 0%Z | None => ~ In (rv_code v) (codes ps) end.

  (* ---------------- the status switch ---------------- *)
  Lemma find_status_none c : forall ps k, ~ In c (codes ps) -> find_status c k ps = None.
  Proof.
    induction ps as [|p r IH]; intros k H; simpl; [reflexivity|].
    unfold codes in H. simpl in H. fold (codes r) in H.
    destruct (rp_status p) as [c'|].
    - destruct (Z.eqb_spec c c') as [->|Hne]; [exfalso; apply H; simpl; auto|]. apply IH. intros Hin. apply H. simpl. auto.
    - apply IH. exact H.
  Qed.

  Lemma find_status_at c : forall ps k i p, NoDup (codes ps) -> nth_error ps i = Some p -> rp_status p = Some c ->
    find_status c k ps = Some ((k + i)%nat, p).
  Proof.
    induction ps as [|q r IH]; intros k i p Hnd Hn Hs; [destruct i; discriminate|].
    unfold codes in Hnd. simpl in Hnd. fold (codes r) in Hnd. destruct i as [|i]; simpl in Hn.
    - injection Hn as ->. simpl. rewrite Hs, Z.eqb_refl. now rewrite Nat.add_0_r.
    - simpl. destruct (rp_status q) as [c'|] eqn:Eq.
      + simpl in Hnd. inversion Hnd as [|? ? Hnotin Hnd']; subst.
        destruct (Z.eqb_spec c c') as [->|Hne].
        * exfalso. apply Hnotin. unfold codes. apply in_flat_map. exists p. split; [eapply nth_error_In; eassumption|]. rewrite Hs. simpl. auto.
        * rewrite (IH (S k) i p Hnd' Hn Hs). f_equal. f_equal. lia.
      + rewrite (IH (S k) i p Hnd Hn Hs). f_equal. f_equal. lia.
  Qed.

  Lemma find_default_at : forall ps k i p,
    (forall a b pa pb, nth_error ps a = Some pa -> nth_error ps b = Some pb -> rp_status pa = None -> rp_status pb = None -> a = b) ->
    nth_error ps i = Some p -> rp_status p = None -> find_default k ps = Some ((k + i)%nat, p).
  Proof.
    induction ps as [|q r IH]; intros k i p Hu Hn Hs; [destruct i; discriminate|].
    destruct i as [|i]; simpl in Hn.
    - injection Hn as ->. simpl. rewrite Hs. now rewrite Nat.add_0_r.
    - simpl. destruct (rp_status q) as [c'|] eqn:Eq.
      + rewrite (IH (S k) i p); auto. * f_equal. f_equal. lia.
        * intros a b pa pb Ha Hb Hsa Hsb. assert (S a = S b) by (eapply Hu; simpl; eauto). lia.
      + exfalso. assert (0%nat = S i) by (eapply (Hu 0%nat (S i) q p); simpl; eauto). discriminate.
  Qed.

  Lemma find_default_status : forall ps k i p, find_default k ps = Some (i, p) -> rp_status p = None.
  Proof.
    induction ps as [|q r IH]; intros k i p H; simpl in H; [discriminate|].
    destruct (rp_status q) eqn:E; [eauto|]. injection H as <- <-. exact E.
  Qed.

  Lemma find_status_status c : forall ps k i p, find_status c k ps = Some (i, p) -> rp_status p = Some c.
  Proof.
    induction ps as [|q r IH]; intros k i p H; simpl in H; [discriminate|].
    destruct (rp_status q) as [c'|] eqn:E; [|eauto].
    destruct (Z.eqb_spec c c') as [->|Hne]; [|eauto]. injection H as <- <-. exact E.
  Qed.

  Lemma find_status_nth c : forall ps k i p, find_status c k ps = Some (i, p) -> exists j, i = (k + j)%nat /\ nth_error ps j = Some p.
  Proof.
    induction ps as [|q r IH]; intros k i p H; simpl in H; [discriminate|].
    assert (Hrec : find_status c (S k) r = Some (i, p) -> exists j, i = (k + j)%nat /\ nth_error (q :: r) j = Some p).
    { intros H'. destruct (IH _ _ _ H') as (j & -> & Hj). exists (S j). split; [lia|exact Hj]. }
    destruct (rp_status q) as [c'|]; [|auto].
    destruct (Z.eqb c c'); [|auto]. injection H as <- <-. exists 0%nat. split; [lia|reflexivity].
  Qed.

  Lemma find_default_nth : forall ps k i p, find_default k ps = Some (i, p) -> exists j, i = (k + j)%nat /\ nth_error ps j = Some p.
  Proof.
    induction ps as [|q r IH]; intros k i p H; simpl in H; [discriminate|].
    destruct (rp_status q) as [c'|].
    - destruct (IH _ _ _ H) as (j & -> & Hj). exists (S j). split; [lia|exact Hj].
    - injection H as <- <-. exists 0%nat. split; [lia|reflexivity].
  Qed.

  (* ---------------- headers ---------------- *)
  Lemma client_pairs_keys ds : forall fs hs, client_pairs fmt_float fmt_time ds fs = Some hs ->
    forall kv, In kv hs -> exists d, In d ds /\ fst kv = d_name d.
  Proof.
    induction ds as [|d ds IH]; intros fs hs H kv Hin; destruct fs as [|f fs]; simpl in H; try discriminate.
    - injection H as <-. contradiction.
    - destruct (client_values fmt_float fmt_time d f) as [vs|]; [|discriminate].
      destruct (client_pairs fmt_float fmt_time ds fs) as [r|] eqn:Er; [|discriminate]. injection H as <-.
      apply in_app_or in Hin. destruct Hin as [Hin|Hin].
      + apply in_map_iff in Hin. destruct Hin as (v & <- & _). exists d. simpl. auto.
      + destruct (IH fs r Er kv Hin) as (d' & Hd' & He). exists d'. simpl. auto.
  Qed.

  Lemma parse_all_ext_in get1 get2 ds : (forall d, In d ds -> get1 (d_name d) = get2 (d_name d)) ->
    parse_all pf pt get1 ds = parse_all pf pt get2 ds.
  Proof.
    induction ds as [|d r IH]; intros H; simpl; [reflexivity|]. rewrite (H d) by (simpl; auto). rewrite IH; [reflexivity|].
    intros d' Hd'. apply H. simpl. auto.
  Qed.

  Lemma hdr_eqb_sym a b : hdr_eqb a b = hdr_eqb b a.
  Proof.
    unfold hdr_eqb. destruct (str_eqb_spec (canon_key a) (canon_key b)) as [E|E], (str_eqb_spec (canon_key b) (canon_key a)) as [E'|E']; congruence.
  Qed.

  Lemma header_lookup_set hs ct name :
    (forall kv, In kv hs -> hdr_eqb (fst kv) content_type = false) -> hdr_eqb name content_type = false ->
    header_lookup (set_header hs content_type ct) name = header_lookup hs name.
  Proof.
    intros Hk Hn. unfold set_header, header_lookup. rewrite flat_map_app. simpl.
    rewrite hdr_eqb_sym, Hn. rewrite app_nil_r. f_equal.
    clear Hn. induction hs as [|kv r IH]; simpl; [reflexivity|]. rewrite (Hk kv) by (simpl; auto). simpl. f_equal. apply IH.
    intros kv' H'. apply Hk. simpl. auto.
  Qed.

  Lemma read_headers p v hs :
    plan_wf p -> Forall2 field_ok_c (rp_headers p) (rv_headers v) ->
    client_pairs fmt_float fmt_time (rp_headers p) (rv_headers v) = Some hs ->
    parse_all pf pt (header_lookup (match rp_ctype p with Some ct => set_header hs content_type ct | None => hs end)) (rp_headers p)
    = Ok (rv_headers v).
  Proof.
    intros [Hd Hct] Hok Hcp.
    assert (Hbase : parse_all pf pt (header_lookup hs) (rp_headers p) = Ok (rv_headers v)).
    { pose proof (client_all_agree fmt_float fmt_time pf pt float_rt time_rt hdr_eq (fun a => str_eqb_refl _) _ _ _ Hok Hd Hcp [] (fun _ _ => eq_refl)) as H.
      simpl app in H. exact H. }
    destruct (rp_ctype p) as [ct|]; [|exact Hbase].
    rewrite <- Hbase. apply parse_all_ext_in. intros d Hin. apply header_lookup_set.
    - intros kv Hkv. destruct (client_pairs_keys _ _ _ Hcp kv Hkv) as (d' & Hd' & ->). now apply Hct.
    - now apply Hct.
  Qed.

  (* ---------------- body ---------------- *)
  Lemma read_write_body k b : body_ok k b -> exists wb, write_body fmt_num fmt_time k b = Some wb /\ read_body pt parse_num k wb = Ok b.
  Proof.
    destruct k as [|s|], b as [|v|bs]; simpl; try contradiction; intros H.
    - eauto.
    - destruct (enc_total fmt_num fmt_time s v (rt_ok_typed _ _ H)) as [j Hj]. rewrite Hj. exists (WJson j). split; [reflexivity|].
      simpl. now rewrite (roundtrip fmt_num fmt_time parse_num pt num_rt time_rt s v j H Hj).
    - eauto.
  Qed.

  (* ---------------- the whole response ---------------- *)
  Theorem response_roundtrip ps i p v :
    plans_wf ps -> nth_error ps i = Some p -> value_ok ps p v ->
    exists w, WRITE p v = Some w /\ DECODE ps w = Ok (i, v).
  Proof.
    intros (Hwf & Hnd & Hdef) Hn (Hh & Hb & Hc).
    assert (Hp : plan_wf p) by (rewrite Forall_forall in Hwf; apply Hwf; eapply nth_error_In; eassumption).
    destruct (client_pairs_defined fmt_float fmt_time pf pt float_rt time_rt _ _ Hh) as (hs & Ehs).
    destruct (read_write_body _ _ Hb) as (wb & Ewb & Erb).
    unfold write. rewrite Ehs, Ewb. eexists. split; [reflexivity|].
    unfold client_decode. cbn [w_status].
    assert (Hsel : select ps (match rp_status p with Some c => c | None => rv_code v end) = Some (i, p)).
    { unfold select. destruct (rp_status p) as [c|] eqn:Es.
      - now rewrite (find_status_at c ps 0 i p Hnd Hn Es).
      - rewrite find_status_none by exact Hc. now rewrite (find_default_at ps 0 i p Hdef Hn Es). }
    rewrite Hsel. unfold read. cbn [w_headers w_body w_status].
    rewrite (read_headers p v hs Hp Hh Ehs), Erb.
    destruct v as [code hv bv]. simpl in *. destruct (rp_status p); [subst code|]; reflexivity.
  Qed.

  (* an undocumented status goes to the default response, or is an error *)
  Theorem undocumented_status ps w : ~ In (w_status w) (codes ps) ->
    DECODE ps w = match find_default 0 ps with
                  | Some (i, p) => match READ p w with Ok v => Ok (i, v) | Err n => Err n | ErrOther => ErrOther end
                  | None => ErrOther
                  end.
  Proof. intros H. unfold client_decode, select. now rewrite find_status_none. Qed.

  (* whatever the client returns is the response documented for the status it saw *)
  Theorem never_wrong_kind ps w i v : DECODE ps w = Ok (i, v) ->
    exists p, nth_error ps i = Some p /\
              (rp_status p = Some (w_status w) \/ (rp_status p = None /\ find_status (w_status w) 0 ps = None)).
  Proof.
    unfold client_decode, select. intros H.
    destruct (find_status (w_status w) 0 ps) as [[i' p]|] eqn:Ef.
    - destruct (READ p w); try discriminate. injection H as <- <-.
      destruct (find_status_nth _ _ _ _ _ Ef) as (j & -> & Hj). exists p. split; [exact Hj|]. left. eapply find_status_status; eassumption.
    - destruct (find_default 0 ps) as [[i' p]|] eqn:Ed; [|discriminate].
      destruct (READ p w); try discriminate. injection H as <- <-.
      destruct (find_default_nth _ _ _ _ Ed) as (j & -> & Hj). exists p. split; [exact Hj|]. right. split; [|reflexivity].
      eapply find_default_status; eassumption.
  Qed.

  (* ---------------- the Write half of C02 ---------------- *)
  (* what the wire carries is what the plan documents: status, Content-Type,
     for every declared header exactly the texts of its value (none when an
     optional is unset), no header the plan does not declare, and the encoding of the body *)
  Theorem write_documented p v w : plan_wf p -> WRITE p v = Some w ->
    w_status w = (match rp_status p with Some c => c | None => rv_code v end) /\
    (forall ct, rp_ctype p = Some ct -> header_lookup (w_headers w) content_type = [ct]) /\
    (exists hs, client_pairs fmt_float fmt_time (rp_headers p) (rv_headers v) = Some hs /\
                forall d, In d (rp_headers p) -> header_lookup (w_headers w) (d_name d) = header_lookup hs (d_name d)) /\
    (forall kv, In kv (w_headers w) -> fst kv = content_type \/ exists d, In d (rp_headers p) /\ fst kv = d_name d) /\
    write_body fmt_num fmt_time (rp_body p) (rv_body v) = Some (w_body w).
  Proof.
    intros [Hd Hct] H. unfold write in H.
    destruct (client_pairs fmt_float fmt_time (rp_headers p) (rv_headers v)) as [hs|] eqn:Ehs; [|discriminate].
    destruct (write_body fmt_num fmt_time (rp_body p) (rv_body v)) as [wb|] eqn:Ewb; [|discriminate].
    injection H as <-. cbn [w_status w_headers w_body].
    assert (Hkeys : forall kv, In kv hs -> hdr_eqb (fst kv) content_type = false).
    { intros kv Hkv. destruct (client_pairs_keys _ _ _ Ehs kv Hkv) as (d' & Hd' & ->). now apply Hct. }
    split; [reflexivity|]. split; [|split; [|split; [|reflexivity]]].
    - intros ct ->. unfold set_header, header_lookup. rewrite flat_map_app. simpl.
      replace (flat_map _ (filter _ hs)) with (@nil str); [reflexivity|].
      clear -Hkeys. induction hs as [|kv r IH]; simpl; [reflexivity|].
      rewrite (Hkeys kv) by (simpl; auto). simpl. rewrite (Hkeys kv) by (simpl; auto). apply IH. intros kv' H'. apply Hkeys. simpl. auto.
    - exists hs. split; [reflexivity|]. intros d Hin. destruct (rp_ctype p); [|reflexivity].
      apply header_lookup_set; [exact Hkeys|now apply Hct].
    - intros kv Hkv. destruct (rp_ctype p) as [ct|].
      + unfold set_header in Hkv. apply in_app_or in Hkv. destruct Hkv as [Hkv|[<-|[]]]; [|left; reflexivity].
        apply filter_In in Hkv. destruct Hkv as [Hkv _]. right. destruct (client_pairs_keys _ _ _ Ehs kv Hkv) as (d' & Hd' & He). eauto.
      + right. destruct (client_pairs_keys _ _ _ Ehs kv Hkv) as (d' & Hd' & He). eauto.
  Qed.
End Resp.
