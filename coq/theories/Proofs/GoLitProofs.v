From Coq Require Import String.
From Coq Require Import List Bool Arith Ascii NArith Lia.
Import ListNotations.
From Goag Require Import Base.Str Model.GoLit.

Local Notation R := (replace_bytes raw_table).
Local Notation Q := (replace_bytes quoted_table).

Lemma replace_bytes_cons tbl c s :
  replace_bytes tbl (c :: s)
  = (match subst_lookup tbl c with Some r => r | None => [c] end) ++ replace_bytes tbl s.
Proof. reflexivity. Qed.

Lemma not_contains_cons c x s :
  contains c (x :: s) = false -> x <> c /\ contains c s = false.
Proof.
  simpl. intros H. apply orb_false_iff in H as [H1 H2].
  apply ascii_eqb_neq in H1. auto.
Qed.

Ltac neqb :=
  match goal with
  | H : ?a <> ?b |- context [ascii_eqb ?a ?b] =>
    replace (ascii_eqb a b) with false by (symmetry; now apply ascii_eqb_neq)
  end.

(* ---------------- raw (multi-line) branch ---------------- *)

Lemma eval_sum_plus fuel acc r :
  eval_sum (S fuel) acc (plus :: r)
  = match scan_lit fuel (skip_ws r) with
    | Some (v, rest) => eval_sum fuel (acc ++ v) rest
    | None => None
    end.
Proof. reflexivity. Qed.

Lemma lit_bq fuel X : scan_lit (S (S fuel)) (skip_ws (dq :: bq :: dq :: X)) = Some ([bq], X).
Proof. reflexivity. Qed.

Lemma lit_cr fuel X :
  scan_lit (S (S fuel)) (skip_ws (dq :: bsl :: "r"%char :: dq :: X)) = Some ([cr], X).
Proof. reflexivity. Qed.

Lemma lit_raw fuel X : scan_lit fuel (skip_ws (bq :: X)) = scan_raw X.
Proof. reflexivity. Qed.

Lemma raw_branch s :
  contains nul s = false ->
  exists v rest,
    scan_raw (R s ++ [bq]) = Some (v, rest) /\
    forall fuel acc, length (R s) + 1 <= fuel ->
      eval_sum fuel (acc ++ v) rest = Some (acc ++ s).
Proof.
  induction s as [|c s IH]; intros Hn.
  - exists [], []. split; [reflexivity|].
    intros fuel acc Hf. destruct fuel; [simpl in Hf; lia|]. simpl. now rewrite !app_nil_r.
  - apply not_contains_cons in Hn as [Hc Hn]. destruct (IH Hn) as (v & rest & Hscan & Hev). clear IH.
    destruct (ascii_eqb c bq) eqn:Ebq; [apply ascii_eqb_eq in Ebq; subst c|].
    { (* back quote: `+"`"+` *)
      exists [], ([plus; dq; bq; dq; plus; bq] ++ R s ++ [bq]). split; [reflexivity|].
      intros fuel acc Hf. rewrite replace_bytes_cons in Hf. simpl in Hf.
      destruct fuel as [|[|[|fuel]]]; try lia.
      rewrite app_nil_r. simpl app.
      rewrite eval_sum_plus, lit_bq, eval_sum_plus, lit_raw, Hscan.
      replace (acc ++ bq :: s) with ((acc ++ [bq]) ++ s) by (rewrite <- app_assoc; reflexivity).
      apply Hev. lia. }
    destruct (ascii_eqb c cr) eqn:Ecr; [apply ascii_eqb_eq in Ecr; subst c|].
    { (* carriage return: `+"\r"+` *)
      exists [], ([plus; dq; bsl; "r"%char; dq; plus; bq] ++ R s ++ [bq]). split; [reflexivity|].
      intros fuel acc Hf. rewrite replace_bytes_cons in Hf. simpl in Hf.
      destruct fuel as [|[|[|fuel]]]; try lia.
      rewrite app_nil_r. simpl app.
      rewrite eval_sum_plus, lit_cr, eval_sum_plus, lit_raw, Hscan.
      replace (acc ++ cr :: s) with ((acc ++ [cr]) ++ s) by (rewrite <- app_assoc; reflexivity).
      apply Hev. lia. }
    (* plain byte *)
    exists (c :: v), rest. split.
    + rewrite replace_bytes_cons. simpl subst_lookup. rewrite Ebq, Ecr. simpl app.
      simpl scan_raw. rewrite Ebq.
      apply ascii_eqb_neq in Hc. rewrite Hc. rewrite Hscan. now rewrite Ecr.
    + intros fuel acc Hf. rewrite replace_bytes_cons in Hf. simpl subst_lookup in Hf.
      rewrite Ebq, Ecr in Hf. simpl in Hf.
      replace (acc ++ c :: v) with ((acc ++ [c]) ++ v) by (rewrite <- app_assoc; reflexivity).
      replace (acc ++ c :: s) with ((acc ++ [c]) ++ s) by (rewrite <- app_assoc; reflexivity).
      apply Hev. lia.
Qed.

(* ---------------- quoted (one-line) branch ---------------- *)

Lemma quoted_branch s :
  contains nul s = false -> contains lf s = false ->
  forall fuel rest, length (Q s) + 1 <= fuel ->
    scan_interp fuel (Q s ++ dq :: rest) = Some (s, rest).
Proof.
  induction s as [|c s IH]; intros Hn Hl fuel rest Hf.
  - destruct fuel; [simpl in Hf; lia|]. reflexivity.
  - apply not_contains_cons in Hn as [Hc Hn]. apply not_contains_cons in Hl as [Hc' Hl].
    specialize (IH Hn Hl).
    rewrite replace_bytes_cons in *. simpl subst_lookup in *.
    destruct (ascii_eqb c bsl) eqn:Ebs; [apply ascii_eqb_eq in Ebs; subst c|].
    { simpl in Hf. destruct fuel as [|fuel]; [lia|].
      cbn -[scan_interp]. cbn [scan_interp]. cbn -[scan_interp].
      rewrite IH by lia. reflexivity. }
    destruct (ascii_eqb c dq) eqn:Edq; [apply ascii_eqb_eq in Edq; subst c|].
    { simpl in Hf. destruct fuel as [|fuel]; [lia|].
      cbn -[scan_interp]. cbn [scan_interp]. cbn -[scan_interp].
      rewrite IH by lia. reflexivity. }
    simpl in Hf. destruct fuel as [|fuel]; [lia|].
    simpl app. cbn [scan_interp]. rewrite Edq.
    apply ascii_eqb_neq in Hc, Hc'. rewrite Hc, Hc', Ebs.
    rewrite IH by lia. reflexivity.
Qed.

Lemma length_replace_ge tbl s :
  (forall c r, subst_lookup tbl c = Some r -> 1 <= length r) ->
  length s <= length (replace_bytes tbl s).
Proof.
  intros H. induction s as [|c s IH]; simpl; [lia|].
  rewrite app_length. destruct (subst_lookup tbl c) eqn:E.
  - apply H in E. lia.
  - simpl. lia.
Qed.

Theorem embed_correct s : embeddable s = true -> go_eval (encode s) = Some s.
Proof.
  unfold embeddable. intros Hn. apply negb_true_iff in Hn.
  unfold encode. destruct (contains lf s) eqn:Hl.
  - destruct (raw_branch s Hn) as (v & rest & Hscan & Hev).
    unfold go_eval. cbn [scan_lit]. rewrite ascii_eqb_refl. rewrite Hscan.
    specialize (Hev (S (S (length (bq :: R s ++ [bq])))) []). simpl app in Hev.
    apply Hev. simpl. rewrite app_length. simpl. lia.
  - unfold go_eval. cbn [scan_lit].
    replace (ascii_eqb dq bq) with false by reflexivity. rewrite ascii_eqb_refl.
    rewrite (quoted_branch s Hn Hl _ []).
    + reflexivity.
    + cbn [length]. rewrite app_length. cbn [length]. lia.
Qed.

(* the emitted text is one line whenever the content is, so the constant
   declaration `const SpecFile string = <lit>` stays a single statement *)
Lemma quoted_no_lf s : contains lf s = false -> contains lf (encode s) = false.
Proof.
  intros H. unfold encode. rewrite H. simpl.
  rewrite contains_app. simpl. rewrite orb_false_r.
  induction s as [|c s IH]; [reflexivity|].
  apply not_contains_cons in H as [Hc H]. rewrite replace_bytes_cons, contains_app, (IH H), orb_false_r.
  simpl. destruct (ascii_eqb c bsl) eqn:E1; [reflexivity|].
  destruct (ascii_eqb c dq) eqn:E2; [reflexivity|]. simpl.
  apply ascii_eqb_neq in Hc. now rewrite Hc.
Qed.

(* Non-vacuity and the two historical witnesses (D07, D08), now passing. *)
Example embed_backslash : go_eval (encode (S_ "a\b")) = Some (S_ "a\b").
Proof. reflexivity. Qed.

Example embed_crlf :
  let s := ["a"%char; cr; lf; bq; "b"%char] in go_eval (encode s) = Some s.
Proof. reflexivity. Qed.

Example embeddable_example : embeddable (S_ "openapi: ""3.0.0"" \ `x`") = true.
Proof. reflexivity. Qed.

(* What the pre-fix code did (raw branch without CR splicing, quoted branch
   escaping only the quote) is refuted by the same two inputs: kept as a record
   of what the check found. *)
Definition encode_old (s : str) : str :=
  if contains lf s
  then bq :: replace_bytes [(bq, [bq; plus; dq; bq; dq; plus; bq])] s ++ [bq]
  else dq :: replace_bytes [(dq, [bsl; dq])] s ++ [dq].

Example old_refuted_backslash : go_eval (encode_old (S_ "a\b")) <> Some (S_ "a\b").
Proof. vm_compute. discriminate. Qed.

Example old_refuted_cr :
  go_eval (encode_old ["a"%char; cr; lf]) <> Some ["a"%char; cr; lf].
Proof. vm_compute. discriminate. Qed.
