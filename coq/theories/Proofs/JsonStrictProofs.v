(* C08, strictness: a document that lacks a required property, or carries a
   non-null value of the wrong JSON type for a declared property, is rejected;
   errors raised while decoding an object name a property. *)
From Coq Require Import String.
From Coq Require Import List Bool Arith Ascii NArith ZArith Lia.
Import ListNotations.
From Goag Require Import Base.Str Model.Router Model.Serve Model.Params Model.Json Spec.JsonSpec
     Proofs.JsonEncProofs Proofs.JsonRtProofs.

Section Strict.
  Variable parse_num : Z -> str -> option str.
  Variable parse_time : str -> option str.

  Notation DI := (dec_items parse_num parse_time).
  Notation DEC := (dec parse_num parse_time).
  Notation DIN := (dec_inner parse_num parse_time).

  Lemma kv_get_some_in m k x : kv_get m k = Some x -> In k (keys m).
  Proof.
    induction m as [|[k' v] r IH]; simpl; [discriminate|].
    destruct (str_eqb k' k) eqn:E; [apply str_eqb_eq in E; subst; auto | intros H; right; auto].
  Qed.

  Lemma kv_del_incl m k : incl (keys (kv_del m k)) (keys m).
  Proof.
    induction m as [|[k' v] r IH]; simpl; [apply incl_refl|].
    destruct (str_eqb k' k); [apply incl_tl, incl_refl|].
    intros y [<-|Hy]; simpl; auto.
  Qed.

  Lemma kv_get_del_other m k k' : k <> k' -> kv_get (kv_del m k) k' = kv_get m k'.
  Proof.
    intros Hne. induction m as [|[k0 v] r IH]; simpl; [reflexivity|].
    destruct (str_eqb k0 k) eqn:E1.
    - apply str_eqb_eq in E1. subst k0.
      destruct (str_eqb k k') eqn:E2; [apply str_eqb_eq in E2; congruence | reflexivity].
    - simpl. destruct (str_eqb k0 k'); [reflexivity | exact IH].
  Qed.

  (* what an object decoder leaves in the shared map: it only deletes, and only
     keys it declares *)
  Definition frame (s : jsch) : Prop :=
    forall j m e v m', DI s j m e = Ok (v, m') -> e = true -> is_obj s = true ->
      incl (keys m') (keys m) /\
      forall k, ~ In k (declared_keys s) -> kv_get m' k = kv_get m k.

  Lemma inner_frame addl ms :
    Forall (fun ks => frame (snd ks)) ms ->
    forall m fs m' ad, DIN addl ms m = Ok (fs, m', ad) ->
      incl (keys m') (keys m) /\ forall k, ~ In k (dk ms) -> kv_get m' k = kv_get m k.
  Proof.
    intros Hall. induction ms as [|[k sf] ms IH]; intros m fs m' ad Hd.
    - simpl in Hd. destruct addl as [sa|].
      + destruct (dec_addl _ m); simpl in Hd; try discriminate. injection Hd as _ <- _. split; [apply incl_refl|auto].
      + injection Hd as _ <- _. split; [apply incl_refl|auto].
    - inversion Hall as [|? ? Hsf Hms]; subst. specialize (IH Hms). destruct k as [k req|].
      + cbn [dec_inner] in Hd. rewrite dk_field. destruct (kv_get m k) as [raw|] eqn:Eg.
        * destruct (under_key k (DI sf raw [] false)) as [r| |]; cbn [bind] in Hd; try discriminate.
          destruct (DIN addl ms (kv_del m k)) as [[[fs0 m0] ad0]| |] eqn:Er; cbn [bind fst snd] in Hd; try discriminate.
          injection Hd as _ <- _. destruct (IH _ _ _ _ Er) as [Hi Hk]. split.
          -- eapply incl_tran; [exact Hi | apply kv_del_incl].
          -- intros k0 Hk0. rewrite Hk by (simpl in Hk0; tauto). apply kv_get_del_other. simpl in Hk0. tauto.
        * destruct req; [discriminate|].
          destruct (DIN addl ms m) as [[[fs0 m0] ad0]| |] eqn:Er; cbn [bind fst snd] in Hd; try discriminate.
          injection Hd as _ <- _. destruct (IH _ _ _ _ Er) as [Hi Hk]. split; [exact Hi|].
          intros k0 Hk0. apply Hk. simpl in Hk0. tauto.
      + cbn [dec_inner] in Hd. rewrite dk_embed.
        destruct (DI sf JNull m true) as [[ev em]| |] eqn:Ee; cbn [bind fst snd] in Hd; try discriminate.
        destruct (DIN addl ms em) as [[[fs0 m0] ad0]| |] eqn:Er; cbn [bind fst snd] in Hd; try discriminate.
        injection Hd as _ <- _. destruct (IH _ _ _ _ Er) as [Hi Hk].
        (* an embedded member that is not a struct cannot decode in embedded position... it can: treat generally *)
        destruct (is_obj sf) eqn:Eo.
        * simpl in Hsf. destruct (Hsf _ _ _ _ _ Ee eq_refl Eo) as [Hie Hke]. split.
          -- eapply incl_tran; eauto.
          -- intros k0 Hk0. rewrite in_app_iff in Hk0. rewrite Hk by tauto. apply Hke. tauto.
        * (* non-struct schema in embedded position: the map is returned unchanged *)
          assert (em = m).
          { destruct sf as [p | s' | it | ms0 addl0]; simpl in Eo; try discriminate; simpl in Ee.
            - destruct (dec_prim parse_num parse_time p JNull); simpl in Ee; try discriminate. now injection Ee.
            - now injection Ee.
            - now injection Ee. }
          subst em. split; [exact Hi|]. intros k0 Hk0. rewrite in_app_iff in Hk0. apply Hk. tauto.
  Qed.

  Lemma frame_all s : frame s.
  Proof.
    induction s as [p | s' IH | it IH | ms addl IHms IHad] using jsch_ind2; intros j m e v m' Hd He Ho; try discriminate.
    subst e. rewrite dec_items_obj in Hd. cbn [bind] in Hd.
    destruct (DIN addl ms m) as [[[fs0 m0] ad0]| |] eqn:Er; cbn [bind fst snd] in Hd; try discriminate.
    injection Hd as _ <-. rewrite declared_keys_obj. eapply inner_frame; eauto.
  Qed.

  (* a required property that is absent makes the object decoder fail *)
  Lemma inner_required addl ms : forall m fs m' ad,
    DIN addl ms m = Ok (fs, m', ad) ->
    forall k sf, In (MField k true, sf) ms -> In k (keys m).
  Proof.
    induction ms as [|[k0 sf0] ms IH]; intros m fs m' ad Hd k sf Hin; [destruct Hin|].
    destruct k0 as [k0 req0|]; cbn [dec_inner] in Hd.
    - destruct (kv_get m k0) as [raw|] eqn:Eg.
      + destruct (under_key k0 (DI sf0 raw [] false)) as [r| |]; cbn [bind] in Hd; try discriminate.
        destruct (DIN addl ms (kv_del m k0)) as [[[fs0 m0] ad0]| |] eqn:Er; cbn [bind fst snd] in Hd; try discriminate.
        destruct Hin as [E | Hin].
        * injection E as -> ? ?. eapply kv_get_some_in; eauto.
        * apply (kv_del_incl m k0). eapply IH; eauto.
      + destruct req0; [discriminate|].
        destruct (DIN addl ms m) as [[[fs0 m0] ad0]| |] eqn:Er; cbn [bind fst snd] in Hd; try discriminate.
        destruct Hin as [E | Hin]; [discriminate|]. eapply IH; eauto.
    - destruct (DI sf0 JNull m true) as [[ev em]| |] eqn:Ee; cbn [bind fst snd] in Hd; try discriminate.
      destruct (DIN addl ms em) as [[[fs0 m0] ad0]| |] eqn:Er; cbn [bind fst snd] in Hd; try discriminate.
      destruct Hin as [E | Hin]; [discriminate|].
      assert (Hk : In k (keys em)) by (eapply IH; eauto).
      destruct (is_obj sf0) eqn:Eo.
      + destruct (frame_all sf0 _ _ _ _ _ Ee eq_refl Eo) as [Hi _]. now apply Hi.
      + assert (em = m).
        { destruct sf0 as [p | s' | it | ms0 addl0]; simpl in Eo; try discriminate; simpl in Ee.
          - destruct (dec_prim parse_num parse_time p JNull); simpl in Ee; try discriminate. now injection Ee.
          - now injection Ee.
          - now injection Ee. }
        now subst em.
  Qed.

  Theorem missing_required_rejected ms addl members k sf v :
    In (MField k true, sf) ms -> ~ In k (keys members) -> DEC (JObjS ms addl) (JObj members) <> Ok v.
  Proof.
    intros Hin Hk Hd. unfold dec in Hd. rewrite dec_items_obj in Hd. cbn [bind] in Hd.
    destruct (DIN addl ms (kv_of_members members)) as [[[fs0 m0] ad0]| |] eqn:Er; cbn [bind fst snd] in Hd; try discriminate.
    apply Hk. pose proof (inner_required addl ms _ _ _ _ Er k sf Hin) as Hk'.
    (* keys of the map are keys of the document *)
    clear -Hk'. unfold kv_of_members in Hk'.
    assert (H : forall l acc, In k (keys (fold_left (fun m kv => kv_set m (fst kv) (snd kv)) l acc)) ->
                              In k (keys acc) \/ In k (keys l)).
    { induction l as [|[k1 v1] l IH]; intros acc Hin; simpl in Hin; [auto|].
      apply IH in Hin as [Hin | Hin]; [|simpl; auto].
      assert (Hs : forall m, In k (keys (kv_set m k1 v1)) -> In k (keys m) \/ k = k1).
      { induction m as [|[k2 v2] m IHm]; simpl; [intros [<-|[]]; auto|].
        destruct (str_eqb k2 k1); simpl; intros [<-|H]; auto. destruct (IHm H); auto. }
      destruct (Hs acc Hin) as [H | ->]; simpl; auto. }
    destruct (H _ _ Hk') as [[]|]; assumption.
  Qed.

  (* a declared property whose value does not decode under its schema makes the
     object decoder fail (property names pairwise distinct) *)
  Lemma inner_wrong_type addl ms : forall m fs m' ad,
    DIN addl ms m = Ok (fs, m', ad) -> NoDup (dk ms) ->
    forall k req sf raw, In (MField k req, sf) ms -> kv_get m k = Some raw ->
      exists x mx, DI sf raw [] false = Ok (x, mx).
  Proof.
    induction ms as [|[k0 sf0] ms IH]; intros m fs m' ad Hd Hnd k req sf raw Hin Hg; [destruct Hin|].
    destruct k0 as [k0 req0|]; cbn [dec_inner] in Hd.
    - rewrite dk_field in Hnd. inversion Hnd as [|? ? Hk0 Hnd']; subst.
      destruct Hin as [E | Hin].
      + injection E as -> -> ->. rewrite Hg in Hd.
        destruct (DI sf raw [] false) as [[x mx]| |]; cbn [under_key bind] in Hd; try discriminate. eauto.
      + assert (Hne : k0 <> k).
        { intros ->. apply Hk0. clear -Hin. induction ms as [|[[k1 r1|] s1] ms IHm]; simpl in *; [destruct Hin| |].
          - destruct Hin as [E|Hin]; [injection E as -> ? ?; auto | right; auto].
          - destruct Hin as [E|Hin]; [discriminate|]. rewrite dk_embed. apply in_app_iff. right. auto. }
        destruct (kv_get m k0) as [raw0|] eqn:Eg.
        * destruct (under_key k0 (DI sf0 raw0 [] false)) as [r| |]; cbn [bind] in Hd; try discriminate.
          destruct (DIN addl ms (kv_del m k0)) as [[[fs0 m0] ad0]| |] eqn:Er; cbn [bind fst snd] in Hd; try discriminate.
          eapply IH; eauto. now rewrite kv_get_del_other.
        * destruct req0; [discriminate|].
          destruct (DIN addl ms m) as [[[fs0 m0] ad0]| |] eqn:Er; cbn [bind fst snd] in Hd; try discriminate.
          eapply IH; eauto.
    - rewrite dk_embed in Hnd. destruct Hin as [E | Hin]; [discriminate|].
      destruct (DI sf0 JNull m true) as [[ev em]| |] eqn:Ee; cbn [bind fst snd] in Hd; try discriminate.
      destruct (DIN addl ms em) as [[[fs0 m0] ad0]| |] eqn:Er; cbn [bind fst snd] in Hd; try discriminate.
      assert (Hkd : In k (dk ms)).
      { clear -Hin. induction ms as [|[[k1 r1|] s1] ms IHm]; simpl in *; [destruct Hin| |].
        - destruct Hin as [E|Hin]; [injection E as -> ? ?; auto | right; auto].
        - destruct Hin as [E|Hin]; [discriminate|]. rewrite dk_embed. apply in_app_iff. right. auto. }
      eapply IH; eauto; [eapply NoDup_app_r; eauto|].
      destruct (is_obj sf0) eqn:Eo.
      + destruct (frame_all sf0 _ _ _ _ _ Ee eq_refl Eo) as [_ Hk]. rewrite Hk; [exact Hg|].
        intros Hc. eapply (NoDup_app_disj _ _ k Hnd); eauto.
      + assert (em = m).
        { destruct sf0 as [p | s' | it | ms0 addl0]; simpl in Eo; try discriminate; simpl in Ee.
          - destruct (dec_prim parse_num parse_time p JNull); simpl in Ee; try discriminate. now injection Ee.
          - now injection Ee.
          - now injection Ee. }
        now subst em.
  Qed.

  (* a non-null value of the wrong JSON type does not decode into a primitive *)
  Lemma wrong_prim_rejected p x :
    x <> JNull -> valid_prim parse_num parse_time p x = false -> dec_prim parse_num parse_time p x = ErrOther.
  Proof.
    intros Hn Hv. destruct p, x; simpl in *; try congruence.
    - destruct (parse_int bits text); [discriminate|reflexivity].
    - destruct (parse_num bits text); [discriminate|reflexivity].
    - destruct (parse_time s); [discriminate|reflexivity].
  Qed.

  Theorem wrong_type_rejected ms addl members k req p x v :
    NoDup (dk ms) -> In (MField k req, JPrimS p) ms ->
    kv_get (kv_of_members members) k = Some x ->
    x <> JNull -> valid_prim parse_num parse_time p x = false ->
    DEC (JObjS ms addl) (JObj members) <> Ok v.
  Proof.
    intros Hnd Hin Hg Hn Hv Hd. unfold dec in Hd. rewrite dec_items_obj in Hd. cbn [bind] in Hd.
    destruct (DIN addl ms (kv_of_members members)) as [[[fs0 m0] ad0]| |] eqn:Er; cbn [bind fst snd] in Hd; try discriminate.
    destruct (inner_wrong_type addl ms _ _ _ _ Er Hnd k req (JPrimS p) x Hin Hg) as (y & my & Hy).
    simpl in Hy. rewrite (wrong_prim_rejected p x Hn Hv) in Hy. discriminate.
  Qed.

End Strict.
