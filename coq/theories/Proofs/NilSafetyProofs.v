From Coq Require Import String.
From Coq Require Import List Bool Arith Ascii Lia.
Import ListNotations.
From Goag Require Import Base.Str Model.NilSafety.

Lemma andthen_np a b : is_panic a = false -> (forall u, is_panic (b u) = false) -> is_panic (andthen a b) = false.
Proof. destruct a; simpl; auto. Qed.

Lemma all_clean_np {A} (f : A -> outcome) l :
  (forall x, In x l -> is_panic (f x) = false) -> is_panic (all_clean f l) = false.
Proof.
  induction l as [|x r IH]; intros H; simpl; [reflexivity|].
  apply andthen_np; [apply H; simpl; auto | intros _; apply IH; intros y Hy; apply H; simpl; auto].
Qed.

(* nested induction principle for schema references *)
Section SrefInd.
  Variable P : sref -> Prop.
  Hypothesis Hnil : P SNil.
  Hypothesis Hempty : P SEmpty.
  Hypothesis Href : forall n, P (SRefTo n).
  Hypothesis Hval : forall ty items props addl allof oneof,
      P items -> Forall (fun kp => P (snd kp)) props -> P addl -> Forall P allof -> Forall P oneof ->
      P (SVal ty items props addl allof oneof).

  Fixpoint sref_ind2 (s : sref) : P s :=
    match s with
    | SNil => Hnil
    | SEmpty => Hempty
    | SRefTo n => Href n
    | SVal ty items props addl allof oneof =>
      Hval ty items props addl allof oneof (sref_ind2 items)
           ((fix go (l : list (str * sref)) : Forall (fun kp => P (snd kp)) l :=
               match l with [] => Forall_nil _ | (k, p) :: r => Forall_cons (k, p) (sref_ind2 p) (go r) end) props)
           (sref_ind2 addl)
           ((fix go (l : list sref) : Forall P l :=
               match l with [] => Forall_nil _ | p :: r => Forall_cons p (sref_ind2 p) (go r) end) allof)
           ((fix go (l : list sref) : Forall P l :=
               match l with [] => Forall_nil _ | p :: r => Forall_cons p (sref_ind2 p) (go r) end) oneof)
    end.
End SrefInd.

(* schemas never panic: every nil is guarded *)
Lemma schema_ref_np known s : is_panic (schema_ref known s) = false.
Proof.
  induction s as [| | n | ty items props addl allof oneof IHi IHp IHa IHall IHone] using sref_ind2; simpl; try reflexivity.
  - destruct (existsb _ known); reflexivity.
  - apply andthen_np; [destruct items; try reflexivity; exact IHi|]. intros _.
    apply andthen_np.
    { induction props as [|[k p] r IHr]; [reflexivity|]. inversion IHp; subst.
      apply andthen_np; [assumption | intros _; now apply IHr]. }
    intros _. apply andthen_np.
    { induction allof as [|p r IHr]; [reflexivity|]. inversion IHall; subst.
      apply andthen_np; [assumption | intros _; now apply IHr]. }
    intros _. apply andthen_np.
    { induction oneof as [|p r IHr]; [reflexivity|]. inversion IHone; subst.
      apply andthen_np; [assumption | intros _; now apply IHr]. }
    intros _. apply andthen_np; [destruct addl; try reflexivity; exact IHa|]. intros _.
    destruct (str_eqb ty _); try reflexivity; destruct items; reflexivity.
Qed.

Lemma content_np known c : is_panic (content_map known c) = false.
Proof. apply all_clean_np. intros [k [|s]] _; simpl; [reflexivity | apply schema_ref_np]. Qed.

Lemma header_np known h : header_inv h = true -> is_panic (header_ref known h) = false.
Proof. destruct h; simpl; [discriminate|reflexivity|intros _; apply schema_ref_np]. Qed.

Lemma param_np known p : param_inv p = true -> is_panic (param_ref known p) = false.
Proof.
  destruct p; cbn [param_inv param_ref is_panic]; [discriminate|reflexivity|intros _].
  match goal with |- context [if ?b then _ else _] => destruct b end; [apply schema_ref_np | reflexivity].
Qed.

Lemma comp_param_np known p : param_inv p = true -> is_panic (comp_param_ref known p) = false.
Proof.
  intros H. destruct p; cbn [comp_param_ref]; try (now apply param_np).
  match goal with |- context [if ?b then _ else _] => destruct b end; [now apply param_np | reflexivity].
Qed.

Lemma body_np known b : is_panic (body_ref known b) = false.
Proof. destruct b; simpl; try reflexivity. apply content_np. Qed.

Lemma response_np known r : response_inv r = true -> is_panic (response_ref known r) = false.
Proof.
  destruct r as [| n | c hs]; simpl; [discriminate|reflexivity|]. intros H.
  apply andthen_np; [apply content_np|]. intros _. apply all_clean_np. intros kh Hin.
  apply header_np. rewrite forallb_forall in H. now apply H.
Qed.

Lemma operation_np known ps o :
  forallb param_inv ps = true -> operation_inv o = true -> is_panic (operation_ok known ps o) = false.
Proof.
  intros Hps Ho. unfold operation_inv in Ho. apply andb_true_iff in Ho as [Hp Hr].
  unfold operation_ok. apply andthen_np.
  - apply all_clean_np. intros p Hin. apply param_np. rewrite forallb_forall in Hps, Hp.
    apply in_app_iff in Hin as [Hin|Hin]; auto.
  - intros _. apply andthen_np; [apply body_np|]. intros _. apply all_clean_np. intros kr Hin.
    apply response_np. rewrite forallb_forall in Hr. now apply Hr.
Qed.

Lemma server_np s : is_panic (server_ok s) = false.
Proof.
  destruct s as [|vars]; [reflexivity|]. apply all_clean_np. intros [k [|d en]] _; simpl; [reflexivity|].
  destruct (existsb _ en); [reflexivity|]. destruct (is_other d); reflexivity.
Qed.

(* C15: for every document satisfying the loader's post-condition the front of
   the generator ends in success or a reported error, never in a panic *)
Theorem gen_front_no_panic d : loader_inv d = true -> forall site, gen_front d <> Panic site.
Proof.
  intros H site E. assert (Hnp : is_panic (gen_front d) = false); [|rewrite E in Hnp; discriminate].
  unfold loader_inv in H. repeat (apply andb_true_iff in H as [H ?]).
  rewrite forallb_forall in *.
  unfold gen_front. repeat (apply andthen_np; [|intros _]).
  - apply all_clean_np. intros s _. apply server_np.
  - apply all_clean_np. intros ks _. apply schema_ref_np.
  - apply all_clean_np. intros kh Hin. apply header_np. auto.
  - apply all_clean_np. intros kb _. apply body_np.
  - apply all_clean_np. intros kr Hin. apply response_np. auto.
  - destruct (aliases_acyclic _); reflexivity.
  - apply all_clean_np. intros kp Hin. apply comp_param_np. auto.
  - apply all_clean_np. intros [k [|ps ops]] Hin; simpl; [reflexivity|].
    match goal with Hp : forall x, In x (d_paths d) -> _ |- _ => specialize (Hp _ Hin); simpl in Hp;
      apply andb_true_iff in Hp as [Hps Hops] end.
    apply all_clean_np. intros o Ho. apply operation_np; [assumption|]. rewrite forallb_forall in Hops. now apply Hops.
Qed.

(* what the guards look like on the historical crash documents *)
Local Open Scope string_scope.
Definition ex_doc (p : pathitem) (rs : list (str * response)) : doc :=
  {| d_servers := []; d_schemas := []; d_headers := []; d_bodies := []; d_responses := rs; d_params := []; d_paths := [(S_ "/a", p)] |}.

Example media_without_schema :
  gen_front (ex_doc (PIVal [] [ {| op_params := []; op_body := BAbsent;
     op_responses := [(S_ "200", RVal [(S_ "application/json", MVal SNil)] [])] |} ]) []) = MustErr.
Proof. reflexivity. Qed.

Example null_path_item : gen_front (ex_doc PINil []) = MustErr.
Proof. reflexivity. Qed.

Example alias_cycle :
  gen_front (ex_doc (PIVal [] []) [(S_ "A", RRefTo (S_ "B")); (S_ "B", RRefTo (S_ "A"))]) = MustErr.
Proof. reflexivity. Qed.

Example loader_inv_needed :
  gen_front (ex_doc (PIVal [PNilValue] [ {| op_params := []; op_body := BAbsent; op_responses := [] |} ]) [])
  = Panic "NewOperationParameters: param.Value.In with Value == nil".
Proof. reflexivity. Qed.

Lemma loader_inv_is_needed : exists d site, loader_inv d = false /\ gen_front d = Panic site.
Proof.
  eexists (ex_doc (PIVal [PNilValue] [ {| op_params := []; op_body := BAbsent; op_responses := [] |} ]) []), _.
  split; reflexivity.
Qed.
