(* C07: the JSON produced for any value of a schema-derived type validates
   against that schema. *)
From Coq Require Import String.
From Coq Require Import List Bool Arith Ascii NArith ZArith Lia.
Import ListNotations.
From Goag Require Import Base.Str Model.Router Model.Serve Model.Params Model.Json Spec.JsonSpec
     Proofs.JsonEncProofs Proofs.JsonRtProofs.

Section Conf.
  Variable fmt_float : Z -> str -> str.
  Variable fmt_time : str -> str.
  Variable parse_num : Z -> str -> option str.
  Variable parse_time : str -> option str.
  Hypothesis float_rt : forall b r, parse_num b (fmt_float b r) = Some r.
  Hypothesis time_rt : forall r, parse_time (fmt_time r) = Some r.

  Notation EI := (enc_items fmt_float fmt_time).
  Notation ENC := (enc fmt_float fmt_time).
  Notation ENCIN := (enc_inner fmt_float fmt_time).
  Notation VLD := (vld parse_num parse_time).
  Notation RTOK := (rt_ok).

  (* the member loop of [vld], named *)
  Section Go.
    Variable m : list (str * json).
    Fixpoint go_vld (ms : list (mkind * jsch)) : bool :=
      match ms with
      | [] => true
      | (MField k req, sf) :: r =>
        (match kv_get m k with
         | Some x => VLD sf x [] false
         | None => negb req
         end) && go_vld r
      | (MEmbed, se) :: r => VLD se JNull m true && go_vld r
      end.
  End Go.

  Lemma vld_obj ms addl j obj e :
    VLD (JObjS ms addl) j obj e =
    match (if e then Some obj else match j with JObj m => if keys_nodup m then Some m else None | _ => None end) with
    | None => false
    | Some m =>
      go_vld m ms &&
      (if e then true
       else match addl with
            | Some sa => forallb (fun kv => existsb (str_eqb (fst kv)) (declared_keys (JObjS ms addl)) || VLD sa (snd kv) [] false) m
            | None => true
            end)
    end.
  Proof. reflexivity. Qed.

  Definition in_addl (addl : option jsch) (ad : list (str * gval)) (kv : str * json) : Prop :=
    exists sa x, addl = Some sa /\ In (fst kv, x) ad /\ value_of (is_obj sa) (EI sa x false) = Ok (snd kv).

  (* what an embedded member writes: only its declared keys, each once *)
  Lemma embedded_keys ems f c its c' :
    rt_ok (JObjS ems None) f -> EI (JObjS ems None) f c = Ok (its, c') ->
    incl (keys (mem_items its)) (declared_keys (JObjS ems None)) /\ NoDup (keys (mem_items its)).
  Proof.
    intros Hf He.
    destruct (rt_all fmt_float fmt_time parse_num parse_time float_rt time_rt (JObjS ems None) f Hf) as [_ HB].
    destruct (HB ems eq_refl c its c' [] He) as (_ & Hi & Hn); [intros k _ []|]. auto.
  Qed.

  Lemma enc_addl_mem sa ad : forall c its c',
    enc_addl (fun x => value_of (is_obj sa) (EI sa x false)) ad c = Ok (its, c') ->
    keys (mem_items its) = keys ad /\
    forall kv, In kv (mem_items its) -> exists x, In (fst kv, x) ad /\ value_of (is_obj sa) (EI sa x false) = Ok (snd kv).
  Proof.
    induction ad as [|[k x] r IH]; intros c its c' He; simpl in He.
    - injection He as <- <-. split; [reflexivity | intros kv []].
    - destruct (value_of (is_obj sa) (EI sa x false)) as [j| |] eqn:Ej; simpl in He; try discriminate.
      destruct (enc_addl _ r true) as [[its' c'']| |] eqn:Er; simpl in He; try discriminate.
      injection He as <- <-. destruct (IH true its' c'' Er) as [Hk Hm].
      rewrite mem_items_app, mem_write_property. simpl. split.
      + unfold keys in *. simpl. now rewrite Hk.
      + intros kv [<- | Hin]; [exists x; simpl; auto|]. destruct (Hm kv Hin) as (y & Hy & Hv). exists y. simpl. auto.
  Qed.

  Lemma enc_inner_mem addl ad ms : forall fs c its c',
    rt_go ms fs -> NoDup (dk ms ++ keys ad) ->
    ENCIN addl ad ms fs c = Ok (its, c') ->
    (forall kv, In kv (mem_items its) -> In (fst kv) (dk ms) \/ in_addl addl ad kv) /\
    incl (keys (mem_items its)) (dk ms ++ keys ad) /\
    NoDup (keys (mem_items its)).
  Proof.
    induction ms as [|[k sf] ms IH]; intros fs c its c' Hgo Hnd He.
    - destruct fs; [|contradiction]. simpl in He. destruct addl as [sa|].
      + destruct (enc_addl_mem sa ad c its c' He) as [Hk Hm]. split; [|split].
        * intros kv Hin. right. destruct (Hm kv Hin) as (x & Hx & Hv). exists sa, x. auto.
        * rewrite Hk. apply incl_refl.
        * rewrite Hk. exact Hnd.
      + injection He as <- <-. split; [intros kv []|]. split; [intros x []|constructor].
    - destruct fs as [|f fs]; [destruct k; contradiction|]. destruct k as [k req|].
      + rewrite dk_field in *. simpl in Hnd. inversion Hnd as [|? ? Hk Hnd']; subst. destruct Hgo as [Hf Hgo].
        assert (Hpresent : forall x its0,
                  bind (value_of (is_obj sf) (EI sf x false)) (fun j =>
                    bind (ENCIN addl ad ms fs true) (fun rr => Ok (write_property c k j ++ fst rr, snd rr))) = Ok (its0, c') ->
                  (forall kv, In kv (mem_items its0) -> In (fst kv) (k :: dk ms) \/ in_addl addl ad kv) /\
                  incl (keys (mem_items its0)) (k :: dk ms ++ keys ad) /\ NoDup (keys (mem_items its0))).
        { intros x its0 He0.
          destruct (value_of (is_obj sf) (EI sf x false)) as [j| |]; simpl in He0; try discriminate.
          destruct (ENCIN addl ad ms fs true) as [[its' c'']| |] eqn:Er; simpl in He0; try discriminate.
          injection He0 as <- <-. destruct (IH fs true its' c'' Hgo Hnd' Er) as (Hm & Hi & Hn).
          rewrite mem_items_app, mem_write_property. simpl. split; [|split].
          - intros kv [<- | Hin]; [simpl; auto|]. destruct (Hm kv Hin); [left; simpl; auto | right; assumption].
          - intros y [<- | Hy]; [simpl; auto | right; now apply Hi].
          - constructor; [|assumption]. intros Hin. apply Hk. now apply Hi. }
        destruct req; [simpl in He; exact (Hpresent f its He)|].
        destruct f as [| | | | | | | [x|] | |]; try contradiction; simpl in He; [exact (Hpresent x its He)|].
        destruct (IH fs c its c' Hgo Hnd' He) as (Hm & Hi & Hn). split; [|split]; auto.
        * intros kv Hin. destruct (Hm kv Hin); [left; simpl; auto | right; assumption].
        * intros y Hy. right. now apply Hi.
      + destruct Hgo as ([ems ->] & Hf & Hgo). rewrite dk_embed in *.
        cbn [enc_inner is_obj] in He.
        destruct (EI (JObjS ems None) f c) as [[eits ec]| |] eqn:Ee; cbn [bind fst snd] in He; try discriminate.
        destruct (ENCIN addl ad ms fs ec) as [[its' c'']| |] eqn:Er; cbn [bind fst snd] in He; try discriminate.
        injection He as <- <-. rewrite <- app_assoc in Hnd.
        assert (Hnd' : NoDup (dk ms ++ keys ad)) by (eapply NoDup_app_r; eauto).
        destruct (IH fs ec its' c'' Hgo Hnd' Er) as (Hm & Hi & Hn).
        destruct (embedded_keys ems f c eits ec Hf Ee) as [Hie Hne].
        rewrite mem_items_app. split; [|split].
        * intros kv Hin. apply in_app_iff in Hin as [Hin | Hin].
          -- left. apply in_app_iff. left. apply Hie. unfold keys. now apply in_map.
          -- destruct (Hm kv Hin); [left; apply in_app_iff; auto | right; assumption].
        * unfold keys. rewrite map_app. intros y Hy. apply in_app_iff in Hy as [Hy | Hy].
          -- apply in_app_iff. left. apply in_app_iff. left. now apply Hie.
          -- rewrite <- app_assoc. apply in_app_iff. right. now apply Hi.
        * unfold keys. rewrite map_app. apply NoDup_app_intro; auto.
          intros y Hy Hy'. apply (NoDup_app_disj _ _ y Hnd); [now apply Hie | now apply Hi].
  Qed.

  Lemma kv_get_in_nodup (M : list (str * json)) k v :
    NoDup (keys M) -> In (k, v) M -> kv_get M k = Some v.
  Proof.
    induction M as [|[k' v'] r IH]; simpl; intros Hnd Hin; [destruct Hin|].
    inversion Hnd as [|? ? Hk Hnd']; subst.
    destruct Hin as [E | Hin].
    - injection E as -> ->. now rewrite str_eqb_refl.
    - destruct (str_eqb k' k) eqn:Ek; [|auto].
      apply str_eqb_eq in Ek. subst. exfalso. apply Hk. unfold keys. apply in_map_iff. exists (k, v). auto.
  Qed.

  Lemma keys_nodup_true (M : list (str * json)) : NoDup (keys M) -> keys_nodup M = true.
  Proof.
    induction M as [|[k v] r IH]; simpl; intros H; [reflexivity|]. inversion H as [|? ? Hk Hr]; subst.
    rewrite IH by assumption. rewrite andb_true_r. apply negb_true_iff.
    destruct (existsb _ r) eqn:E; [|reflexivity]. exfalso. apply existsb_exists in E as [[k' v'] [Hin Ek]].
    simpl in Ek. apply str_eqb_eq in Ek. subst. apply Hk. unfold keys. apply in_map_iff. exists (k, v'). auto.
  Qed.

  Definition valid_prim_of (p : jprim) (v : gval) (j : json) : Prop :=
    enc_prim fmt_float fmt_time p v = Ok j -> valid_prim parse_num parse_time p j = true.

  (* the statement for one schema: in value position the encoding validates;
     an embedded struct validates against any object [M] that holds what it
     wrote and none of its unset keys *)
  Definition CONFP (s : jsch) : Prop :=
    forall v, rt_ok s v ->
      (forall j, value_of (is_obj s) (EI s v false) = Ok j -> VLD s j [] false = true) /\
      (forall ems, s = JObjS ems None ->
         forall c its c' M, EI s v c = Ok (its, c') ->
           (forall kv, In kv (mem_items its) -> kv_get M (fst kv) = Some (snd kv)) ->
           (forall k, In k (declared_keys s) -> ~ In k (keys (mem_items its)) -> kv_get M k = None) ->
           VLD s JNull M true = true).

  Lemma inner_conf addl ad ms :
    Forall (fun ks => CONFP (snd ks)) ms ->
    forall fs c its c' M,
      rt_go ms fs -> NoDup (dk ms ++ keys ad) ->
      ENCIN addl ad ms fs c = Ok (its, c') ->
      (forall kv, In kv (mem_items its) -> kv_get M (fst kv) = Some (snd kv)) ->
      (forall k, In k (dk ms) -> ~ In k (keys (mem_items its)) -> kv_get M k = None) ->
      go_vld M ms = true.
  Proof.
    intros Hall. induction ms as [|[k sf] ms IH]; intros fs c its c' M Hgo Hnd He H1 H2; [reflexivity|].
    destruct fs as [|f fs]; [destruct k; contradiction|].
    inversion Hall as [|? ? Hsf Hms]; subst. simpl in Hsf. specialize (IH Hms). destruct k as [k req|].
    - rewrite dk_field in *. simpl in Hnd. inversion Hnd as [|? ? Hk Hnd']; subst. destruct Hgo as [Hf Hgo].
      assert (Hpresent : forall x, rt_ok sf x -> forall its0,
                bind (value_of (is_obj sf) (EI sf x false)) (fun j =>
                  bind (ENCIN addl ad ms fs true) (fun rr => Ok (write_property c k j ++ fst rr, snd rr))) = Ok (its0, c') ->
                (forall kv, In kv (mem_items its0) -> kv_get M (fst kv) = Some (snd kv)) ->
                (forall k0, In k0 (k :: dk ms) -> ~ In k0 (keys (mem_items its0)) -> kv_get M k0 = None) ->
                go_vld M ((MField k req, sf) :: ms) = true).
      { intros x Hx its0 He0 H10 H20.
        destruct (value_of (is_obj sf) (EI sf x false)) as [j| |] eqn:Ej; simpl in He0; try discriminate.
        destruct (ENCIN addl ad ms fs true) as [[its' c'']| |] eqn:Er; simpl in He0; try discriminate.
        injection He0 as <- <-. rewrite mem_items_app, mem_write_property in *. simpl in H10, H20.
        cbn [go_vld]. pose proof (H10 (k, j) ltac:(simpl; auto)) as Hkj. cbn [fst snd] in Hkj. rewrite Hkj.
        destruct (Hsf x Hx) as [HA _]. rewrite (HA j Ej). simpl.
        destruct (enc_inner_mem addl ad ms fs true its' c'' Hgo Hnd' Er) as (_ & Hi & _).
        apply (IH fs true its' c'' M Hgo Hnd' Er).
        - intros kv Hin. apply H10. auto.
        - intros k0 Hk0 Hn0. apply H20; [simpl; auto|]. intros [<- | Hin]; [apply Hk; apply in_app_iff; auto | contradiction]. }
      destruct req; [simpl in He; exact (Hpresent f Hf its He H1 H2)|].
      destruct f as [| | | | | | | [x|] | |]; try contradiction; simpl in He; [exact (Hpresent x Hf its He H1 H2)|].
      destruct (enc_inner_mem addl ad ms fs c its c' Hgo Hnd' He) as (_ & Hi & _).
      cbn [go_vld]. rewrite H2; [simpl | simpl; auto | intros Hin; apply Hk; now apply Hi].
      apply (IH fs c its c' M Hgo Hnd' He H1). intros k0 Hk0 Hn0. apply H2; [simpl; auto | exact Hn0].
    - destruct Hgo as ([ems ->] & Hf & Hgo). rewrite dk_embed in *.
      cbn [enc_inner is_obj] in He.
      destruct (EI (JObjS ems None) f c) as [[eits ec]| |] eqn:Ee; cbn [bind fst snd] in He; try discriminate.
      destruct (ENCIN addl ad ms fs ec) as [[its' c'']| |] eqn:Er; cbn [bind fst snd] in He; try discriminate.
      injection He as <- <-. rewrite <- app_assoc in Hnd.
      assert (Hnd' : NoDup (dk ms ++ keys ad)) by (eapply NoDup_app_r; eauto).
      destruct (enc_inner_mem addl ad ms fs ec its' c'' Hgo Hnd' Er) as (_ & Hi & _).
      destruct (embedded_keys ems f c eits ec Hf Ee) as [Hie _].
      rewrite mem_items_app in *. cbn [go_vld].
      destruct (Hsf f Hf) as [_ HB].
      rewrite (HB ems eq_refl c eits ec M Ee).
      + simpl. apply (IH fs ec its' c'' M Hgo Hnd' Er).
        * intros kv Hin. apply H1. apply in_app_iff. auto.
        * intros k0 Hk0 Hn0. apply H2; [apply in_app_iff; auto|].
          unfold keys. rewrite map_app, in_app_iff. intros [Hin | Hin]; [|contradiction].
          apply (NoDup_app_disj _ _ k0 Hnd); [now apply Hie | apply in_app_iff; auto].
      + intros kv Hin. apply H1. apply in_app_iff. auto.
      + intros k0 Hk0 Hn0. apply H2; [apply in_app_iff; auto|].
        unfold keys. rewrite map_app, in_app_iff. intros [Hin | Hin]; [contradiction|].
        apply (NoDup_app_disj _ _ k0 Hnd Hk0). now apply Hi.
  Qed.

  Theorem conf_all s : CONFP s.
  Proof.
    induction s as [p | s' IH | it IH | ms addl IHms IHad] using jsch_ind2; intros v Hv; split.
    - intros j Hj. destruct p, v; simpl in *; try contradiction; try discriminate;
        injection Hj as <-; simpl; rewrite ?Hv, ?float_rt, ?time_rt; reflexivity.
    - intros ems E. discriminate.
    - destruct Hv as [Hnn Hv]. intros j Hj.
      destruct v as [| | | | | | [x|] | | |]; try contradiction.
      + cbn [is_obj enc_items] in Hj. rewrite value_of_one in Hj.
        destruct (IH x Hv) as [HA _]. pose proof (non_null_enc fmt_float fmt_time s' x j Hnn Hj) as Hne.
        cbn [vld]. destruct j; try congruence; now apply HA.
      + simpl in Hj. injection Hj as <-. reflexivity.
    - intros ems E. discriminate.
    - intros j Hj. destruct v as [| | | | | | | | l |]; try contradiction.
      cbn [is_obj enc_items] in Hj. rewrite value_of_one in Hj.
      destruct (enc_list _ l) as [js| |] eqn:El; cbn [bind] in Hj; try discriminate.
      injection Hj as <-. cbn [vld]. simpl in Hv.
      revert js El. induction l as [|x r IHl]; intros js El; simpl in El.
      + injection El as <-. reflexivity.
      + inversion Hv as [|? ? Hx Hr]; subst.
        destruct (value_of (is_obj it) (EI it x false)) as [jx| |] eqn:Ex; simpl in El; try discriminate.
        destruct (enc_list _ r) as [js'| |] eqn:Er; simpl in El; try discriminate.
        injection El as <-. simpl. destruct (IH x Hx) as [HA _]. rewrite (HA jx Ex). simpl. now apply IHl.
    - intros ems E. discriminate.
    - (* object, value position *)
      intros j Hj. destruct v as [| | | | | | | | | fs ad]; [simpl in Hv; tauto..|].
      pose proof (rt_ok_typed _ _ Hv) as Ht.
      apply rt_ok_obj in Hv as (Hgo & Had & Hnd).
      destruct (enc_items_ok fmt_float fmt_time (JObjS ms addl) (GStruct fs ad) false Ht) as [(its & c' & Ee & Hs) _].
      specialize (Hs eq_refl).
      unfold value_of in Hj. cbn [is_obj] in Hj. rewrite Ee in Hj. cbn [bind fst] in Hj.
      rewrite (assemble_mem its c' Hs) in Hj. injection Hj as <-.
      rewrite enc_items_obj in Ee.
      destruct (enc_inner_mem addl ad ms fs false its c' Hgo Hnd Ee) as (Hm & Hi & Hn).
      rewrite vld_obj. cbn [negb]. rewrite (keys_nodup_true _ Hn).
      rewrite (inner_conf addl ad ms IHms fs false its c' (mem_items its) Hgo Hnd Ee).
      + simpl. destruct addl as [sa|]; [|reflexivity].
        apply forallb_forall. intros kv Hin. destruct (Hm kv Hin) as [Hd | (sa' & x & E & Hx & Hv)].
        * apply orb_true_iff. left. apply existsb_exists. exists (fst kv). split; [exact Hd | apply str_eqb_refl].
        * injection E as <-. apply orb_true_iff. right. simpl in IHad.
          rewrite Forall_forall in Had. destruct (IHad x (Had (fst kv, x) Hx)) as [HA _]. now apply HA.
      + intros [k v] Hin. now apply kv_get_in_nodup.
      + intros k _ Hk. now apply kv_get_notin.
    - (* object, embedded position *)
      intros ems E c its c' M Ee H1 H2. injection E as -> ->.
      destruct v as [| | | | | | | | | fs ad]; [simpl in Hv; tauto..|].
      apply rt_ok_obj in Hv as (Hgo & Had & Hnd). subst ad.
      rewrite enc_items_obj in Ee. rewrite vld_obj. cbn [negb].
      rewrite (inner_conf None [] ems IHms fs c its c' M Hgo Hnd Ee H1); [reflexivity|].
      intros k Hk Hn. apply H2; [exact Hk | exact Hn].
  Qed.

  (* C07: the encoding of a value validates against the schema *)
  Theorem conforms s v j : rt_ok s v -> ENC s v = Ok j -> validates parse_num parse_time s j = true.
  Proof. intros Hv He. destruct (conf_all s v Hv) as [HA _]. unfold enc in He. now apply HA. Qed.
End Conf.
