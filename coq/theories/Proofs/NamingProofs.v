(* C01, identifier layer: PublicFieldName yields an exported Go identifier for
   every ASCII name that contains a letter, and nothing else. *)
From Coq Require Import String.
From Coq Require Import List Bool Arith Ascii NArith Lia.
Import ListNotations.
From Goag Require Import Base.Str Model.Naming.

Definition ident_char (c : ascii) : bool := is_letter c || is_digit c.
Definition word_ok (w : str) : Prop := w <> [] /\ Forall (fun c => ident_char c = true) w.
Definition starts_letter (w : str) : Prop := match w with c :: _ => is_letter c = true | [] => False end.

Lemma to_upper_lower c : is_lower c = true -> is_upper (to_upper c) = true.
Proof. destruct c as [[] [] [] [] [] [] [] []]; vm_compute; congruence. Qed.

Lemma to_upper_ident c : ident_char c = true -> ident_char (to_upper c) = true.
Proof. destruct c as [[] [] [] [] [] [] [] []]; vm_compute; congruence. Qed.

Lemma to_upper_letter c : is_letter c = true -> is_upper (to_upper c) = true.
Proof. destruct c as [[] [] [] [] [] [] [] []]; vm_compute; congruence. Qed.

Lemma lower_ident c : is_lower c = true -> ident_char c = true.
Proof. unfold ident_char, is_letter. intros ->. now rewrite orb_true_r. Qed.

Lemma upper_ident c : is_upper c = true -> ident_char c = true.
Proof. unfold ident_char, is_letter. now intros ->. Qed.

Lemma digit_ident c : is_digit c = true -> ident_char c = true.
Proof. unfold ident_char. intros ->. now rewrite orb_true_r. Qed.

Lemma title_word_ok w : word_ok w ->
  title_word w <> [] /\ Forall (fun c => ident_char c = true) (title_word w) /\
  (starts_letter w -> exists c t, title_word w = c :: t /\ is_upper c = true).
Proof.
  intros [Hne Hall]. unfold title_word.
  destruct (str_eqb w (S_ "id") || str_eqb w (S_ "Id")).
  - split; [discriminate|]. split; [repeat constructor|]. intros _. exists "I"%char, (S_ "D"). split; reflexivity.
  - destruct (str_eqb w (S_ "ids")).
    + split; [discriminate|]. split; [repeat constructor|]. intros _. exists "I"%char, (S_ "Ds"). split; reflexivity.
    + destruct w as [|c r]; [congruence|]. inversion Hall as [|? ? Hc Hr]; subst.
      split; [discriminate|]. split.
      * constructor; [now apply to_upper_ident|exact Hr].
      * simpl. intros Hl. exists (to_upper c), r. split; [reflexivity|now apply to_upper_letter].
Qed.

(* the invariant of the scanning loop *)
Definition first_ok (acc : list str) (cur : option str) : Prop :=
  match acc with
  | a :: _ => starts_letter a
  | [] => match cur with Some w => starts_letter w | None => True end
  end.

Lemma words_inv s : forall cur acc,
  Forall word_ok acc -> (forall w, cur = Some w -> word_ok w) -> first_ok acc cur ->
  Forall word_ok (words s cur acc) /\ first_ok (words s cur acc) None.
Proof.
  induction s as [|c r IH]; intros cur acc Hacc Hcur Hfirst; simpl.
  - destruct cur as [w|]; simpl.
    + split; [apply Forall_app; split; [exact Hacc|constructor; [now apply Hcur|constructor]]|].
      destruct acc as [|a t]; simpl in *; assumption.
    + split; [exact Hacc|]. destruct acc; simpl in *; auto.
  - destruct (is_lower c) eqn:El.
    + apply IH; [exact Hacc| |].
      * intros w Hw. injection Hw as <-. destruct cur as [w0|].
        -- destruct (Hcur w0 eq_refl) as [Hne Hall]. split; [destruct w0; discriminate|].
           apply Forall_app. split; [exact Hall|constructor; [now apply lower_ident|constructor]].
        -- split; [discriminate|constructor; [now apply lower_ident|constructor]].
      * destruct acc as [|a t]; simpl in *; [|exact Hfirst].
        destruct cur as [w0|]; simpl.
        -- destruct w0; simpl in *; [contradiction|exact Hfirst].
        -- unfold is_letter. now rewrite El, orb_true_r.
    + assert (Hacc' : Forall word_ok (flush cur acc)).
      { destruct cur as [w|]; simpl; [|exact Hacc]. apply Forall_app. split; [exact Hacc|constructor; [now apply Hcur|constructor]]. }
      assert (Hfirst' : forall cur', (flush cur acc = [] -> match cur' with Some w => starts_letter w | None => True end) ->
                                     first_ok (flush cur acc) cur').
      { intros cur' H. destruct cur as [w|]; simpl in *.
        - destruct acc as [|a t]; simpl in *; [exact Hfirst|exact Hfirst].
        - destruct acc as [|a t]; simpl in *; [now apply H|exact Hfirst]. }
      destruct (is_upper c) eqn:Eu; simpl.
      * apply IH; [exact Hacc'| |].
        -- intros w Hw. injection Hw as <-. split; [discriminate|constructor; [now apply upper_ident|constructor]].
        -- apply Hfirst'. intros _. simpl. unfold is_letter. now rewrite Eu.
      * destruct cur as [w|]; simpl.
        -- destruct (is_digit c) eqn:Ed.
           ++ apply IH; [exact Hacc'| |].
              ** intros w' Hw. injection Hw as <-. split; [discriminate|constructor; [now apply digit_ident|constructor]].
              ** apply Hfirst'. simpl. intros H. destruct acc; discriminate.
           ++ apply IH; [exact Hacc'|discriminate|]. apply Hfirst'. auto.
        -- apply IH; [exact Hacc'|discriminate|]. apply Hfirst'. auto.
Qed.

Lemma concat_titles ws : Forall word_ok ws ->
  Forall (fun c => ident_char c = true) (concat (map title_word ws)).
Proof.
  induction 1 as [|w r Hw Hr IH]; simpl; [constructor|].
  apply Forall_app. split; [now apply title_word_ok|exact IH].
Qed.

(* every character is a Go identifier character, and the result (when not
   empty) starts with an upper-case letter: an exported identifier *)
Theorem public_field_name_ident n :
  Forall (fun c => ident_char c = true) (public_field_name n) /\
  (public_field_name n = [] \/ exists c t, public_field_name n = c :: t /\ is_upper c = true).
Proof.
  unfold public_field_name.
  destruct (words_inv n None [] (Forall_nil _) ltac:(discriminate) I) as [Hall Hfirst].
  split; [now apply concat_titles|].
  destruct (words n None []) as [|w r]; [left; reflexivity|]. right.
  inversion Hall as [|? ? Hw Hr]; subst. simpl in Hfirst.
  destruct (title_word_ok w Hw) as (_ & _ & Hup). destruct (Hup Hfirst) as (c & t & Ht & Hc).
  exists c, (t ++ concat (map title_word r)). simpl. rewrite Ht. split; [reflexivity|exact Hc].
Qed.

(* it is empty only for names without a letter *)
Lemma words_nonempty s : forall cur acc,
  (acc <> [] \/ cur <> None \/ existsb is_letter s = true) -> words s cur acc <> [].
Proof.
  induction s as [|c r IH]; intros cur acc H; simpl.
  - destruct cur as [w|]; simpl; [destruct acc; discriminate|].
    destruct H as [H|[H|H]]; [exact H|congruence|discriminate].
  - destruct (is_lower c) eqn:El; [apply IH; right; left; discriminate|].
    destruct (is_upper c) eqn:Eu; simpl; [apply IH; right; left; discriminate|].
    assert (Hfl : acc <> [] \/ cur <> None -> flush cur acc <> []).
    { intros [Ha|Hc]; destruct cur; simpl; try congruence; destruct acc; discriminate. }
    destruct H as [H|[H|H]].
    + destruct cur as [w|]; [destruct (is_digit c)|]; apply IH; left; apply Hfl; auto.
    + destruct cur as [w|]; [|congruence]. destruct (is_digit c); apply IH; left; apply Hfl; right; discriminate.
    + simpl in H. unfold is_letter in H at 1. rewrite Eu, El in H. simpl in H.
      destruct cur as [w|]; [destruct (is_digit c)|]; apply IH; auto.
Qed.

Theorem public_field_name_nonempty n : existsb is_letter n = true -> public_field_name n <> [].
Proof.
  intros H. unfold public_field_name.
  pose proof (words_nonempty n None [] (or_intror (or_intror H))) as Hne.
  destruct (words_inv n None [] (Forall_nil _) ltac:(discriminate) I) as [Hall _].
  destruct (words n None []) as [|w r]; [congruence|]. inversion Hall as [|? ? Hw Hr]; subst.
  simpl. destruct (title_word_ok w Hw) as (Hn & _). destruct (title_word w); [congruence|discriminate].
Qed.
