(* C05: the path parser generated for an operation (alternating constant
   prefixes and variable extractors, re-deriving every offset on its own)
   yields the typed values of exactly the segments the router matched. *)
From Coq Require Import String.
From Coq Require Import List Bool Arith Ascii NArith ZArith Lia.
Import ListNotations.
From Goag Require Import Base.Str Model.Router Model.Serve Model.Params Spec.RouterSpec Spec.ParamSpec
     Proofs.RouterStrings Proofs.ParamsProofs.

Section Path.
  Variable pf : Z -> str -> option str.
  Variable pt : str -> option str.

  Definition wf_dirs (ds : dirs) : Prop :=
    Forall (fun d => match snd d with Some sc => wf_sch sc | None => True end) ds.

  Lemma has_prefix_app_same (p s : str) : has_prefix p (p ++ s) = true.
  Proof. apply has_prefix_app. Qed.

  Lemma path_elems_correct ds : forall segs pending,
    wf_dirs ds -> Forall noslash segs -> seg_match (tmpl_of_dirs ds) segs = true ->
    exists r, path_result pf pt ds segs r /\
              parse_path_elems pf pt (path_builder pending ds) (pending ++ enc segs) = r.
  Proof.
    induction ds as [|[d o] ds IH]; intros segs pending Hw Hns Hm.
    - destruct segs; [|discriminate]. exists (Ok []). split; [constructor|].
      simpl. rewrite app_nil_r. destruct pending; [reflexivity|].
      cbn [parse_path_elems]. rewrite <- (app_nil_r (a :: pending)) at 2. rewrite has_prefix_app_same. reflexivity.
    - destruct segs as [|s segs]; [destruct o; discriminate|].
      inversion Hw as [|? ? Hd Hw']; subst. inversion Hns as [|? ? Hs Hns']; subst.
      destruct o as [sc|]; simpl in Hm, Hd.
      + (* variable *)
        cbn [path_builder parse_path_elems].
        replace (pending ++ enc (s :: segs)) with ((pending ++ [slash]) ++ s ++ enc segs)
          by (rewrite enc_cons, <- app_assoc; reflexivity).
        rewrite has_prefix_app_same, skipn_app_length.
        unfold take_seg. rewrite until_slash_app by (auto using enc_shape).
        destruct s as [|c s'].
        * exists (Err d). split; [constructor|reflexivity].
        * destruct (parse_string pf pt sc (c :: s')) as [x|] eqn:Ep.
          -- apply parse_string_spec in Ep; [|assumption].
             destruct (IH segs [] Hw' Hns' Hm) as (r & Hr & Er). simpl app in Er. rewrite Er.
             destruct r as [fs | m | ].
             ++ exists (Ok (FVal x :: fs)). split; [constructor; auto; discriminate | reflexivity].
             ++ exists (Err m). split; [eapply PR_var_later; eauto; discriminate | reflexivity].
             ++ exfalso. clear -Hr. remember ErrOther as e. induction Hr; try discriminate; auto.
          -- exists (Err d). split; [|reflexivity]. apply PR_var_bad; [discriminate|].
             intros v Hv. apply parse_string_spec in Hv; [|assumption]. congruence.
      + (* literal *)
        apply andb_true_iff in Hm as [Hds Hm]. apply str_eqb_eq in Hds. subst d.
        cbn [path_builder].
        destruct (IH segs (pending ++ slash :: s) Hw' Hns' Hm) as (r & Hr & Er).
        exists r. split; [now constructor|].
        rewrite <- Er. f_equal. rewrite enc_cons, <- app_assoc. reflexivity.
  Qed.

  (* the base-path prologue *)
  Theorem path_parse_correct bp ds segs :
    wf_dirs ds -> ds <> [] -> Forall noslash segs -> seg_match (tmpl_of_dirs ds) segs = true ->
    exists r, path_result pf pt ds segs r /\
              parse_path pf pt bp (path_builder [] ds) (bp ++ enc segs) = r.
  Proof.
    intros Hw Hne Hns Hm. destruct (path_elems_correct ds segs [] Hw Hns Hm) as (r & Hr & Er).
    exists r. split; [assumption|]. simpl app in Er. unfold parse_path. destruct bp as [|b bp']; [exact Er|].
    rewrite has_prefix_app_same, skipn_app_length.
    destruct segs as [|s segs']; [destruct ds as [|[? []] ?]; simpl in Hm; congruence|].
    replace (has_prefix [slash] (enc (s :: segs'))) with true by reflexivity. exact Er.
  Qed.

  (* it never fails with the anonymous "wrong path" error on a dispatched request *)
  Lemma path_result_never_other ds segs : ~ path_result pf pt ds segs ErrOther.
  Proof. intros H. remember ErrOther as e. induction H; try discriminate; auto. Qed.
End Path.

(* Non-vacuity: /shops/{shop}/pets/{id} with an int32 id under base /v1 *)
Example path_example :
  let pf := fun _ _ => None in let pt := fun _ => None in
  let ds : dirs := [(S_ "shops", None); (S_ "shop", Some (SPrim PStr)); (S_ "pets", None); (S_ "id", Some (SPrim (PInt 32)))] in
  parse_path pf pt (S_ "/v1") (path_builder [] ds) (S_ "/v1/shops/acme/pets/42")
  = Ok [FVal (VS (S_ "acme")); FVal (VI 42)] /\
  parse_path pf pt (S_ "/v1") (path_builder [] ds) (S_ "/v1/shops//pets/42") = Err (S_ "shop") /\
  parse_path pf pt (S_ "/v1") (path_builder [] ds) (S_ "/v1/shops/acme/pets/4x") = Err (S_ "id").
Proof. vm_compute. repeat split. Qed.
