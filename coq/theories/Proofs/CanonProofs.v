(* http.CanonicalHeaderKey on ASCII: canonicalising is idempotent, so the
   generated code's lookups (which canonicalise the declared name) and
   net/http's storage (which canonicalises the received name) meet. *)
From Coq Require Import String.
From Coq Require Import List Bool Arith Ascii NArith.
Import ListNotations.
From Goag Require Import Base.Str Model.Router Model.Serve.

Ltac all_bytes c :=
  destruct c as [b0 b1 b2 b3 b4 b5 b6 b7];
  destruct b0, b1, b2, b3, b4, b5, b6, b7.

Lemma case_byte : forall c,
  to_upper (to_upper c) = to_upper c /\ to_lower (to_lower c) = to_lower c /\
  to_upper (to_lower c) = to_upper c /\ to_lower (to_upper c) = to_lower c /\
  ascii_eqb (to_upper c) "-"%char = ascii_eqb c "-"%char /\
  ascii_eqb (to_lower c) "-"%char = ascii_eqb c "-"%char /\
  is_token_char (to_upper c) = is_token_char c /\ is_token_char (to_lower c) = is_token_char c.
Proof. intros c. all_bytes c; vm_compute; repeat split. Qed.

Lemma canon_go_idem : forall s up, canon_go up (canon_go up s) = canon_go up s.
Proof.
  induction s as [|c s IH]; intros up; [reflexivity|].
  destruct (case_byte c) as (H1 & H2 & H3 & H4 & H5 & H6 & _).
  cbn [canon_go]. destruct up.
  - rewrite H1, H5. now rewrite IH.
  - rewrite H2, H6. now rewrite IH.
Qed.

Lemma canon_go_token : forall s up, forallb is_token_char (canon_go up s) = forallb is_token_char s.
Proof.
  induction s as [|c s IH]; intros up; [reflexivity|].
  destruct (case_byte c) as (_ & _ & _ & _ & _ & _ & H7 & H8).
  cbn [canon_go forallb]. rewrite IH. destruct up; [now rewrite H7 | now rewrite H8].
Qed.

Theorem canon_key_idem : forall s, canon_key (canon_key s) = canon_key s.
Proof.
  intros s. unfold canon_key. destruct (forallb is_token_char s) eqn:E.
  - rewrite canon_go_token, E. apply canon_go_idem.
  - now rewrite E.
Qed.

(* names that differ only by case denote one header *)
Lemma canon_go_case : forall a b up,
  map to_lower a = map to_lower b -> canon_go up a = canon_go up b.
Proof.
  induction a as [|x a IH]; intros [|y b] up H; try discriminate; [reflexivity|].
  cbn [map] in H. injection H as Hxy Hab.
  destruct (case_byte x) as (_ & _ & X3 & _ & _ & X6 & _).
  destruct (case_byte y) as (_ & _ & Y3 & _ & _ & Y6 & _).
  cbn [canon_go].
  assert (Hd : ascii_eqb x "-"%char = ascii_eqb y "-"%char) by (rewrite <- X6, <- Y6, Hxy; reflexivity).
  rewrite Hd, (IH b _ Hab). f_equal.
  destruct up; [rewrite <- X3, <- Y3, Hxy; reflexivity | exact Hxy].
Qed.
