From Coq Require Import List Bool.
Import ListNotations.
From Goag Require Import Model.Gate.

Section GateProofs.
  Variable src : Type.
  Variable fmt : src -> option src.
  Variable parses : src -> bool.
  Variable decl_ok : list src -> bool.

  (* imports.Process (golang.org/x/tools) succeeds only on text that parses, and
     returns gofmt output, which parses and is a fixpoint: trusted base *)
  Hypothesis fmt_sound : forall s b, fmt s = Some b -> parses b = true /\ fmt b = Some b.

  Lemma write_all_written fs : forall ws, write_all src fmt fs = Some ws ->
    forall n b, In (n, b) ws -> exists s, In (n, s) fs /\ fmt s = Some b.
  Proof.
    induction fs as [|[n0 s0] r IH]; intros ws H n b Hin; simpl in H.
    - injection H as <-. contradiction.
    - destruct (fmt s0) as [b0|] eqn:E; [|discriminate].
      destruct (write_all src fmt r) as [wr|] eqn:Er; [|discriminate]. injection H as <-.
      destruct Hin as [Heq|Hin].
      + injection Heq as <- <-. exists s0. simpl. auto.
      + destruct (IH wr eq_refl n b Hin) as (s & Hs & Hf). exists s. simpl. auto.
  Qed.

  (* a success has written, for every file, text that parses and is gofmt-stable,
     and the declared names of the package do not clash *)
  Theorem success_is_formatted rendered ws :
    generate src fmt parses decl_ok rendered = Success src ws ->
    (forall n b, In (n, b) ws -> parses b = true /\ fmt b = Some b) /\
    exists fs, rendered = Some fs /\ decl_ok (map snd fs) = true /\ map fst ws = map fst fs.
  Proof.
    unfold generate. destruct rendered as [fs|]; [|discriminate].
    destruct (forallb (fun f => parses (snd f)) fs && decl_ok (map snd fs)) eqn:E; [|discriminate].
    apply andb_true_iff in E. destruct E as [_ Hd].
    destruct (write_all src fmt fs) as [ws'|] eqn:Ew; [|discriminate]. intros H. injection H as <-.
    split.
    - intros n b Hin. destruct (write_all_written fs ws' Ew n b Hin) as (s & _ & Hf). now apply fmt_sound in Hf.
    - exists fs. split; [reflexivity|]. split; [exact Hd|].
      clear Hd. revert ws' Ew. induction fs as [|[n0 s0] r IH]; intros ws' Ew; simpl in Ew.
      + now injection Ew as <-.
      + destruct (fmt s0); [|discriminate]. destruct (write_all src fmt r) as [wr|]; [|discriminate].
        injection Ew as <-. simpl. f_equal. now apply IH.
  Qed.

  (* a file that does not parse, a name clash or a formatting error is an error, not a success *)
  Theorem broken_is_failure fs :
    (existsb (fun f => negb (parses (snd f))) fs = true \/ decl_ok (map snd fs) = false \/
     exists n s, In (n, s) fs /\ fmt s = None) ->
    generate src fmt parses decl_ok (Some fs) = Failed src.
  Proof.
    intros H. unfold generate.
    destruct (forallb (fun f => parses (snd f)) fs && decl_ok (map snd fs)) eqn:E; [|reflexivity].
    apply andb_true_iff in E. destruct E as [Hp Hd].
    destruct H as [H|[H|(n & s & Hin & Hf)]].
    - apply existsb_exists in H. destruct H as (f & Hin & Hn). rewrite forallb_forall in Hp. rewrite (Hp f Hin) in Hn. discriminate.
    - congruence.
    - destruct (write_all src fmt fs) as [ws|] eqn:Ew; [|reflexivity]. exfalso.
      clear Hp Hd. revert ws Ew. induction fs as [|[n0 s0] r IH]; intros ws Ew; [contradiction|]. simpl in Ew.
      destruct Hin as [Heq|Hin].
      + injection Heq as -> ->. rewrite Hf in Ew. discriminate.
      + destruct (fmt s0); [|discriminate]. destruct (write_all src fmt r) as [wr|]; [|discriminate]. eapply IH; eauto.
  Qed.
End GateProofs.
