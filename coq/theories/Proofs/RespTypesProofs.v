(* C02, first half: the types that satisfy an operation's response interface are
   exactly the responses the operation documents. *)
From Coq Require Import String.
From Coq Require Import List Bool Arith Ascii Lia.
Import ListNotations.
From Goag Require Import Base.Str Model.RespTypes.

(* the declarative side: T is a response type documented for op *)
Definition documented (d : rdoc) (op : rop) (T : str) : Prop :=
  exists st r, In (st, r) (ro_responses op) /\
    match r with
    | RInline j => T = inline_name (ro_name op) st j
    | RComp n => exists c n', resolves d n = Some c /\ resolves d n' = Some c /\ T = comp_type n'
    end.

(* what the generator needs for the package to compile (C01) and what it
   rejects: operation names, component names and declared type names pairwise
   distinct; no dangling or cyclic response alias *)
Definition wf (d : rdoc) : Prop :=
  NoDup (map ro_name (rd_ops d)) /\
  NoDup (map rc_name (rd_comps d)) /\
  NoDup (map t_name (gen_types d)) /\
  (forall c, In c (rd_comps d) -> resolves d (rc_name c) <> None).

Lemma NoDup_map_inj {A B} (f : A -> B) l a b : NoDup (map f l) -> In a l -> In b l -> f a = f b -> a = b.
Proof.
  induction l as [|x r IH]; simpl; intros Hnd Ha Hb He; [contradiction|].
  inversion Hnd as [|? ? Hnotin Hnd']; subst.
  destruct Ha as [->|Ha], Hb as [->|Hb]; auto.
  - exfalso. apply Hnotin. rewrite He. now apply in_map.
  - exfalso. apply Hnotin. rewrite <- He. now apply in_map.
Qed.

Lemma write_m_inj a b : write_m a = write_m b -> a = b.
Proof. unfold write_m. apply app_inv_head. Qed.

Lemma Write_not_write o : S_ "Write" <> write_m o.
Proof. unfold write_m. simpl. intros H. discriminate. Qed.

Lemma find_comp_some cs n c : find_comp cs n = Some c -> In c cs /\ rc_name c = n.
Proof.
  induction cs as [|x r IH]; simpl; [discriminate|].
  destruct (str_eqb_spec (rc_name x) n) as [E|E].
  - intros H. injection H as <-. auto.
  - intros H. destruct (IH H). auto.
Qed.

Lemma find_comp_in cs c : NoDup (map rc_name cs) -> In c cs -> find_comp cs (rc_name c) = Some c.
Proof.
  induction cs as [|x r IH]; simpl; intros Hnd Hin; [contradiction|].
  inversion Hnd as [|? ? Hnotin Hnd']; subst.
  destruct (str_eqb_spec (rc_name x) (rc_name c)) as [E|E].
  - destruct Hin as [->|Hin]; [reflexivity|]. exfalso. apply Hnotin. rewrite E. now apply in_map.
  - destruct Hin as [->|Hin]; [congruence|]. now apply IH.
Qed.

Lemma find_type_in ts t : NoDup (map t_name ts) -> In t ts -> find_type ts (t_name t) = Some t.
Proof.
  induction ts as [|x r IH]; simpl; intros Hnd Hin; [contradiction|].
  inversion Hnd as [|? ? Hnotin Hnd']; subst.
  destruct (str_eqb_spec (t_name x) (t_name t)) as [E|E].
  - destruct Hin as [->|Hin]; [reflexivity|]. exfalso. apply Hnotin. rewrite E. now apply in_map.
  - destruct Hin as [->|Hin]; [congruence|]. now apply IH.
Qed.

Lemma resolve_target fuel cs n c : resolve fuel cs n = Some c ->
  exists cc, find_comp cs c = Some cc /\ rc_alias cc = None.
Proof.
  revert n. induction fuel as [|f IH]; intros n; simpl; [discriminate|].
  destruct (find_comp cs n) as [cn|] eqn:E; [|discriminate].
  destruct (rc_alias cn) as [t|] eqn:Ea.
  - apply IH.
  - intros H. injection H as <-. eauto.
Qed.

Section Doc.
  Variable d : rdoc.
  Hypothesis Hwf : wf d.

  Let ts := gen_types d.

  Lemma comp_decl_in c : In c (rd_comps d) -> In (comp_decl d c) ts.
  Proof. intros H. unfold ts, gen_types. apply in_or_app. right. now apply in_map. Qed.

  Lemma comp_decl_name c : t_name (comp_decl d c) = comp_type (rc_name c).
  Proof. unfold comp_decl. destruct (rc_alias c); reflexivity. Qed.

  (* following the alias chain of Go type aliases reaches the component the
     specification resolves the name to *)
  Lemma methods_chain : forall fr n c, resolve fr (rd_comps d) n = Some c ->
    forall fm, fr <= fm -> methods_of fm ts (comp_type n) = S_ "Write" :: map write_m (used_in d c).
  Proof.
    destruct Hwf as (_ & Hcn & Htn & _).
    induction fr as [|f IH]; intros n c Hr fm Hle; simpl in Hr; [discriminate|].
    destruct (find_comp (rd_comps d) n) as [cn|] eqn:E; [|discriminate].
    destruct (find_comp_some _ _ _ E) as [Hin Hname].
    destruct fm as [|fm']; [lia|]. simpl.
    pose proof (find_type_in ts (comp_decl d cn) Htn (comp_decl_in cn Hin)) as Hft.
    rewrite comp_decl_name, Hname in Hft. rewrite Hft.
    unfold comp_decl. destruct (rc_alias cn) as [t|] eqn:Ea; simpl.
    - apply (IH t c Hr). lia.
    - injection Hr as <-. now rewrite Hname.
  Qed.

  Lemma in_used_in c op : In op (rd_ops d) ->
    (In (ro_name op) (used_in d c) <-> exists st n, In (st, RComp n) (ro_responses op) /\ resolves d n = Some c).
  Proof.
    destruct Hwf as (Hon & _). intros Hop. unfold used_in. rewrite in_map_iff. split.
    - intros (op' & Hn & Hf). apply filter_In in Hf. destruct Hf as [Hin' Hu].
      assert (op' = op) by (eapply NoDup_map_inj; eauto). subst op'.
      unfold uses in Hu. apply existsb_exists in Hu. destruct Hu as ([st r] & Hin & Hm). simpl in Hm.
      destruct r as [j|n]; [discriminate|]. exists st, n. split; [exact Hin|].
      unfold opt_eqb in Hm. destruct (resolves d n) as [x|]; [|discriminate]. apply str_eqb_eq in Hm. now subst.
    - intros (st & n & Hin & Hr). exists op. split; [reflexivity|]. apply filter_In. split; [exact Hop|].
      unfold uses. apply existsb_exists. exists (st, RComp n). split; [exact Hin|]. simpl. rewrite Hr. simpl. apply str_eqb_refl.
  Qed.

  Lemma implements_iff T o : implements d T o = true <-> In (write_m o) (methods_of (S (length ts)) ts T).
  Proof.
    unfold implements. fold ts. rewrite existsb_exists. split.
    - intros (x & Hin & He). apply str_eqb_eq in He. now subst.
    - intros H. exists (write_m o). split; [exact H|apply str_eqb_refl].
  Qed.

  Lemma comps_le : length (rd_comps d) <= length ts.
  Proof. unfold ts, gen_types. rewrite app_length, map_length. lia. Qed.

  Lemma implements_comp op n' c : In op (rd_ops d) -> resolves d n' = Some c ->
    (implements d (comp_type n') (ro_name op) = true <->
     exists st n, In (st, RComp n) (ro_responses op) /\ resolves d n = Some c).
  Proof.
    intros Hop Hr. rewrite implements_iff.
    rewrite (methods_chain _ _ _ Hr (S (length ts))) by (pose proof comps_le; lia).
    rewrite <- (in_used_in c op Hop). simpl. split.
    - intros [H|H]; [exfalso; eapply Write_not_write; eassumption|].
      apply in_map_iff in H. destruct H as (x & Hx & Hin). apply write_m_inj in Hx. now subst.
    - intros H. right. now apply in_map.
  Qed.

  (* every name (component or alias, through any chain) of one component response satisfies the same interfaces *)
  Lemma alias_names_equivalent op n n' c : In op (rd_ops d) -> resolves d n = Some c -> resolves d n' = Some c ->
    implements d (comp_type n) (ro_name op) = implements d (comp_type n') (ro_name op).
  Proof.
    intros Hop Hn Hn'. apply Bool.eq_iff_eq_true.
    rewrite (implements_comp op n c Hop Hn), (implements_comp op n' c Hop Hn'). reflexivity.
  Qed.

  Lemma inline_decl_in op st j : In op (rd_ops d) -> In (st, RInline j) (ro_responses op) ->
    In {| t_name := inline_name (ro_name op) st j; t_alias_of := None; t_methods := [S_ "Write"; write_m (ro_name op)] |} ts.
  Proof.
    intros Hop Hin. unfold ts, gen_types. apply in_or_app. left. apply in_flat_map. exists op. split; [exact Hop|].
    unfold inline_types. apply in_flat_map. exists (st, RInline j). split; [exact Hin|]. simpl. auto.
  Qed.

  Lemma implements_inline op st j o : In op (rd_ops d) -> In (st, RInline j) (ro_responses op) ->
    (implements d (inline_name (ro_name op) st j) o = true <-> o = ro_name op).
  Proof.
    destruct Hwf as (_ & _ & Htn & _). intros Hop Hin. rewrite implements_iff. simpl.
    pose proof (find_type_in ts _ Htn (inline_decl_in op st j Hop Hin)) as Hft. simpl in Hft. rewrite Hft. simpl. split.
    - intros [H|[H|[]]]; [exfalso; eapply Write_not_write; eassumption|]. now apply write_m_inj in H.
    - intros ->. auto.
  Qed.

  (* the set of declared types satisfying op's response interface is exactly the documented set *)
  Theorem exact_implementers op T : In op (rd_ops d) -> In T (map t_name ts) ->
    (implements d T (ro_name op) = true <-> documented d op T).
  Proof.
    pose proof Hwf as (Hon & Hcn & Htn & Hres). intros Hop HT. split.
    - (* implements -> documented: by the origin of T's declaration *)
      intros Himp. apply in_map_iff in HT. destruct HT as (t & <- & Ht).
      unfold ts, gen_types in Ht. apply in_app_or in Ht. destruct Ht as [Ht|Ht].
      + apply in_flat_map in Ht. destruct Ht as (op' & Hop' & Ht). unfold inline_types in Ht.
        apply in_flat_map in Ht. destruct Ht as ([st r] & Hin & Ht). simpl in Ht.
        destruct r as [j|n]; [|contradiction]. destruct Ht as [<-|[]]. simpl in Himp.
        apply (implements_inline op' st j (ro_name op) Hop' Hin) in Himp.
        assert (op' = op) by (eapply NoDup_map_inj; eauto). subst op'.
        exists st, (RInline j). split; [exact Hin|reflexivity].
      + apply in_map_iff in Ht. destruct Ht as (c' & <- & Hc'). rewrite comp_decl_name in *.
        destruct (resolves d (rc_name c')) as [c|] eqn:Er; [|exfalso; eapply Hres; eassumption].
        apply (implements_comp op (rc_name c') c Hop Er) in Himp. destruct Himp as (st & n & Hin & Hn).
        exists st, (RComp n). split; [exact Hin|]. exists c, (rc_name c'). auto.
    - intros (st & r & Hin & Hd). destruct r as [j|n].
      + subst T. now apply (implements_inline op st j (ro_name op) Hop Hin).
      + destruct Hd as (c & n' & Hn & Hn' & ->). apply (implements_comp op n' c Hop Hn'). eauto.
  Qed.

  (* nothing else: a declared type outside the documented set does not satisfy the interface *)
  Corollary undocumented_not_returnable op T : In op (rd_ops d) -> In T (map t_name ts) ->
    ~ documented d op T -> implements d T (ro_name op) = false.
  Proof.
    intros Hop HT Hn. destruct (implements d T (ro_name op)) eqn:E; [|reflexivity].
    exfalso. apply Hn. now apply exact_implementers.
  Qed.

  (* the executable enumeration used by the correspondence check is the same set *)
  Lemma implementers_spec op T : In op (rd_ops d) ->
    (In T (implementers d (ro_name op)) <-> In T (map t_name ts) /\ documented d op T).
  Proof.
    intros Hop. unfold implementers. fold ts. rewrite in_map_iff. split.
    - intros (t & <- & Hf). apply filter_In in Hf. destruct Hf as [Hin Himp]. split; [now apply in_map|].
      apply exact_implementers; [exact Hop|now apply in_map|exact Himp].
    - intros [HT Hd]. apply in_map_iff in HT. destruct HT as (t & <- & Hin). exists t. split; [reflexivity|].
      apply filter_In. split; [exact Hin|]. apply exact_implementers; [exact Hop|now apply in_map|exact Hd].
  Qed.
End Doc.
