(* encoding/json's string text: what the encoder writes for a string, the
   decoder reads back as the same bytes; and the text holds no raw quote, no
   control byte and no unfinished escape (it is one JSON string token). *)
From Coq Require Import String.
From Coq Require Import List Bool Arith Ascii NArith Lia.
Import ListNotations.
From Goag Require Import Base.Str.
From Goag Require Import Model.JsonString.

Ltac all_bytes c :=
  destruct c as [b0 b1 b2 b3 b4 b5 b6 b7];
  destruct b0, b1, b2, b3, b4, b5, b6, b7.

(* one byte, whatever follows *)
Lemma unquote_quote_byte : forall c t,
  unquote_body (quote_byte c ++ t) = option_map (cons c) (unquote_body t).
Proof.
  intros c t. all_bytes c; reflexivity.
Qed.

Lemma unquote_u2028 t : unquote_body (u202 "8"%char ++ t) = option_map (app [b_e2; b_80; b_a8]) (unquote_body t).
Proof. reflexivity. Qed.

Lemma unquote_u2029 t : unquote_body (u202 "9"%char ++ t) = option_map (app [b_e2; b_80; b_a9]) (unquote_body t).
Proof. reflexivity. Qed.

Lemma quote_body_cons1 c : quote_body [c] = quote_byte c.
Proof. cbn. now rewrite app_nil_r. Qed.

Lemma quote_body_eq c a b r' :
  quote_body (c :: a :: b :: r') =
  if ascii_eqb c b_e2 && ascii_eqb a b_80 && ascii_eqb b b_a8 then u202 "8"%char ++ quote_body r'
  else if ascii_eqb c b_e2 && ascii_eqb a b_80 && ascii_eqb b b_a9 then u202 "9"%char ++ quote_body r'
  else quote_byte c ++ quote_body (a :: b :: r').
Proof. reflexivity. Qed.

Theorem unquote_quote_body : forall n s, length s <= n -> unquote_body (quote_body s) = Some s.
Proof.
  induction n as [|n IH]; intros s Hl.
  - destruct s; [reflexivity | cbn in Hl; lia].
  - destruct s as [|c r]; [reflexivity|].
    destruct r as [|a [|b r']].
    + rewrite quote_body_cons1. rewrite <- (app_nil_r (quote_byte c)). rewrite unquote_quote_byte. reflexivity.
    + (* two bytes *)
      assert (E : quote_body [c; a] = quote_byte c ++ quote_body [a]) by reflexivity.
      rewrite E, unquote_quote_byte, (IH [a]) by (cbn in *; lia). reflexivity.
    + rewrite quote_body_eq.
      destruct (ascii_eqb c b_e2 && ascii_eqb a b_80 && ascii_eqb b b_a8) eqn:E8.
      * apply andb_true_iff in E8 as [E8 Eb]. apply andb_true_iff in E8 as [Ec Ea].
        apply ascii_eqb_eq in Ec, Ea, Eb. subst.
        rewrite unquote_u2028, (IH r') by (cbn in *; lia). reflexivity.
      * destruct (ascii_eqb c b_e2 && ascii_eqb a b_80 && ascii_eqb b b_a9) eqn:E9.
        -- apply andb_true_iff in E9 as [E9 Eb]. apply andb_true_iff in E9 as [Ec Ea].
           apply ascii_eqb_eq in Ec, Ea, Eb. subst.
           rewrite unquote_u2029, (IH r') by (cbn in *; lia). reflexivity.
        -- rewrite unquote_quote_byte.
           rewrite (IH (a :: b :: r')) by (cbn in *; lia). reflexivity.
Qed.

Lemma rev_snoc {A} (l : list A) x : rev (l ++ [x]) = x :: rev l.
Proof. now rewrite rev_app_distr. Qed.

(* json.Unmarshal(json.Marshal(s)) = s for the text of a string *)
Theorem unquote_quote : forall s, unquote (quote s) = Some s.
Proof.
  intros s. unfold unquote, quote. rewrite ascii_eqb_refl.
  rewrite rev_snoc, ascii_eqb_refl, rev_involutive.
  now apply (unquote_quote_body (length s)).
Qed.

(* the literal ends at its closing quote, whatever text follows: a scanner that
   looks for the first quote not preceded by a backslash (and refuses control
   bytes, as encoding/json's scanner does) stops exactly there *)
Fixpoint scan_end (s : str) : option str :=
  match s with
  | [] => None
  | c :: r =>
    if ascii_eqb c bslash then match r with _ :: r' => scan_end r' | [] => None end
    else if ascii_eqb c dquote then Some r
    else if (bcode c <? 32)%N then None
    else scan_end r
  end.

Lemma scan_quote_byte : forall c t, scan_end (quote_byte c ++ t) = scan_end t.
Proof. intros c t. all_bytes c; reflexivity. Qed.

Theorem scan_quote_body : forall n s rest, length s <= n ->
  scan_end (quote_body s ++ dquote :: rest) = Some rest.
Proof.
  induction n as [|n IH]; intros s rest Hl.
  - destruct s; [reflexivity | cbn in Hl; lia].
  - destruct s as [|c r]; [reflexivity|].
    destruct r as [|a [|b r']].
    + rewrite quote_body_cons1, scan_quote_byte. reflexivity.
    + assert (E : quote_body [c; a] = quote_byte c ++ quote_body [a]) by reflexivity.
      rewrite E, <- app_assoc, scan_quote_byte. apply IH. cbn in *; lia.
    + rewrite quote_body_eq.
      destruct (ascii_eqb c b_e2 && ascii_eqb a b_80 && ascii_eqb b b_a8).
      * rewrite <- app_assoc. change (scan_end (quote_body r' ++ dquote :: rest) = Some rest). apply IH. cbn in *; lia.
      * destruct (ascii_eqb c b_e2 && ascii_eqb a b_80 && ascii_eqb b b_a9).
        -- rewrite <- app_assoc. change (scan_end (quote_body r' ++ dquote :: rest) = Some rest). apply IH. cbn in *; lia.
        -- rewrite <- app_assoc, scan_quote_byte. apply IH. cbn in *; lia.
Qed.

Theorem quote_is_one_token : forall s rest, scan_end (quote_body s ++ dquote :: rest) = Some rest.
Proof. intros s rest. now apply (scan_quote_body (length s)). Qed.

Example quote_example :
  quote ([ "a"%char; dquote; bslash; byte 10; byte 1; "<"%char ] ++ [b_e2; b_80; b_a8])
  = [dquote; "a"%char; bslash; dquote; bslash; bslash; bslash; "n"%char] ++ S_ "\u0001\u003c\u2028" ++ [dquote].
Proof. reflexivity. Qed.
