(* C14: every guard shape the translator recognises is sufficient — the
   fragment of that shape never reaches Panic, for every input. *)
From Coq Require Import String.
From Coq Require Import List Bool Arith Ascii Lia.
Import ListNotations.
From Goag Require Import Base.Str Model.Partial.

Lemma has_prefix_length p x : has_prefix p x = true -> length p <= length x.
Proof. intros H. apply has_prefix_iff in H. destruct H as [r ->]. rewrite app_length. lia. Qed.

Lemma index_of_lt c s i : index_of c s = Some i -> i < length s.
Proof.
  revert i. induction s as [|x r IH]; intros i H; simpl in H; [discriminate|].
  destruct (ascii_eqb x c).
  - injection H as <-. simpl. lia.
  - destruct (index_of c r) as [j|]; [|discriminate]. injection H as <-. specialize (IH j eq_refl). simpl. lia.
Qed.

Lemma slice_from_ok {A} (l : list A) n : n <= length l -> slice_from l n = Val (skipn n l).
Proof. intros H. unfold slice_from. apply Nat.leb_le in H. now rewrite H. Qed.

Lemma slice_to_ok {A} (l : list A) n : n <= length l -> slice_to l n = Val (firstn n l).
Proof. intros H. unfold slice_to. apply Nat.leb_le in H. now rewrite H. Qed.

Lemma index_ok {A} (l : list A) n : n < length l -> exists x, index l n = Val x.
Proof.
  intros H. unfold index. destruct (nth_error l n) as [x|] eqn:E; [eauto|].
  apply nth_error_None in E. lia.
Qed.

Theorem prefix_slice_safe p x : prefix_slice p x <> Panic.
Proof.
  unfold prefix_slice. destruct (has_prefix p x) eqn:E; [|discriminate].
  rewrite slice_from_ok by (now apply has_prefix_length). discriminate.
Qed.

Theorem index_or_len_safe p : index_or_len p <> Panic.
Proof.
  unfold index_or_len. destruct (index_of slash p) as [i|] eqn:E.
  - apply index_of_lt in E. rewrite slice_to_ok, slice_from_ok by lia. discriminate.
  - rewrite slice_to_ok, slice_from_ok by lia. discriminate.
Qed.

Theorem index_after_first_safe s : index_after_first s <> Panic.
Proof.
  unfold index_after_first. destruct (has_prefix [slash] s) eqn:E; [|discriminate].
  pose proof (has_prefix_length _ _ E) as Hl. simpl in Hl.
  rewrite slice_from_ok by exact Hl.
  destruct (index_of slash (skipn 1 s)) as [i|] eqn:Ei; [|discriminate].
  apply index_of_lt in Ei. rewrite skipn_length in Ei.
  rewrite slice_to_ok, slice_from_ok by lia. discriminate.
Qed.

Theorem len_checked_safe {A} (l : list A) d :
  len_checked_eq1 l d <> Panic /\ len_checked_pos l d <> Panic /\ len_checked_ret l d <> Panic.
Proof.
  unfold len_checked_eq1, len_checked_pos, len_checked_ret. repeat split.
  - destruct (Nat.eqb_spec (length l) 1) as [E|E]; [|discriminate]. destruct (index_ok l 0 ltac:(lia)) as [x ->]. discriminate.
  - destruct (Nat.ltb_spec 0 (length l)) as [E|E]; [|discriminate]. destruct (index_ok l 0 E) as [x ->]. discriminate.
  - destruct (Nat.eqb_spec (length l) 0) as [E|E]; [discriminate|]. destruct (index_ok l 0 ltac:(lia)) as [x ->]. discriminate.
Qed.

Theorem made_of_one_safe {A} (zero : A) : index (repeat zero 1) 0 <> Panic.
Proof. discriminate. Qed.

Lemma all_ok_map_index {A} (l : list A) (is : list nat) : Forall (fun i => i < length l) is -> all_ok (map (index l) is) = true.
Proof.
  induction 1 as [|i r Hi Hr IH]; simpl; [reflexivity|]. destruct (index_ok l i Hi) as [x ->]. exact IH.
Qed.

Lemma seq_lt n : Forall (fun i => i < n) (seq 0 n).
Proof. apply Forall_forall. intros i H. apply in_seq in H. lia. Qed.

Theorem range_index_safe {A} (b : list A) : all_ok (range_index b) = true.
Proof. apply all_ok_map_index, seq_lt. Qed.

Theorem range_index_made_safe {A B} (b : list B) (zero : A) : all_ok (range_index_made b zero) = true.
Proof. unfold range_index_made. apply all_ok_map_index. rewrite repeat_length. apply seq_lt. Qed.

Theorem count_down_safe {A} (l : list A) : all_ok (count_down l) = true.
Proof.
  apply all_ok_map_index. apply Forall_forall. intros i H. apply in_rev in H. apply in_seq in H. lia.
Qed.

Theorem map_made_when_nonempty_safe {K V} (src : list (K * V)) : map_made_when_nonempty src <> Panic.
Proof.
  unfold map_made_when_nonempty. destruct src as [|kv r]; [discriminate|]. simpl length. cbn [Nat.ltb Nat.leb].
  assert (H : forall (l : list (K * V)) m, exists m', fold_left
            (fun acc kv0 => match acc with Val m0 => map_store m0 (fst kv0) (snd kv0) | Panic => Panic end) l (Val (Some m)) = Val (Some m')).
  { induction l as [|x t IH]; intros m; simpl; [eauto|]. apply IH. }
  destruct (H (kv :: r) []) as [m' ->]. discriminate.
Qed.

Theorem map_made_safe {K V} (l : list (K * V)) k v : map_store (Some l) k v <> Panic.
Proof. discriminate. Qed.

Theorem nil_checked_safe {A B} (f : option (A -> B)) a d : nil_checked f a d <> Panic.
Proof. destruct f; discriminate. Qed.

Theorem defaulted_when_nil_safe {A B} (h nf : option (A -> B)) dflt a : defaulted_when_nil h nf dflt a <> Panic.
Proof. destruct h, nf; discriminate. Qed.

Theorem local_closure_safe {A B} (g : A -> B) a : local_closure g a <> Panic.
Proof. discriminate. Qed.

(* the classes that rest on a precondition of the property: a configured API
   (handlers, hooks and middlewares non-nil), a server request (non-nil Body),
   a handler that returns a response with a non-nil body reader *)
Theorem supplied_safe {A B} (f : option (A -> B)) a : f <> None -> call_fn f a <> Panic.
Proof. destruct f; [discriminate|congruence]. Qed.

(* what "discharged" means, class by class *)
Definition class_safe (c : guard_class) : Prop :=
  match c with
  | GPrefixSlice => forall p x, prefix_slice p x <> Panic
  | GIndexOrLen => forall p, index_or_len p <> Panic
  | GIndexAfterFirst => forall s, index_after_first s <> Panic
  | GLenChecked => forall (l : list str) d, len_checked_eq1 l d <> Panic /\ len_checked_pos l d <> Panic /\ len_checked_ret l d <> Panic
  | GMadeOfOne => forall zero : str, index (repeat zero 1) 0 <> Panic
  | GRangeIndex => forall b : list str, all_ok (range_index b) = true
  | GRangeIndexMade => forall (b : list str) (zero : str), all_ok (range_index_made b zero) = true
  | GCountDown | GCountUp => forall l : list str, all_ok (count_down l) = true /\ all_ok (range_index l) = true
  | GMapMade => forall (l : list (str * str)) k v, map_store (Some l) k v <> Panic
  | GMapMadeWhenNonEmpty => forall src : list (str * str), map_made_when_nonempty src <> Panic
  | GNilChecked => forall (f : option (str -> str)) a d, nil_checked f a d <> Panic
  | GDefaultedWhenNil => forall (h nf : option (str -> str)) dflt a, defaulted_when_nil h nf dflt a <> Panic
  | GLocalClosure => forall (g : str -> str) a, local_closure g a <> Panic
  | GCallerSupplied | GCallerSuppliedElement | GRequestBody | GHandlerSupplied =>
    forall (f : option (str -> str)) a, f <> None -> call_fn f a <> Panic
  | GUnguarded => False
  end.

Theorem discharged_safe c : discharged c = true -> class_safe c.
Proof.
  destruct c; simpl; intros H; try discriminate H.
  - exact prefix_slice_safe.
  - exact index_or_len_safe.
  - exact index_after_first_safe.
  - intros l d. apply len_checked_safe.
  - intros zero. apply made_of_one_safe.
  - intros b. apply range_index_safe.
  - intros b zero. apply range_index_made_safe.
  - intros l. split; [apply count_down_safe|apply range_index_safe].
  - intros l. split; [apply count_down_safe|apply range_index_safe].
  - intros l k v. apply map_made_safe.
  - intros src. apply map_made_when_nonempty_safe.
  - intros f a d. apply nil_checked_safe.
  - intros h nf dflt a. apply defaulted_when_nil_safe.
  - intros g a. apply local_closure_safe.
  - intros f a. apply supplied_safe.
  - intros f a. apply supplied_safe.
  - intros f a. apply supplied_safe.
  - intros f a. apply supplied_safe.
Qed.

Theorem sites_safe (l : list (guard_class * nat)) :
  all_sites_discharged l = true -> forall c n, In (c, n) l -> class_safe c.
Proof.
  unfold all_sites_discharged. rewrite forallb_forall. intros H c n Hin.
  apply discharged_safe. exact (H (c, n) Hin).
Qed.
