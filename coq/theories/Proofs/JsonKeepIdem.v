(* [keep] is a normal form: what is kept of the kept part is the kept part, and the
   kept part is itself a valid document that decodes to the same value. *)
From Coq Require Import List Bool ZArith.
Import ListNotations.
From Goag Require Import Base.Str Model.Params Model.Json Spec.JsonSpec
     Proofs.JsonEncProofs Proofs.JsonRtProofs Proofs.JsonConfProofs
     Proofs.JsonCompleteProofs Proofs.JsonStableProofs Proofs.JsonKeepProofs.

Section KeepIdem.
  Variable fmt_float : Z -> str -> str.
  Variable fmt_time : str -> str.
  Variable parse_num : Z -> str -> option str.
  Variable parse_time : str -> option str.
  Hypothesis float_rt : forall b r, parse_num b (fmt_float b r) = Some r.
  Hypothesis time_rt : forall r, parse_time (fmt_time r) = Some r.

  Notation KEEP := (keep fmt_float fmt_time parse_num parse_time).

  Theorem keep_valid_and_same_value s j :
    wf_sch s -> dom_sch s -> validates parse_num parse_time s j = true ->
    validates parse_num parse_time s (KEEP s j [] false) = true /\
    dec parse_num parse_time s (KEEP s j [] false) = dec parse_num parse_time s j.
  Proof.
    intros Hwf Hdom Hv.
    destruct (lossless fmt_float fmt_time parse_num parse_time s j Hwf Hdom Hv) as (v & Hd & He).
    pose proof (decoded_in_domain parse_num parse_time s j v Hwf Hdom Hv Hd) as Hrt.
    split.
    - apply (conforms fmt_float fmt_time parse_num parse_time float_rt time_rt s v _ Hrt He).
    - rewrite Hd. apply (roundtrip fmt_float fmt_time parse_num parse_time float_rt time_rt s v _ Hrt He).
  Qed.

  Theorem keep_idempotent s j :
    wf_sch s -> dom_sch s -> validates parse_num parse_time s j = true ->
    KEEP s (KEEP s j [] false) [] false = KEEP s j [] false.
  Proof.
    intros Hwf Hdom Hv.
    destruct (lossless fmt_float fmt_time parse_num parse_time s j Hwf Hdom Hv) as (v & Hd & He).
    destruct (keep_valid_and_same_value s j Hwf Hdom Hv) as [Hv' Hsame].
    destruct (lossless fmt_float fmt_time parse_num parse_time s _ Hwf Hdom Hv') as (v' & Hd' & He').
    rewrite Hsame, Hd in Hd'. injection Hd' as <-. rewrite He in He'. now injection He'.
  Qed.
End KeepIdem.
