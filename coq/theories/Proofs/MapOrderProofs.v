(* sort.Strings over distinct keys yields the same list whatever order the keys
   were collected in: the sorted permutation is unique. *)
From Coq Require Import String.
From Coq Require Import List Bool Arith Ascii NArith Lia Permutation.
Import ListNotations.
From Goag Require Import Base.Str Model.Router Model.Serve Model.MapOrder.

(* str_ltb is a strict total order *)
Lemma str_ltb_irrefl a : str_ltb a a = false.
Proof. induction a as [|x a IH]; simpl; [reflexivity|]. rewrite N.ltb_irrefl. exact IH. Qed.

Lemma N_of_ascii_inj x y : N_of_ascii x = N_of_ascii y -> x = y.
Proof. intros H. rewrite <- (ascii_N_embedding x), <- (ascii_N_embedding y). now rewrite H. Qed.

Lemma str_ltb_trichotomy a : forall b, str_ltb a b = true \/ a = b \/ str_ltb b a = true.
Proof.
  induction a as [|x a IH]; intros [|y b]; simpl; auto.
  destruct (N.ltb_spec (N_of_ascii x) (N_of_ascii y)); [auto|].
  destruct (N.ltb_spec (N_of_ascii y) (N_of_ascii x)); [auto|].
  assert (x = y) by (apply N_of_ascii_inj; lia). subst y.
  destruct (IH b) as [H1 | [-> | H1]]; auto.
Qed.

Lemma str_ltb_trans a : forall b c, str_ltb a b = true -> str_ltb b c = true -> str_ltb a c = true.
Proof.
  induction a as [|x a IH]; intros [|y b] [|z c]; simpl; try discriminate; auto.
  destruct (N.ltb_spec (N_of_ascii x) (N_of_ascii y)) as [Hxy|Hxy].
  - intros _. destruct (N.ltb_spec (N_of_ascii y) (N_of_ascii z)) as [Hyz|Hyz].
    + intros _. destruct (N.ltb_spec (N_of_ascii x) (N_of_ascii z)); [reflexivity|lia].
    + destruct (N.ltb_spec (N_of_ascii z) (N_of_ascii y)); [discriminate|].
      assert (y = z) by (apply N_of_ascii_inj; lia). subst z. intros _.
      destruct (N.ltb_spec (N_of_ascii x) (N_of_ascii y)); [reflexivity|lia].
  - destruct (N.ltb_spec (N_of_ascii y) (N_of_ascii x)); [discriminate|].
    assert (x = y) by (apply N_of_ascii_inj; lia). subst y. intros Hab.
    destruct (N.ltb_spec (N_of_ascii x) (N_of_ascii z)); [reflexivity|].
    destruct (N.ltb_spec (N_of_ascii z) (N_of_ascii x)); [discriminate|]. eauto.
Qed.

Lemma str_ltb_asym a b : str_ltb a b = true -> str_ltb b a = false.
Proof.
  intros H. destruct (str_ltb b a) eqn:E; [|reflexivity].
  pose proof (str_ltb_trans _ _ _ H E) as Hc. now rewrite str_ltb_irrefl in Hc.
Qed.

Section Sort.
  Context {A : Type} (key : A -> str).

  Inductive sorted : list A -> Prop :=
  | sorted_nil : sorted []
  | sorted_cons x l : (forall y, In y l -> str_ltb (key x) (key y) = true) -> sorted l -> sorted (x :: l).

  Lemma insert_perm x l : Permutation (insert_by key x l) (x :: l).
  Proof.
    induction l as [|y l IH]; simpl; [reflexivity|].
    destruct (str_ltb (key x) (key y)); [reflexivity|].
    rewrite IH. apply perm_swap.
  Qed.

  Lemma sort_perm l : Permutation (sort_by key l) l.
  Proof. induction l as [|x l IH]; simpl; [reflexivity|]. rewrite insert_perm. now constructor. Qed.

  Lemma insert_sorted x l :
    sorted l -> (forall y, In y l -> key y <> key x) -> sorted (insert_by key x l).
  Proof.
    induction l as [|y l IH]; intros Hs Hne; simpl.
    - constructor; [intros ? []|constructor].
    - inversion Hs as [|? ? Hy Hl]; subst.
      destruct (str_ltb (key x) (key y)) eqn:E.
      + constructor; [|assumption]. intros z [<-|Hz]; [assumption|].
        eapply str_ltb_trans; eauto.
      + constructor.
        * intros z Hz. apply (Permutation_in _ (insert_perm x l)) in Hz. destruct Hz as [<-|Hz]; [|auto].
          destruct (str_ltb_trichotomy (key y) (key x)) as [H|[H|H]]; [assumption| |congruence].
          exfalso. apply (Hne y); simpl; auto.
        * apply IH; [assumption|]. intros z Hz. apply Hne. simpl. auto.
  Qed.

  Lemma sort_sorted l : NoDup (map key l) -> sorted (sort_by key l).
  Proof.
    induction l as [|x l IH]; simpl; intros Hnd; [constructor|].
    inversion Hnd as [|? ? Hx Hl]; subst. apply insert_sorted; [auto|].
    intros y Hy E. apply Hx. apply (Permutation_in _ (sort_perm l)) in Hy.
    rewrite <- E. now apply in_map.
  Qed.

  (* two sorted lists with the same elements are equal *)
  Lemma sorted_unique l1 : forall l2, sorted l1 -> sorted l2 -> Permutation l1 l2 -> l1 = l2.
  Proof.
    induction l1 as [|x l1 IH]; intros l2 H1 H2 Hp.
    - apply Permutation_nil in Hp. now subst.
    - destruct l2 as [|y l2]; [apply Permutation_sym, Permutation_nil in Hp; discriminate|].
      inversion H1 as [|? ? Hx Hl1]; subst. inversion H2 as [|? ? Hy Hl2]; subst.
      assert (x = y).
      { assert (Hxin : In x (y :: l2)) by (eapply Permutation_in; [exact Hp | simpl; auto]).
        assert (Hyin : In y (x :: l1)) by (eapply Permutation_in; [apply Permutation_sym; exact Hp | simpl; auto]).
        destruct Hxin as [->|Hxin]; [reflexivity|]. destruct Hyin as [->|Hyin]; [reflexivity|].
        pose proof (Hx y Hyin) as Ha. pose proof (Hy x Hxin) as Hb.
        apply str_ltb_asym in Ha. congruence. }
      subst y. f_equal. apply IH; auto. now apply Permutation_cons_inv in Hp.
  Qed.

  (* the schedule (order of visiting the map) does not matter *)
  Theorem sort_perm_invariant l1 l2 :
    NoDup (map key l1) -> Permutation l1 l2 -> sort_by key l1 = sort_by key l2.
  Proof.
    intros Hnd Hp. apply sorted_unique.
    - now apply sort_sorted.
    - apply sort_sorted. eapply Permutation_NoDup; [|exact Hnd]. now apply Permutation_map.
    - rewrite sort_perm, Hp. symmetry. apply sort_perm.
  Qed.
End Sort.

(* every kind of site is schedule-independent *)
Theorem site_invariant {A} (k : kind) (l1 l2 : list (str * A)) :
  NoDup (map fst l1) -> Permutation l1 l2 -> (k = KAtMostOne -> length l1 <= 1) ->
  site_out k l1 = site_out k l2.
Proof.
  intros Hnd Hp H1. destruct k; simpl; try reflexivity; try (apply (sort_perm_invariant fst); assumption).
  specialize (H1 eq_refl). destruct l1 as [|x [|y l1]]; simpl in H1; try lia.
  - apply Permutation_nil in Hp. now subst.
  - apply Permutation_length_1_inv in Hp. now subst.
Qed.

(* the generator as a whole: [rest] is everything downstream of the map
   iterations (any function); it receives what each site hands on *)
Theorem generate_deterministic {A B} (rest : list (list (str * A)) -> B)
        (sites : list (kind * list (str * A) * list (str * A))) :
  Forall (fun s => let '(k, l1, l2) := s in
                   NoDup (map fst l1) /\ Permutation l1 l2 /\ (k = KAtMostOne -> length l1 <= 1)) sites ->
  rest (map (fun s => let '(k, l1, _) := s in site_out k l1) sites)
  = rest (map (fun s => let '(k, _, l2) := s in site_out k l2) sites).
Proof.
  intros H. f_equal. induction sites as [|[[k l1] l2] r IH]; [reflexivity|].
  inversion H as [|? ? Hhd Hr]; subst. cbn beta iota in Hhd. destruct Hhd as (Hnd & Hp & H1).
  simpl. f_equal; [now apply site_invariant | now apply IH].
Qed.

(* non-vacuity: two visiting orders of a three-entry map *)
Example sort_example :
  let l1 := [(S_ "b", 2); (S_ "a", 1); (S_ "c", 3)] in
  let l2 := [(S_ "a", 1); (S_ "b", 2); (S_ "c", 3)] in
  NoDup (map fst l1) /\ Permutation l1 l2 /\ site_out KSorted l1 = l2 /\ site_out KSorted l2 = l2.
Proof.
  simpl. repeat split.
  - repeat constructor; simpl; intuition discriminate.
  - apply perm_swap.
Qed.
