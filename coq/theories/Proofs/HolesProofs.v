(* C01, layer 2: the sanitizer [comment] and the name-like alphabet are inert in
   the lexical contexts the holes sit in. *)
From Coq Require Import String.
From Coq Require Import List Bool Arith Ascii Lia.
Import ListNotations.
From Goag Require Import Base.Str Model.GoLit Gen.HoleSites Model.Holes.

(* ------------------------------------------------------------------ *)
(* [comment s] after `//` : every line of the result is a comment line   *)

Definition cf (c : ascii) : str :=
  match subst_lookup [(lf, comment_cont)] c with Some r => r | None => [c] end.

Lemma cf_lf : cf lf = comment_cont.
Proof. reflexivity. Qed.

Lemma cf_other c : ascii_eqb c lf = false -> cf c = [c].
Proof. intros H. unfold cf. cbn [subst_lookup]. now rewrite H. Qed.

Lemma lines_aux_lf r cur : lines_aux (lf :: r) cur = cur :: lines_aux r [].
Proof. cbn [lines_aux]. now rewrite ascii_eqb_refl. Qed.

Lemma lines_aux_other c r cur : ascii_eqb c lf = false -> lines_aux (c :: r) cur = lines_aux r (cur ++ [c]).
Proof. intros H. cbn [lines_aux]. now rewrite H. Qed.

Lemma lines_aux_shape (t : str) : forall cur,
  exists x ls, lines_aux (flat_map cf t) cur = (cur ++ x) :: ls /\
               forallb is_comment_line ls = true.
Proof.
  induction t as [|c t IH]; intros cur.
  - exists [], []. cbn. now rewrite app_nil_r.
  - cbn [flat_map]. destruct (ascii_eqb c lf) eqn:E.
    + apply ascii_eqb_eq in E. subst c. rewrite cf_lf. unfold comment_cont.
      cbn [app]. rewrite lines_aux_lf.
      rewrite (lines_aux_other slash) by reflexivity.
      rewrite (lines_aux_other slash) by reflexivity.
      rewrite (lines_aux_other sp) by reflexivity.
      cbn [app].
      destruct (IH [slash; slash; sp]) as (x & ls & Hl & Hc).
      exists [], (([slash; slash; sp] ++ x) :: ls). split.
      * rewrite app_nil_r. now rewrite Hl.
      * cbn [forallb]. rewrite Hc. reflexivity.
    + rewrite (cf_other _ E). cbn [app]. rewrite (lines_aux_other c) by exact E.
      destruct (IH (cur ++ [c])) as (x & ls & Hl & Hc).
      exists (c :: x), ls. split; [|exact Hc].
      rewrite Hl. now rewrite <- app_assoc.
Qed.

Lemma lines_aux_nolf (p : str) : forall cur r,
  forallb line_safe p = true -> lines_aux (p ++ r) cur = lines_aux r (cur ++ p).
Proof.
  induction p as [|c p IH]; intros cur r H.
  - now rewrite app_nil_r.
  - cbn [forallb] in H. apply andb_true_iff in H as [Hc Hp].
    unfold line_safe in Hc. apply negb_true_iff in Hc.
    cbn [app lines_aux]. rewrite Hc. rewrite IH by exact Hp.
    now rewrite <- app_assoc.
Qed.

(* `// ` <name-like prefix> <comment text> : all lines are comment lines *)
Theorem comment_inert : forall p s,
  forallb line_safe p = true ->
  forallb is_comment_line (lines ([slash; slash] ++ p ++ comment s)) = true.
Proof.
  intros p s Hp. unfold lines.
  rewrite app_assoc.
  rewrite lines_aux_nolf.
  2:{ rewrite forallb_app. now rewrite Hp. }
  unfold comment, replace_bytes.
  destruct (lines_aux_shape (trim_right_lf s) ([] ++ [slash; slash] ++ p)) as (x & ls & Hl & Hc).
  change (flat_map (fun c => match subst_lookup [(lf, comment_cont)] c with Some r => r | None => [c] end)
                   (trim_right_lf s)) with (flat_map cf (trim_right_lf s)).
  rewrite Hl. cbn [forallb]. rewrite Hc. cbn. reflexivity.
Qed.

(* in terms of the lexer: a free text in a `//` hole leaves the lexer in the
   line comment *)
Lemma lex_line_cf (t : str) : forall p, fst (lex LLine p (flat_map cf t)) = LLine.
Proof.
  induction t as [|c t IH]; intros p; [reflexivity|].
  cbn [flat_map]. destruct (ascii_eqb c lf) eqn:E.
  - apply ascii_eqb_eq in E. subst c. rewrite cf_lf. unfold comment_cont.
    cbn [app lex]. cbn. apply IH.
  - rewrite (cf_other _ E). cbn [app lex]. unfold lex1. rewrite E. apply IH.
Qed.

Theorem comment_stays_in_comment : forall s p, fst (lex LLine p (comment s)) = LLine.
Proof. intros s p. unfold comment, replace_bytes. apply (lex_line_cf (trim_right_lf s) p). Qed.

(* ------------------------------------------------------------------ *)
(* name-like text inside "…", `…` and after //                           *)

Theorem str_hole_inert : forall s p, forallb str_safe s = true -> fst (lex LStr p s) = LStr.
Proof.
  induction s as [|c s IH]; intros p H; [reflexivity|].
  cbn [forallb] in H. apply andb_true_iff in H as [Hc Hs].
  unfold str_safe in Hc. apply negb_true_iff in Hc.
  apply orb_false_iff in Hc as [Hc Hl]. apply orb_false_iff in Hc as [Hd Hb].
  cbn [lex]. unfold lex1. rewrite Hb, Hd, Hl. cbn. now apply IH.
Qed.

Theorem raw_hole_inert : forall s p, forallb raw_safe s = true -> fst (lex LRaw p s) = LRaw.
Proof.
  induction s as [|c s IH]; intros p H; [reflexivity|].
  cbn [forallb] in H. apply andb_true_iff in H as [Hc Hs].
  unfold raw_safe in Hc. apply negb_true_iff in Hc.
  cbn [lex]. unfold lex1. rewrite Hc. now apply IH.
Qed.

Theorem line_hole_inert : forall s p, forallb line_safe s = true -> fst (lex LLine p s) = LLine.
Proof.
  induction s as [|c s IH]; intros p H; [reflexivity|].
  cbn [forallb] in H. apply andb_true_iff in H as [Hc Hs].
  unfold line_safe in Hc. apply negb_true_iff in Hc.
  cbn [lex]. unfold lex1. rewrite Hc. now apply IH.
Qed.

Lemma name_char_safe : forall c, name_char c = true -> str_safe c = true /\ raw_safe c = true /\ line_safe c = true.
Proof.
  intros c. destruct c as [b0 b1 b2 b3 b4 b5 b6 b7].
  destruct b0, b1, b2, b3, b4, b5, b6, b7; vm_compute; intros H; try discriminate; repeat split.
Qed.

Theorem name_hole_inert : forall n p,
  forallb name_char n = true ->
  fst (lex LStr p n) = LStr /\ fst (lex LRaw p n) = LRaw /\ fst (lex LLine p n) = LLine.
Proof.
  intros n p H.
  assert (Hs : forallb str_safe n = true /\ forallb raw_safe n = true /\ forallb line_safe n = true).
  { induction n as [|c n IH]; [repeat split|].
    cbn [forallb] in *. apply andb_true_iff in H as [Hc Hn].
    destruct (name_char_safe c Hc) as (H1 & H2 & H3). destruct (IH Hn) as (I1 & I2 & I3).
    rewrite H1, H2, H3, I1, I2, I3. repeat split. }
  destruct Hs as (H1 & H2 & H3).
  repeat split; [now apply str_hole_inert | now apply raw_hole_inert | now apply line_hole_inert].
Qed.

(* non-vacuity: a two-line description, and a path template *)
Example comment_example :
  comment (S_ "first" ++ [lf] ++ S_ "var x int = 1" ++ [lf; lf]) = S_ "first" ++ [lf] ++ S_ "// var x int = 1".
Proof. reflexivity. Qed.

Example name_example : forallb name_char (S_ "/shops/{shop-id}/pets.v2") = true.
Proof. reflexivity. Qed.
