(* C20: if no request-serving step writes a shared location, every interleaving
   is race-free and every request computes exactly what it computes alone. *)
From Coq Require Import List Bool Arith Lia.
Import ListNotations.
From Goag Require Import Model.Concurrency.

Section ConcProofs.
  Variable V L : Type.
  Variable on_read : L -> V -> L.
  Variable to_write : L -> V.
  Variable on_local : L -> L.

  Notation step := Concurrency.step.
  Notation exec1 := (exec1 V L on_read to_write on_local).
  Notation run := (run V L on_read to_write on_local).
  Notation run_alone := (run_alone V L on_read to_write on_local).
  Notation sched1 := (sched1 V L on_read to_write on_local).
  Notation tstate := (tstate L).

  Definition read_only (t : list step) : Prop := forall s, In s t -> is_write s = false.

  (* no conflict between any two steps of different threads *)
  Theorem no_writes_no_race (ts : list (list step)) :
    (forall t, In t ts -> read_only t) ->
    forall i j ti tj a b, i <> j -> nth_error ts i = Some ti -> nth_error ts j = Some tj ->
      In a ti -> In b tj -> conflict a b = false.
  Proof.
    intros H i j ti tj a b _ Hi Hj Ha Hb. unfold conflict.
    destruct (touches a), (touches b); try reflexivity.
    rewrite (H ti (nth_error_In _ _ Hi) a Ha), (H tj (nth_error_In _ _ Hj) b Hb). simpl. apply andb_false_r.
  Qed.

  Lemma exec1_read_only s sigma l : is_write s = false -> fst (exec1 s sigma l) = sigma.
  Proof. destruct s; simpl; [reflexivity|reflexivity|discriminate]. Qed.

  Lemma nth_error_update {A} (l : list A) i j a :
    nth_error (update l i a) j = if Nat.eqb i j then (match nth_error l i with Some _ => Some a | None => None end) else nth_error l j.
  Proof.
    revert i j. induction l as [|x r IH]; intros i j; simpl.
    - destruct (Nat.eqb i j); destruct i, j; reflexivity.
    - destruct i as [|i], j as [|j]; simpl; try reflexivity. apply IH.
  Qed.

  (* the invariant of any schedule over read-only threads: the store never
     changes, and each thread is somewhere along its own solo execution *)
  Definition along (sigma0 : store V) (init : tstate) (cur : tstate) : Prop :=
    exists done, todo L init = done ++ todo L cur /\ snd (run_alone done sigma0 (priv L init)) = priv L cur.

  Lemma run_alone_app_ro done s sigma l :
    (forall x, In x done -> is_write x = false) -> is_write s = false ->
    snd (run_alone (done ++ [s]) sigma l) = snd (exec1 s sigma (snd (run_alone done sigma l))).
  Proof.
    revert sigma l. induction done as [|d r IH]; intros sigma l Hd Hs; simpl.
    - destruct (exec1 s sigma l) as [s' l'] eqn:E. reflexivity.
    - pose proof (exec1_read_only d sigma l (Hd d (or_introl eq_refl))) as Hst.
      destruct (exec1 d sigma l) as [s' l'] eqn:E. simpl in Hst. subst s'.
      apply IH; [intros x Hx; apply Hd; simpl; auto|exact Hs].
  Qed.

  Theorem isolation_invariant (sigma0 : store V) (inits : list tstate) :
    (forall t, In t inits -> read_only (todo L t)) ->
    forall schedule, let c := run schedule (sigma0, inits) in
      fst c = sigma0 /\ length (snd c) = length inits /\
      forall i init cur, nth_error inits i = Some init -> nth_error (snd c) i = Some cur -> along sigma0 init cur.
  Proof.
    intros Hro schedule.
    assert (Hgen : forall c, (fst c = sigma0 /\ length (snd c) = length inits /\
                (forall i init cur, nth_error inits i = Some init -> nth_error (snd c) i = Some cur -> along sigma0 init cur)) ->
              let c' := run schedule c in
              fst c' = sigma0 /\ length (snd c') = length inits /\
              (forall i init cur, nth_error inits i = Some init -> nth_error (snd c') i = Some cur -> along sigma0 init cur)).
    { induction schedule as [|k rest IH]; intros c Hc; simpl; [exact Hc|].
      apply IH. clear IH. destruct c as [sigma ths]. destruct Hc as (Hs & Hlen & Hal). simpl in Hs, Hlen, Hal. subst sigma.
      unfold Concurrency.sched1. simpl fst. simpl snd.
      destruct (nth_error ths k) as [[td pl]|] eqn:Ek; [|simpl; auto].
      destruct td as [|s r]; [simpl; auto|].
      (* thread k does step s *)
      assert (Hk : k < length inits) by (rewrite <- Hlen; apply nth_error_Some; congruence).
      destruct (nth_error inits k) as [initk|] eqn:Eik; [|apply nth_error_None in Eik; lia].
      destruct (Hal k initk _ Eik Ek) as (done & Htodo & Hpriv). simpl in Htodo, Hpriv.
      assert (Hros : is_write s = false).
      { apply (Hro initk (nth_error_In _ _ Eik)). rewrite Htodo. apply in_or_app. right. simpl. auto. }
      assert (Hrod : forall x, In x done -> is_write x = false).
      { intros x Hx. apply (Hro initk (nth_error_In _ _ Eik)). rewrite Htodo. apply in_or_app. auto. }
      pose proof (exec1_read_only s sigma0 pl Hros) as Hst.
      destruct (exec1 s sigma0 pl) as [sigma' l'] eqn:Ee. simpl in Hst. subst sigma'. simpl.
      split; [reflexivity|]. split.
      { clear -Hlen. revert k. generalize dependent (length inits). induction ths as [|x t IH]; intros n Hlen k; simpl; [exact Hlen|].
        destruct k; simpl; [exact Hlen|]. destruct n; [discriminate|]. simpl in Hlen. injection Hlen as Hlen. f_equal. now apply IH. }
      intros i init cur Hi Hc. rewrite nth_error_update in Hc.
      destruct (Nat.eqb_spec k i) as [->|Hne].
      - rewrite Ek in Hc. injection Hc as <-. rewrite Eik in Hi. injection Hi as <-.
        exists (done ++ [s]). simpl. split; [rewrite Htodo, <- app_assoc; reflexivity|].
        rewrite (run_alone_app_ro done s sigma0 (priv L initk) Hrod Hros), Hpriv, Ee. reflexivity.
      - exact (Hal i init cur Hi Hc). }
    apply (Hgen (sigma0, inits)). simpl. split; [reflexivity|]. split; [reflexivity|].
    intros i init cur Hi Hc. rewrite Hi in Hc. injection Hc as <-. exists []. simpl. auto.
  Qed.

  (* every request that has run to completion holds exactly what it computes alone,
     whatever the other requests did in between *)
  Theorem isolation (sigma0 : store V) (inits : list tstate) schedule i init cur :
    (forall t, In t inits -> read_only (todo L t)) ->
    nth_error inits i = Some init -> nth_error (snd (run schedule (sigma0, inits))) i = Some cur ->
    todo L cur = [] ->
    priv L cur = snd (run_alone (todo L init) sigma0 (priv L init)) /\ fst (run schedule (sigma0, inits)) = sigma0.
  Proof.
    intros Hro Hi Hc Hfin. destruct (isolation_invariant sigma0 inits Hro schedule) as (Hs & _ & Hal).
    destruct (Hal i init cur Hi Hc) as (done & Htodo & Hpriv). rewrite Hfin, app_nil_r in Htodo. subst done.
    split; [now rewrite Hpriv|exact Hs].
  Qed.
End ConcProofs.
