(* Theorems about the generated API as a whole (gen_* + serve). *)
From Coq Require Import String.
From Coq Require Import List Bool Arith Ascii NArith Lia.
Import ListNotations.
From Goag Require Import Base.Str Model.Router Model.Serve Spec.RouterSpec Spec.ServeSpec
     Proofs.RouterStrings Proofs.RouterTrie Proofs.RouterFinal.

(* the generator's base-path normalisation is the specification's *)
Lemma gen_base_norm s : gen_base s = norm_base (declared_base s).
Proof. reflexivity. Qed.

Lemma tmpl_of_raw_nonempty raw : tmpl_of_raw raw <> [].
Proof.
  unfold tmpl_of_raw. intros E. apply map_eq_nil in E. eapply split_slash_nonempty; eauto.
Qed.

(* the property's quantifier: path templates pairwise non-equivalent *)
Definition wf_rspec (s : rspec) : Prop := NoDup (map fst (gen_templates s)).

Lemma gen_templates_ok s :
  forall t it, In (t, it) (gen_templates s) -> t <> [] /\ tot true it.
Proof.
  intros t it Hin. unfold gen_templates in Hin. apply in_map_iff in Hin as [p [E _]].
  injection E as <- <-. split; [apply tmpl_of_raw_nonempty|]. left. reflexivity.
Qed.

(* (the route functions do not depend on whether a CORS handler is installed:
   a preflight entry always yields a handler — the CORS handler or not-found) *)
Theorem gen_route_match s path m :
  wf_rspec s ->
  route_root true (gen_base s) (gen_tree s) path m
  = match_request (gen_templates s) (declared_base s) path m.
Proof.
  intros Hwf. rewrite gen_base_norm. unfold gen_tree.
  apply route_root_match; [exact Hwf | apply gen_templates_ok].
Qed.

(* dispatched => the reported template is the matched operation's template,
   which is the raw path of a declared path item *)
Lemma gen_item_raw s t it : In (t, it) (gen_templates s) -> exists p, In p (s_paths s) /\ i_raw it = p_raw p /\ t = tmpl_of_raw (p_raw p).
Proof.
  unfold gen_templates. intros Hin. apply in_map_iff in Hin as [p [E Hin]]. injection E as <- <-.
  exists p. split; [|auto].
  clear -Hin. unfold sort_by in Hin.
  induction (s_paths s) as [|q l IH]; simpl in Hin; [destruct Hin|].
  assert (Hins : forall x l0, In p (insert_by p_raw x l0) -> p = x \/ In p l0).
  { intros x l0. induction l0 as [|y l0 IH0]; simpl.
    - intros [H|[]]; auto.
    - destruct (str_ltb (p_raw x) (p_raw y)); simpl; intros [H|H]; auto.
      destruct (IH0 H); auto. }
  apply Hins in Hin as [-> | Hin]; simpl; auto.
Qed.

(* ------------------------------------------------------------------ *)
(* C16: middleware wrapping                                             *)

Definition is_inner (e : event) : Prop :=
  match e with Auth _ _ _ | HandlerEv _ _ _ => True | _ => False end.

Definition is_spec_request (s : rspec) (cfg : api_cfg) (rq : request) : bool :=
  c_sf cfg && str_eqb (q_path rq) (gen_base s ++ slash :: s_spec_name s).

Definition routed (s : rspec) (cfg : api_cfg) (rq : request) : option res :=
  route_root true (gen_base s) (gen_tree s) (q_path rq) (q_method rq).

Lemma run_auth_inner fields cfg rq refs : Forall is_inner (fst (run_auth fields cfg rq refs)).
Proof.
  induction refs as [|a refs IH]; simpl; [constructor|].
  destruct (index_of a fields 0) as [i|]; [|exact IH].
  assert (Hrej : forall tok, Forall is_inner
            (fst (let (evs, r) := run_auth fields cfg rq refs in (Auth i tok false :: evs, r)))).
  { intros tok. destruct (run_auth fields cfg rq refs). simpl in *. constructor; simpl; auto. }
  destruct (hook_policy cfg i) as [| | |ptok] eqn:Ep; [exact IH| | |];
    (destruct (credential a rq) as [tok|]; [|exact IH]).
  - simpl. apply Hrej.
  - simpl. repeat constructor.
  - simpl. destruct (str_eqb ptok tok); [repeat constructor | apply Hrej].
Qed.

(* a dispatched request passes through every middleware exactly once, the
   first-declared outermost, all of them outside the security check, each seeing
   the matched template *)
Theorem wrapping s cfg rq it op :
  is_spec_request s cfg rq = false -> routed s cfg rq = Some (RHandler it op) ->
  exists inner,
    trace (serve s cfg rq) =
      map (fun i => Enter i (i_raw it)) (seq 0 (c_mw cfg)) ++ inner ++ rev (map Leave (seq 0 (c_mw cfg)))
    /\ Forall is_inner inner.
Proof.
  unfold is_spec_request, routed, serve. intros -> ->.
  destruct (o_auth op) as [|a refs] eqn:Ea.
  - eexists. split; [reflexivity|]. repeat constructor.
  - pose proof (run_auth_inner (hook_fields s) cfg rq (a :: refs)) as Hin.
    destruct (run_auth (hook_fields s) cfg rq (a :: refs)) as [evs r]. simpl in Hin.
    destruct r as [i|]; simpl.
    + exists (evs ++ [HandlerEv (o_method op) (i_raw it) (Some i)]). split.
      * now rewrite <- app_assoc.
      * apply Forall_app. split; [assumption|repeat constructor].
    + exists evs. split; [reflexivity|assumption].
Qed.

Definition no_middleware_event (e : event) : Prop :=
  match e with Enter _ _ | Leave _ => False | _ => True end.

Theorem unrouted_bypass s cfg rq :
  is_spec_request s cfg rq = false -> routed s cfg rq = None ->
  serve s cfg rq = {| status := 404; trace := if c_nf cfg then [NotFoundEv] else [] |}.
Proof. unfold is_spec_request, routed, serve. now intros -> ->. Qed.

Theorem spec_file_bypass s cfg rq :
  is_spec_request s cfg rq = true -> serve s cfg rq = {| status := 200; trace := [SpecFileEv] |}.
Proof. unfold is_spec_request, serve. now intros ->. Qed.

(* the spec route answers only when the handler is installed *)
Theorem spec_file_only_when_installed s cfg rq :
  c_sf cfg = false -> is_spec_request s cfg rq = false.
Proof. unfold is_spec_request. now intros ->. Qed.

Theorem cors_bypass s cfg rq it :
  is_spec_request s cfg rq = false -> routed s cfg rq = Some (RCors it) ->
  Forall no_middleware_event (trace (serve s cfg rq)).
Proof.
  unfold is_spec_request, routed, serve. intros -> ->.
  destruct (i_cors it) as [[ms hs]|]; [destruct (c_cors cfg), (c_nf cfg)|]; simpl; repeat constructor.
Qed.

(* C17: without a CORS handler installed the preflight request is not found *)
Theorem cors_nil_served s cfg rq it ms hs :
  is_spec_request s cfg rq = false -> routed s cfg rq = Some (RCors it) -> i_cors it = Some (ms, hs) ->
  c_cors cfg = false ->
  serve s cfg rq = {| status := 404; trace := if c_nf cfg then [NotFoundEv] else [] |}.
Proof. unfold is_spec_request, routed, serve. intros -> -> -> ->. reflexivity. Qed.

Theorem cors_installed_served s cfg rq it ms hs :
  is_spec_request s cfg rq = false -> routed s cfg rq = Some (RCors it) -> i_cors it = Some (ms, hs) ->
  c_cors cfg = true ->
  serve s cfg rq = {| status := 204; trace := [CorsEv ms hs] |}.
Proof. unfold is_spec_request, routed, serve. intros -> -> -> ->. reflexivity. Qed.

(* ------------------------------------------------------------------ *)
(* C11: security                                                        *)

Lemma run_auth_some fields cfg rq refs evs i :
  run_auth fields cfg rq refs = (evs, Some i) ->
  exists a tok, In a refs /\ index_of a fields 0 = Some i /\ credential a rq = Some tok /\
                accepts (hook_policy cfg i) tok = true.
Proof.
  revert evs. induction refs as [|a refs IH]; simpl; intros evs H; [discriminate|].
  assert (Hrec : forall evs', run_auth fields cfg rq refs = (evs', Some i) ->
                 exists a0 tok, (a = a0 \/ In a0 refs) /\ index_of a0 fields 0 = Some i /\
                                credential a0 rq = Some tok /\ accepts (hook_policy cfg i) tok = true).
  { intros evs' H'. destruct (IH _ H') as (a0 & tok & Hin & Hrest). exists a0, tok. tauto. }
  destruct (index_of a fields 0) as [j|] eqn:Ej; [|eauto].
  destruct (hook_policy cfg j) as [| | |ptok] eqn:Ep; [eauto| | |];
    (destruct (credential a rq) as [tok|] eqn:Ec; [|eauto]); simpl in H.
  - destruct (run_auth fields cfg rq refs) as [evs' r'] eqn:Er. injection H as _ ->. eauto.
  - injection H as _ <-. exists a, tok. rewrite Ep. auto.
  - destruct (str_eqb ptok tok) eqn:Eacc.
    + injection H as _ <-. exists a, tok. rewrite Ep. simpl. auto.
    + destruct (run_auth fields cfg rq refs) as [evs' r'] eqn:Er. injection H as _ ->. eauto.
Qed.

Lemma run_auth_none fields cfg rq refs evs :
  run_auth fields cfg rq refs = (evs, None) ->
  forall a i tok, In a refs -> index_of a fields 0 = Some i -> credential a rq = Some tok ->
                  accepts (hook_policy cfg i) tok = false.
Proof.
  revert evs. induction refs as [|a refs IH]; simpl; intros evs H a0 i tok Hin Hi Hc; [destruct Hin|].
  destruct (index_of a fields 0) as [j|] eqn:Ej.
  - destruct (hook_policy cfg j) as [| | |ptok] eqn:Ep.
    + destruct Hin as [<- | Hin]; [|eauto]. rewrite Ej in Hi. injection Hi as <-. now rewrite Ep.
    + destruct (credential a rq) as [tok'|] eqn:Ec.
      * simpl in H. destruct (run_auth fields cfg rq refs) as [evs' r'] eqn:Er. injection H as _ ->.
        destruct Hin as [<- | Hin]; [|eauto]. rewrite Ej in Hi. injection Hi as <-. now rewrite Ep.
      * destruct Hin as [<- | Hin]; [congruence|eauto].
    + destruct (credential a rq) as [tok'|] eqn:Ec.
      * simpl in H. discriminate.
      * destruct Hin as [<- | Hin]; [congruence|eauto].
    + destruct (credential a rq) as [tok'|] eqn:Ec.
      * simpl in H. destruct (str_eqb ptok tok') eqn:Eacc; [discriminate|].
        destruct (run_auth fields cfg rq refs) as [evs' r'] eqn:Er. injection H as _ ->.
        destruct Hin as [<- | Hin]; [|eauto]. rewrite Ej in Hi. injection Hi as <-.
        rewrite Ec in Hc. injection Hc as <-. rewrite Ep. simpl. exact Eacc.
      * destruct Hin as [<- | Hin]; [congruence|eauto].
  - destruct Hin as [<- | Hin]; [congruence|eauto].
Qed.

(* requirement shapes goag implements: every alternative names exactly one
   declared scheme of a supported kind *)
Definition simple_alt (s : rspec) (alt : requirement) : Prop :=
  exists n k a, alt = [n] /\ lookup n (s_schemes s) = Some k /\ scheme_ref k = Some a.

Definition simple_reqs (s : rspec) (o : rop) : Prop :=
  forall alt, In alt (effective s o) -> simple_alt s alt.

Lemma effective_same s o : effective s o = effective_reqs s o.
Proof. reflexivity. Qed.

Lemma in_kept_kinds s o k :
  In k (kept_kinds s o) <->
  exists alt n, In alt (effective s o) /\ first_scheme alt = Some n /\ lookup n (s_schemes s) = Some k.
Proof.
  unfold kept_kinds. rewrite in_flat_map. rewrite <- effective_same. split.
  - intros [alt [Hin Hk]]. destruct (first_scheme alt) as [n|] eqn:En; [|destruct Hk].
    destruct (lookup n (s_schemes s)) as [k'|] eqn:El; [|destruct Hk].
    destruct Hk as [<-|[]]. eauto.
  - intros (alt & n & Hin & En & El). exists alt. split; [assumption|]. rewrite En, El. simpl. auto.
Qed.

Lemma in_gen_auth s o a :
  In a (gen_auth s o) <-> exists k, In k (kept_kinds s o) /\ scheme_ref k = Some a.
Proof.
  unfold gen_auth. rewrite in_app_iff, in_flat_map. split.
  - intros [H | [k [Hk Ha]]].
    + destruct (existsb is_bearer (kept_kinds s o)) eqn:E; [|destruct H].
      destruct H as [<-|[]]. apply existsb_exists in E as [k [Hk Hb]].
      destruct k; try discriminate. eauto.
    + exists k. split; [assumption|]. destruct k; simpl in *; try tauto; destruct Ha as [<-|[]]; reflexivity.
  - intros [k [Hk Ha]]. destruct k; simpl in Ha; try discriminate; injection Ha as <-.
    + left. replace (existsb is_bearer (kept_kinds s o)) with true; [simpl; auto|].
      symmetry. apply existsb_exists. exists KBearer. auto.
    + right. exists (KKeyHeader name). simpl. auto.
    + right. exists (KKeyQuery name). simpl. auto.
Qed.

Lemma alt_accepts_simple s cfg rq n k a :
  lookup n (s_schemes s) = Some k -> scheme_ref k = Some a ->
  alt_accepts s cfg rq [n] =
  match index_of a (hook_fields s) 0, credential a rq with
  | Some i, Some tok => if accepts (hook_policy cfg i) tok then Some i else None
  | _, _ => None
  end.
Proof. intros Hl Hr. unfold alt_accepts, scheme_accepts. simpl. now rewrite Hl, Hr. Qed.

(* The handler runs only after one alternative of the operation's OWN
   effective requirement was accepted, and receives that authenticator's
   request; otherwise nothing accepted and the response is 401. *)
Theorem auth_sound s cfg rq o evs i :
  simple_reqs s o ->
  run_auth (hook_fields s) cfg rq (gen_auth s o) = (evs, Some i) ->
  exists alt, In alt (effective s o) /\ alt_accepts s cfg rq alt = Some i.
Proof.
  intros Hs H. apply run_auth_some in H as (a & tok & Hin & Hi & Hc & Hacc).
  apply in_gen_auth in Hin as [k [Hk Ha]].
  apply in_kept_kinds in Hk as (alt & n & Halt & Hn & Hl).
  destruct (Hs alt Halt) as (n' & k' & a' & -> & Hl' & Ha').
  simpl in Hn. injection Hn as <-. rewrite Hl in Hl'. injection Hl' as <-. rewrite Ha in Ha'. injection Ha' as <-.
  exists [n']. split; [assumption|]. rewrite (alt_accepts_simple _ _ _ _ _ _ Hl Ha), Hi, Hc, Hacc. reflexivity.
Qed.

Theorem auth_complete s cfg rq o evs :
  simple_reqs s o ->
  run_auth (hook_fields s) cfg rq (gen_auth s o) = (evs, None) ->
  forall alt, In alt (effective s o) -> alt_accepts s cfg rq alt = None.
Proof.
  intros Hs H alt Halt. destruct (Hs alt Halt) as (n & k & a & -> & Hl & Ha).
  rewrite (alt_accepts_simple _ _ _ _ _ _ Hl Ha).
  destruct (index_of a (hook_fields s) 0) as [i|] eqn:Hi; [|reflexivity].
  destruct (credential a rq) as [tok|] eqn:Hc; [|reflexivity].
  rewrite (run_auth_none _ _ _ _ _ H a i tok); auto.
  apply in_gen_auth. exists k. split; [|assumption]. apply in_kept_kinds. exists [n], n. auto.
Qed.

(* public operations: no requirement, no wrapper *)
Theorem public_no_auth s o : effective s o = [] -> gen_auth s o = [].
Proof.
  intros H. unfold gen_auth, kept_kinds. rewrite <- effective_same, H. reflexivity.
Qed.

(* an operation with a (simple) requirement always gets the wrapper *)
Theorem secured_has_auth s o : simple_reqs s o -> effective s o <> [] -> gen_auth s o <> [].
Proof.
  intros Hs Hne. destruct (effective s o) as [|alt rest] eqn:E; [congruence|].
  destruct (Hs alt) as (n & k & a & -> & Hl & Ha); [rewrite E; simpl; auto|].
  assert (In a (gen_auth s o)).
  { apply in_gen_auth. exists k. split; [|assumption]. apply in_kept_kinds. exists [n], n. rewrite E. simpl. auto. }
  intros E0. rewrite E0 in H. destruct H.
Qed.

(* credentials for a scheme the operation does not list never grant access:
   every hook consulted belongs to a scheme of the effective requirement *)
Theorem foreign_credentials s o a :
  In a (gen_auth s o) ->
  exists alt n k, In alt (effective s o) /\ In n alt /\ lookup n (s_schemes s) = Some k /\ scheme_ref k = Some a.
Proof.
  intros H. apply in_gen_auth in H as [k [Hk Ha]]. apply in_kept_kinds in Hk as (alt & n & Halt & Hn & Hl).
  exists alt, n, k. repeat split; auto. destruct alt; simpl in Hn; [discriminate|]. injection Hn as ->. simpl. auto.
Qed.

(* ------------------------------------------------------------------ *)
(* specs the generator accepts have only simple requirements            *)

Theorem accepted_simple s p o :
  gen_accepts s = true -> In p (s_paths s) -> In o (p_ops p) -> simple_reqs s o.
Proof.
  unfold gen_accepts. intros H Hp Ho alt Halt. apply andb_true_iff in H as [Hg Hops].
  rewrite forallb_forall in Hops. specialize (Hops p Hp). rewrite forallb_forall in Hops. specialize (Hops o Ho).
  assert (Hsup : alt_supported (s_schemes s) alt = true).
  { unfold effective in Halt. destruct (r_security o) as [l|].
    - simpl in Hops. rewrite forallb_forall in Hops. now apply Hops.
    - destruct (s_global s) as [l|]; [|destruct Halt]. simpl in Hg. rewrite forallb_forall in Hg. now apply Hg. }
  unfold alt_supported in Hsup. destruct alt as [|n [|? ?]]; try discriminate.
  destruct (lookup n (s_schemes s)) as [k|] eqn:El; [|discriminate].
  destruct k; simpl in Hsup; try discriminate; eexists n, _, _; (split; [reflexivity|]); (split; [exact El|]); reflexivity.
Qed.

(* ------------------------------------------------------------------ *)
(* C17: CORS preflight arguments                                        *)

Lemma dedup_add_in seen k x : In x (dedup_add seen k) <-> x = k \/ In x seen.
Proof.
  unfold dedup_add. destruct (existsb (str_eqb k) seen) eqn:E.
  - split; [auto|]. intros [-> | H]; [|assumption].
    apply existsb_exists in E as [y [Hy Ey]]. apply str_eqb_eq in Ey. now subst.
  - rewrite in_app_iff. simpl. intuition.
Qed.

Lemma dedup_add_nodup seen k : NoDup seen -> NoDup (dedup_add seen k).
Proof.
  unfold dedup_add. intros H. destruct (existsb (str_eqb k) seen) eqn:E; [assumption|].
  apply NoDup_app_snoc; [assumption|]. intros Hin.
  assert (existsb (str_eqb k) seen = true) by (apply existsb_exists; exists k; split; [assumption|apply str_eqb_refl]).
  congruence.
Qed.

Section FoldOpt.
  Context {K : Type} (g : K -> option str).
  Definition step_opt (a : list str) (k : K) : list str :=
    match g k with Some x => dedup_add a x | None => a end.

  Lemma fold_opt_in l : forall acc x,
    In x (fold_left step_opt l acc) <-> In x acc \/ exists k, In k l /\ g k = Some x.
  Proof.
    induction l as [|k l IH]; intros acc x; simpl.
    - split; [auto|]. intros [H | (k & [] & _)]. exact H.
    - rewrite IH. unfold step_opt at 1. destruct (g k) as [y|] eqn:E.
      + rewrite dedup_add_in. split.
        * intros [[-> | H] | (k' & Hk' & Hg)]; eauto.
        * intros [H | (k' & [<- | Hk'] & Hg)]; eauto. rewrite E in Hg. injection Hg as ->. auto.
      + split.
        * intros [H | (k' & Hk' & Hg)]; eauto.
        * intros [H | (k' & [<- | Hk'] & Hg)]; eauto. congruence.
  Qed.

  Lemma fold_opt_nodup l : forall acc, NoDup acc -> NoDup (fold_left step_opt l acc).
  Proof.
    induction l as [|k l IH]; intros acc H; simpl; [assumption|]. apply IH.
    unfold step_opt. destruct (g k); [now apply dedup_add_nodup | assumption].
  Qed.
End FoldOpt.

Definition header_of_kind (k : scheme_kind) : option str :=
  match k with
  | KBearer => Some (S_ "Authorization")
  | KKeyHeader n => Some (canon_key n)
  | _ => None
  end.

Definition op_headers_step (s : rspec) (p : rpath) (acc : list str) (o : rop) : list str :=
  fold_left (step_opt header_of_kind) (kept_kinds s o)
            (fold_left (step_opt (fun h => Some (canon_key h))) (p_headers p ++ r_headers o) acc).

Lemma gen_cors_headers_unfold s p :
  gen_cors_headers s p = fold_left (op_headers_step s p) (ops_sorted p) [].
Proof.
  unfold gen_cors_headers.
  (* the two step functions are the same up to the shape of their matches *)
  assert (E : forall acc o,
             (let acc1 := fold_left (fun a h => dedup_add a (canon_key h)) (p_headers p ++ r_headers o) acc in
              fold_left (fun a k => match k with
                                    | KBearer => dedup_add a (S_ "Authorization")
                                    | KKeyHeader n => dedup_add a (canon_key n)
                                    | _ => a
                                    end) (kept_kinds s o) acc1) = op_headers_step s p acc o).
  { intros acc o. unfold op_headers_step. cbn zeta.
    assert (E1 : forall l a, fold_left (fun a h => dedup_add a (canon_key h)) l a
                             = fold_left (step_opt (fun h => Some (canon_key h))) l a)
      by (induction l; simpl; auto).
    rewrite E1.
    assert (E2 : forall l a, fold_left (fun a k => match k with
                                                   | KBearer => dedup_add a (S_ "Authorization")
                                                   | KKeyHeader n => dedup_add a (canon_key n)
                                                   | _ => a
                                                   end) l a
                             = fold_left (step_opt header_of_kind) l a).
    { induction l as [|k l IH]; intros a; simpl; [reflexivity|]. rewrite IH. f_equal. destruct k; reflexivity. }
    apply E2. }
  clear -E.
  assert (forall l acc, fold_left (fun acc o =>
             let acc1 := fold_left (fun a h => dedup_add a (canon_key h)) (p_headers p ++ r_headers o) acc in
             fold_left (fun a k => match k with
                                   | KBearer => dedup_add a (S_ "Authorization")
                                   | KKeyHeader n => dedup_add a (canon_key n)
                                   | _ => a
                                   end) (kept_kinds s o) acc1) l acc
                        = fold_left (op_headers_step s p) l acc) as H.
  { induction l as [|o l IH]; intros acc; simpl; [reflexivity|]. rewrite <- IH. f_equal. apply E. }
  apply H.
Qed.

Lemma op_step_in s p o acc x :
  In x (op_headers_step s p acc o) <->
  In x acc \/ (exists h, In h (p_headers p ++ r_headers o) /\ x = canon_key h) \/
  (exists k, In k (kept_kinds s o) /\ header_of_kind k = Some x).
Proof.
  unfold op_headers_step. rewrite fold_opt_in, fold_opt_in. split.
  - intros [[H | (h & Hh & E)] | H]; auto. injection E as <-. eauto.
  - intros [H | [(h & Hh & ->) | H]]; auto. left. right. eauto.
Qed.

Lemma cors_headers_in s p x : forall l acc,
  In x (fold_left (op_headers_step s p) l acc) <->
  In x acc \/ exists o, In o l /\
    ((exists h, In h (p_headers p ++ r_headers o) /\ x = canon_key h) \/
     (exists k, In k (kept_kinds s o) /\ header_of_kind k = Some x)).
Proof.
  induction l as [|o l IH]; intros acc; simpl.
  - split; [auto|]. intros [H | (o & [] & _)]. exact H.
  - rewrite IH, op_step_in. split.
    + intros [[H | H] | (o' & Ho' & H)]; eauto 6.
    + intros [H | (o' & [<- | Ho'] & H)]; eauto 6.
Qed.

Lemma cors_headers_nodup s p : forall l acc, NoDup acc -> NoDup (fold_left (op_headers_step s p) l acc).
Proof.
  induction l as [|o l IH]; intros acc H; simpl; [assumption|]. apply IH.
  unfold op_headers_step. now apply fold_opt_nodup, fold_opt_nodup.
Qed.

Lemma security_headers_in s o x :
  simple_reqs s o ->
  In x (security_headers s o) <-> exists k, In k (kept_kinds s o) /\ header_of_kind k = Some x.
Proof.
  intros Hs. unfold security_headers. rewrite in_flat_map. split.
  - intros [alt [Halt Hx]]. destruct (Hs alt Halt) as (n & k & a & -> & Hl & Ha).
    simpl in Hx. rewrite app_nil_r, Hl in Hx. exists k. split.
    + apply in_kept_kinds. exists [n], n. auto.
    + destruct k; simpl in *; try tauto; destruct Hx as [<-|[]]; reflexivity.
  - intros [k [Hk Hh]]. apply in_kept_kinds in Hk as (alt & n & Halt & Hn & Hl).
    destruct (Hs alt Halt) as (n' & k' & a & -> & Hl' & Ha). simpl in Hn. injection Hn as <-.
    exists [n']. split; [assumption|]. simpl. rewrite app_nil_r, Hl.
    destruct k; simpl in Hh; try discriminate; injection Hh as <-; simpl; auto.
Qed.

(* With CORS enabled, a path item without an OPTIONS operation gets a
   synthetic preflight entry advertising exactly its declared methods and the
   canonicalised, de-duplicated set of its declared header parameters plus the
   headers its security schemes read. *)
Theorem cors_args s p :
  s_cors s = true -> has_options p = false -> ops_sorted p <> [] ->
  (forall o, In o (ops_sorted p) -> simple_reqs s o) ->
  exists hs, i_cors (gen_item s p) = Some (map r_method (declared_ops p), hs) /\
             NoDup hs /\ forall x, In x hs <-> In x (preflight_headers s p).
Proof.
  intros Hc Ho Hne Hs. exists (gen_cors_headers s p). split; [|split].
  - unfold gen_item. simpl. rewrite Hc, Ho. change (declared_ops p) with (ops_sorted p).
    destruct (ops_sorted p) eqn:E; [congruence|reflexivity].
  - rewrite gen_cors_headers_unfold. apply cors_headers_nodup. constructor.
  - intros x. rewrite gen_cors_headers_unfold, cors_headers_in. unfold preflight_headers. rewrite in_flat_map.
    change (declared_ops p) with (ops_sorted p). split.
    + intros [[] | (o & Hin & H)]. exists o. split; [assumption|]. rewrite in_app_iff, in_map_iff.
      destruct H as [(h & Hh & ->) | H]; [left; eauto | right]. now apply security_headers_in; auto.
    + intros (o & Hin & H). right. exists o. split; [assumption|]. rewrite in_app_iff, in_map_iff in H.
      destruct H as [(h & <- & Hh) | H]; [left; eauto | right]. now apply security_headers_in in H; auto.
Qed.

(* a declared OPTIONS operation is never shadowed: no synthetic entry exists *)
Theorem cors_not_shadowed s p : has_options p = true -> i_cors (gen_item s p) = None.
Proof. intros H. unfold gen_item. simpl. rewrite H. now rewrite andb_false_r. Qed.

Theorem cors_off s p : s_cors s = false -> i_cors (gen_item s p) = None.
Proof. intros H. unfold gen_item. simpl. now rewrite H. Qed.

(* without a CORS handler installed the preflight request is not found: the
   leaf switch returns nil *)
Theorem cors_nil_handler it :
  find_op method_options (i_ops it) = None -> i_cors it <> None ->
  leaf_lookup false it method_options = Some None.
Proof.
  intros Hf Hc. unfold leaf_lookup. rewrite Hf. destruct (i_cors it); [|congruence].
  now rewrite str_eqb_refl.
Qed.

Theorem cors_installed_handler it ms hs :
  find_op method_options (i_ops it) = None -> i_cors it = Some (ms, hs) ->
  leaf_lookup true it method_options = Some (Some (RCors it)).
Proof. intros Hf Hc. unfold leaf_lookup. rewrite Hf, Hc. now rewrite str_eqb_refl. Qed.
