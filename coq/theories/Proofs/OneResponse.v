(* C14, second half: exactly one responder acts on every request. *)
From Coq Require Import String.
From Coq Require Import List Bool Arith Ascii Lia.
Import ListNotations.
From Goag Require Import Base.Str Model.Router Model.Serve.

(* the events after which a response has been written by user-visible code *)
Definition is_responder (e : event) : bool :=
  match e with
  | HandlerEv _ _ _ | NotFoundEv | SpecFileEv | CorsEv _ _ => true
  | _ => false
  end.

Definition responder_events (o : outcome) : nat := length (filter is_responder (trace o)).

(* the built-in writers: authMiddlewareOr's WriteHeader(401) and http.NotFoundHandler() *)
Definition builtin_writer (o : outcome) : nat :=
  if Nat.eqb (status o) 401 then 1
  else if Nat.eqb (status o) 404 && Nat.eqb (responder_events o) 0 then 1 else 0.

Lemma filter_enters n raw : filter is_responder (map (fun i => Enter i raw) (seq 0 n)) = [].
Proof. generalize 0. induction n as [|n IH]; intros k; simpl; [reflexivity|apply IH]. Qed.

Lemma filter_leaves l : filter is_responder (map Leave l) = [].
Proof. induction l as [|x r IH]; simpl; [reflexivity|exact IH]. Qed.

Lemma filter_rev {A} (f : A -> bool) l : filter f (rev l) = rev (filter f l).
Proof.
  induction l as [|x r IH]; simpl; [reflexivity|]. rewrite filter_app, IH. simpl. destruct (f x); simpl; [reflexivity|now rewrite app_nil_r].
Qed.

Lemma run_auth_no_responder fields cfg rq refs :
  filter is_responder (fst (run_auth fields cfg rq refs)) = [].
Proof.
  induction refs as [|a rest IH]; simpl; [reflexivity|].
  destruct (index_of a fields 0) as [i|]; [|exact IH].
  destruct (hook_policy cfg i) as [| | |ptok]; try exact IH;
    (destruct (credential a rq) as [ctok|]; [|exact IH];
     match goal with
     | |- context [if ?b then _ else _] => destruct b; [reflexivity|]
     | _ => idtac
     end;
     destruct (run_auth fields cfg rq rest) as [evs r]; simpl in *; first [reflexivity | exact IH]).
Qed.

Theorem one_responder s cfg rq :
  responder_events (serve s cfg rq) + builtin_writer (serve s cfg rq) = 1.
Proof.
  unfold serve.
  destruct (c_sf cfg && str_eqb (q_path rq) (gen_base s ++ slash :: s_spec_name s)); [reflexivity|].
  destruct (route_root true (gen_base s) (gen_tree s) (q_path rq) (q_method rq)) as [[it op|it]|].
  - (* a handler was selected *)
    assert (Hf : forall mid, filter is_responder
              (map (fun i => Enter i (i_raw it)) (seq 0 (c_mw cfg)) ++ mid ++ rev (map Leave (seq 0 (c_mw cfg)))) =
              filter is_responder mid).
    { intros mid. rewrite !filter_app, filter_enters, filter_rev, filter_leaves. simpl. now rewrite app_nil_r. }
    destruct (o_auth op) as [|a refs] eqn:Ea.
    + unfold responder_events, builtin_writer. cbn [trace status]. rewrite (Hf [HandlerEv (o_method op) (i_raw it) None]). reflexivity.
    + pose proof (run_auth_no_responder (hook_fields s) cfg rq (a :: refs)) as Hna.
      destruct (run_auth (hook_fields s) cfg rq (a :: refs)) as [evs r]. simpl fst in Hna.
      destruct r as [i|]; unfold responder_events, builtin_writer; cbn [trace status].
      * assert (Ht : filter is_responder
                  (map (fun i0 => Enter i0 (i_raw it)) (seq 0 (c_mw cfg)) ++ evs ++
                   [HandlerEv (o_method op) (i_raw it) (Some i)] ++ rev (map Leave (seq 0 (c_mw cfg)))) =
                  [HandlerEv (o_method op) (i_raw it) (Some i)]).
        { replace (evs ++ [HandlerEv (o_method op) (i_raw it) (Some i)] ++ rev (map Leave (seq 0 (c_mw cfg))))
            with ((evs ++ [HandlerEv (o_method op) (i_raw it) (Some i)]) ++ rev (map Leave (seq 0 (c_mw cfg))))
            by (now rewrite <- app_assoc).
          rewrite (Hf (evs ++ [HandlerEv (o_method op) (i_raw it) (Some i)])), filter_app, Hna. reflexivity. }
        rewrite !Ht. reflexivity.
      * rewrite !(Hf evs), !Hna. reflexivity.
  - destruct (i_cors it) as [[ms hs]|]; [destruct (c_cors cfg), (c_nf cfg)|]; reflexivity.
  - destruct (c_nf cfg); reflexivity.
Qed.
