(* C04: the composed parameter parsers accept exactly the texts in the lexical
   space of the declared type, and a request is rejected iff some declared
   parameter is offending. *)
From Coq Require Import String.
From Coq Require Import List Bool Arith Ascii NArith ZArith Lia.
Import ListNotations.
From Goag Require Import Base.Str Model.Router Model.Serve Model.Params Spec.ParamSpec.

Local Open Scope Z_scope.

(* ---------------- integers ---------------- *)

Lemma parse_digits_spec ds : forall acc un,
  parse_digits acc ds = Some un <-> Forall is_digit_c ds /\ un = digits_value acc ds.
Proof.
  induction ds as [|c r IH]; intros acc un; simpl.
  - split; [intros H; injection H as <-; split; [constructor|reflexivity] | intros [_ ->]; reflexivity].
  - destruct (digit_val c) as [d|] eqn:Ed.
    + rewrite IH. split.
      * intros [Hf ->]. split; [constructor; [exists d; exact Ed | assumption] | reflexivity].
      * intros [Hf ->]. inversion Hf; subst. auto.
    + split; [discriminate|]. intros [Hf _]. inversion Hf as [|? ? [d Hd] _]; subst. congruence.
Qed.

Lemma digits_value_nonneg ds : forall acc, 0 <= acc -> 0 <= digits_value acc ds.
Proof.
  induction ds as [|c r IH]; intros acc Ha; simpl; [assumption|].
  destruct (digit_val c) as [d|] eqn:Ed; [|assumption]. apply IH.
  unfold digit_val in Ed.
  destruct ((48 <=? Z.of_N (N_of_ascii c)) && (Z.of_N (N_of_ascii c) <=? 57)) eqn:E; [|discriminate].
  injection Ed as <-. apply andb_true_iff in E as [E1 E2]. lia.
Qed.

Lemma digit_not_sign c : is_digit_c c -> c <> "+"%char /\ c <> "-"%char.
Proof. intros [d Hd]. split; intros ->; vm_compute in Hd; discriminate. Qed.

Theorem parse_int_spec bits s z :
  0 < bit_size bits ->
  parse_int bits s = Some z <-> in_lex_int bits s z.
Proof.
  intros Hb. unfold parse_int, in_lex_int.
  set (cutf := 2 ^ (bit_size bits - 1)).
  assert (Hcut : 0 < cutf) by (apply Z.pow_pos_nonneg; lia).
  (* the body shared by the three sign cases *)
  assert (Hgo : forall (neg : bool) (ds : str),
    (match ds with
     | [] => @None Z
     | _ => match parse_digits 0 ds with
            | Some un => if neg then (if un <=? cutf then Some (- un) else None)
                         else (if un <? cutf then Some un else None)
            | None => None
            end
     end = Some z) <->
    (ds <> [] /\ Forall is_digit_c ds /\
     z = (if neg then - digits_value 0 ds else digits_value 0 ds) /\ - cutf <= z < cutf)).
  { intros neg ds. destruct ds as [|c r]; [split; [discriminate | intros [H _]; congruence]|].
    destruct (parse_digits 0 (c :: r)) as [un|] eqn:Ep.
    - apply parse_digits_spec in Ep as [Hf ->].
      pose proof (digits_value_nonneg (c :: r) 0 ltac:(lia)) as Hnn.
      assert (Hne : c :: r <> []) by discriminate.
      remember (digits_value 0 (c :: r)) as dv eqn:Edv. clear Edv.
      remember (c :: r) as cr eqn:Ecr. clear Ecr.
      destruct neg.
      + destruct (dv <=? cutf) eqn:E.
        * apply Z.leb_le in E. split; [intros H; injection H as <-; repeat split; auto; try discriminate; lia|].
          intros (_ & _ & -> & _). reflexivity.
        * apply Z.leb_gt in E. split; [discriminate|]. intros (_ & _ & -> & Hr). lia.
      + destruct (dv <? cutf) eqn:E.
        * apply Z.ltb_lt in E. split; [intros H; injection H as <-; repeat split; auto; try discriminate; lia|].
          intros (_ & _ & -> & _). reflexivity.
        * apply Z.ltb_ge in E. split; [discriminate|]. intros (_ & _ & -> & Hr). lia.
    - split; [discriminate|]. intros (_ & Hf & _).
      assert (exists un, parse_digits 0 (c :: r) = Some un) as [un Hun]
        by (eexists; apply parse_digits_spec; split; [exact Hf | reflexivity]).
      congruence. }
  destruct s as [|c r].
  { split; [discriminate|]. intros (sign & ds & E & _ & Hne & _).
    destruct sign; destruct ds; simpl in E; congruence. }
  destruct (ascii_eqb c "+"%char) eqn:Ep; [apply ascii_eqb_eq in Ep; subst c|].
  { rewrite (Hgo false r). split.
    - intros (Hne & Hf & -> & Hr). exists ["+"%char], r. repeat split; auto; lia.
    - intros (sign & ds & E & Hs & Hne & Hf & -> & Hr).
      destruct Hs as [-> | [-> | ->]]; simpl in E.
      + subst ds. inversion Hf as [|? ? Hd _]; subst. apply digit_not_sign in Hd as [Hd _]. congruence.
      + injection E as <-. replace (str_eqb ["+"%char] ["-"%char]) with false in * by reflexivity.
        repeat split; auto; lia.
      + discriminate. }
  destruct (ascii_eqb c "-"%char) eqn:Em; [apply ascii_eqb_eq in Em; subst c|].
  { rewrite (Hgo true r). split.
    - intros (Hne & Hf & -> & Hr). exists ["-"%char], r. repeat split; auto; lia.
    - intros (sign & ds & E & Hs & Hne & Hf & -> & Hr).
      destruct Hs as [-> | [-> | ->]]; simpl in E.
      + subst ds. inversion Hf as [|? ? Hd _]; subst. apply digit_not_sign in Hd as [_ Hd]. congruence.
      + discriminate.
      + injection E as <-. replace (str_eqb ["-"%char] ["-"%char]) with true in * by reflexivity.
        repeat split; auto; lia. }
  rewrite (Hgo false (c :: r)). apply ascii_eqb_neq in Ep, Em. split.
  - intros (Hne & Hf & -> & Hr). exists [], (c :: r). repeat split; auto; lia.
  - intros (sign & ds & E & Hs & Hne & Hf & -> & Hr).
    destruct Hs as [-> | [-> | ->]]; simpl in E.
    + subst ds. replace (str_eqb [] ["-"%char]) with false in * by reflexivity. repeat split; auto; lia.
    + injection E as Ec _. congruence.
    + injection E as Ec _. congruence.
Qed.

(* ---------------- booleans ---------------- *)

Theorem parse_bool_spec s b : parse_bool s = Some b <-> in_lex_bool s b.
Proof.
  unfold in_lex_bool, bool_lexemes. cbn [map fst snd].
  split.
  - intros H. unfold parse_bool in H. cbn [existsb map] in H.
    repeat match type of H with
           | context [str_eqb s ?l] =>
             let E := fresh "E" in
             destruct (str_eqb s l) eqn:E;
             [ apply str_eqb_eq in E; subst s; vm_compute in H; injection H as <-;
               cbn [In]; repeat ((left; reflexivity) || right)
             | ]
           end.
    cbn in H. discriminate.
  - cbn [In]. intros H.
    repeat (destruct H as [H | H]; [injection H as <- <-; reflexivity|]). destruct H.
Qed.

(* ---------------- the snippet algebra ---------------- *)

Section Algebra.
  Variable pf : Z -> str -> option str.
  Variable pt : str -> option str.

  Definition wf_prim (p : prim) : Prop :=
    match p with PInt b => 0 < bit_size b | _ => True end.

  Fixpoint wf_sch (sc : sch) : Prop :=
    match sc with
    | SPrim p => wf_prim p
    | SNullable s | SArr s | SRef _ s => wf_sch s
    end.

  Lemma parse_scalar_spec p s v :
    wf_prim p -> parse_scalar pf pt p s = Some v <-> lex_value pf pt p s v.
  Proof.
    intros Hw. destruct p; simpl.
    - split; [intros H; injection H as <-; reflexivity | intros ->; reflexivity].
    - destruct (parse_int bits s) as [z|] eqn:E; simpl.
      + split; [intros H; injection H as <-; exists z; split; [now apply parse_int_spec|reflexivity]|].
        intros (z' & Hz & ->). apply parse_int_spec in Hz; [|assumption]. congruence.
      + split; [discriminate|]. intros (z' & Hz & ->). apply parse_int_spec in Hz; [|assumption]. congruence.
    - destruct (pf bits s) as [r|]; simpl.
      + split; [intros H; injection H as <-; eauto | intros (r' & E & ->); congruence].
      + split; [discriminate | intros (r' & E & _); discriminate].
    - destruct (parse_bool s) as [b|] eqn:E; simpl.
      + split; [intros H; injection H as <-; exists b; split; [now apply parse_bool_spec|reflexivity]|].
        intros (b' & Hb & ->). apply parse_bool_spec in Hb. congruence.
      + split; [discriminate|]. intros (b' & Hb & ->). apply parse_bool_spec in Hb. congruence.
    - destruct (pt s) as [r|]; simpl.
      + split; [intros H; injection H as <-; eauto | intros (r' & E & ->); congruence].
      + split; [discriminate | intros (r' & E & _); discriminate].
  Qed.

  Lemma parse_string_spec sc : forall s v,
    wf_sch sc -> parse_string pf pt sc s = Some v <-> typed1 pf pt sc s v.
  Proof.
    induction sc as [p | sc IH | sc IH | n sc IH]; intros s v Hw; simpl in *.
    - now apply parse_scalar_spec.
    - destruct (parse_string pf pt sc s) as [x|] eqn:E; simpl.
      + split; [intros H; injection H as <-; exists x; split; [now apply IH|reflexivity]|].
        intros (x' & Hx & ->). apply IH in Hx; [|assumption]. congruence.
      + split; [discriminate|]. intros (x' & Hx & _). apply IH in Hx; [|assumption]. congruence.
    - destruct (parse_string pf pt sc s) as [x|] eqn:E; simpl.
      + split; [intros H; injection H as <-; exists x; split; [now apply IH|reflexivity]|].
        intros (x' & Hx & ->). apply IH in Hx; [|assumption]. congruence.
      + split; [discriminate|]. intros (x' & Hx & _). apply IH in Hx; [|assumption]. congruence.
    - now apply IH.
  Qed.

  Lemma map_opt_spec {A B} (f : A -> option B) (R : A -> B -> Prop) :
    (forall a b, f a = Some b <-> R a b) ->
    forall l ys, map_opt f l = Some ys <-> Forall2 R l ys.
  Proof.
    intros Hf. induction l as [|x r IH]; intros ys; simpl.
    - split; [intros H; injection H as <-; constructor | intros H; inversion H; reflexivity].
    - destruct (f x) as [y|] eqn:Ex.
      + destruct (map_opt f r) as [ys'|] eqn:Er.
        * split; [intros H; injection H as <-; constructor; [now apply Hf | now apply IH]|].
          intros H. inversion H as [|? b ? l' Hx Hr]; subst. apply Hf in Hx. apply IH in Hr. congruence.
        * split; [discriminate|]. intros H. inversion H as [|? b ? l' Hx Hr]; subst. apply IH in Hr. congruence.
      + split; [discriminate|]. intros H. inversion H as [|? b ? l' Hx Hr]; subst. apply Hf in Hx. congruence.
  Qed.

  Lemma parse_strings_spec sc : forall vs v,
    wf_sch sc -> parse_strings pf pt sc vs = Some v <-> typed pf pt sc vs v.
  Proof.
    induction sc as [p | sc IH | sc IH | n sc IH]; intros vs v Hw; simpl in *.
    - destruct vs as [|s [|s2 r]].
      + split; [discriminate | intros (s & E & _); discriminate].
      + rewrite parse_scalar_spec by assumption. split; [eauto | intros (s' & E & H); now injection E as <-].
      + split; [discriminate | intros (s' & E & _); discriminate].
    - destruct (parse_strings pf pt sc vs) as [x|] eqn:E; simpl.
      + split; [intros H; injection H as <-; exists x; split; [now apply IH|reflexivity]|].
        intros (x' & Hx & ->). apply IH in Hx; [|assumption]. congruence.
      + split; [discriminate|]. intros (x' & Hx & _). apply IH in Hx; [|assumption]. congruence.
    - pose proof (map_opt_spec (parse_string pf pt sc) (typed1 pf pt sc)
                    (fun a b => parse_string_spec sc a b Hw)) as Hm.
      destruct (map_opt (parse_string pf pt sc) vs) as [xs|] eqn:E; simpl.
      + split; [intros H; injection H as <-; exists xs; split; [now apply Hm|reflexivity]|].
        intros (xs' & Hx & ->). apply Hm in Hx. congruence.
      + split; [discriminate|]. intros (xs' & Hx & _). apply Hm in Hx. congruence.
    - now apply IH.
  Qed.

  (* one parameter *)
  Definition wf_decl (d : pdecl) : Prop := wf_sch (d_sch d).

  Lemma parse_param_err d supplied n :
    wf_decl d ->
    parse_param pf pt d supplied = Err n <-> offending pf pt d supplied /\ n = d_name d.
  Proof.
    intros Hw. unfold parse_param, offending. destruct supplied as [|s r].
    - destruct (d_required d); split.
      + intros H; injection H as <-. auto.
      + intros [_ ->]. reflexivity.
      + discriminate.
      + intros [[[H _] | [H _]] _]; congruence.
    - destruct (parse_strings pf pt (d_sch d) (s :: r)) as [v|] eqn:E.
      + split; [discriminate|]. intros [[[_ H] | [_ H]] _]; [discriminate|].
        apply parse_strings_spec in E; [|assumption]. exfalso. eapply H; eauto.
      + split.
        * intros H; injection H as <-. split; [|reflexivity]. right. split; [discriminate|].
          intros v Hv. apply parse_strings_spec in Hv; [|assumption]. congruence.
        * intros [_ ->]. reflexivity.
  Qed.

  Lemma parse_param_ok d supplied f :
    wf_decl d ->
    parse_param pf pt d supplied = Ok f <-> field_ok pf pt d supplied f.
  Proof.
    intros Hw. unfold parse_param, field_ok. destruct supplied as [|s r].
    - destruct (d_required d); split; try discriminate.
      + intros [H _]; discriminate.
      + intros H; injection H as <-. auto.
      + intros [_ ->]. reflexivity.
    - destruct (parse_strings pf pt (d_sch d) (s :: r)) as [v|] eqn:E.
      + split.
        * intros H; injection H as <-. exists v. split; [now apply parse_strings_spec|reflexivity].
        * intros (v' & Hv & ->). apply parse_strings_spec in Hv; [|assumption].
          rewrite E in Hv. injection Hv as ->. reflexivity.
      + split; [discriminate|]. intros (v' & Hv & _). apply parse_strings_spec in Hv; [|assumption]. congruence.
  Qed.

  Lemma parse_param_never_other d supplied : parse_param pf pt d supplied <> ErrOther.
  Proof.
    unfold parse_param. destruct supplied; [destruct (d_required d); discriminate|].
    destruct (parse_strings _ _ _ _); discriminate.
  Qed.

  (* all declared query (or header) parameters *)
  Theorem parse_all_rejects_iff get ds :
    Forall wf_decl ds ->
    (exists n, parse_all pf pt get ds = Err n) <-> exists d, In d ds /\ offending pf pt d (get (d_name d)).
  Proof.
    intros Hw. induction ds as [|d r IH]; simpl.
    - split; [intros [n H]; discriminate | intros (d & [] & _)].
    - inversion Hw as [|? ? Hd Hr]; subst. specialize (IH Hr).
      destruct (parse_param pf pt d (get (d_name d))) as [f | n | ] eqn:E.
      + destruct (parse_all pf pt get r) as [fs | n | ] eqn:Er.
        * split; [intros [n H]; discriminate|]. intros (d' & [<- | Hin] & Ho).
          -- assert (parse_param pf pt d (get (d_name d)) = Err (d_name d)) by (apply parse_param_err; auto). congruence.
          -- destruct IH as [_ IH]. destruct IH as [n Hn]; eauto; try discriminate.
        * split; [intros _|eauto]. destruct IH as [IH _]. destruct IH as (d' & Hin & Ho); eauto.
        * split; [intros [n H]; discriminate|]. intros (d' & [<- | Hin] & Ho).
          -- assert (parse_param pf pt d (get (d_name d)) = Err (d_name d)) by (apply parse_param_err; auto). congruence.
          -- destruct IH as [_ IH]. destruct IH as [n Hn]; eauto; try discriminate.
      + split; [intros _|eauto]. apply parse_param_err in E as [Ho _]; [|assumption]. eauto.
      + exfalso. eapply parse_param_never_other; eauto.
  Qed.

  (* the error identifies an offending parameter *)
  Theorem parse_all_error_names get ds n :
    Forall wf_decl ds -> parse_all pf pt get ds = Err n ->
    exists d, In d ds /\ offending pf pt d (get (d_name d)) /\ n = d_name d.
  Proof.
    intros Hw. induction ds as [|d r IH]; simpl; [discriminate|].
    inversion Hw as [|? ? Hd Hr]; subst.
    destruct (parse_param pf pt d (get (d_name d))) as [f | n' | ] eqn:E.
    - destruct (parse_all pf pt get r) as [fs | n' | ] eqn:Er; try discriminate.
      intros H; injection H as <-. destruct (IH Hr eq_refl) as (d' & Hin & Ho & ->). eauto.
    - intros H; injection H as <-. apply parse_param_err in E as [Ho ->]; [|assumption]. eauto.
    - discriminate.
  Qed.

  (* on success every field holds the typed value of the supplied text and every
     absent optional parameter is unset: nothing is invented *)
  Theorem parse_all_no_invention get ds fs :
    Forall wf_decl ds -> parse_all pf pt get ds = Ok fs ->
    Forall2 (fun d f => field_ok pf pt d (get (d_name d)) f) ds fs.
  Proof.
    intros Hw. revert fs. induction ds as [|d r IH]; simpl; intros fs H.
    - injection H as <-. constructor.
    - inversion Hw as [|? ? Hd Hr]; subst.
      destruct (parse_param pf pt d (get (d_name d))) as [f | n' | ] eqn:E; try discriminate.
      destruct (parse_all pf pt get r) as [fs' | n' | ] eqn:Er; try discriminate.
      injection H as <-. constructor; [now apply parse_param_ok | now apply IH].
  Qed.

  Theorem parse_all_never_other get ds : parse_all pf pt get ds <> ErrOther.
  Proof.
    induction ds as [|d r IH]; simpl; [discriminate|].
    destruct (parse_param pf pt d (get (d_name d))) eqn:E; try discriminate.
    - destruct (parse_all pf pt get r); try discriminate. congruence.
    - exfalso. eapply parse_param_never_other; eauto.
  Qed.
End Algebra.

(* non-vacuity: a required int32, an optional array of booleans, a nullable string *)
Example params_example :
  let pf := fun _ _ => None in let pt := fun _ => None in
  let ds := [ {| d_name := S_ "limit"; d_required := true; d_sch := SPrim (PInt 32) |};
              {| d_name := S_ "flags"; d_required := false; d_sch := SArr (SPrim PBool) |};
              {| d_name := S_ "tag"; d_required := false; d_sch := SNullable (SPrim PStr) |} ] in
  let get := fun n => if str_eqb n (S_ "limit") then [S_ "-2147483648"]
                      else if str_eqb n (S_ "flags") then [S_ "t"; S_ "0"] else [] in
  parse_all pf pt get ds
  = Ok [FVal (VI (-2147483648)); FMaybe (Some (VL [VB true; VB false])); FMaybe None]
  /\ parse_all pf pt (fun n => if str_eqb n (S_ "limit") then [S_ "2147483648"] else []) ds = Err (S_ "limit")
  /\ Forall wf_decl ds.
Proof. vm_compute. repeat split; repeat constructor; discriminate. Qed.
