(* C06, first half: every well-typed value of a generated type encodes to a
   JSON value — the comma/member sequence written by marshalJSONInnerBody is
   always well formed, whatever the allOf structure and whichever optional
   fields are set. *)
From Coq Require Import String.
From Coq Require Import List Bool Arith Ascii NArith ZArith Lia.
Import ListNotations.
From Goag Require Import Base.Str Model.Router Model.Serve Model.Params Model.Json.

(* nested induction principle for [jsch] *)
Section JschInd.
  Variable P : jsch -> Prop.
  Definition opt_PJ (o : option jsch) : Prop := match o with Some s => P s | None => True end.
  Hypothesis Hprim : forall p, P (JPrimS p).
  Hypothesis Hnull : forall s, P s -> P (JNullS s).
  Hypothesis Harr : forall s, P s -> P (JArrS s).
  Hypothesis Hobj : forall ms addl, Forall (fun ks => P (snd ks)) ms -> opt_PJ addl -> P (JObjS ms addl).

  Fixpoint jsch_ind2 (s : jsch) : P s :=
    match s with
    | JPrimS p => Hprim p
    | JNullS s' => Hnull s' (jsch_ind2 s')
    | JArrS it => Harr it (jsch_ind2 it)
    | JObjS ms addl =>
      Hobj ms addl
        ((fix go (ms : list (mkind * jsch)) : Forall (fun ks => P (snd ks)) ms :=
            match ms with
            | [] => Forall_nil _
            | (k, sf) :: r => Forall_cons (k, sf) (jsch_ind2 sf) (go r)
            end) ms)
        (match addl as o return opt_PJ o with Some sa => jsch_ind2 sa | None => I end)
    end.
End JschInd.

(* ---------------- the shape of an item sequence ---------------- *)

(* a three-state automaton over the written items: nothing written yet /
   after a member / after a comma *)
Inductive wstate := WFirst | WAfter | WComma.

Definition wstep (st : wstate) (it : item) : option wstate :=
  match st, it with
  | WFirst, ItMember _ _ => Some WAfter
  | WAfter, ItComma => Some WComma
  | WComma, ItMember _ _ => Some WAfter
  | _, _ => None
  end.

Fixpoint wrun (st : wstate) (its : list item) : option wstate :=
  match its with
  | [] => Some st
  | x :: r => match wstep st x with Some st' => wrun st' r | None => None end
  end.

Definition of_comma (c : bool) : wstate := if c then WAfter else WFirst.

(* [shape c its = Some c']: from comma state c the items are well formed and
   leave comma state c' *)
Definition shape (c : bool) (its : list item) : option bool :=
  match wrun (of_comma c) its with
  | Some WFirst => Some false
  | Some WAfter => Some true
  | _ => None
  end.

Lemma wrun_app st a : forall b,
  wrun st (a ++ b) = match wrun st a with Some st' => wrun st' b | None => None end.
Proof.
  revert st. induction a as [|x a IH]; intros st b; simpl; [reflexivity|].
  destruct (wstep st x); [apply IH | reflexivity].
Qed.

Lemma shape_app c a b c1 :
  shape c a = Some c1 -> shape c (a ++ b) = shape c1 b.
Proof.
  unfold shape. rewrite wrun_app. destruct (wrun (of_comma c) a) as [[| |]|]; intros H; try discriminate;
    injection H as <-; reflexivity.
Qed.

Lemma shape_nil c : shape c [] = Some c.
Proof. destruct c; reflexivity. Qed.

Lemma shape_write_property c k v : shape c (write_property c k v) = Some true.
Proof. unfold write_property. destruct c; reflexivity. Qed.

Lemma assemble_tail_ok its : forall st, wrun WAfter its = Some st -> st <> WComma -> assemble_tail its <> None.
Proof.
  assert (H : forall n its st, length its <= n -> wrun WAfter its = Some st -> st <> WComma -> assemble_tail its <> None).
  { induction n as [|n IH]; intros its0 st Hl Hr Hst.
    - destruct its0; [discriminate | simpl in Hl; lia].
    - destruct its0 as [|[|k v] r]; [discriminate| |simpl in Hr; discriminate].
      destruct r as [|[|k v] r']; simpl in Hr.
      + injection Hr as <-. congruence.
      + discriminate.
      + simpl. simpl in Hl. specialize (IH r' st ltac:(lia) Hr Hst).
        destruct (assemble_tail r'); [discriminate|congruence]. }
  intros st Hr Hst. eapply H; eauto.
Qed.

Lemma assemble_ok its c' : shape false its = Some c' -> assemble its <> None.
Proof.
  unfold shape. simpl. destruct its as [|[|k v] r]; simpl; [discriminate|discriminate|].
  destruct (wrun WAfter r) as [st|] eqn:E; [|discriminate].
  intros Hs. assert (st <> WComma) by (destruct st; [discriminate|discriminate|discriminate]).
  pose proof (assemble_tail_ok r st E H). destruct (assemble_tail r); [discriminate|congruence].
Qed.

(* ---------------- typing of Go values ---------------- *)

Section Typing.
  Variable fmt_float : Z -> str -> str.
  Variable fmt_time : str -> str.

  Definition typed_prim (p : jprim) (v : gval) : Prop :=
    match p, v with
    | QStr, GStr _ | QInt _, GInt _ | QNum _, GFlt _ | QBool, GBool _ | QTime, GTime _ | QAny, GRaw _ => True
    | _, _ => False
    end.

  (* a value of the Go type generated for the schema *)
  Fixpoint typed (s : jsch) (v : gval) {struct s} : Prop :=
    match s with
    | JPrimS p => typed_prim p v
    | JNullS s' => match v with GNullable None => True | GNullable (Some x) => typed s' x | _ => False end
    | JArrS it => match v with GList l => Forall (typed it) l | _ => False end
    | JObjS ms addl =>
      match v with
      | GStruct fs ad =>
        (fix go (ms : list (mkind * jsch)) (fs : list gval) : Prop :=
           match ms, fs with
           | [], [] => True
           | (MField _ req, sf) :: ms', f :: fs' =>
             (if req then typed sf f
              else match f with GMaybe None => True | GMaybe (Some x) => typed sf x | _ => False end)
             /\ go ms' fs'
           | (MEmbed, se) :: ms', f :: fs' => is_obj se = true /\ typed se f /\ go ms' fs'
           | _, _ => False
           end) ms fs
        /\ match addl with
           | Some sa => Forall (fun kv => typed sa (snd kv)) ad
           | None => ad = []
           end
      | _ => False
      end
    end.

  Lemma enc_prim_typed p v : typed_prim p v -> exists j, enc_prim fmt_float fmt_time p v = Ok j.
  Proof. destruct p, v; simpl; intros H; try contradiction; eauto. Qed.

  Notation EI := (enc_items fmt_float fmt_time).

  Lemma enc_list_ok (e : gval -> res json) l :
    Forall (fun x => exists j, e x = Ok j) l -> exists js, enc_list e l = Ok js.
  Proof.
    induction l as [|x r IH]; intros H; simpl; [eauto|].
    inversion H as [|? ? [j Hj] Hr]; subst. destruct (IH Hr) as [js Hjs]. rewrite Hj, Hjs. simpl. eauto.
  Qed.

  Lemma enc_addl_ok (e : gval -> res json) ad : forall c,
    Forall (fun kv => exists j, e (snd kv) = Ok j) ad ->
    exists its c', enc_addl e ad c = Ok (its, c') /\ shape c its = Some c'.
  Proof.
    induction ad as [|[k x] r IH]; intros c H; simpl.
    - exists [], c. split; [reflexivity|apply shape_nil].
    - inversion H as [|? ? [j Hj] Hr]; subst. simpl in Hj. rewrite Hj. simpl.
      destruct (IH true Hr) as (its & c' & E & Hs). rewrite E. simpl.
      exists (write_property c k j ++ its), c'. split; [reflexivity|].
      rewrite (shape_app _ _ _ _ (shape_write_property c k j)). exact Hs.
  Qed.

  (* The main lemma: for every schema and typed value, the encoder writes a
     well-formed item sequence from any comma state, and in value position it
     denotes a JSON value. *)
  Lemma enc_items_ok s : forall v c,
    typed s v ->
    (exists its c', EI s v c = Ok (its, c') /\
                    (is_obj s = true -> shape c its = Some c')) /\
    (exists j, value_of (is_obj s) (EI s v false) = Ok j).
  Proof.
    induction s as [p | s' IH | it IH | ms addl IHms IHad] using jsch_ind2; intros v c Ht.
    - (* primitive *)
      simpl in Ht. destruct (enc_prim_typed p v Ht) as [j Hj]. simpl. rewrite Hj. simpl.
      split; [exists [ItMember [] j], c; split; [reflexivity|discriminate] | eauto].
    - (* nullable *)
      destruct v as [| | | | | | o | | |]; simpl in Ht; try contradiction.
      destruct o as [x|].
      + destruct (IH x false Ht) as [_ [j Hj]]. simpl. rewrite Hj. simpl.
        split; [exists [ItMember [] j], c; split; [reflexivity|discriminate] | eauto].
      + simpl. split; [exists [ItMember [] JNull], c; split; [reflexivity|discriminate] | eauto].
    - (* array *)
      destruct v as [| | | | | | | | l |]; simpl in Ht; try contradiction.
      assert (Hl : exists js, enc_list (fun x => value_of (is_obj it) (EI it x false)) l = Ok js).
      { apply enc_list_ok. rewrite Forall_forall in *. intros x Hx. destruct (IH x false (Ht x Hx)) as [_ H]. exact H. }
      destruct Hl as [js Hjs]. simpl. rewrite Hjs. simpl.
      split; [exists [ItMember [] (JArr js)], c; split; [reflexivity|discriminate] | eauto].
    - (* object *)
      destruct v as [| | | | | | | | | fs ad]; simpl in Ht; try contradiction.
      destruct Ht as [Hfs Had].
      (* the inner loop, generalised over the comma state *)
      assert (Hinner : forall ms0 fs0 c0,
        Forall (fun ks => forall v c, typed (snd ks) v ->
                  (exists its c', EI (snd ks) v c = Ok (its, c') /\ (is_obj (snd ks) = true -> shape c its = Some c')) /\
                  (exists j, value_of (is_obj (snd ks)) (EI (snd ks) v false) = Ok j)) ms0 ->
        (fix go (ms : list (mkind * jsch)) (fs : list gval) : Prop :=
           match ms, fs with
           | [], [] => True
           | (MField _ req, sf) :: ms', f :: fs' =>
             (if req then typed sf f
              else match f with GMaybe None => True | GMaybe (Some x) => typed sf x | _ => False end)
             /\ go ms' fs'
           | (MEmbed, se) :: ms', f :: fs' => is_obj se = true /\ typed se f /\ go ms' fs'
           | _, _ => False
           end) ms0 fs0 ->
        exists its c',
          (fix inner (ms : list (mkind * jsch)) (fs : list gval) (comma : bool) {struct ms} : res (list item * bool) :=
             match ms, fs with
             | [], [] =>
               match addl with
               | Some sa => enc_addl (fun x => value_of (is_obj sa) (EI sa x false)) ad comma
               | None => Ok ([], comma)
               end
             | (MField k req, sf) :: ms', f :: fs' =>
               if req then
                 bind (value_of (is_obj sf) (EI sf f false)) (fun j =>
                   bind (inner ms' fs' true) (fun rr => Ok (write_property comma k j ++ fst rr, snd rr)))
               else
                 match f with
                 | GMaybe None => inner ms' fs' comma
                 | GMaybe (Some x) =>
                   bind (value_of (is_obj sf) (EI sf x false)) (fun j =>
                     bind (inner ms' fs' true) (fun rr => Ok (write_property comma k j ++ fst rr, snd rr)))
                 | _ => ErrOther
                 end
             | (MEmbed, se) :: ms', f :: fs' =>
               if is_obj se then
                 bind (EI se f comma) (fun er =>
                   bind (inner ms' fs' (snd er)) (fun rr => Ok (fst er ++ fst rr, snd rr)))
               else ErrOther
             | _, _ => ErrOther
             end) ms0 fs0 c0 = Ok (its, c') /\ shape c0 its = Some c').
      { induction ms0 as [|[k sf] ms' IHm]; intros fs0 c0 Hall Hgo.
        - destruct fs0; [|contradiction].
          destruct addl as [sa|].
          + apply enc_addl_ok. simpl in IHad. rewrite Forall_forall in *. intros kv Hkv.
            destruct (IHad (snd kv) false (Had kv Hkv)) as [_ H]. exact H.
          + exists [], c0. split; [reflexivity|apply shape_nil].
        - destruct fs0 as [|f fs']; [destruct k; contradiction|].
          inversion Hall as [|? ? Hsf Hall']; subst. simpl in Hsf.
          destruct k as [k req|].
          + destruct Hgo as [Hf Hgo]. destruct req.
            * destruct (Hsf f false Hf) as [_ [j Hj]]. rewrite Hj. simpl.
              destruct (IHm fs' true Hall' Hgo) as (its & c' & E & Hs). rewrite E. simpl.
              exists (write_property c0 k j ++ its), c'. split; [reflexivity|].
              rewrite (shape_app _ _ _ _ (shape_write_property c0 k j)). exact Hs.
            * destruct f as [| | | | | | | [x|] | |]; try contradiction.
              -- destruct (Hsf x false Hf) as [_ [j Hj]]. rewrite Hj. simpl.
                 destruct (IHm fs' true Hall' Hgo) as (its & c' & E & Hs). rewrite E. simpl.
                 exists (write_property c0 k j ++ its), c'. split; [reflexivity|].
                 rewrite (shape_app _ _ _ _ (shape_write_property c0 k j)). exact Hs.
              -- apply (IHm fs' c0 Hall' Hgo).
          + destruct Hgo as (Hobj & Hf & Hgo). rewrite Hobj.
            destruct (Hsf f c0 Hf) as [(eits & ec & Ee & Hes) _]. rewrite Ee. simpl.
            specialize (Hes Hobj).
            destruct (IHm fs' ec Hall' Hgo) as (its & c' & E & Hs). rewrite E. simpl.
            exists (eits ++ its), c'. split; [reflexivity|]. rewrite (shape_app _ _ _ _ Hes). exact Hs. }
      assert (Hall : Forall (fun ks => forall v c, typed (snd ks) v ->
                  (exists its c', EI (snd ks) v c = Ok (its, c') /\ (is_obj (snd ks) = true -> shape c its = Some c')) /\
                  (exists j, value_of (is_obj (snd ks)) (EI (snd ks) v false) = Ok j)) ms)
        by exact IHms.
      split.
      + destruct (Hinner ms fs c Hall Hfs) as (its & c' & E & Hs).
        exists its, c'. split; [exact E | intros _; exact Hs].
      + destruct (Hinner ms fs false Hall Hfs) as (its & c' & E & Hs).
        unfold value_of. cbn [is_obj]. change (EI (JObjS ms addl) (GStruct fs ad) false) with
          ((fix inner (ms : list (mkind * jsch)) (fs : list gval) (comma : bool) {struct ms} : res (list item * bool) :=
             match ms, fs with
             | [], [] =>
               match addl with
               | Some sa => enc_addl (fun x => value_of (is_obj sa) (EI sa x false)) ad comma
               | None => Ok ([], comma)
               end
             | (MField k req, sf) :: ms', f :: fs' =>
               if req then
                 bind (value_of (is_obj sf) (EI sf f false)) (fun j =>
                   bind (inner ms' fs' true) (fun rr => Ok (write_property comma k j ++ fst rr, snd rr)))
               else
                 match f with
                 | GMaybe None => inner ms' fs' comma
                 | GMaybe (Some x) =>
                   bind (value_of (is_obj sf) (EI sf x false)) (fun j =>
                     bind (inner ms' fs' true) (fun rr => Ok (write_property comma k j ++ fst rr, snd rr)))
                 | _ => ErrOther
                 end
             | (MEmbed, se) :: ms', f :: fs' =>
               if is_obj se then
                 bind (EI se f comma) (fun er =>
                   bind (inner ms' fs' (snd er)) (fun rr => Ok (fst er ++ fst rr, snd rr)))
               else ErrOther
             | _, _ => ErrOther
             end) ms fs false).
        rewrite E. simpl.
        assert (Ha : assemble its <> None) by (eapply assemble_ok; eauto).
        destruct (assemble its); [eauto|congruence].
  Qed.

  (* every well-typed value encodes to a JSON value: json.Marshal never fails
     on the generated types because of the hand-rolled object syntax *)
  Theorem enc_total s v : typed s v -> exists j, enc fmt_float fmt_time s v = Ok j.
  Proof. intros Ht. destruct (enc_items_ok s v false Ht) as [_ H]. exact H. Qed.
End Typing.
