(* C18: references are transparent.  (1) parameter schemas: a $ref node changes
   neither parsing nor formatting; (2) JSON: an allOf member given by $ref
   (an embedded struct in the generated code, with its own marshalJSONInnerBody
   sharing the comma state) encodes exactly like the same members written inline. *)
From Coq Require Import String.
From Coq Require Import List Bool Arith Ascii NArith ZArith Lia.
Import ListNotations.
From Goag Require Import Base.Str Model.Router Model.Serve Model.Params Model.Json Model.Client Spec.JsonSpec
     Proofs.JsonEncProofs Proofs.JsonRtProofs.

(* ---------------- parameters ---------------- *)
Fixpoint erase_refs (sc : sch) : sch :=
  match sc with
  | SPrim p => SPrim p
  | SNullable s => SNullable (erase_refs s)
  | SArr it => SArr (erase_refs it)
  | SRef _ t => erase_refs t
  end.

Section ParamRefs.
  Variable pf : Z -> str -> option str.
  Variable pt : str -> option str.
  Variable fmt_float : Z -> str -> str.
  Variable fmt_time : str -> str.

  Lemma parse_string_erase sc : forall s, parse_string pf pt (erase_refs sc) s = parse_string pf pt sc s.
  Proof. induction sc as [p | s' IH | it IH | n t IH]; intros s; simpl; rewrite ?IH; reflexivity. Qed.

  Lemma map_opt_ext {A B} (f g : A -> option B) l : (forall x, f x = g x) -> map_opt f l = map_opt g l.
  Proof. intros H. induction l as [|x r IH]; simpl; [reflexivity|]. now rewrite H, IH. Qed.

  Theorem parse_strings_erase sc : forall vs, parse_strings pf pt (erase_refs sc) vs = parse_strings pf pt sc vs.
  Proof.
    induction sc as [p | s' IH | it IH | n t IH]; intros vs; simpl; try reflexivity.
    - now rewrite IH.
    - now rewrite (map_opt_ext _ _ vs (parse_string_erase it)).
    - apply IH.
  Qed.

  Lemma format_string_erase sc : forall v, format_string fmt_float fmt_time (erase_refs sc) v = format_string fmt_float fmt_time sc v.
  Proof.
    induction sc as [p | s' IH | it IH | n t IH]; intros v; simpl; try reflexivity.
    - destruct v; try reflexivity. apply IH.
    - apply IH.
  Qed.

  Theorem format_strings_erase sc : forall v, format_strings fmt_float fmt_time (erase_refs sc) v = format_strings fmt_float fmt_time sc v.
  Proof.
    induction sc as [p | s' IH | it IH | n t IH]; intros v; simpl; try reflexivity.
    - destruct v; try reflexivity. apply IH.
    - destruct v; try reflexivity. apply map_opt_ext. apply format_string_erase.
    - apply IH.
  Qed.

  (* a declared parameter behaves the same whether its schema is given inline or by reference *)
  Theorem parse_param_erase d vs :
    parse_param pf pt {| d_name := d_name d; d_required := d_required d; d_sch := erase_refs (d_sch d) |} vs = parse_param pf pt d vs.
  Proof. unfold parse_param. simpl. destruct vs; [reflexivity|]. now rewrite parse_strings_erase. Qed.
End ParamRefs.

(* ---------------- JSON: embedded ($ref) member vs inline members ---------------- *)
Section EmbedInline.
  Variable fmt_float : Z -> str -> str.
  Variable fmt_time : str -> str.

  Notation EI := (enc_items fmt_float fmt_time).
  Notation INNER := (enc_inner fmt_float fmt_time).

  Lemma bind_eta {A B} (r : res (A * B)) : bind r (fun rr => Ok (fst rr, snd rr)) = r.
  Proof. destruct r as [[a b]| |]; reflexivity. Qed.

  (* the members of an embedded struct followed by the rest = the concatenated member list *)
  Lemma inner_app addl ad post fpost : forall ems efs c, length ems = length efs ->
    INNER addl ad (ems ++ post) (efs ++ fpost) c =
    bind (INNER None [] ems efs c) (fun er =>
      bind (INNER addl ad post fpost (snd er)) (fun rr => Ok (fst er ++ fst rr, snd rr))).
  Proof.
    induction ems as [|[mk sf] ms' IH]; intros efs c Hl; destruct efs as [|f fs']; try discriminate.
    - simpl. now rewrite bind_eta.
    - simpl in Hl. injection Hl as Hl. cbn [app enc_inner].
      destruct mk as [k req|].
      + destruct req.
        * destruct (value_of (is_obj sf) (EI sf f false)) as [j| |]; simpl; try reflexivity.
          rewrite (IH fs' true Hl).
          destruct (INNER None [] ms' fs' true) as [[its c']| |]; simpl; try reflexivity.
          destruct (INNER addl ad post fpost c') as [[its2 c2]| |]; simpl; try reflexivity.
          now rewrite app_assoc.
        * destruct f as [| | | | | | |[x|]| |]; try reflexivity.
          -- destruct (value_of (is_obj sf) (EI sf x false)) as [j| |]; simpl; try reflexivity.
             rewrite (IH fs' true Hl).
             destruct (INNER None [] ms' fs' true) as [[its c']| |]; simpl; try reflexivity.
             destruct (INNER addl ad post fpost c') as [[its2 c2]| |]; simpl; try reflexivity.
             now rewrite app_assoc.
          -- apply (IH fs' c Hl).
      + destruct (is_obj sf); [|reflexivity].
        destruct (EI sf f c) as [[its0 c0]| |]; simpl; try reflexivity.
        rewrite (IH fs' c0 Hl).
        destruct (INNER None [] ms' fs' c0) as [[its c']| |]; simpl; try reflexivity.
        destruct (INNER addl ad post fpost c') as [[its2 c2]| |]; simpl; try reflexivity.
        now rewrite app_assoc.
  Qed.

  Lemma inner_embed addl ad ems efs post fpost : forall pre fpre c,
    length pre = length fpre -> length ems = length efs ->
    INNER addl ad (pre ++ (MEmbed, JObjS ems None) :: post) (fpre ++ GStruct efs [] :: fpost) c =
    INNER addl ad (pre ++ ems ++ post) (fpre ++ efs ++ fpost) c.
  Proof.
    induction pre as [|[mk sf] pre' IH]; intros fpre c Hl He; destruct fpre as [|f fpre']; try discriminate.
    - cbn [app]. rewrite (inner_app addl ad post fpost ems efs c He).
      cbn [enc_inner is_obj]. now rewrite enc_items_obj.
    - simpl in Hl. injection Hl as Hl. cbn [app enc_inner].
      destruct mk as [k req|].
      + destruct req.
        * now rewrite (IH fpre' true Hl He).
        * destruct f as [| | | | | | |[x|]| |]; try reflexivity.
          -- now rewrite (IH fpre' true Hl He).
          -- apply (IH fpre' c Hl He).
      + destruct (is_obj sf); [|reflexivity].
        destruct (EI sf f c) as [[its0 c0]| |]; simpl; try reflexivity.
        now rewrite (IH fpre' c0 Hl He).
  Qed.

  (* json.Marshal of the struct with an embedded ($ref) allOf member equals
     json.Marshal of the struct with that member's properties declared in place *)
  Theorem embed_encodes_like_inline addl ad pre fpre ems efs post fpost :
    length pre = length fpre -> length ems = length efs ->
    enc fmt_float fmt_time (JObjS (pre ++ (MEmbed, JObjS ems None) :: post) addl) (GStruct (fpre ++ GStruct efs [] :: fpost) ad) =
    enc fmt_float fmt_time (JObjS (pre ++ ems ++ post) addl) (GStruct (fpre ++ efs ++ fpost) ad).
  Proof.
    intros Hl He. unfold enc. cbn [is_obj]. rewrite !enc_items_obj. now rewrite inner_embed.
  Qed.
End EmbedInline.
