(* Layer (i): the string-level route function (HasPrefix, slicing, splitPath)
   equals the segment-level one on every slash-separated path. *)
From Coq Require Import String.
From Coq Require Import List Bool Arith Ascii Lia.
Import ListNotations.
From Goag Require Import Base.Str Model.Router.

Definition noslash (s : str) : Prop := contains slash s = false.

Lemma until_slash_app s r :
  noslash s -> (r = [] \/ exists r', r = slash :: r') ->
  until_slash (s ++ r) = (s, r).
Proof.
  unfold noslash. induction s as [|c s IH]; intros Hs Hr; simpl.
  - destruct Hr as [-> | [r' ->]]; reflexivity.
  - simpl in Hs. apply orb_false_iff in Hs as [Hc Hs]. rewrite Hc.
    now rewrite IH.
Qed.

Lemma enc_shape segs : enc segs = [] \/ exists r', enc segs = slash :: r'.
Proof. destruct segs as [|s r]; [now left|right]. simpl. eauto. Qed.

Lemma enc_cons s r : enc (s :: r) = slash :: s ++ enc r.
Proof. reflexivity. Qed.

Lemma splitPath_enc s r :
  noslash s -> splitPath (enc (s :: r)) = (slash :: s, enc r).
Proof.
  intros Hs. rewrite enc_cons. unfold splitPath.
  replace (ascii_eqb slash slash) with true by reflexivity.
  rewrite until_slash_app; auto using enc_shape.
Qed.

Lemma is_nil_enc segs : is_nil (enc segs) = is_nil segs.
Proof. destruct segs; reflexivity. Qed.

Lemma prefix_is_slash s k : prefix_is (slash :: s) k = str_eqb s k.
Proof.
  unfold prefix_is. reflexivity.
Qed.

(* nested induction principle for [node] *)
Section NodeInd.
  Variable P : node -> Prop.
  Definition opt_P (o : option node) : Prop := match o with Some v => P v | None => True end.
  Hypothesis H : forall statics var kids vkid,
      Forall (fun kc => P (snd kc)) kids ->
      opt_P vkid ->
      P (Node statics var kids vkid).

  Fixpoint node_ind2 (n : node) : P n :=
    match n with
    | Node statics var kids vkid =>
      H statics var kids vkid
        ((fix go (ks : list (str * node)) : Forall (fun kc => P (snd kc)) ks :=
            match ks with
            | [] => Forall_nil _
            | (k, c) :: ks' => Forall_cons (k, c) (node_ind2 c) (go ks')
            end) kids)
        (match vkid as o return opt_P o with
         | Some v => node_ind2 v
         | None => I
         end)
    end.
End NodeInd.

(* the inner loops of [route] and [rsegs], named *)
Fixpoint go_route (cors : bool) (prefix rest m : str) (ks : list (str * node)) : option (option res) :=
  match ks with
  | [] => None
  | (k, c) :: ks' => if prefix_is prefix k then Some (route cors c rest m) else go_route cors prefix rest m ks'
  end.

Fixpoint go_rsegs (cors : bool) (s : str) (rest : list str) (m : str) (ks : list (str * node)) : option (option res) :=
  match ks with
  | [] => None
  | (k, c) :: ks' => if str_eqb s k then Some (rsegs cors c rest m) else go_rsegs cors s rest m ks'
  end.

Definition descend (r : option (option res)) (vres : option (option res)) : option res :=
  match r with
  | Some r =>
    match vres with
    | Some v => match r with Some x => Some x | None => v end
    | None => r
    end
  | None =>
    match vres with
    | Some v => v
    | None => None
    end
  end.

Lemma route_unfold cors statics var kids vkid path m :
  route cors (Node statics var kids vkid) path m =
  if negb (has_prefix [slash] path) then None else
  let (prefix, rest) := splitPath path in
  if (negb (is_nil statics) || is_some var) && is_nil rest
  then leaf_block cors statics var prefix m
  else descend (go_route cors prefix rest m kids)
               (match vkid with Some v => Some (route cors v rest m) | None => None end).
Proof.
  cbn [route]. destruct (negb (has_prefix [slash] path)); [reflexivity|].
  destruct (splitPath path) as [prefix rest].
  destruct ((negb (is_nil statics) || is_some var) && is_nil rest); [reflexivity|].
  assert (E : (fix go (ks : list (str * node)) : option (option res) :=
                 match ks with
                 | [] => None
                 | (k, c) :: ks' => if prefix_is prefix k then Some (route cors c rest m) else go ks'
                 end) kids = go_route cors prefix rest m kids).
  { induction kids as [|[k c] ks IH]; simpl; [reflexivity|]. now rewrite IH. }
  rewrite E. unfold descend. destruct (go_route cors prefix rest m kids) as [r|]; destruct vkid; reflexivity.
Qed.

Lemma rsegs_unfold cors statics var kids vkid s rest m :
  rsegs cors (Node statics var kids vkid) (s :: rest) m =
  if (negb (is_nil statics) || is_some var) && is_nil rest
  then leaf_block cors statics var (slash :: s) m
  else descend (go_rsegs cors s rest m kids)
               (match vkid with Some v => Some (rsegs cors v rest m) | None => None end).
Proof.
  cbn [rsegs].
  destruct ((negb (is_nil statics) || is_some var) && is_nil rest); [reflexivity|].
  assert (E : (fix go (ks : list (str * node)) : option (option res) :=
                 match ks with
                 | [] => None
                 | (k, c) :: ks' => if str_eqb s k then Some (rsegs cors c rest m) else go ks'
                 end) kids = go_rsegs cors s rest m kids).
  { induction kids as [|[k c] ks IH]; simpl; [reflexivity|]. now rewrite IH. }
  rewrite E. unfold descend. destruct (go_rsegs cors s rest m kids) as [r|]; destruct vkid; reflexivity.
Qed.

Lemma rsegs_nil cors n m : rsegs cors n [] m = None.
Proof. destruct n; reflexivity. Qed.

(* Layer (i) *)
Theorem route_strings_segments cors n :
  forall segs m, Forall noslash segs -> route cors n (enc segs) m = rsegs cors n segs m.
Proof.
  induction n as [statics var kids vkid IHk IHv] using node_ind2.
  intros segs m Hs. destruct segs as [|s rest].
  - rewrite rsegs_nil. rewrite route_unfold. reflexivity.
  - inversion Hs as [|? ? Hs1 Hs2]; subst.
    rewrite route_unfold, rsegs_unfold.
    replace (has_prefix [slash] (enc (s :: rest))) with true
      by reflexivity.
    cbn [negb]. rewrite splitPath_enc by assumption. rewrite is_nil_enc.
    destruct ((negb (is_nil statics) || is_some var) && is_nil rest); [reflexivity|].
    f_equal.
    + clear IHv. induction kids as [|[k c] ks IH]; [reflexivity|].
      inversion IHk as [|? ? Hc Hks]; subst. simpl in Hc.
      simpl. rewrite prefix_is_slash. destruct (str_eqb s k).
      * now rewrite Hc.
      * now apply IH.
    + destruct vkid as [v|]; [|reflexivity]. simpl in IHv. now rewrite IHv.
Qed.

(* every path that starts with a slash is the encoding of its segments *)
Lemma split_slash_enc r :
  enc (split_slash r) = slash :: r /\ Forall noslash (split_slash r).
Proof.
  induction r as [|c r [IH1 IH2]]; simpl.
  - split; [reflexivity|]. constructor; [reflexivity|constructor].
  - destruct (ascii_eqb c slash) eqn:E.
    + apply ascii_eqb_eq in E. subst c. split.
      * rewrite enc_cons. simpl. now rewrite IH1.
      * constructor; [reflexivity|assumption].
    + destruct (split_slash r) as [|h t] eqn:Es.
      * simpl in IH1. discriminate.
      * rewrite enc_cons in *. simpl in IH1. injection IH1 as IH1.
        inversion IH2 as [|? ? Hh Ht]; subst. split.
        -- reflexivity.
        -- constructor; [|assumption]. unfold noslash in *. simpl. now rewrite E.
Qed.

Lemma split_slash_nonempty r : split_slash r <> [].
Proof.
  destruct r as [|c r]; simpl; [discriminate|].
  destruct (ascii_eqb c slash); [discriminate|]. destruct (split_slash r); discriminate.
Qed.
