(* C08, second half: what a valid document decodes to lies in the domain the
   round trip is proved for, so a decode / encode cycle loses nothing. *)
From Coq Require Import String.
From Coq Require Import List Bool Arith Ascii NArith ZArith Lia.
Import ListNotations.
From Goag Require Import Base.Str Model.Router Model.Serve Model.Params Model.Json Spec.JsonSpec
     Proofs.IntFormat Proofs.ParamsProofs
     Proofs.JsonEncProofs Proofs.JsonRtProofs Proofs.JsonStrictProofs Proofs.JsonConfProofs Proofs.JsonCompleteProofs.

(* ------------------------------------------------------------------ *)
(* What a valid document decodes to lies in the round-trip domain, hence
   survives re-encoding: decode, encode, decode again gives the same value. *)

(* integers of Go's sizes; nullable only around schemas that have a non-null
   encoding of their own (not `any`, not nullable again) *)
Fixpoint dom_sch (s : jsch) : Prop :=
  match s with
  | JPrimS (QInt b) => b = 0%Z \/ b = 32%Z \/ b = 64%Z
  | JPrimS _ => True
  | JNullS s' => non_null s' = true /\ dom_sch s'
  | JArrS it => dom_sch it
  | JObjS ms addl =>
    (fix go (ms : list (mkind * jsch)) : Prop :=
       match ms with
       | [] => True
       | (_, sf) :: r => dom_sch sf /\ go r
       end) ms
    /\ match addl with Some sa => dom_sch sa | None => True end
  end.

Fixpoint dom_go (ms : list (mkind * jsch)) : Prop :=
  match ms with
  | [] => True
  | (_, sf) :: r => dom_sch sf /\ dom_go r
  end.

Lemma dom_obj ms addl :
  dom_sch (JObjS ms addl) <-> dom_go ms /\ match addl with Some sa => dom_sch sa | None => True end.
Proof.
  cbn [dom_sch].
  assert (E : (fix go (ms : list (mkind * jsch)) : Prop :=
                 match ms with
                 | [] => True
                 | (_, sf) :: r => dom_sch sf /\ go r
                 end) ms = dom_go ms).
  { induction ms as [|[k sf] ms IH]; cbn; [reflexivity|]. now rewrite IH. }
  rewrite E. tauto.
Qed.

Section Sound.
  Variable parse_num : Z -> str -> option str.
  Variable parse_time : str -> option str.

  Notation DI := (dec_items parse_num parse_time).
  Notation DEC := (dec parse_num parse_time).
  Notation DIN := (dec_inner parse_num parse_time).
  Notation VLD := (vld parse_num parse_time).
  Notation GOV := (go_vld parse_num parse_time).

  Lemma dec_list_sound (d : json -> res gval) (P : gval -> Prop) l : forall vs,
    (forall x v, In x l -> d x = Ok v -> P v) -> dec_list d l = Ok vs -> Forall P vs.
  Proof.
    induction l as [|x r IH]; intros vs H Hd; cbn in Hd.
    - injection Hd as <-. constructor.
    - destruct (d x) as [v| |] eqn:Ex; cbn in Hd; try discriminate.
      destruct (dec_list d r) as [vs'| |] eqn:Er; cbn in Hd; try discriminate.
      injection Hd as <-. constructor; [apply (H x v (or_introl eq_refl) Ex)|].
      apply IH; [|reflexivity]. intros y w Hy. apply H. now right.
  Qed.

  Lemma dec_addl_sound (d : json -> res gval) (P : gval -> Prop) m : forall ad,
    (forall k x v, In (k, x) m -> d x = Ok v -> P v) -> dec_addl d m = Ok ad ->
    Forall (fun kv => P (snd kv)) ad /\ keys ad = keys m.
  Proof.
    induction m as [|[k x] r IH]; intros ad H Hd; cbn in Hd.
    - injection Hd as <-. split; [constructor | reflexivity].
    - destruct (d x) as [v| |] eqn:Ex; try discriminate.
      destruct (dec_addl d r) as [ad'| |] eqn:Er; cbn in Hd; try discriminate.
      injection Hd as <-. destruct (IH ad') as [HF HK]; [intros k' y w Hy; apply (H k'); now right | reflexivity|].
      split; [constructor; [apply (H k x v (or_introl eq_refl) Ex) | exact HF] | unfold keys in *; cbn; now f_equal].
  Qed.

  Definition SP (s : jsch) : Prop :=
    wf_sch s -> dom_sch s ->
    (forall j v m', VLD s j [] false = true -> DI s j [] false = Ok (v, m') -> rt_ok s v) /\
    (forall ems, s = JObjS ems None ->
       forall o m v m', NoDup (keys o) -> NoDup (keys m) -> sub m o ->
         (forall k, In k (dk ems) -> kv_get m k = kv_get o k) ->
         VLD s JNull o true = true ->
         DI s JNull m true = Ok (v, m') -> rt_ok s v).

  Lemma inner_sound addl ms :
    Forall (fun ks => SP (snd ks)) ms -> opt_PJ SP addl ->
    forall o, NoDup (keys o) ->
    forall m, NoDup (keys m) -> sub m o ->
      (forall k, In k (dk ms) -> kv_get m k = kv_get o k) ->
      NoDup (dk ms) -> wf_go ms -> dom_go ms ->
      match addl with Some sa => wf_sch sa /\ dom_sch sa | None => True end ->
      GOV o ms = true ->
      match addl with
      | Some sa => forall k x, In (k, x) m -> ~ In k (dk ms) -> VLD sa x [] false = true
      | None => True
      end ->
      forall fs m' ad, DIN addl ms m = Ok (fs, m', ad) ->
        rt_go ms fs /\
        match addl with
        | Some sa => Forall (fun kv => rt_ok sa (snd kv)) ad
        | None => ad = []
        end /\
        keys ad = match addl with Some _ => keys m' | None => [] end /\
        after ms m m'.
  Proof.
    intros Hall Haddl o Hndo. induction ms as [|[kd sf] ms IH];
      intros m Hndm Hsub Hget Hnd Hwf Hdom Hwfa Hgo Hleft fs m' ad Hd.
    - cbn [dec_inner] in Hd. destruct addl as [sa|].
      + destruct (dec_addl _ m) as [ad0| |] eqn:Ea; cbn in Hd; try discriminate.
        injection Hd as <- <- <-. destruct Hwfa as [Hwsa Hdsa].
        destruct (dec_addl_sound (fun x => bind (DI sa x [] false) (fun r => Ok (fst r))) (rt_ok sa) m ad0) as [HF HK]; [|exact Ea|].
        { intros k x v Hin Hx. destruct (DI sa x [] false) as [[v0 m0]| |] eqn:Ex; cbn in Hx; try discriminate.
          injection Hx as <-. destruct (Haddl Hwsa Hdsa) as [HA _].
          apply (HA x v0 m0); [apply (Hleft k x Hin (fun F => F)) | exact Ex]. }
        split; [exact I|]. split; [exact HF|]. split; [exact HK|].
        repeat split; auto using sub_refl; intros k [].
      + injection Hd as <- <- <-. split; [exact I|]. split; [reflexivity|]. split; [reflexivity|].
        repeat split; auto using sub_refl; intros k [].
    - inversion Hall as [|? ? Hsf Hms]; subst. destruct kd as [k req|].
      + rewrite dk_field in *. inversion Hnd as [|? ? Hk Hnd']; subst.
        destruct Hwf as [Hwsf Hwf']. destruct Hdom as [Hdsf Hdom'].
        cbn [go_vld] in Hgo. apply andb_true_iff in Hgo as [Hv Hgo'].
        cbn [dec_inner] in Hd. rewrite (Hget k (or_introl eq_refl)) in Hd.
        destruct (kv_get o k) as [raw|] eqn:Eo.
        * assert (Em : kv_get m k = Some raw) by (rewrite (Hget k (or_introl eq_refl)); exact Eo).
          destruct (DI sf raw [] false) as [[v0 m0]| |] eqn:Ex; cbn [under_key bind] in Hd; try discriminate.
          destruct (DIN addl ms (kv_del m k)) as [[[fs0 m1] ad0]| |] eqn:Er; cbn [bind fst snd] in Hd; try discriminate.
          injection Hd as <- <- <-.
          destruct (IH Hms (kv_del m k)) with (fs := fs0) (m' := m1) (ad := ad0)
            as (Hgo1 & Had1 & Hk1 & Hn' & Hs' & Hgone & Hsame); auto.
          { now apply kv_del_nodup. }
          { eapply sub_trans; [apply kv_del_sub | exact Hsub]. }
          { intros k' Hk'. rewrite kv_get_del_other; [apply Hget; now right|]. intros ->. contradiction. }
          { destruct addl as [sa|]; [|exact I]. intros k' x Hin' Hnk'. apply (Hleft k' x).
            - now apply (kv_del_sub m k).
            - intros [->|F]; [|contradiction]. apply (kv_del_gone m k' Hndm). apply keys_in. eauto. }
          cbn [snd] in Hsf. destruct (Hsf Hwsf Hdsf) as [HA _]. pose proof (HA raw v0 m0 Hv Ex) as Hrt.
          split; [cbn [rt_go]; split; [destruct req; exact Hrt | exact Hgo1]|].
          split; [exact Had1|]. split; [exact Hk1|].
          split; [exact Hn'|]. split; [eapply sub_trans; [exact Hs' | apply kv_del_sub]|]. split.
          -- intros k' [<-|Hk'] Hink'; [|now apply (Hgone k' Hk')].
             apply (kv_del_gone m k Hndm). apply (sub_keys _ _ Hs'). exact Hink'.
          -- intros k' Hnk'. rewrite Hsame; [|intros F; apply Hnk'; now right].
             apply kv_get_del_other. intros ->. apply Hnk'. now left.
        * assert (Em : kv_get m k = None) by (rewrite (Hget k (or_introl eq_refl)); exact Eo).
          destruct req; [discriminate Hv|].
          destruct (DIN addl ms m) as [[[fs0 m1] ad0]| |] eqn:Er; cbn [bind fst snd] in Hd; try discriminate.
          injection Hd as <- <- <-.
          destruct (IH Hms m) with (fs := fs0) (m' := m1) (ad := ad0)
            as (Hgo1 & Had1 & Hk1 & Hn' & Hs' & Hgone & Hsame); auto.
          { intros k' Hk'. apply Hget. now right. }
          { destruct addl as [sa|]; [|exact I]. intros k' x Hin' Hnk'. apply (Hleft k' x Hin').
            intros [->|F]; [|contradiction]. apply (kv_get_none_notin parse_time m k' Em). apply keys_in. eauto. }
          split; [cbn [rt_go]; split; [exact I | exact Hgo1]|].
          split; [exact Had1|]. split; [exact Hk1|].
          split; [exact Hn'|]. split; [exact Hs'|]. split.
          -- intros k' [<-|Hk'] Hink'; [|now apply (Hgone k' Hk')].
             apply (kv_get_none_notin parse_time m k Em). apply (sub_keys _ _ Hs'). exact Hink'.
          -- intros k' Hnk'. apply Hsame. intros F. apply Hnk'. now right.
      + rewrite dk_embed in *. destruct Hwf as ([ems ->] & Hwse & Hwf'). destruct Hdom as [Hdse Hdom'].
        cbn [go_vld] in Hgo. apply andb_true_iff in Hgo as [Hv Hgo'].
        cbn [dec_inner] in Hd.
        destruct (DI (JObjS ems None) JNull m true) as [[v1 m1]| |] eqn:Ee; cbn [bind fst snd] in Hd; try discriminate.
        destruct (DIN addl ms m1) as [[[fs0 m2] ad0]| |] eqn:Er; cbn [bind fst snd] in Hd; try discriminate.
        injection Hd as <- <- <-.
        assert (Hget1 : forall k, In k (dk ems) -> kv_get m k = kv_get o k).
        { intros k Hk. apply Hget. apply in_app_iff. now left. }
        (* what the member leaves behind: from the completeness proof, by determinism *)
        destruct (complete_all parse_num parse_time (JObjS ems None) Hwse) as [_ HB].
        destruct (HB ems eq_refl o m Hndo Hndm Hsub Hget1 Hv) as (v1' & m1' & Hd' & Hn1 & Hs1 & Hgone1 & Hsame1).
        rewrite Ee in Hd'. injection Hd' as <- <-.
        cbn [snd] in Hsf. destruct (Hsf Hwse Hdse) as [_ HBs].
        pose proof (HBs ems eq_refl o m v1 m1 Hndo Hndm Hsub Hget1 Hv Ee) as Hrt.
        destruct (IH Hms m1) with (fs := fs0) (m' := m2) (ad := ad0)
          as (Hgo1 & Had1 & Hk1 & Hn' & Hs' & Hgone & Hsame); auto.
        { eapply sub_trans; [exact Hs1 | exact Hsub]. }
        { intros k Hk. rewrite Hsame1; [apply Hget; apply in_app_iff; now right|].
          intros F. apply (NoDup_app_disj _ _ k Hnd F Hk). }
        { now apply NoDup_app_r in Hnd. }
        { destruct addl as [sa|]; [|exact I]. intros k x Hin' Hnk'. apply (Hleft k x).
          - now apply Hs1.
          - intros F. apply in_app_iff in F as [F|F]; [|contradiction].
            apply (Hgone1 k F). apply keys_in. eauto. }
        split; [cbn [rt_go]; split; [eexists; reflexivity|]; split; [exact Hrt | exact Hgo1]|].
        split; [exact Had1|]. split; [exact Hk1|].
        split; [exact Hn'|]. split; [eapply sub_trans; eauto|]. split.
        * intros k Hk Hink. apply in_app_iff in Hk as [Hk|Hk]; [|now apply (Hgone k Hk)].
          apply (Hgone1 k Hk). apply (sub_keys _ _ Hs'). exact Hink.
        * intros k Hnk. rewrite Hsame; [|intros F; apply Hnk; apply in_app_iff; now right].
          apply Hsame1. intros F. apply Hnk. apply in_app_iff. now left.
  Qed.

  Theorem sound_all s : SP s.
  Proof.
    induction s as [p | s' IH | it IH | ms addl IHms IHad] using jsch_ind2; intros Hwf Hdom; split.
    - (* primitives: the integer that was parsed prints and parses back *)
      intros j v m' Hv Hd. cbn [dec_items] in Hd.
      destruct (dec_prim parse_num parse_time p j) as [v0| |] eqn:Ep; cbn in Hd; try discriminate.
      injection Hd as <- <-.
      destruct p, j; cbn in Hv, Ep; try discriminate; try (injection Ep as <-; exact I).
      + destruct (parse_int bits text) as [z|] eqn:Ez; [|discriminate]. injection Ep as <-.
        cbn [rt_ok]. cbn [dom_sch] in Hdom.
        assert (Hb : (0 < bit_size bits)%Z) by (destruct Hdom as [-> | [-> | ->]]; reflexivity).
        apply (parse_int_spec bits text z Hb) in Ez. destruct Ez as (sg & ds & _ & _ & _ & _ & _ & Hr).
        apply (int_format_roundtrip bits z Hdom Hr).
      + destruct (parse_num bits text); [injection Ep as <-; exact I | discriminate].
      + destruct (parse_time s); [injection Ep as <-; exact I | discriminate].
    - intros ems E. discriminate.
    - intros j v m' Hv Hd. cbn [wf_sch] in Hwf. cbn [dom_sch] in Hdom. destruct Hdom as [Hnn Hdom].
      destruct (IH Hwf Hdom) as [HA _]. cbn [vld] in Hv. cbn [dec_items] in Hd. cbn [rt_ok]. split; [exact Hnn|].
      destruct j; [injection Hd as <- <-; exact I | | | | |];
        (destruct (DI s' _ [] false) as [[v0 m0]| |] eqn:Ex; cbn in Hd; try discriminate;
         injection Hd as <- <-; apply (HA _ v0 m0 Hv Ex)).
    - intros ems E. discriminate.
    - intros j v m' Hv Hd. cbn [wf_sch] in Hwf. cbn [dom_sch] in Hdom. destruct (IH Hwf Hdom) as [HA _].
      cbn [vld] in Hv. destruct j as [| | | | l |]; try discriminate. cbn [dec_items] in Hd.
      destruct (dec_list _ l) as [vs| |] eqn:El; cbn in Hd; try discriminate. injection Hd as <- <-.
      cbn [rt_ok]. apply (dec_list_sound (fun x => bind (DI it x [] false) (fun r => Ok (fst r))) (rt_ok it) l vs); [|exact El].
      intros x w Hx Hw. destruct (DI it x [] false) as [[v0 m0]| |] eqn:Ex; cbn in Hw; try discriminate.
      injection Hw as <-. rewrite forallb_forall in Hv. apply (HA x v0 m0 (Hv x Hx) Ex).
    - intros ems E. discriminate.
    - (* object in value position *)
      intros j v m' Hv Hd. apply wf_obj in Hwf as (Hwg & Hwa & Hnd). apply dom_obj in Hdom as (Hdg & Hda).
      rewrite vld_obj in Hv. destruct j as [| | | | | members]; try discriminate.
      destruct (keys_nodup members) eqn:Ek; [|discriminate]. apply keys_nodup_NoDup in Ek.
      apply andb_true_iff in Hv as [Hgo Hrest].
      rewrite dec_items_obj in Hd. cbn [bind] in Hd. rewrite (kv_of_members_nodup _ Ek) in Hd. cbn [bind] in Hd.
      destruct (DIN addl ms members) as [[[fs m1] ad]| |] eqn:Ein; cbn [bind fst snd] in Hd; try discriminate.
      injection Hd as <- <-.
      destruct (inner_sound addl ms IHms IHad members Ek members Ek (sub_refl _))
        with (fs := fs) (m' := m1) (ad := ad) as (Hgo1 & Had1 & Hk1 & Hn' & Hs' & Hgone & Hsame); auto.
      { destruct addl as [sa|]; [split; assumption | exact I]. }
      { destruct addl as [sa|]; [|exact I]. intros k x Hin Hnk. rewrite forallb_forall in Hrest.
        specialize (Hrest (k, x) Hin). cbn [fst snd] in Hrest. apply orb_true_iff in Hrest as [Hd|Hd]; [|exact Hd].
        exfalso. apply Hnk. apply existsb_exists in Hd as (k' & Hk' & Ee). apply str_eqb_eq in Ee. subst. exact Hk'. }
      apply rt_ok_obj. split; [exact Hgo1|]. split; [exact Had1|].
      rewrite Hk1. destruct addl as [sa|]; [|now rewrite app_nil_r].
      apply NoDup_app_intro; [exact Hnd | exact Hn' | exact Hgone].
    - (* object in embedded position *)
      intros ems E o m v m' Hndo Hndm Hsub Hget Hv Hd. injection E as -> ->.
      apply wf_obj in Hwf as (Hwg & _ & Hnd). apply dom_obj in Hdom as (Hdg & _).
      rewrite vld_obj in Hv. rewrite andb_true_r in Hv.
      rewrite dec_items_obj in Hd. cbn [bind] in Hd.
      destruct (DIN None ems m) as [[[fs m1] ad]| |] eqn:Ein; cbn [bind fst snd] in Hd; try discriminate.
      injection Hd as <- <-.
      destruct (inner_sound None ems IHms I o Hndo m Hndm Hsub Hget Hnd Hwg Hdg I Hv I fs m1 ad Ein)
        as (Hgo1 & Had1 & Hk1 & _).
      apply rt_ok_obj. split; [exact Hgo1|]. split; [exact Had1|]. subst ad. now rewrite app_nil_r.
  Qed.

  (* the value a valid document decodes to is one the round trip is proved for *)
  Theorem decoded_in_domain s j v :
    wf_sch s -> dom_sch s -> validates parse_num parse_time s j = true -> DEC s j = Ok v -> rt_ok s v.
  Proof.
    intros Hwf Hdom Hv Hd. destruct (sound_all s Hwf Hdom) as [HA _]. unfold dec in Hd.
    destruct (DI s j [] false) as [[v0 m0]| |] eqn:Ex; cbn in Hd; try discriminate. injection Hd as <-.
    apply (HA j v0 m0 Hv Ex).
  Qed.
End Sound.

(* C08, second half: a valid document decodes to a value that re-encodes, and
   the re-encoding decodes to the same value again — nothing the generated type
   holds is lost or altered by a decode / encode cycle *)
Section Stable.
  Variable fmt_float : Z -> str -> str.
  Variable fmt_time : str -> str.
  Variable parse_num : Z -> str -> option str.
  Variable parse_time : str -> option str.
  Hypothesis float_rt : forall b r, parse_num b (fmt_float b r) = Some r.
  Hypothesis time_rt : forall r, parse_time (fmt_time r) = Some r.

  Theorem reencode_stable s j :
    wf_sch s -> dom_sch s -> validates parse_num parse_time s j = true ->
    exists v j', dec parse_num parse_time s j = Ok v /\
                 enc fmt_float fmt_time s v = Ok j' /\
                 validates parse_num parse_time s j' = true /\
                 dec parse_num parse_time s j' = Ok v.
  Proof.
    intros Hwf Hdom Hv. destruct (valid_accepted parse_num parse_time s j Hwf Hv) as [v Hd].
    pose proof (decoded_in_domain parse_num parse_time s j v Hwf Hdom Hv Hd) as Hrt.
    destruct (enc_total fmt_float fmt_time s v (rt_ok_typed s v Hrt)) as [j' He].
    exists v, j'. split; [exact Hd|]. split; [exact He|]. split.
    - apply (conforms fmt_float fmt_time parse_num parse_time float_rt time_rt s v j' Hrt He).
    - apply (roundtrip fmt_float fmt_time parse_num parse_time float_rt time_rt s v j' Hrt He).
  Qed.
End Stable.


(* the premises hold of the example schema of JsonCompleteProofs *)
Example s1_dom : dom_sch CompleteExample.s1.
Proof.
  unfold CompleteExample.s1, CompleteExample.base. cbn.
  repeat match goal with
         | |- _ /\ _ => split
         | |- True => exact I
         | |- _ = _ => reflexivity
         | |- _ \/ _ => right; right; reflexivity
         end.
Qed.
