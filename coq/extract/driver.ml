(* modelrun: runs the extracted Coq models on case lines (stdin) and prints one
   result line per case (stdout).  Hand-written glue: trusted base. *)
open Model

(* ---------- conversions ---------- *)
let rec nat_of_int n = if n <= 0 then O else S (nat_of_int (n - 1))
let rec int_of_nat = function O -> 0 | S n -> 1 + int_of_nat n

let split_on c s = if s = "" then [] else String.split_on_char c s

let fail_line msg = "ERROR " ^ msg

(* ascii <-> char, str (ascii list) <-> OCaml string, hex *)
let ascii_of_char c =
  let n = Char.code c in
  let b i = (n lsr i) land 1 = 1 in
  Ascii (b 0, b 1, b 2, b 3, b 4, b 5, b 6, b 7)

let char_of_ascii (Ascii (b0, b1, b2, b3, b4, b5, b6, b7)) =
  let v b i = if b then 1 lsl i else 0 in
  Char.chr (v b0 0 + v b1 1 + v b2 2 + v b3 3 + v b4 4 + v b5 5 + v b6 6 + v b7 7)

let str_of_string s = List.init (String.length s) (fun i -> ascii_of_char s.[i])
let string_of_str l = String.of_seq (List.to_seq (List.map char_of_ascii l))

let unhex h =
  let n = String.length h / 2 in
  String.init n (fun i -> Char.chr (int_of_string ("0x" ^ String.sub h (2 * i) 2)))
let hex s =
  String.concat "" (List.init (String.length s) (fun i -> Printf.sprintf "%02x" (Char.code s.[i])))
(* "-" stands for the empty string in case lines *)
let str_of_hex h = if h = "-" then [] else str_of_string (unhex h)
let hex_of_str l = match l with [] -> "-" | _ -> hex (string_of_str l)

(* ---------- C19 ---------- *)
let fname_of_string s =
  match s with
  | "components" -> Components | "handler" -> Handler | "router" -> Router
  | "spec_file" -> SpecFile | "client" -> Client
  | _ ->
    if String.length s > 1 && s.[0] = 'o'
    then Other (nat_of_int (int_of_string (String.sub s 1 (String.length s - 1))))
    else failwith ("fname " ^ s)

let string_of_fname = function
  | Components -> "components" | Handler -> "handler" | Router -> "router"
  | SpecFile -> "spec_file" | Client -> "client"
  | Other n -> "o" ^ string_of_int (int_of_nat n)

let b s = (s = "1")
let sb x = if x then "1" else "0"

let inv_of_string s =
  match String.split_on_char ':' s with
  | [sid; hc; gc; ga] ->
    { spec_id = nat_of_int (int_of_string sid); has_components = b hc;
      gen_client = b gc; gen_api = b ga }
  | _ -> failwith ("inv " ^ s)

let string_of_content = function
  | None -> "-"
  | Some (Gen (i, f)) ->
    Printf.sprintf "G%d:%s:%s:%s/%s" (int_of_nat i.spec_id) (sb i.has_components)
      (sb i.gen_client) (sb i.gen_api) (string_of_fname f)
  | Some (User n) -> "U" ^ string_of_int (int_of_nat n)

(* line: C19 <k> <d0: f=n,f=n|-> <h: inv,inv,...|-> *)
let c19 args =
  match args with
  | [k; d0s; hs] ->
    let k = nat_of_int (int_of_string k) in
    let d0 =
      if d0s = "-" then empty_dir else
      List.fold_left (fun d e ->
          match String.split_on_char '=' e with
          | [f; n] -> write d (fname_of_string f) (User (nat_of_int (int_of_string n)))
          | _ -> failwith "d0") empty_dir (split_on ',' d0s) in
    let h = if hs = "-" then [] else List.map inv_of_string (split_on ',' hs) in
    let obs = observe k (run_history d0 h) in
    (* spec: owned files = spec_dir of the last invocation, others = d0 *)
    let spec =
      match List.rev h with
      | [] -> observe k d0
      | i :: _ ->
        let sd f = (match f with Other _ -> d0 f | _ -> spec_dir i f) in
        observe k sd in
    "model=" ^ String.concat "," (List.map string_of_content obs)
    ^ " spec=" ^ String.concat "," (List.map string_of_content spec)
  | _ -> fail_line "C19 args"

(* ---------- C13 ---------- *)
let c13 args =
  match args with
  | ["enc"; h] ->
    let s = str_of_hex h in
    let m = (match go_eval (encode s) with Some v -> hex_of_str v | None -> "INVALID") in
    "model=" ^ m ^ " spec=" ^ hex_of_str s
  | ["lit"; h] ->
    let s = str_of_hex h in
    "model=" ^ (match go_eval s with Some v -> hex_of_str v | None -> "INVALID")
  | ["text"; h] ->
    (* the literal text the generator is expected to emit *)
    "model=" ^ hex_of_str (encode (str_of_hex h))
  | _ -> fail_line "C13 args"

let dispatch line =
  match String.split_on_char ' ' line with
  | "C19" :: args -> c19 args
  | "C13" :: args -> c13 args
  | _ -> fail_line ("unknown case: " ^ line)

let () =
  try
    while true do
      let line = input_line stdin in
      if line <> "" then begin
        let out = (try dispatch line with e -> fail_line (Printexc.to_string e)) in
        print_string out; print_newline ()
      end
    done
  with End_of_file -> ()
