(* modelrun: runs the extracted Coq models on case lines (stdin) and prints one
   result line per case (stdout).  Hand-written glue: trusted base. *)
open Model
type string = Stdlib.String.t

(* ---------- conversions ---------- *)
let rec nat_of_int n = if n <= 0 then O else S (nat_of_int (n - 1))
let rec int_of_nat = function O -> 0 | S n -> 1 + int_of_nat n

let split_on c s = if s = "" then [] else String.split_on_char c s

let fail_line msg = "ERROR " ^ msg

(* ascii <-> char, str (ascii list) <-> OCaml string, hex *)
let ascii_of_char c =
  let n = Char.code c in
  let b i = (n lsr i) land 1 = 1 in
  Ascii (b 0, b 1, b 2, b 3, b 4, b 5, b 6, b 7)

let char_of_ascii (Ascii (b0, b1, b2, b3, b4, b5, b6, b7)) =
  let v b i = if b then 1 lsl i else 0 in
  Char.chr (v b0 0 + v b1 1 + v b2 2 + v b3 3 + v b4 4 + v b5 5 + v b6 6 + v b7 7)

let str_of_string s = List.init (String.length s) (fun i -> ascii_of_char s.[i])
let string_of_str l = String.of_seq (List.to_seq (List.map char_of_ascii l))

let unhex h =
  let n = String.length h / 2 in
  String.init n (fun i -> Char.chr (int_of_string ("0x" ^ String.sub h (2 * i) 2)))
let hex s =
  String.concat "" (List.init (String.length s) (fun i -> Printf.sprintf "%02x" (Char.code s.[i])))
(* "-" stands for the empty string in case lines *)
let str_of_hex h = if h = "-" then [] else str_of_string (unhex h)
let hex_of_str l = match l with [] -> "-" | _ -> hex (string_of_str l)

(* ---------- C19 ---------- *)
let fname_of_string s =
  match s with
  | "components" -> Components | "handler" -> Handler | "router" -> Router
  | "spec_file" -> SpecFile | "client" -> Client
  | _ ->
    if String.length s > 1 && s.[0] = 'o'
    then Other (nat_of_int (int_of_string (String.sub s 1 (String.length s - 1))))
    else failwith ("fname " ^ s)

let string_of_fname = function
  | Components -> "components" | Handler -> "handler" | Router -> "router"
  | SpecFile -> "spec_file" | Client -> "client"
  | Other n -> "o" ^ string_of_int (int_of_nat n)

let b s = (s = "1")
let sb x = if x then "1" else "0"

let inv_of_string s =
  match String.split_on_char ':' s with
  | [sid; hc; gc; ga] ->
    { spec_id = nat_of_int (int_of_string sid); has_components = b hc;
      gen_client = b gc; gen_api = b ga }
  | _ -> failwith ("inv " ^ s)

let string_of_content = function
  | None -> "-"
  | Some (Gen (i, f)) ->
    Printf.sprintf "G%d:%s:%s:%s/%s" (int_of_nat i.spec_id) (sb i.has_components)
      (sb i.gen_client) (sb i.gen_api) (string_of_fname f)
  | Some (User n) -> "U" ^ string_of_int (int_of_nat n)

(* line: C19 <k> <d0: f=n,f=n|-> <h: inv,inv,...|-> *)
let c19 args =
  match args with
  | [k; d0s; hs] ->
    let k = nat_of_int (int_of_string k) in
    let d0 =
      if d0s = "-" then empty_dir else
      List.fold_left (fun d e ->
          match String.split_on_char '=' e with
          | [f; n] -> write d (fname_of_string f) (User (nat_of_int (int_of_string n)))
          | _ -> failwith "d0") empty_dir (split_on ',' d0s) in
    let h = if hs = "-" then [] else List.map inv_of_string (split_on ',' hs) in
    let obs = observe k (run_history d0 h) in
    (* spec: owned files = spec_dir of the last invocation, others = d0 *)
    let spec =
      match List.rev h with
      | [] -> observe k d0
      | i :: _ ->
        let sd f = (match f with Other _ -> d0 f | _ -> spec_dir i f) in
        observe k sd in
    "model=" ^ String.concat "," (List.map string_of_content obs)
    ^ " spec=" ^ String.concat "," (List.map string_of_content spec)
  | _ -> fail_line "C19 args"

(* ---------- C13 ---------- *)
let c13 args =
  match args with
  | ["enc"; h] ->
    let s = str_of_hex h in
    let m = (match go_eval (encode s) with Some v -> hex_of_str v | None -> "INVALID") in
    "model=" ^ m ^ " spec=" ^ hex_of_str s
  | ["lit"; h] ->
    let s = str_of_hex h in
    "model=" ^ (match go_eval s with Some v -> hex_of_str v | None -> "INVALID")
  | ["text"; h] ->
    (* the literal text the generator is expected to emit *)
    "model=" ^ hex_of_str (encode (str_of_hex h))
  | ["srv"; h; _mw; sf] ->
    (* C13_served_bypass / C13_only_when_installed + C13_embed: the body is the content *)
    let r = if sf = "1" then h ^ "|SF" else "-|-" in
    "model=" ^ r ^ " spec=" ^ r
  | _ -> fail_line "C13 args"

(* ---------- router family: S (spec) and R (request) lines ---------- *)
let kv_of_args args =
  List.filter_map (fun a ->
      match String.index_opt a '=' with
      | Some i -> Some (String.sub a 0 i, String.sub a (i + 1) (String.length a - i - 1))
      | None -> None) args

let parse_reqs (t : string) =
  (* "e" = empty list; alternatives separated by '|', schemes by '+' *)
  if t = "e" then [] else
    List.map (fun alt -> List.map str_of_string (split_on '+' alt)) (split_on '|' t)

let parse_hexlist t = if t = "-" then [] else List.map str_of_hex (split_on '.' t)

let parse_rspec (kv : (string * string) list) : rspec =
  let g k = List.assoc k kv in
  let schemes =
    if g "schemes" = "-" then [] else
    List.map (fun e ->
        match String.split_on_char ':' e with
        | [n; kind; prm] ->
          let k = (match kind with
              | "bearer" -> KBearer
              | "keyheader" -> KKeyHeader (str_of_hex prm)
              | "keyquery" -> KKeyQuery (str_of_hex prm)
              | _ -> KUnsupported) in
          (str_of_string n, k)
        | _ -> failwith "scheme") (split_on ',' (g "schemes")) in
  let parse_op o =
    match String.split_on_char '/' o with
    | [m; sec; hdrs] ->
      { r_method = str_of_string m;
        r_security = (if sec = "i" then None else Some (parse_reqs sec));
        r_headers = parse_hexlist hdrs }
    | _ -> failwith "op" in
  let parse_path p =
    match String.split_on_char '~' p with
    | [raw; hdrs; ops] ->
      { p_raw = str_of_hex raw; p_headers = parse_hexlist hdrs;
        p_ops = List.map parse_op (split_on '&' ops) }
    | _ -> failwith "path" in
  { s_flag_base = str_of_hex (g "flag");
    s_server_path = (if g "srv" = "none" then None else Some (str_of_hex (g "srv")));
    s_paths = (if g "paths" = "-" then [] else List.map parse_path (split_on ';' (g "paths")));
    s_schemes = schemes;
    s_global = (if g "global" = "none" then None else Some (parse_reqs (g "global")));
    s_cors = (g "cors" = "1");
    s_spec_name = str_of_hex (g "name") }

let parse_policy p =
  if p = "nil" then PNil else if p = "none" then PNone else if p = "any" then PAny
  else if String.length p > 4 && String.sub p 0 4 = "acc:" then PAccept (str_of_hex (String.sub p 4 (String.length p - 4)))
  else failwith ("policy " ^ p)

let parse_cfg (c : string) : api_cfg =
  let kv = if c = "-" then [] else kv_of_args (split_on ',' c) in
  let geti k d = (try int_of_string (List.assoc k kv) with Not_found -> d) in
  let getb k = (try List.assoc k kv = "1" with Not_found -> false) in
  let dflt = (try parse_policy (List.assoc "authdflt" kv) with Not_found -> PNone) in
  let maxidx = List.fold_left (fun m (k, _) ->
      if String.length k > 5 && String.sub k 0 5 = "auth." then max m (int_of_string (String.sub k 5 (String.length k - 5))) else m) (-1) kv in
  let hooks = List.init (maxidx + 1) (fun i ->
      try parse_policy (List.assoc ("auth." ^ string_of_int i) kv) with Not_found -> dflt) in
  { c_mw = nat_of_int (geti "mw" 0); c_nf = getb "nf"; c_sf = getb "sf"; c_cors = getb "cors";
    c_hooks = hooks; c_dflt = dflt }

let parse_pairs sep h =
  (* hex of "k<sep>v\n" lines *)
  if h = "-" then [] else
    List.filter_map (fun l ->
        if l = "" then None else
          match String.index_opt l sep with
          | Some i -> Some (str_of_string (String.sub l 0 i), str_of_string (String.sub l (i + 1) (String.length l - i - 1)))
          | None -> None) (String.split_on_char '\n' (unhex h))

let string_of_event ?(auth = true) ?(sortcors = false) (e : event) : string option =
  let join l = String.concat "," (List.map string_of_str l) in
  match e with
  | Enter (i, sp) -> Some (Printf.sprintf "E%d(%s)" (int_of_nat i) (hex_of_str sp))
  | Leave i -> Some (Printf.sprintf "L%d" (int_of_nat i))
  | Auth (i, tok, ok) -> if auth then Some (Printf.sprintf "A%d(%s)=%s" (int_of_nat i) (hex_of_str tok) (if ok then "ok" else "no")) else None
  | HandlerEv (m, raw, tag) ->
    Some (Printf.sprintf "H%s:%s[%s]" (string_of_str m) (hex_of_str raw)
            (match tag with Some i -> string_of_int (int_of_nat i) | None -> "-"))
  | NotFoundEv -> Some "NF"
  | SpecFileEv -> Some "SF"
  | CorsEv (ms, hs) ->
    let hs' = if sortcors then List.sort_uniq compare (List.map string_of_str hs) else List.map string_of_str hs in
    let hx s = if s = "" then "-" else hex s in
    Some (Printf.sprintf "CORS(%s!%s)" (hx (join ms)) (hx (String.concat "," hs')))

let string_of_outcome ?(auth = true) ?(sortcors = false) (o : outcome) =
  let evs = List.filter_map (string_of_event ~auth ~sortcors) o.trace in
  Printf.sprintf "%d|%s" (int_of_nat o.status) (if evs = [] then "-" else String.concat ";" evs)

(* ---------- parameters: O (oracle), P (operation declaration) lines ---------- *)
let rec z_of_int n : z = if n = 0 then Z0 else if n > 0 then Zpos (pos_of_int n) else Zneg (pos_of_int (-n))
and pos_of_int n : positive =
  if n = 1 then XH else if n land 1 = 0 then XO (pos_of_int (n lsr 1)) else XI (pos_of_int (n lsr 1))

let rec string_of_pos_acc (p : positive) : string =
  (* decimal via repeated doubling on a digit list *)
  let rec digits p = match p with
    | XH -> [1]
    | XO q -> dbl (digits q) 0
    | XI q -> dbl (digits q) 1
  and dbl ds carry =
    (* ds little-endian decimal digits; returns 2*ds + carry *)
    let rec go ds c = match ds with
      | [] -> if c = 0 then [] else [c]
      | d :: r -> let v = 2 * d + c in (v mod 10) :: go r (v / 10) in
    go ds carry in
  String.concat "" (List.rev_map string_of_int (digits p))

let string_of_z (z : z) = match z with
  | Z0 -> "0" | Zpos p -> string_of_pos_acc p | Zneg p -> "-" ^ string_of_pos_acc p

let timefmt_oracle : (string, string) Hashtbl.t = Hashtbl.create 64
let ffmt_oracle : (string, string) Hashtbl.t = Hashtbl.create 64
let num_oracle : (string, string option) Hashtbl.t = Hashtbl.create 256
let float_oracle : (string, string option) Hashtbl.t = Hashtbl.create 256
let time_oracle : (string, string option) Hashtbl.t = Hashtbl.create 256

let o_line args =
  (match args with
   | ["float"; bits; lex; r] -> Hashtbl.replace float_oracle (bits ^ ":" ^ lex) (if r = "ERR" then None else Some (unhex r))
   | ["time"; lex; r] -> Hashtbl.replace time_oracle lex (if r = "ERR" then None else Some (unhex r))
   | ["ffmt"; bits; repr; text] -> Hashtbl.replace ffmt_oracle (bits ^ ":" ^ unhex repr) (unhex text)
   | ["timefmt"; repr; text] -> Hashtbl.replace timefmt_oracle (unhex repr) (unhex text)
   | ["num"; bits; lit; r] -> Hashtbl.replace num_oracle (bits ^ ":" ^ unhex lit) (if r = "ERR" then None else Some (unhex r))
   | _ -> ());
  "SKIP oracle"

let parse_float_oracle (bits : z) (s : ascii list) : ascii list option =
  let key = string_of_z bits ^ ":" ^ hex_of_str s in
  match Hashtbl.find_opt float_oracle key with
  | Some (Some r) -> Some (str_of_string r)
  | Some None -> None
  | None -> failwith ("missing float oracle " ^ key)

let parse_time_oracle (s : ascii list) : ascii list option =
  let key = hex_of_str s in
  match Hashtbl.find_opt time_oracle key with
  | Some (Some r) -> Some (str_of_string r)
  | Some None -> None
  | None -> failwith ("missing time oracle " ^ key)

(* sch syntax: s i0 i32 i64 f32 f64 b t | n(<sch>) | a(<sch>) | r(<hexname>,<sch>) *)
let parse_sch (t : string) : sch =
  let n = String.length t in
  let rec go i =
    if i >= n then failwith "sch" else
    match t.[i] with
    | 's' -> (SPrim PStr, i + 1)
    | 'b' -> (SPrim PBool, i + 1)
    | 't' -> (SPrim PTime, i + 1)
    | 'i' | 'f' ->
      let j = ref (i + 1) in
      while !j < n && t.[!j] >= '0' && t.[!j] <= '9' do incr j done;
      let bits = z_of_int (int_of_string (String.sub t (i + 1) (!j - i - 1))) in
      ((if t.[i] = 'i' then SPrim (PInt bits) else SPrim (PFloat bits)), !j)
    | 'n' -> let (x, j) = go (i + 2) in (SNullable x, j + 1)
    | 'a' -> let (x, j) = go (i + 2) in (SArr x, j + 1)
    | 'r' ->
      let c = String.index_from t i ',' in
      let name = String.sub t (i + 2) (c - i - 2) in
      let (x, j) = go (c + 1) in (SRef (str_of_hex name, x), j + 1)
    | _ -> failwith ("sch " ^ t) in
  fst (go 0)

let parse_decls (t : string) : pdecl list =
  if t = "-" then [] else
    List.map (fun d -> match String.split_on_char ':' d with
        | [n; r; sc] -> { d_name = str_of_hex n; d_required = (r = "1"); d_sch = parse_sch sc }
        | _ -> failwith "decl") (split_on ';' t)

let parse_dirs (t : string) : (ascii list * sch option) list =
  List.map (fun d ->
      if d.[0] = 'L' then (str_of_hex (String.sub d 1 (String.length d - 1)), None)
      else match String.index_opt d ':' with
        | Some i -> (str_of_hex (String.sub d 1 (i - 1)), Some (parse_sch (String.sub d (i + 1) (String.length d - i - 1))))
        | None -> failwith "dir") (split_on ';' t)

let opdecls : (string, opdecl) Hashtbl.t = Hashtbl.create 256
(* declaration order of the path parameters (the field order of the generated Path struct), per operation *)
let path_orders : (string, ascii list list) Hashtbl.t = Hashtbl.create 256

(* the template-order path fields of [od] paired with their variable names *)
let path_vars (od : opdecl) : (ascii list * sch) list =
  List.filter_map (fun (n, o) -> match o with Some sc -> Some (n, sc) | None -> None) od.od_path

(* reorder template-order items into declaration order (and back) *)
let decl_order (key : string) (od : opdecl) : ascii list list =
  let vars = List.map fst (path_vars od) in
  match Hashtbl.find_opt path_orders key with
  | Some po when List.sort compare po = List.sort compare vars -> po
  | _ -> vars

let p_line args =
  match args with
  | pkg :: key :: rest ->
    let kv = kv_of_args rest in
    Hashtbl.replace opdecls (pkg ^ " " ^ key)
      { od_query = parse_decls (List.assoc "q" kv); od_header = parse_decls (List.assoc "h" kv);
        od_path = parse_dirs (List.assoc "p" kv) };
    (match List.assoc_opt "po" kv with
     | Some po when po <> "-" -> Hashtbl.replace path_orders (pkg ^ " " ^ key) (parse_hexlist po)
     | _ -> Hashtbl.remove path_orders (pkg ^ " " ^ key));
    "SKIP opdecl"
  | _ -> fail_line "P args"

let rec dump_pval (v : pval) : string = match v with
  | VS s -> "S(" ^ hex_of_str s ^ ")"
  | VI z -> "I(" ^ string_of_z z ^ ")"
  | VF r -> "F(" ^ string_of_str r ^ ")"
  | VB b -> if b then "B(1)" else "B(0)"
  | VT r -> "T(" ^ string_of_str r ^ ")"
  | VL l -> "[" ^ String.concat "," (List.map dump_pval l) ^ "]"
  | VP x -> "P(" ^ dump_pval x ^ ")"

let dump_field (f : field) = match f with
  | FVal v -> dump_pval v
  | FMaybe None -> "N"
  | FMaybe (Some v) -> "J(" ^ dump_pval v ^ ")"

let dump_parsed ?(key = "") (od : opdecl) (p : parsed) : string =
  let sec l = "{" ^ String.concat "," (List.map dump_field l) ^ "}" in
  let pp_decl =
    let named = List.combine (List.map fst (path_vars od)) p.pp in
    List.map (fun n -> List.assoc n named) (decl_order key od) in
  let parts =
    (if od.od_query <> [] then [sec p.pq] else [])
    @ (if List.exists (fun (_, o) -> o <> None) od.od_path then [sec pp_decl] else [])
    @ (if od.od_header <> [] then [sec p.ph] else []) in
  "{" ^ String.concat "," parts ^ "}"

let model_parse pkg (s : rspec) (o : outcome) (rq : request) : string =
  (* which operation ran? *)
  let h = List.find_map (fun e -> match e with HandlerEv (m, raw, _) -> Some (m, raw) | _ -> None) o.trace in
  match h with
  | None -> "-"
  | Some (m, raw) ->
    (match Hashtbl.find_opt opdecls (pkg ^ " " ^ string_of_str m ^ ":" ^ hex_of_str raw) with
     | None -> "-"
     | Some od ->
       (match parse_request parse_float_oracle parse_time_oracle (gen_base s) od rq with
        | Ok p -> dump_parsed ~key:(pkg ^ " " ^ string_of_str m ^ ":" ^ hex_of_str raw) od p
        | Err n -> "Err(" ^ hex_of_str n ^ ")"
        | ErrOther -> "ErrOther"))

let specs : (string, rspec) Hashtbl.t = Hashtbl.create 64

let s_line args =
  match args with
  | pkg :: rest ->
    let s = parse_rspec (kv_of_args rest) in
    Hashtbl.replace specs pkg s;
    let a = if gen_accepts s then "accept|-" else "reject|-" in
    "model=" ^ a ^ " spec=" ^ a
  | _ -> fail_line "S args"

(* R <pkg> <cfg> <METHOD> <hexurl> <hexheaders> <hexbody> <hexpath> <hexquery> *)
let r_line args =
  match args with
  | [pkg; cfg; m; _url; hdrs; _body; path; query] ->
    let s = (try Hashtbl.find specs pkg with Not_found -> failwith ("no spec " ^ pkg)) in
    let rq = { q_method = str_of_string m; q_path = str_of_hex path;
               q_query = parse_pairs '=' query; q_headers = parse_pairs ':' hdrs } in
    let c = parse_cfg cfg in
    let o = serve s c rq in
    "model=" ^ string_of_outcome o ^ "|" ^ model_parse pkg s o rq
    ^ " spec=" ^ string_of_outcome ~auth:false ~sortcors:true (serve_spec s c rq)
  | _ -> fail_line "R args"

(* ---------- JSON: J (type), E (encode / round trip), U (decode) lines ---------- *)
(* a small JSON reader/printer (trusted glue) *)
exception Json_error of string

let parse_json_text (t : string) : json =
  let n = String.length t in
  let i = ref 0 in
  let peek () = if !i < n then t.[!i] else '\000' in
  let rec ws () = if !i < n && (t.[!i] = ' ' || t.[!i] = '\n' || t.[!i] = '\t' || t.[!i] = '\r') then (incr i; ws ()) in
  let expect c = if peek () = c then incr i else raise (Json_error (Printf.sprintf "expected %c at %d" c !i)) in
  let add_utf8 b cp =
    if cp < 0x80 then Buffer.add_char b (Char.chr cp)
    else if cp < 0x800 then (Buffer.add_char b (Char.chr (0xC0 lor (cp lsr 6))); Buffer.add_char b (Char.chr (0x80 lor (cp land 0x3F))))
    else if cp < 0x10000 then (Buffer.add_char b (Char.chr (0xE0 lor (cp lsr 12))); Buffer.add_char b (Char.chr (0x80 lor ((cp lsr 6) land 0x3F))); Buffer.add_char b (Char.chr (0x80 lor (cp land 0x3F))))
    else (Buffer.add_char b (Char.chr (0xF0 lor (cp lsr 18))); Buffer.add_char b (Char.chr (0x80 lor ((cp lsr 12) land 0x3F))); Buffer.add_char b (Char.chr (0x80 lor ((cp lsr 6) land 0x3F))); Buffer.add_char b (Char.chr (0x80 lor (cp land 0x3F)))) in
  let parse_string () =
    expect '"';
    let b = Buffer.create 16 in
    let rec go () =
      if !i >= n then raise (Json_error "unterminated string");
      let c = t.[!i] in
      incr i;
      if c = '"' then ()
      else if c = '\\' then begin
        let e = t.[!i] in incr i;
        (match e with
         | 'n' -> Buffer.add_char b '\n' | 't' -> Buffer.add_char b '\t' | 'r' -> Buffer.add_char b '\r'
         | 'b' -> Buffer.add_char b '\b' | 'f' -> Buffer.add_char b '\012'
         | 'u' ->
           let hex4 () = let v = int_of_string ("0x" ^ String.sub t !i 4) in i := !i + 4; v in
           let cp = hex4 () in
           if cp >= 0xD800 && cp < 0xDC00 && !i + 6 <= n && t.[!i] = '\\' && t.[!i + 1] = 'u' then begin
             i := !i + 2;
             let lo = hex4 () in
             add_utf8 b (0x10000 + ((cp - 0xD800) lsl 10) + (lo - 0xDC00))
           end else add_utf8 b cp
         | c -> Buffer.add_char b c);
        go ()
      end else (Buffer.add_char b c; go ()) in
    go (); Buffer.contents b in
  let rec value () : json =
    ws ();
    match peek () with
    | '{' ->
      incr i; ws ();
      if peek () = '}' then (incr i; JObj []) else begin
        let rec members acc =
          ws (); let k = parse_string () in ws (); expect ':';
          let v = value () in ws ();
          if peek () = ',' then (incr i; members ((str_of_string k, v) :: acc))
          else (expect '}'; List.rev ((str_of_string k, v) :: acc)) in
        JObj (members [])
      end
    | '[' ->
      incr i; ws ();
      if peek () = ']' then (incr i; JArr []) else begin
        let rec elems acc =
          let v = value () in ws ();
          if peek () = ',' then (incr i; elems (v :: acc)) else (expect ']'; List.rev (v :: acc)) in
        JArr (elems [])
      end
    | '"' -> JStr (str_of_string (parse_string ()))
    | 't' -> i := !i + 4; JBool true
    | 'f' -> i := !i + 5; JBool false
    | 'n' -> i := !i + 4; JNull
    | _ ->
      let st = !i in
      while !i < n && (match t.[!i] with '0' .. '9' | '-' | '+' | '.' | 'e' | 'E' -> true | _ -> false) do incr i done;
      if !i = st then raise (Json_error (Printf.sprintf "unexpected char at %d" st));
      JNum (str_of_string (String.sub t st (!i - st))) in
  let v = value () in ws ();
  if !i <> n then raise (Json_error "trailing data");
  v

let json_escape (s : string) : string =
  let b = Buffer.create (String.length s + 2) in
  Buffer.add_char b '"';
  String.iter (fun c ->
      match c with
      | '"' -> Buffer.add_string b "\\\""
      | '\\' -> Buffer.add_string b "\\\\"
      | '\n' -> Buffer.add_string b "\\n"
      | '\r' -> Buffer.add_string b "\\r"
      | '\t' -> Buffer.add_string b "\\t"
      | c when Char.code c < 0x20 -> Buffer.add_string b (Printf.sprintf "\\u%04x" (Char.code c))
      | c -> Buffer.add_char b c) s;
  Buffer.add_char b '"';
  Buffer.contents b

let rec print_json (j : json) : string =
  match j with
  | JNull -> "null"
  | JBool b -> if b then "true" else "false"
  | JNum t -> string_of_str t
  | JStr s -> json_escape (string_of_str s)
  | JArr l -> "[" ^ String.concat "," (List.map print_json l) ^ "]"
  | JObj ms -> "{" ^ String.concat "," (List.map (fun (k, v) -> json_escape (string_of_str k) ^ ":" ^ print_json v) ms) ^ "}"


let fmt_float_o (_bits : z) (repr : ascii list) : ascii list = repr
let fmt_time_o (repr : ascii list) : ascii list =
  match Hashtbl.find_opt timefmt_oracle (string_of_str repr) with
  | Some t -> str_of_string t
  | None -> failwith ("missing timefmt oracle " ^ string_of_str repr)
let parse_num_o (bits : z) (lit : ascii list) : ascii list option =
  let key = string_of_z bits ^ ":" ^ string_of_str lit in
  match Hashtbl.find_opt num_oracle key with
  | Some r -> Option.map str_of_string r
  | None -> failwith ("missing num oracle " ^ key)

(* jsch syntax: s i<b> f<b> b t y | n(..) | a(..) | o(m;m;...|addl) with m = F<hexname>:<req>:<sch> | E:<sch> *)
let parse_jsch (t : string) : jsch =
  let n = String.length t in
  let rec go i : jsch * int =
    match t.[i] with
    | 's' -> (JPrimS QStr, i + 1)
    | 'b' -> (JPrimS QBool, i + 1)
    | 't' -> (JPrimS QTime, i + 1)
    | 'y' -> (JPrimS QAny, i + 1)
    | 'i' | 'f' ->
      let j = ref (i + 1) in
      while !j < n && t.[!j] >= '0' && t.[!j] <= '9' do incr j done;
      let bits = z_of_int (int_of_string (String.sub t (i + 1) (!j - i - 1))) in
      ((if t.[i] = 'i' then JPrimS (QInt bits) else JPrimS (QNum bits)), !j)
    | 'n' -> let (x, j) = go (i + 2) in (JNullS x, j + 1)
    | 'a' -> let (x, j) = go (i + 2) in (JArrS x, j + 1)
    | 'o' ->
      let rec members i acc =
        if t.[i] = '|' then (List.rev acc, i + 1)
        else if t.[i] = ';' then members (i + 1) acc
        else if t.[i] = 'E' then
          let (x, j) = go (i + 2) in members j ((MEmbed, x) :: acc)
        else begin
          (* F<hexname>:<req>:<sch> *)
          let c1 = String.index_from t i ':' in
          let name = String.sub t (i + 1) (c1 - i - 1) in
          let req = t.[c1 + 1] = '1' in
          let (x, j) = go (c1 + 3) in
          members j ((MField (str_of_hex name, req), x) :: acc)
        end in
      let (ms, j) = members (i + 2) [] in
      if t.[j] = '-' then (JObjS (ms, None), j + 2)
      else let (x, k) = go j in (JObjS (ms, Some x), k + 1)
    | c -> failwith (Printf.sprintf "jsch at %d in %s" i t) in
  fst (go 0)

(* value syntax (Dump), directed by the schema *)
let parse_gval ?(pos = ref 0) (s : jsch) (t : string) : gval =
  let n = String.length t in
  let i = pos in
  let has p = !i + String.length p <= n && String.sub t !i (String.length p) = p in
  let eat p = if has p then (i := !i + String.length p; true) else false in
  let until stops =
    let st = !i in
    while !i < n && not (String.contains stops t.[!i]) do incr i done;
    String.sub t st (!i - st) in
  let rec go (s : jsch) : gval =
    match s with
    | JPrimS QStr -> ignore (eat "S("); let h = until ")" in ignore (eat ")"); GStr (str_of_hex h)
    | JPrimS (QInt _) -> ignore (eat "I("); let h = until ")" in ignore (eat ")");
      GInt (let neg = String.length h > 0 && h.[0] = '-' in
            let digits = if neg then String.sub h 1 (String.length h - 1) else h in
            let v = String.fold_left (fun acc c -> Z.add (Z.mul acc (z_of_int 10)) (z_of_int (Char.code c - 48))) Z0 digits in
            if neg then Z.opp v else v)
    | JPrimS (QNum _) -> ignore (eat "F("); let h = until ")" in ignore (eat ")"); GFlt (str_of_string h)
    | JPrimS QBool -> ignore (eat "B("); let h = until ")" in ignore (eat ")"); GBool (h = "1")
    | JPrimS QTime -> ignore (eat "T("); let h = until ")" in ignore (eat ")"); GTime (str_of_string h)
    | JPrimS QAny -> ignore (eat "Raw("); let h = until ")" in ignore (eat ")");
      GRaw (parse_json_text (if h = "-" then "null" else unhex h))
    | JNullS s' -> if eat "Null" then GNullable None else (ignore (eat "P("); let v = go s' in ignore (eat ")"); GNullable (Some v))
    | JArrS it ->
      if eat "Nil[]" then GList [] else begin
        ignore (eat "[");
        let rec elems acc = if has "]" then List.rev acc else (let v = go it in ignore (eat ","); elems (v :: acc)) in
        let l = elems [] in ignore (eat "]"); GList l
      end
    | JObjS (ms, addl) ->
      ignore (eat "{");
      let fs = List.map (fun (k, sf) ->
          let v = (match k with
              | MEmbed -> go sf
              | MField (_, true) -> go sf
              | MField (_, false) -> if eat "N" then GMaybe None else (ignore (eat "J("); let v = go sf in ignore (eat ")"); GMaybe (Some v))) in
          ignore (eat ","); v) ms in
      let ad = (match addl with
          | None -> []
          | Some sa ->
            if eat "NilMap" then [] else begin
              ignore (eat "M{");
              let rec kvs acc = if has "}" then List.rev acc else begin
                  let k = until "=" in ignore (eat "=");
                  let v = go sa in ignore (eat ","); kvs ((str_of_hex k, v) :: acc) end in
              let l = kvs [] in ignore (eat "}"); l
            end) in
      ignore (eat ","); ignore (eat "}");
      GStruct (fs, ad) in
  go s

let rec dump_gval (s : jsch) (v : gval) : string =
  match s, v with
  | _, GStr x -> "S(" ^ hex_of_str x ^ ")"
  | _, GInt z -> "I(" ^ string_of_z z ^ ")"
  | _, GFlt r -> "F(" ^ string_of_str r ^ ")"
  | _, GBool b -> if b then "B(1)" else "B(0)"
  | _, GTime r -> "T(" ^ string_of_str r ^ ")"
  | _, GRaw j -> "Raw(" ^ hex (print_json j) ^ ")"
  | JNullS s', GNullable None -> "Null"
  | JNullS s', GNullable (Some x) -> "P(" ^ dump_gval s' x ^ ")"
  | _, GMaybe None -> "N"
  | _, GMaybe (Some x) -> "J(" ^ dump_gval s x ^ ")"
  | JArrS it, GList l -> "[" ^ String.concat "," (List.map (dump_gval it) l) ^ "]"
  | JObjS (ms, addl), GStruct (fs, ad) ->
    let parts = List.map2 (fun (_, sf) f -> dump_gval sf f) ms fs in
    let parts = (match addl with
        | None -> parts
        | Some sa ->
          let kv = List.sort compare (List.map (fun (k, x) -> hex_of_str k ^ "=" ^ dump_gval sa x) ad) in
          parts @ ["M{" ^ String.concat "," kv ^ "}"]) in
    "{" ^ String.concat "," parts ^ "}"
  | _, _ -> "?"

let jtypes : (string, jsch) Hashtbl.t = Hashtbl.create 64

let j_line args =
  match args with
  | [pkg; name; sch] -> Hashtbl.replace jtypes (pkg ^ " " ^ name) (parse_jsch sch); "SKIP jtype"
  | _ -> fail_line "J args"

let res_json_string r = match r with
  | Ok j -> hex (print_json j)
  | _ -> "MarshalErr"

let e_line args =
  match args with
  | [pkg; name; v] ->
    let s = Hashtbl.find jtypes (pkg ^ " " ^ name) in
    let gv = parse_gval s v in
    let r = json_enc fmt_float_o fmt_time_o s gv in
    (match r with
     | Ok j ->
       let back = (match json_dec parse_num_o parse_time_oracle s j with
           | Ok v' -> dump_gval s v'
           | Err k -> "Err(" ^ hex_of_str k ^ ")"
           | ErrOther -> "ErrOther") in
       "model=" ^ hex (print_json j) ^ " back=" ^ back ^ " valid=" ^ (if validates parse_num_o parse_time_oracle s j then "1" else "0")
     | _ -> "model=MarshalErr")
  | _ -> fail_line "E args"

let u_line args =
  match args with
  | [pkg; name; h] ->
    let s = Hashtbl.find jtypes (pkg ^ " " ^ name) in
    let j = parse_json_text (unhex h) in
    let valid = validates parse_num_o parse_time_oracle s j in
    (match json_dec parse_num_o parse_time_oracle s j with
     | Ok v ->
       "model=" ^ dump_gval s v ^ " reenc=" ^ res_json_string (json_enc fmt_float_o fmt_time_o s v)
       ^ " valid=" ^ (if valid then "1" else "0")
       ^ (if valid then " keep=" ^ hex (print_json (json_keep fmt_float_o fmt_time_o parse_num_o parse_time_oracle s j [] false)) else "")
     | Err k -> "model=Err(" ^ hex_of_str k ^ ") valid=" ^ (if valid then "1" else "0")
     | ErrOther -> "model=ErrOther valid=" ^ (if valid then "1" else "0"))
  | _ -> fail_line "U args"

(* ---------- oneOf components (Model/OneOf.v) ---------- *)
let otypes : (string, oneof) Hashtbl.t = Hashtbl.create 64

let jo_line args =
  match args with
  | [pkg; name; key; cases; vs] ->
    let variants = List.map parse_jsch (String.split_on_char '+' vs) in
    let disc = if key = "-" then None else
        Some (str_of_hex key,
              List.map (fun c -> match String.split_on_char ':' c with
                  | [i; names] -> (nat_of_int (int_of_string i), List.map str_of_hex (split_on '.' names))
                  | _ -> failwith "JO case") (split_on ',' cases)) in
    Hashtbl.replace otypes (pkg ^ " " ^ name) { o_variants = variants; o_disc = disc }; "SKIP otype"
  | _ -> fail_line "JO args"

(* {N,J(<value of variant 1>),N}: one Maybe field per variant *)
let parse_oval (o : oneof) (t : string) : gval option list =
  let pos = ref 1 in
  List.map (fun s ->
      let r =
        if t.[!pos] = 'N' then (incr pos; None)
        else begin
          pos := !pos + 2;
          let v = parse_gval ~pos s t in
          if !pos < String.length t && t.[!pos] = ')' then incr pos;
          Some v
        end in
      if !pos < String.length t && t.[!pos] = ',' then incr pos;
      r) o.o_variants

let dump_oval (o : oneof) (fs : gval option list) : string =
  if List.length fs <> List.length o.o_variants then "?" else
  "{" ^ String.concat "," (List.map2 (fun s f -> match f with None -> "N" | Some v -> "J(" ^ dump_gval s v ^ ")") o.o_variants fs) ^ "}"

let dump_ores (o : oneof) r = match r with
  | Ok fs -> dump_oval o fs
  | Err k -> "Err(" ^ hex_of_str k ^ ")"
  | ErrOther -> "ErrOther"

let eo_line args =
  match args with
  | [pkg; name; v] ->
    let o = Hashtbl.find otypes (pkg ^ " " ^ name) in
    let fs = parse_oval o v in
    (match oneof_enc fmt_float_o fmt_time_o o.o_variants fs with
     | Ok j -> "model=" ^ hex (print_json j) ^ " back=" ^ dump_ores o (oneof_dec parse_num_o parse_time_oracle o j)
     | _ -> "model=MarshalErr")
  | _ -> fail_line "EO args"

let uo_line args =
  match args with
  | [pkg; name; h] ->
    let o = Hashtbl.find otypes (pkg ^ " " ^ name) in
    "model=" ^ dump_ores o (oneof_dec parse_num_o parse_time_oracle o (parse_json_text (unhex h)))
  | _ -> fail_line "UO args"

(* ---------- C15: abstraction of a loaded document into the nil-safety model ---------- *)
let jget (j : json) (k : string) : json option =
  match j with
  | JObj ms -> (try Some (List.assoc (str_of_string k) ms) with Not_found -> None)
  | _ -> None

let jstr (j : json option) : string = match j with Some (JStr s) -> string_of_str s | _ -> ""

let jmembers (j : json option) : (ascii list * json) list = match j with Some (JObj ms) -> ms | _ -> []
let jelems (j : json option) : json list = match j with Some (JArr l) -> l | _ -> []

let after_last_slash (s : string) =
  match String.rindex_opt s '/' with Some i -> String.sub s (i + 1) (String.length s - i - 1) | None -> s

let rec abs_sref (j : json option) : sref =
  match j with
  | None | Some JNull -> SNil
  | Some (JObj _ as o) ->
    (match jget o "$ref" with
     | Some (JStr r) -> SRefTo (str_of_string (after_last_slash (string_of_str r)))
     | _ ->
       SVal (str_of_string (jstr (jget o "type")),
             abs_sref (jget o "items"),
             List.map (fun (k, v) -> (k, abs_sref (Some v))) (jmembers (jget o "properties")),
             (match jget o "additionalProperties" with Some (JBool _) -> SNil | x -> abs_sref x),
             List.map (fun v -> abs_sref (Some v)) (jelems (jget o "allOf")),
             List.map (fun v -> abs_sref (Some v)) (jelems (jget o "oneOf"))))
  | Some _ -> SEmpty

let abs_content (j : json option) : (ascii list * media) list =
  List.map (fun (k, v) -> (k, (match v with JNull -> MNil | _ -> MVal (abs_sref (jget v "schema"))))) (jmembers j)

let abs_header (v : json) : header =
  match v with
  | JNull -> HNilValue
  | _ -> (match jget v "$ref" with Some (JStr r) -> HRefTo (str_of_string (after_last_slash (string_of_str r)))
                                 | _ -> HVal (abs_sref (jget v "schema")))

let abs_param (v : json) : param =
  match v with
  | JNull -> PNilValue
  | _ -> (match jget v "$ref" with Some (JStr r) -> PRefTo (str_of_string (after_last_slash (string_of_str r)))
                                 | _ -> PVal (str_of_string (jstr (jget v "in")), abs_sref (jget v "schema")))

let abs_response (v : json) : response =
  match v with
  | JNull -> RNilValue
  | _ -> (match jget v "$ref" with Some (JStr r) -> RRefTo (str_of_string (after_last_slash (string_of_str r)))
                                 | _ -> RVal (abs_content (jget v "content"), List.map (fun (k, h) -> (k, abs_header h)) (jmembers (jget v "headers"))))

let abs_body (j : json option) : body =
  match j with
  | None -> BAbsent
  | Some JNull -> BNilValue
  | Some v -> (match jget v "$ref" with Some (JStr r) -> BRefTo (str_of_string (after_last_slash (string_of_str r)))
                                      | _ -> BVal (abs_content (jget v "content")))

let http_method_names = ["get"; "post"; "patch"; "put"; "delete"; "connect"; "head"; "options"; "trace"]

let abs_pathitem (v : json) : pathitem =
  match v with
  | JNull -> PINil
  | _ ->
    let ops = List.filter_map (fun m ->
        match jget v m with
        | Some (JObj _ as o) ->
          Some { op_params = List.map abs_param (jelems (jget o "parameters"));
                 op_body = abs_body (jget o "requestBody");
                 op_responses = List.map (fun (k, r) -> (k, abs_response r)) (jmembers (jget o "responses")) }
        | _ -> None) http_method_names in
    PIVal (List.map abs_param (jelems (jget v "parameters")), ops)

let abs_dkind (j : json option) : dkind = match j with None | Some JNull -> DAbsent | Some (JStr _) -> DString | Some _ -> DOther

let abs_server (v : json) : server =
  match v with
  | JNull -> SvNil
  | _ -> SvVal (List.map (fun (k, sv) ->
      (k, (match sv with JNull -> VNil
                       | _ -> VVal (abs_dkind (jget sv "default"), List.map (fun e -> abs_dkind (Some e)) (jelems (jget sv "enum"))))))
      (jmembers (jget v "variables")))

let abs_doc (j : json) : doc =
  let comps = (match jget j "components" with Some c -> c | None -> JNull) in
  { d_servers = List.map abs_server (jelems (jget j "servers"));
    d_schemas = List.map (fun (k, v) -> (k, abs_sref (Some v))) (jmembers (jget comps "schemas"));
    d_headers = List.map (fun (k, v) -> (k, abs_header v)) (jmembers (jget comps "headers"));
    d_bodies = List.map (fun (k, v) -> (k, abs_body (Some v))) (jmembers (jget comps "requestBodies"));
    d_responses = List.map (fun (k, v) -> (k, abs_response v)) (jmembers (jget comps "responses"));
    d_params = List.map (fun (k, v) -> (k, abs_param v)) (jmembers (jget comps "parameters"));
    d_paths = List.map (fun (k, v) -> (k, abs_pathitem v)) (jmembers (jget j "paths")) }

let rec coq_string_to_ocaml (s : Model.string) : string =
  match s with EmptyString -> "" | String (c, r) -> String.make 1 (char_of_ascii c) ^ coq_string_to_ocaml r

let c15 args =
  match args with
  | [_base; _kind; _path; h] ->
    let d = abs_doc (parse_json_text (unhex h)) in
    let inv = if loader_inv d then "1" else "0" in
    (match gen_front d with
     | Clean -> "model=clean must=any inv=" ^ inv
     | MustErr -> "model=clean must=err inv=" ^ inv
     | Panic site -> "model=PANIC site=" ^ hex (coq_string_to_ocaml site) ^ " inv=" ^ inv)
  | _ -> fail_line "C15 args"

(* ---------- C09: K (client call) lines ---------- *)
let fmt_float_client (bits : z) (repr : ascii list) : ascii list =
  let key = string_of_z bits ^ ":" ^ string_of_str repr in
  match Hashtbl.find_opt ffmt_oracle key with
  | Some t -> str_of_string t
  | None -> failwith ("missing ffmt oracle " ^ key)

(* a pval in Dump syntax, directed by the parameter schema *)
let parse_pval_text (sc0 : sch) (t : string) (i : int ref) : pval =
  let n = String.length t in
  let has p = !i + String.length p <= n && String.sub t !i (String.length p) = p in
  let eat p = if has p then (i := !i + String.length p; true) else false in
  let until stops = let st = !i in while !i < n && not (String.contains stops t.[!i]) do incr i done; String.sub t st (!i - st) in
  let rec go (sc : sch) : pval =
    match sc with
    | SPrim PStr -> ignore (eat "S("); let h = until ")" in ignore (eat ")"); VS (str_of_hex h)
    | SPrim (PInt _) -> ignore (eat "I("); let h = until ")" in ignore (eat ")");
      let neg = String.length h > 0 && h.[0] = '-' in
      let digits = if neg then String.sub h 1 (String.length h - 1) else h in
      let v = String.fold_left (fun acc c -> Z.add (Z.mul acc (z_of_int 10)) (z_of_int (Char.code c - 48))) Z0 digits in
      VI (if neg then Z.opp v else v)
    | SPrim (PFloat _) -> ignore (eat "F("); let h = until ")" in ignore (eat ")"); VF (str_of_string h)
    | SPrim PBool -> ignore (eat "B("); let h = until ")" in ignore (eat ")"); VB (h = "1")
    | SPrim PTime -> ignore (eat "T("); let h = until ")" in ignore (eat ")"); VT (str_of_string h)
    | SNullable s' -> if eat "Null" then raise Exit else (ignore (eat "P("); let v = go s' in ignore (eat ")"); VP v)
    | SArr it ->
      ignore (eat "[");
      let rec elems acc = if has "]" then List.rev acc else (let v = go it in ignore (eat ","); elems (v :: acc)) in
      let l = elems [] in ignore (eat "]"); VL l
    | SRef (_, tgt) -> go tgt in
  go sc0

let parse_fields (ds : (sch * bool) list) (t : string) (i : int ref) : field list =
  (* "{f,f,...}" ; bool = required *)
  let n = String.length t in
  let has p = !i + String.length p <= n && String.sub t !i (String.length p) = p in
  let eat p = if has p then (i := !i + String.length p; true) else false in
  ignore (eat "{");
  let fs = List.map (fun (sc, req) ->
      let f =
        if req then FVal (parse_pval_text sc t i)
        else if eat "N" then FMaybe None
        else (ignore (eat "J("); let v = parse_pval_text sc t i in ignore (eat ")"); FMaybe (Some v)) in
      ignore (eat ","); f) ds in
  ignore (eat "}"); fs

let parse_parsed ?(key = "") (od : opdecl) (t : string) : parsed =
  let i = ref 0 in
  let n = String.length t in
  let eat p = if !i + String.length p <= n && String.sub t !i (String.length p) = p then (i := !i + String.length p; true) else false in
  ignore (eat "{");
  let q = if od.od_query <> [] then (let r = parse_fields (List.map (fun d -> (d.d_sch, d.d_required)) od.od_query) t i in ignore (eat ","); r) else [] in
  (* the Path struct is in declaration order; the model's pp is in template order *)
  let tvars = path_vars od in
  let order = decl_order key od in
  let p =
    if tvars = [] then [] else begin
      let r = parse_fields (List.map (fun n -> (List.assoc n tvars, true)) order) t i in
      ignore (eat ",");
      let named = List.combine order r in
      List.map (fun (n, _) -> List.assoc n named) tvars
    end in
  let h = if od.od_header <> [] then (let r = parse_fields (List.map (fun d -> (d.d_sch, d.d_required)) od.od_header) t i in ignore (eat ","); r) else [] in
  { pq = q; ph = h; pp = p }

let k_line args =
  let go pkg key v (body : (string * string) option) =
    let s = (try Hashtbl.find specs pkg with Not_found -> failwith ("no spec " ^ pkg)) in
    let od = (try Hashtbl.find opdecls (pkg ^ " " ^ key) with Not_found -> failwith ("no opdecl " ^ key)) in
    let m = String.sub key 0 (String.index key ':') in
    match (try Some (parse_parsed ~key:(pkg ^ " " ^ key) od v) with Exit -> None) with
    | None -> "model=Unexpressible(null-parameter) spec=" ^ v
    | Some sent ->
    (* the body: json.Marshal on the client, json.Decode on the server (Model/Json.v enc, dec); a non-JSON body is passed through *)
    let with_body (params : string) : string =
      match body with
      | None -> params
      | Some (bt, bv) ->
        let inner = String.sub params 1 (String.length params - 2) in
        let b =
          if bt = "raw" then bv
          else
            let js = Hashtbl.find jtypes (pkg ^ " " ^ bt) in
            (match json_enc fmt_float_o fmt_time_o js (parse_gval js bv) with
             | Ok j -> (match json_dec parse_num_o parse_time_oracle js j with
                 | Ok v' -> dump_gval js v'
                 | Err k -> "Err(" ^ hex_of_str k ^ ")"
                 | ErrOther -> "ErrOther")
             | _ -> "MarshalErr") in
        "{" ^ (if inner = "" then "" else inner ^ ",") ^ b ^ "}" in
    (match client_request fmt_float_client fmt_time_o (gen_base s) (str_of_string m) od sent with
     | None -> "model=Unexpressible spec=" ^ v
     | Some rq ->
       let got = (match parse_request parse_float_oracle parse_time_oracle (gen_base s) od rq with
           | Ok p -> with_body (dump_parsed ~key:(pkg ^ " " ^ key) od p)
           | Err n -> "Err(" ^ hex_of_str n ^ ")"
           | ErrOther -> "ErrOther") in
       let sentv = (match body with None -> v | Some (_, bv) ->
           let inner = String.sub v 1 (String.length v - 2) in
           "{" ^ (if inner = "" then "" else inner ^ ",") ^ bv ^ "}") in
       let wire = (match client_wire_url fmt_float_client fmt_time_o (gen_base s) od sent with
           | Some w -> hex_of_str w | None -> "NONE") in
       "model=" ^ got ^ " spec=" ^ sentv ^ " path=" ^ hex_of_str rq.q_path ^ " wire=" ^ wire) in
  match args with
  | [pkg; key; v] -> go pkg key v None
  | [pkg; key; v; bt; bv] -> go pkg key v (Some (bt, bv))
  | _ -> fail_line "K args"

(* ---------- C09: UE lines, net/url escaping against Model/UrlEscape.v ---------- *)
let pairs_of_arg (a : string) =
  if a = "-" then [] else
  List.map (fun kv -> match String.split_on_char ':' kv with
      | [k; v] -> (str_of_hex k, str_of_hex v)
      | _ -> failwith "UE pair") (String.split_on_char ',' a)

(* pairs grouped by key (keys sorted bytewise, values of a key in order): what a url.Values map holds *)
let grouped ps : string =
  match url_sort_pairs ps with
  | [] -> "-"
  | sorted -> String.concat "," (List.map (fun (k, v) -> hex_of_str k ^ ":" ^ hex_of_str v) sorted)

let ue_line args =
  match args with
  | ["ck"; h] -> "model=" ^ hex_of_str (header_canon_key (str_of_hex h))
  | ["pe"; h] -> "model=" ^ hex_of_str (url_path_escape (str_of_hex h))
  | ["qe"; h] -> "model=" ^ hex_of_str (url_query_escape (str_of_hex h))
  | ["pu"; h] -> "model=" ^ (match url_unescape false (str_of_hex h) with Some s -> "ok:" ^ hex_of_str s | None -> "ERR")
  | ["qu"; h] -> "model=" ^ (match url_unescape true (str_of_hex h) with Some s -> "ok:" ^ hex_of_str s | None -> "ERR")
  | ["ve"; a] -> let ps = pairs_of_arg a in
    "model=" ^ hex_of_str (url_encode_query (url_sort_pairs ps)) ^ " spec=" ^ hex_of_str (url_encode_query (url_sort_pairs ps))
  | ["pq"; h] -> "model=" ^ grouped (url_parse_query (str_of_hex h))
  | ["rt"; a] -> let ps = pairs_of_arg a in
    (* Encode then Query(): the model's answer, and what the property wants (the pairs that went in) *)
    "model=" ^ grouped (url_parse_query (url_encode_query (url_sort_pairs ps))) ^ " spec=" ^ grouped ps
  | _ -> fail_line "UE args"

(* ---------- C10 / C02: W (response plans), V (response value), X (stub status) lines ---------- *)
(* plan syntax: <status|default>|<gotype>|<hex ctype or ->|<decls or ->|<none|raw|json:<J name>>, plans joined by '+' *)
let rplans : (string, (rplan * string) list) Hashtbl.t = Hashtbl.create 256

let w_line args =
  match args with
  | [pkg; key; plans] ->
    let parse_plan t =
      match String.split_on_char '|' t with
      | [st; gotype; ct; hs; body] ->
        let b = if body = "none" then BNone else if body = "raw" then BRaw
          else (let name = String.sub body 5 (String.length body - 5) in
                BJson (try Hashtbl.find jtypes (pkg ^ " " ^ name) with Not_found -> failwith ("no J type " ^ name))) in
        ({ rp_status = (if st = "default" then None else Some (z_of_int (int_of_string st)));
           rp_ctype = (if ct = "-" then None else Some (str_of_hex ct));
           rp_headers = parse_decls hs; rp_body = b }, gotype)
      | _ -> failwith "plan" in
    Hashtbl.replace rplans (pkg ^ " " ^ key) (List.map parse_plan (String.split_on_char '+' plans));
    "SKIP rplans"
  | _ -> fail_line "W args"

let dump_rvalue (p : rplan) (v : rvalue) : string =
  let parts =
    (match p.rp_status with None -> ["I(" ^ string_of_z v.rv_code ^ ")"] | Some _ -> [])
    @ (match p.rp_body, v.rv_body with
        | BJson s, VBJson g -> [dump_gval s g]
        | BRaw, VBRaw bs -> ["Body(" ^ hex_of_str bs ^ ")"]
        | _, _ -> [])
    @ (if p.rp_headers <> [] then ["{" ^ String.concat "," (List.map dump_field v.rv_headers) ^ "}"] else []) in
  "{" ^ String.concat "," parts ^ "}"

let wire_string (w : wire) : string =
  let lines = List.sort compare (List.map (fun (k, v) -> string_of_str (canon_key k) ^ ":" ^ string_of_str v ^ "\n") w.w_headers) in
  let body = match w.w_body with WJson j -> hex (print_json j) | WRaw bs -> hex_of_str bs in
  string_of_z w.w_status ^ "," ^ (match lines with [] -> "-" | _ -> hex (String.concat "" lines)) ^ "," ^ body

let decode_result (plans : (rplan * string) list) (w : wire) : string =
  match resp_decode parse_float_oracle parse_time_oracle parse_num_o (List.map fst plans) w with
  | Ok (i, v) -> let (p, gt) = List.nth plans (int_of_nat i) in gt ^ ":" ^ dump_rvalue p v
  | Err n -> "Err(" ^ hex_of_str n ^ ")"
  | ErrOther -> "Err"

let v_line args =
  match args with
  | [pkg; key; idx; code; body; hdrs] ->
    let plans = (try Hashtbl.find rplans (pkg ^ " " ^ key) with Not_found -> failwith ("no plans " ^ key)) in
    let (p, gt) = List.nth plans (int_of_string idx) in
    let code_v = if code = "-" then Z0 else z_of_int (int_of_string code) in
    let body_v = (match p.rp_body with
        | BNone -> VBNone
        | BJson s -> VBJson (parse_gval s body)
        | BRaw -> VBRaw (str_of_hex (String.sub body 5 (String.length body - 6)))) in   (* Body(<hex>) *)
    let hv = if p.rp_headers = [] then [] else parse_fields (List.map (fun d -> (d.d_sch, d.d_required)) p.rp_headers) hdrs (ref 0) in
    let v = { rv_code = code_v; rv_headers = hv; rv_body = body_v } in
    let sent = gt ^ ":" ^ dump_rvalue p v in
    (match resp_write fmt_float_client fmt_float_o fmt_time_o p v with
     | None -> "model=Unwritable spec=" ^ sent
     | Some w -> "model=" ^ decode_result plans w ^ " spec=" ^ sent ^ " wire=" ^ wire_string w)
  | _ -> fail_line "V args"

let x_line args =
  match args with
  | [pkg; key; code; hdrs; body] ->
    let plans = (try Hashtbl.find rplans (pkg ^ " " ^ key) with Not_found -> failwith ("no plans " ^ key)) in
    let c = z_of_int (int_of_string code) in
    let hs = List.filter_map (fun l -> match String.index_opt l ':' with
        | Some i -> Some (str_of_string (String.sub l 0 i), str_of_string (String.sub l (i + 1) (String.length l - i - 1)))
        | None -> None) (String.split_on_char '\n' (unhex hdrs)) in
    let text = if body = "-" then "" else unhex body in
    (* the wire body in the representation the selected plan reads *)
    let wb = (match resp_select (List.map fst plans) c with
        | Some (_, p) -> (match p.rp_body with
            | BJson _ -> (try WJson (parse_json_text text) with _ -> WRaw (str_of_string text))
            | _ -> WRaw (str_of_string text))
        | None -> WRaw (str_of_string text)) in
    "model=" ^ decode_result plans { w_status = c; w_headers = hs; w_body = wb }
  | _ -> fail_line "X args"

(* ---------- C02: Y (response documents), I (implementers of an operation's response interface) ---------- *)
(* Y <pkg> <op>~<st>:i0|<st>:i1|<st>:c<hexname>+<op>~... <name>><alias or ->,... *)
let rdocs : (string, rdoc) Hashtbl.t = Hashtbl.create 64

let y_line args =
  match args with
  | [pkg; ops; comps] ->
    let parse_op t =
      match String.split_on_char '~' t with
      | [name; rs] ->
        { ro_name = str_of_string name;
          ro_responses = List.map (fun r ->
              let i = String.index r ':' in
              let st = String.sub r 0 i and k = String.sub r (i + 1) (String.length r - i - 1) in
              (str_of_string st,
               if k = "i0" then RInline false else if k = "i1" then RInline true
               else RComp (str_of_hex (String.sub k 1 (String.length k - 1))))) (split_on '|' rs) }
      | _ -> failwith "Y op" in
    let parse_comp t =
      match String.split_on_char '>' t with
      | [n; a] -> { rc_name = str_of_string n; rc_alias = (if a = "-" then None else Some (str_of_string a)) }
      | _ -> failwith "Y comp" in
    Hashtbl.replace rdocs pkg
      { rd_ops = List.map parse_op (split_on '+' ops);
        rd_comps = (if comps = "-" then [] else List.map parse_comp (split_on ',' comps)) };
    "SKIP rdoc"
  | _ -> fail_line "Y args"

let i_line args =
  match args with
  | pkg :: op :: _ ->
    let d = (try Hashtbl.find rdocs pkg with Not_found -> failwith ("no rdoc " ^ pkg)) in
    "model=" ^ (match List.sort compare (List.map string_of_str (implementers d (str_of_string op))) with [] -> "-" | l -> String.concat "," l)
  | _ -> fail_line "I args"

let dispatch line =
  match List.filter (fun t -> t = "" || t.[0] <> '#') (String.split_on_char ' ' line) with
  | "C19" :: args -> c19 args
  | "C13" :: args -> c13 args
  | "C15" :: args -> c15 args
  | "C12" :: _ -> "model=1 spec=1"   (* C12_deterministic: exactly one output per (spec, options) *)
  | "S" :: args -> s_line args
  | "D" :: _ -> "SKIP doc"
  | "O" :: args -> o_line args
  | "P" :: args -> p_line args
  | "J" :: args -> j_line args
  | "E" :: args -> e_line args
  | "U" :: args | "UB" :: args -> u_line args
  | "K" :: args -> k_line args
  | "W" :: args -> w_line args
  | "V" :: args -> v_line args
  | "X" :: args -> x_line args
  | "UE" :: args -> ue_line args
  | ["N"; "pfn"; h] -> "model=" ^ hex_of_str (public_field_name (str_of_hex h))
  | ["N"; "jq"; h] -> "model=" ^ hex_of_str (json_string_quote (str_of_hex h))
  | ["N"; "ju"; h] -> "model=" ^ (match json_string_unquote (str_of_hex h) with Some s -> "ok:" ^ hex_of_str s | None -> "ERR")
  | ["N"; "cmt"; h] -> "model=" ^ hex_of_str (holes_comment (str_of_hex h))
  | ["N"; "lex"; h] -> "model=" ^ (match holes_ctx_after (str_of_hex h) with
      | HCode -> "Code" | HIdent -> "Ident" | HStr -> "Str" | HRaw -> "Raw" | HRune -> "Rune"
      | HLineComment -> "LineComment" | HBlockComment -> "BlockComment")
  | "JO" :: args -> jo_line args
  | "EO" :: args -> eo_line args
  | "UO" :: args -> uo_line args
  | "F" :: _ | "RV" :: _ | "EK" :: _ | "XB" :: _ -> "SKIP not-modelled-line"
  | "Y" :: args -> y_line args
  | "I" :: args -> i_line args
  | "R" :: args -> r_line args
  | _ -> fail_line ("unknown case: " ^ line)

let () =
  try
    while true do
      let line = input_line stdin in
      if line <> "" then begin
        let out = (try dispatch line with e -> fail_line (Printexc.to_string e)) in
        print_string out; print_newline ()
      end
    done
  with End_of_file -> ()
