(* Extraction of the executable models for the correspondence check.
   ExtrOcamlBasic only: bool, option, list, prod, unit, sumbool, sumor map to
   OCaml natives (andb/orb inlined); nat, positive, Z, N, ascii stay the Coq
   inductives.  Run from this directory: coqc -Q ../theories Goag Extract.v *)
Require Extraction.
Require Import ExtrOcamlBasic.
From Goag Require Import Base.Str Model.OutDir Model.GoLit Model.Router Model.Serve Model.Params Model.Json Model.OneOf Model.Client Model.Response Model.RespTypes Model.Naming Model.NilSafety Gen.HoleSites Model.Holes Model.UrlEscape Model.JsonString Spec.RouterSpec Spec.ServeSpec Spec.JsonSpec.

(* stable names for the driver, whatever clashes extraction resolves by renaming *)
Definition json_enc := Json.enc.
Definition json_dec := Json.dec.
Definition json_keep := JsonSpec.keep.
Definition oneof_enc := OneOf.enc_oneof.
Definition oneof_dec := OneOf.dec_oneof.
Definition oneof_single := OneOf.single.
Definition resp_write := Response.write.
Definition resp_decode := Response.client_decode.
Definition resp_select := Response.select.
Definition holes_comment := Holes.comment.
Definition url_path_escape := UrlEscape.path_escape.
Definition url_query_escape := UrlEscape.query_escape.
Definition url_unescape := UrlEscape.unescape.
Definition url_encode_query := UrlEscape.encode_query.
Definition url_parse_query := UrlEscape.parse_query.
Definition url_sort_pairs := UrlEscape.sort_pairs.
Definition client_wire_url := Client.client_wire.
Definition header_canon_key := Serve.canon_key.
Definition json_string_quote := JsonString.quote.
Definition json_string_unquote := JsonString.unquote.
Definition holes_ctx_after (s : Str.str) : HoleSites.hole_ctx := Holes.ctx_of (fst (Holes.lex Holes.LCode None s)).

Extraction Language OCaml.
Extraction "model.ml"
  OutDir.run_history OutDir.observe OutDir.spec_dir OutDir.empty_dir OutDir.write
  GoLit.encode GoLit.go_eval GoLit.embeddable
  Serve.serve Serve.gen_accepts Params.parse_request json_enc json_dec json_keep oneof_enc oneof_dec oneof_single JsonSpec.validates Client.client_request resp_write resp_decode resp_select RespTypes.implementers Naming.public_field_name holes_comment holes_ctx_after url_path_escape url_query_escape url_unescape url_encode_query url_parse_query url_sort_pairs client_wire_url header_canon_key json_string_quote json_string_unquote NilSafety.gen_front NilSafety.loader_inv ServeSpec.serve_spec RouterSpec.match_request Router.route_root Serve.gen_tree.
