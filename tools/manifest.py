#!/usr/bin/env python3
"""Writes MANIFEST.json from the table below (kept in one place so that the
manifest stays valid and in step with the checks that exist)."""
import json, os
ROOT = os.path.dirname(os.path.dirname(os.path.abspath(__file__)))
BASELINE_OFF = ("cd /repo && GOFLAGS=-mod=mod go build ./... && GOFLAGS=-mod=mod go test -json -vet=off -count=1 -timeout 25m ./...")

CHECKS = {
 "C19": dict(
   technique="Coq proof (induction over invocation histories) + exhaustive differential check of the model against the real generator",
   text="Theorems C19_last_wins(_spec), C19_stale_gone, C19_wanted_rewritten, C19_foreign_untouched, C19_idempotent are proved in Coq for "
        "every starting directory and every history of any length over a model of goag.go Generate's write/remove sequence. The model is tied "
        "to /repo on every run by running the real generator over all 584 histories of length<=3 (the property's stated universe, from an empty "
        "and from a user-populated directory) plus seeded longer histories, comparing every file's presence and sha256 with the model and with the "
        "declarative single-run specification.",
   note="Trusted: Coq kernel; extraction (ExtrOcamlBasic) + driver.ml; Go harness. Modelled not verified: the order of os.Remove/OpenFile(O_TRUNC) "
        "calls in goag.go Generate; file contents opaque (sha256 of single-run outputs). Histories consist of successful invocations.",
   ref="DESIGN.md section 4 (C19)"),
}

ALL = ["C%02d" % i for i in range(1, 21)]

def main():
    checks = []
    for pid in ALL:
        if pid not in CHECKS:
            continue
        c = CHECKS[pid]
        checks.append({
            "property_id": pid,
            "quick_cmd": "./check %s quick" % pid,
            "thorough_cmd": "./check %s thorough" % pid,
            "evidence_file": "/verif/evidence/%s.json" % pid,
            "replay_cmd_template": "./check %s --replay {path}" % pid,
            "engine": "coq+vh",
            "level_claimed": {"category": "proof", "text": c["text"], "design_ref": c["ref"]},
            "level_note": c["note"],
            "technique": c["technique"],
        })
    man = {
        "version": 1,
        "setup_cmd": "./check setup",
        "hooks": {"guard": "verif", "enable": "-tags verif", "baseline_off_cmd": BASELINE_OFF,
                  "source_commits": [], "add_only": True},
        "engines": [{"name": "coq+vh", "path": "/verif/tools/vcheck.py",
                     "serves_properties": sorted(CHECKS),
                     "kind_free_text": "Coq 8.16.1 development (coq/theories) + extracted OCaml model (build/modelrun) + Go correspondence harness "
                                       "(harness/cmd/vh, module-replaced onto /repo) + comparator"}],
        "checks": checks,
        "notes": "See DESIGN.md. Every check rebuilds the harness against /repo's working tree, re-checks the Coq development (make), "
                 "runs the real generator and compares impl / extracted model / declarative spec.",
        "not_applicable": [{"property_id": p, "reason": "check not built yet in this round (see DESIGN.md section 14 for the build order); "
                            "the technique applies and the property will be claimed once its model, theorems and tie exist"}
                           for p in ALL if p not in CHECKS],
    }
    with open(os.path.join(ROOT, "MANIFEST.json"), "w") as f:
        json.dump(man, f, indent=1)
        f.write("\n")

if __name__ == "__main__":
    main()
