#!/usr/bin/env python3
"""Writes MANIFEST.json from the table below (kept in one place so that the
manifest stays valid and in step with the checks that exist)."""
import json, os
ROOT = os.path.dirname(os.path.dirname(os.path.abspath(__file__)))
BASELINE_OFF = ("cd /repo && GOFLAGS=-mod=mod go build ./... && GOFLAGS=-mod=mod go test -json -vet=off -count=1 -timeout 25m ./...")

CHECKS = {
 "C03": dict(
   technique="Coq proof (nested induction over the route tree and over insertions) that generated routing = OpenAPI path matching + exhaustive differential check over request universes",
   text="C03_route_eq_match: for every spec with pairwise non-equivalent templates, every base-path form, every request path (any byte string) "
        "and method, the model of the generated router (string-level splitPath/HasPrefix code of template Route, the tree built by Route.add, the "
        "base-path prologue, goag.Generate's base-path normalisation) returns exactly the result of the declarative matcher (least template under "
        "literal-before-variable preference that matches segment for segment beneath the normalised base path and has the method). Supporting "
        "theorems: string level = segment level, tree search sound+complete w.r.t. the templates it denotes, Route.add denotes exactly the inserted "
        "templates, executable matcher = relational spec, uniqueness, trailing-slash significance, reported template = declared raw path. "
        "Tie every run: the real generator on template sets x 10 base-path forms, compiled, ALL request paths to depth 4 (5 thorough) over the "
        "set's alphabet + foreign + empty segment x methods through real ServeHTTP vs extracted model vs extracted reference matcher.",
   note="Trusted: Coq kernel; extraction + driver.ml; Go harness and reflective driver. Modelled not verified: Go semantics of the emitted router "
        "code (transcribed by hand in Model/Router.v), net/url (oracle: URL.Path computed by the harness). The route functions do not depend on whether a CORS "
        "handler is installed (a preflight entry always yields a handler: the CORS handler or not-found), so the theorem has no hypothesis about it.",
   ref="DESIGN.md section 4 (C03)"),
 "C04": dict(
   technique="Coq proof by induction over schemas and declaration lists that the composed parser snippets accept exactly the typed texts + differential check over the type x lexeme x cardinality matrix",
   text="C04_rejects_iff / C04_error_names / C04_no_invention: for every list of declared query (header) parameters of any schema shape "
        "(primitive, nullable, array, $ref, nested) and every request, the model of new<Op>Params with the composed ParseStrings snippets fails iff "
        "some parameter is required-and-absent, a scalar supplied more than once, or supplied with a text outside its type's lexical space; the "
        "error names such a parameter; on success each field is the typed value of the supplied text and absent optionals are unset. Integer "
        "and boolean lexical spaces are defined independently and proved equal to the transcription of strconv.ParseInt/ParseBool; float and "
        "date-time spaces are oracle-relative. Tie: 1120-cell declaration matrix (140 quick) x lexeme classes x cardinalities through Parse() of "
        "the compiled package vs extracted model vs an independent reference parser.",
   note="Trusted as C03 plus oracles strconv.ParseFloat / time.Parse (tables computed by the harness). Cells whose generated code does not compile "
        "(nullable array items D30, component schemas of format date-time D31) are excluded here and judged by C01.",
   ref="DESIGN.md section 4 (C04)"),
 "C05": dict(
   technique="Coq proof by induction over the template that the generated path parser and the segment-level matching agree on every offset + differential check over typed template sets",
   text="C05_segments: for every template (any number of literal/variable segments, any parameter schemas), base path and request whose "
        "segments the template matches — i.e. every dispatched request, by C03 — the model of the emitted PathParserConstant/Variable sequence "
        "(PathBuilder loop, base-path prologue, HasPrefix/Index slicing) yields exactly the specified result: the typed value of the segment at "
        "each variable position, or an error naming the first variable whose segment is empty or ill-typed; never the anonymous wrong-path error. "
        "Tie: typed template sets x base-path forms x instantiations over typed/empty/foreign/escaped segments through the compiled package.",
   note="Trusted as C04. The hypothesis 'template matches the segments' is discharged by C03 for dispatched requests.",
   ref="DESIGN.md section 4 (C05)"),
 "C06": dict(
   technique="Coq proof by nested induction over schemas (comma/member automaton invariant; shared-map prefix invariant for the round trip) + differential check of the compiled codecs",
   text="C06_valid_json: for every schema of the JSON dialect (any nesting, allOf with embedded $ref members and inline members in any "
        "order, additionalProperties) and every well-typed value, the model of MarshalJSON/marshalJSONInnerBody writes a well-formed "
        "comma/member sequence, so encoding always yields a JSON value. C06_roundtrip: for every schema and every value in the domain rt_ok "
        "(distinct property names and map keys, in-range integers, embedded members without their own additionalProperties), decoding the "
        "encoding with the model of UnmarshalJSON/unmarshalJSONInnerBody (shared key map, deletion of consumed keys, leftovers as "
        "AdditionalProperties) returns the value. C06_oneof_roundtrip / C06_oneof_roundtrip_discriminator (Model/OneOf.v: one Maybe field per "
        "variant, MarshalJSON writes the set field, UnmarshalJSON tries the variants in order or switches on the discriminator): the value "
        "comes back exactly when no EARLIER variant accepts its encoding, resp. when the encoding carries a discriminator name the generated "
        "switch maps to its variant. C06_string_text_roundtrip / C06_string_text_is_one_token (Model/JsonString.v, a transcription of "
        "encoding/json's string encoder and unquote): the text written for any string or key is read back as the same bytes and is one JSON "
        "string token. Tie: seeded schemas x boundary/random values through json.Marshal / json.Valid / json.Unmarshal of the "
        "compiled package vs the extracted model, oneOf components (no / partial / complete mapping) included; every value also written as a "
        "response body by the generated Write after a large body; encoding/json's string encoder/decoder vs the transcription on ~2000 texts.",
   note="Trusted: Coq kernel; extraction + driver.ml (incl. its JSON reader/printer); harness value builder/dumper. Hypotheses of the theorem "
        "(stdlib, not proved): number and time formatting round-trip. Modelled not verified: Go semantics of the emitted codec, encoding/json on "
        "leaf types. Known finding D28 (embedded member with additionalProperties) is outside rt_ok and reported as KNOWN-FINDING.",
   ref="DESIGN.md section 4 (C06-C08)"),
 "C07": dict(
   technique="Coq proof by nested induction that the encoder's output satisfies an independent validator + differential check",
   text="C07_conforms: for every schema and every value in the domain rt_ok, the JSON produced by the codec model validates against the "
        "schema under the independent validator of Spec/JsonSpec.v (required present, null only where nullable, declared types/formats, no "
        "duplicate keys, allOf members all satisfied by the one merged object, undeclared keys typed by additionalProperties). Tie: the bytes "
        "the compiled package writes equal the model's JSON on every case, and the extracted validator accepts them. C07_oneof_conforms: a "
        "oneOf value encodes to a document that validates against the schema of the variant whose field is set.",
   note="As C06. The validator is part of the specification (read it: ~60 lines). One schema shape is outside the model — an array whose items "
        "are a oneOf defined in place — and is judged in the run by kin-openapi's VisitJSON against the component schema (support for the "
        "search, not a theorem).",
   ref="DESIGN.md section 4 (C06-C08)"),
 "C08": dict(
   technique="Coq proof, by nested induction over schemas with an invariant on the decoder's shared key map: strictness (missing required / wrong type rejected), completeness (every valid document accepted) and losslessness (the decoded value re-encodes to keep s j, the kept part of the document) + differential check on documents generated from the schema and their single-fault mutants",
   text="C08_missing_required, C08_wrong_type, C08_declared_properties_decode: for every object schema (embedded members included) a document "
        "lacking a required property or carrying a non-null value of the wrong JSON type for a declared property is rejected by the decoder "
        "model (frame lemma: an embedded member only deletes keys it declares). C08_valid_accepted: for every well-formed schema every document "
        "the independent validator of Spec/JsonSpec.v accepts — any subset of the optional properties, any member order, null where nullable, "
        "extra keys where additionalProperties allows them — decodes without error. C08_lossless: the decoded value re-encodes to keep s j "
        "(Spec/JsonSpec.v): the document's declared properties in schema order (allOf members spliced in), its undeclared members in document "
        "order exactly when the schema has additionalProperties, numbers and date-times re-spelt, everything else verbatim; "
        "C08_decoded_in_domain / C08_reencode_stable: that value lies in the round-trip domain, so a further decode/encode cycle changes "
        "nothing. C08_oneof_*: a oneOf decoder accepts only what one of its variants accepts and rejects unlisted discriminator values. "
        "Tie: documents generated FROM the schema by an independent generator and their single-fault mutants are decoded by the compiled "
        "package; value, re-encoding and error (which must name the property) are compared with the model, the re-encoding also with the "
        "extracted keep, the generator's validity label with the Coq validator; the same documents and mutants are also posted to operations "
        "whose request body is the type (in place and through components.requestBodies) and parsed by the generated server.",
   note="As C06. The theorems are stated for well-formed schemas of the dialect (wf_sch: allOf $ref members are objects without "
        "additionalProperties of their own — D28's shape is outside — and no property declared twice; dom_sch: Go's integer sizes, nullable "
        "only around non-nullable non-any schemas). keep is part of the specification (read it: 40 lines).",
   ref="DESIGN.md section 4 (C06-C08)"),
 "C01": dict(
   technique="Coq proof of the output gate (success => every written file parses and is a gofmt fixpoint, no clash of declared names; a broken file is an error) of the identifier layer (PublicFieldName yields an exported Go identifier) and of the lexical inertness of template holes (regenerated inventory of every template action with its lexical context, closed by computation; `comment` and name-like values proved inert) + exhaustive compile matrix of the dialect's feature cells with the real generator and Go toolchain (PARTIAL: type-correctness is enumerated, not proved)",
   text="C01_success_is_formatted / C01_broken_is_failure: over the model of Generate's gate (render all, clash check, imports.Process, write) "
        "a success has written exactly the rendered files, each parsing and gofmt-stable, and any unparsable file, name clash or formatting "
        "error is a failure. C01_field_name_is_identifier / C01_field_name_nonempty: the Go name derived from an ASCII spec name is made of "
        "identifier characters, starts upper-case, and is non-empty iff the name has a letter. C01_holes_classified / C01_templates_balanced "
        "(regenerated from generator/*.gotmpl on every run): free text of the document is written only after `//` and only through `comment`; "
        "values inside string literals and comments come from the reviewed name-like fields; C01_comment_inert / C01_name_hole_inert: such text "
        "cannot leave the comment / literal it is written into, whatever it contains. Tie: ~3000 one-feature documents (parameter, "
        "JSON-position, response-header, raw-body, name-shape, text-shape, route, security, status-key cells) and seeded compositions x flag "
        "combinations are generated by the real generator; every success is judged by go/parser, gofmt idempotence, an import check and go build; "
        "PublicFieldName, the generator's comment function and the translator's lexer are compared with the extracted model on seeded inputs.",
   note="PARTIAL by construction: Go's type system is not formalised; 'the files type-check as one package' is decided cell by cell by the Go "
        "toolchain on the real output. The matrix is finite; compositions are sampled.",
   ref="DESIGN.md section 4 (C01)"),
 "C02": dict(
   technique="Coq proof over a model of the generated response types and their method sets (inline responses, component responses with UsedIn, alias chains; Go's interface-satisfaction rule) that the implementers of an operation's response interface are exactly its documented responses, and that Write emits the documented status/Content-Type/headers/body + reflection over the compiled packages (Implements) and recorded wire responses",
   text="C02_exact_implementers / C02_nothing_else: for every response document with distinct operation, component and type names and no "
        "dangling alias, a declared type T satisfies <Op>Response iff T is one of op's inline response types or a name (component or alias, "
        "through any chain) of a component response one of op's status keys refers to. C02_write_documented: the wire response of Write has "
        "the documented status (caller's code for default), Content-Type, exactly the declared headers' texts and the body's encoding. Tie: "
        "for every operation of the response corpus the driver enumerates, by reflection over ALL named types of the compiled package, those "
        "(T or *T) implementing the interface; compared with the extracted model's implementers and with the documented set computed by the "
        "corpus generator; every response value's recorded wire response is compared with the model's write.",
   note="Go's method-set rule for aliases and unexported methods is modelled (four lines), not verified. Name derivation (Title/PublicFieldName) "
        "is abstracted: names are compared relative to the operation's generated name; a derivation clash shows as a compile failure (reported).",
   ref="DESIGN.md section 4 (C02)"),
 "C09": dict(
   technique="Coq proof that the handler's parse of the request built by the client model returns the sent parameter set (all locations, arrays, nullable, $refs; integer text round-trip proved, float/time as oracle hypotheses; body = JSON round-trip theorem; net/url escaping transcribed and proved to round-trip for every byte string, so the request net/http reconstructs from the URL the client wrote is the one the parameter theorem is about) + differential run of the generated client against the generated server of the same package with an independent request validator on the wire",
   text="C09_params_agree: for every operation declaration, base path and parameter set of the domain the client model builds a request and "
        "parse_request of it is Ok of exactly what was sent (unset optionals unset; each value at its own parameter, using pairwise-distinct "
        "names under the location's key comparison). C09_integer_text: ParseInt(FormatInt z) = z on the whole width. C09_body_agree: "
        "dec (enc v) = v (the body path is json.Marshal / generated UnmarshalJSON). C09_path_escape_roundtrip / C09_query_escape_roundtrip / "
        "C09_query_string_roundtrip / C09_path_escape_keeps_structure: unescape(escape s) = s for all byte strings, Encode then Query() returns the "
        "pairs, an escaped value holds no '/', '?', '#'. C09_wire_path_agrees / C09_wire_query_agrees: URL.Path and URL.Query() lookups of the wire "
        "URL are the path and the per-name values of the request of C09_params_agree. Tie: the generated client of each corpus package sends "
        "seeded values (reserved URL/header characters, extreme numbers, zoned times, empty optionals, multi-element arrays, JSON and raw "
        "bodies) into the generated API; the handler's Parse() dump, the request URL the client wrote (byte for byte against client_wire) and the call result are compared with the extracted "
        "model and with the sent value; kin-openapi openapi3filter validates the wire request.",
   note="Float and time formatting/parsing are oracle hypotheses (parse (format x) = x) instantiated from strconv/time. Model/UrlEscape.v is a transcription of net/url for "
        "the two modes the generated code reaches, compared with net/url itself on ~6000 inputs per run; header canonicalisation and net/http's "
        "header handling remain transport checked by the run and the independent validator, not by a theorem. Domain restrictions as the property states (DESIGN section 11).",
   ref="DESIGN.md section 4 (C09)"),
 "C10": dict(
   technique="Coq proof that the client's decoding (status switch, header parsing, body decoding) of what the response's Write method emits returns the same response kind and value, and that an undocumented status reaches the default response or an error + differential run of reflectively built response values through the generated API and client, and of stubbed undocumented status codes",
   text="C10_roundtrip: for every operation's documented response list (distinct codes, at most one default, header names distinct and not "
        "Content-Type), every documented response and every value of its type in the domain, write produces a wire response and client_decode "
        "of it is Ok (same index, same value). C10_undocumented: an undocumented status is decoded with the default plan if any, else an error. "
        "C10_never_wrong_kind: the kind returned is the one documented for the status seen, or the default when the status is documented "
        "nowhere. Tie: handlers return seeded response values (inline, shared component, alias, component default; 0-3 typed headers; JSON and "
        "raw bodies); the generated client's result (dynamic type and dumped value) is compared with the sent value and the extracted model; "
        "the recorded wire response with the model's write; a stub transport replays 12 undocumented status codes x 5 bodies.",
   note="Float/time formatting and parsing are oracle hypotheses. JSON text printing/parsing is the transport (canonical JSON comparison). "
        "Header values are compared as http.Header delivers them in-process (no wire-level whitespace trimming: LocalClient transport).",
   ref="DESIGN.md section 4 (C10)"),
 "C11": dict(
   technique="Coq proof over the model of NewRouter/authMiddlewareOr (soundness+completeness of the auth loop w.r.t. the operation's effective requirement) + enumeration of all small security configurations against the compiled package",
   text="C11_auth_sound/complete: for every spec the generator accepts, every API configuration and request, the authenticator loop emitted for an "
        "operation lets the handler run with hook i's request iff an alternative of THAT operation's effective requirement (own list, else global; "
        "[] = public) is accepted by hook i, and ends in 401 iff none is; C11_public, C11_secured, C11_foreign_credentials (every hook consulted "
        "belongs to a scheme of the operation's own requirement), nil hooks never called, C11_accepted_simple (accepted specs only contain "
        "requirement shapes goag implements; others are rejected at generation). Tie: 2592 configurations (all in thorough, 150 quick) x credential "
        "subsets x nil hooks through the compiled package vs model vs declarative spec; generator accept/reject compared with the model's gen_accepts.",
   note="Trusted as C03, plus: user authenticators modelled as token predicates; the declarative spec picks bearer alternatives first among several "
        "accepted ones (the property leaves the choice open; theorems state membership). Dispatch itself is C03.",
   ref="DESIGN.md section 4 (C11)"),
 "C14": dict(
   technique="Coq proof that every guard shape around a partial operation (slice, index, func-value call, nil-able interface call, map store) in the emitted server code is sufficient, with the site inventory regenerated from the generator's current output by a translator and closed by computation; Coq proof of exactly-one-responder over the model of API.ServeHTTP + structured/mutational request fuzzing with recover() and WriteHeader counting (PARTIAL: stdlib internals are fuzzed, not proved)",
   text="C14_every_site_classified (regenerated obligation, vm_compute) + C14_guards_suffice / C14_no_panic_at_any_site: each observed "
        "site's guard class is one whose Go fragment, written with Panic-returning primitives, is proved never to reach Panic for any input "
        "(prefix-checked slicing, Index-or-len slicing, splitPath, length-checked [0], range/make indexing, count-down loops, map made when "
        "non-empty, nil-checked and defaulted calls; four classes rest on the property's preconditions). C14_one_response: for every spec, "
        "API configuration and request exactly one responder acts. Tie: the translator re-inventories the sites of ~300 freshly generated "
        "packages on every run; 1500 (quick) / 48000 (thorough) requests incl. malformed JSON and paths are served with recover() around "
        "ServeHTTP and Parse() and a WriteHeader counter.",
   note="PARTIAL: encoding/json, strconv, time, net/url, net/http internals, stack exhaustion and user code are outside the model; the "
        "syntactic guard recognition of the translator is trusted.",
   ref="DESIGN.md section 4 (C14)"),
 "C15": dict(
   technique="Coq proof over a nil-explicit document model that every dereference in the generator's front is guarded or guaranteed by the loader + structural mutation of real specs in worker subprocesses",
   text="C15_no_panic: over a document model with an explicit nil at every optional OpenAPI field the generator dereferences (schema of a media "
        "type / parameter / header, array items, media type, request body, path item, server, server variable and its untyped default/enum, "
        "component alias chains), the model of specification/*.go's constructors (with the guards the code has) never reaches a nil dereference "
        "for any document satisfying the loader's post-condition, of any size; C15_loader_inv_needed shows the hypothesis is not vacuous. Tie: "
        "fixture specs + map-fat spec + regression documents under structural mutation (30 per base quick, 900 thorough), real loader + real "
        "Generate under recover() in worker subprocesses (a dying worker is a crash), a sample through the built command for the exit status; the "
        "extracted model runs on an abstraction of each accepted mutant: no panic predicted, loader post-condition holds, guards that fire "
        "coincide with reported errors. Errors are checked to carry a location context.",
   note="Trusted: Coq kernel; the hand audit that Model/NilSafety.v is (which derefs exist and where they are guarded) — checked only by the "
        "mutation run; driver.ml abs_doc; kin-openapi loader post-condition; text/template turning render-method panics into errors. Loader "
        "panics (kin-openapi crashes on `content: {application/json: null}`) are outside the property (document not accepted).",
   ref="DESIGN.md section 4 (C15)"),
 "C16": dict(
   technique="Coq proof of the trace shape of API.ServeHTTP's model + verbatim trace comparison against the compiled package",
   text="C16_wrapping: every dispatched request's trace is Enter 0..n-1 (each seeing the matched template) ++ inner ++ Leave n-1..0 with inner "
        "containing only authenticator calls and the handler (each middleware exactly once, first-declared outermost, all outside the security "
        "check), for every spec, stack length and request; C16_unrouted_bypass, C16_spec_file_bypass, C16_cors_bypass. Which operation is dispatched "
        "is C03. Tie: stacks 0..4 x spec handler on/off x not-found on/off x secured/cors specs over routed, unrouted, spec-file and preflight "
        "requests; traces compared verbatim with the model and (without auth events) with the declarative serve_spec.",
   note="Trusted as C03; user middlewares are modelled as the well-behaved wrapper Enter i; next; Leave i.",
   ref="DESIGN.md section 4 (C16)"),
 "C17": dict(
   technique="Coq proof about NewRouter's CORS accumulation (set equality + NoDup by fold invariants) + differential check of preflight arguments",
   text="C17_args: with CORS enabled, a path item without OPTIONS gets a synthetic preflight entry with exactly its declared methods and a "
        "duplicate-free header list equal as a set to the canonicalised declared header parameters (path-item and operation level) plus the headers "
        "its security schemes read; C17_not_shadowed, C17_off; C17_nil_handler: a request routed to the preflight entry without a CORS handler is "
        "not found (status 404, the not-found handler, no middleware, no other operation — not even an OPTIONS operation of an overlapping "
        "templated path); C17_installed_handler: with one it is answered by that handler built with the entry's arguments. Tie: seeded path "
        "items with header spellings/security/explicit OPTIONS, and a family of literal paths overlapped by templated paths that declare "
        "OPTIONS (every depth, trailing slash) x cors on/off x handler nil/set; the installed CORSHandler's arguments compared with model and spec.",
   note="Trusted as C03; http.CanonicalHeaderKey modelled for ASCII token characters (tied by the cases).",
   ref="DESIGN.md section 4 (C17)"),
 "C12": dict(
   technique="Coq proof that every kind of map iteration hands on a schedule-independent value (uniqueness of the sorted permutation) + source translator regenerating the map-range inventory as a proof obligation + repeated-run hashing",
   text="C12_site_invariant / C12_deterministic: modelling Go map iteration as an adversarial permutation, every kind of map range present in the "
        "generator (keys collected then sorted; entries copied into maps that are later read sorted or by key; at-most-one-entry maps; error-text-only "
        "loops; unreachable code) hands on the same value for every schedule, hence any downstream function of those values is deterministic. "
        "C12_all_map_sites_modelled / C12_no_other_sources are REGENERATED obligations: a translator (go/packages+go/types) inventories every map "
        "range (with a hash of the loop source) and every time/rand/env/ReadDir/goroutine use in /repo's non-test packages on each run and the "
        "theorems (closed by computation) require the inventory to lie inside the reviewed table. Behaviour tie: map-fat spec, all fixture specs "
        "and seeded corpus specs generated 8x in-process + 3x in fresh processes (40+10 thorough), one sha256 per (spec, options).",
   note="Trusted: Coq kernel; the translator's completeness; the reviewed kind of each loop; text/template (sorted map keys) and goimports "
        "determinism; the deadcode tool for the KDead entry. TEMPLATE_DEBUG (environment) is an input of the run, not a schedule.",
   ref="DESIGN.md section 4 (C12)"),
 "C13": dict(
   technique="Coq proof (induction over the byte string) of go_eval(encode s)=s + exhaustive/differential check of encoder and Go-literal evaluator against the real generator and go/types",
   text="Theorem C13_embed: for every byte string s without NUL (unbounded length) the Go constant expression emitted by the model of "
        "encodeRawFileAsString evaluates under a model of Go's raw/interpreted string-literal rules to exactly s; C13_one_line_literal keeps the "
        "declaration on one line. Tie on every run: the REAL Generate embeds each content (all 2801 strings of length<=4 over {`,\",\\,LF,CR,$,a}, "
        "real specs in CRLF/one-line-JSON/no-trailing-newline forms, random text), the SpecFile constant of the written file is evaluated with "
        "go/parser+go/types and compared with the model and with s; the literal evaluator itself is validated against go/types on synthetic literals. "
        "The served half (GET <base>/<name>, middlewares bypassed, only when installed) is covered by the router model (C16 theorems) and its tie.",
   note="Trusted: Coq kernel; extraction + driver.ml; Go harness; go/types as the judge of constant values. Modelled not verified: Go literal lexing "
        "(validated every run against go/types), strings.NewReplacer on single-byte patterns. Domain: no NUL; bytes>=0x80 opaque (valid UTF-8 assumed). "
        "gofmt preserving literal contents is checked per case, not proved.",
   ref="DESIGN.md section 4 (C13)"),
 "C18": dict(
   technique="Coq proofs of reference transparency in the models (parameter schemas with $ref erased parse/format identically; an embedded allOf $ref member encodes exactly like the same members inline; every alias name of a component response denotes the same response types) + three-variant differential run (as written / every $ref inlined / every inline definition hoisted) of the real generator on shared raw requests, JSON bodies and response values",
   text="C18_param_parse / C18_param_format: erasing $ref nodes of a parameter schema changes neither parsing nor formatting of any texts. "
        "C18_embedded_member_encodes_like_inline: for every object schema, member position and value, the encoder model of the struct with an "
        "embedded ($ref) member equals that of the struct with the member's properties spliced in place (same items, same comma state). "
        "C18_alias_chain: names resolving to the same component response satisfy the same operations' response interfaces. Tie: each corpus "
        "document is generated as written, with InlineAll and with HoistAll; the three compiled packages receive identical raw requests "
        "(status, WriteHeader count, parsed parameters, re-encoded body JSON, response status/headers) and identical response values "
        "(wire status/headers/canonical body) and must agree.",
   note="The generator's own reference resolution (specification.Ref, component maps, UsedIn) is exercised by the run, not modelled. The "
        "embedded-member theorem is stated for in-place splicing; the generator additionally orders merged inline properties by name, which "
        "permutes object members (JSON equality is up to member order). Decoding equivalence is covered on encoder outputs via C06.",
   ref="DESIGN.md section 4 (C18)"),
 "C19": dict(
   technique="Coq proof (induction over invocation histories) + exhaustive differential check of the model against the real generator",
   text="Theorems C19_last_wins(_spec), C19_stale_gone, C19_wanted_rewritten, C19_foreign_untouched, C19_idempotent are proved in Coq for "
        "every starting directory and every history of any length over a model of goag.go Generate's write/remove sequence. The model is tied "
        "to /repo on every run by running the real generator over all 1884 histories of length<=3 over 12 invocations (containing the 584 of the property's stated universe, from an empty "
        "and from a user-populated directory) plus seeded longer histories, comparing every file's presence and sha256 with the model and with the "
        "declarative single-run specification; the directory also holds user files (a test file, a hand-written file, a file of the same "
        "package importing third-party packages under standard-library names, a file generated by another tool) and owned files that look up "
        "to date (the new content plus a tail, its first half, one byte changed).",
   note="Trusted: Coq kernel; extraction (ExtrOcamlBasic) + driver.ml; Go harness. Modelled not verified: the order of os.Remove/OpenFile(O_TRUNC) "
        "calls in goag.go Generate; file contents opaque (sha256 of single-run outputs). Histories consist of successful invocations.",
   ref="DESIGN.md section 4 (C19)"),
}

CHECKS["C20"] = dict(
   technique="Coq proof that, over every interleaving of request handlings whose steps only read shared state, no two accesses conflict and each request computes what it computes alone, with the premise discharged by a translator-regenerated inventory of every access to package-level variables and API/Client receiver fields in the emitted code (closed by computation) + concurrent calls through one API value and one generated client under the race detector with per-call unique values (PARTIAL: Go memory model and stdlib not modelled)",
   text="C20_shared_state_is_only_read (regenerated obligation), C20_race_free, C20_isolation: for every set of threads made of local steps "
        "and reads of shared locations, every schedule, every thread that has finished: its private state equals the one of its solo run and "
        "the shared store is unchanged. Tie: the access inventory is recomputed from ~150 freshly generated packages on every run; "
        "16x60 (quick) / 64x200 (thorough) concurrent client calls per package and GOMAXPROCS in {1,4,16} through one API value and one "
        "LocalClient, -race, each call checked against the digest of its own parameters; raw response bodies are streamed by a reader "
        "without WriteTo and verified byte by byte, JSON response bodies (arrays of arrays with nil inner slices) are answered from one value "
        "per operation shared by all requests, requests that match no route run alongside, the middleware slice has spare capacity.",
   note="PARTIAL: Go memory model, net/http, encoding/json and user code are outside the model; the translator's choice of shared locations "
        "and its syntactic read/write classification are trusted. The classification counts as a write: assignment, ++/--, &x, a "
        "pointer-receiver method called on a package-level variable, a reference-typed package-level variable handed to a callee that is not "
        "known to only read it, append(x, ...) on shared x, and an element store reachable from a VALUE receiver (shared backing array).",
   ref="DESIGN.md section 4 (C20)")

ALL = ["C%02d" % i for i in range(1, 21)]

def main():
    checks = []
    for pid in ALL:
        if pid not in CHECKS:
            continue
        c = CHECKS[pid]
        checks.append({
            "property_id": pid,
            "quick_cmd": "./check %s quick" % pid,
            "thorough_cmd": "./check %s thorough" % pid,
            "evidence_file": "/verif/evidence/%s.json" % pid,
            "replay_cmd_template": "./check %s --replay {path}" % pid,
            "engine": "coq+vh",
            "level_claimed": {"category": "proof", "text": c["text"], "design_ref": c["ref"]},
            "level_note": c["note"],
            "technique": c["technique"],
        })
    man = {
        "version": 1,
        "setup_cmd": "./check setup",
        "hooks": {"guard": "verif", "enable": "-tags verif", "baseline_off_cmd": BASELINE_OFF,
                  "source_commits": [], "add_only": True},
        "engines": [{"name": "coq+vh", "path": "/verif/tools/vcheck.py",
                     "serves_properties": sorted(CHECKS),
                     "kind_free_text": "Coq 8.16.1 development (coq/theories) + extracted OCaml model (build/modelrun) + Go correspondence harness "
                                       "(harness/cmd/vh, module-replaced onto /repo) + comparator"}],
        "checks": checks,
        "notes": "See DESIGN.md. Every check rebuilds the harness against /repo's working tree, re-checks the Coq development (make), "
                 "runs the real generator and compares impl / extracted model / declarative spec.",
        "not_applicable": [{"property_id": p, "reason": "check not built yet in this round (see DESIGN.md section 14 for the build order); "
                            "the technique applies and the property will be claimed once its model, theorems and tie exist"}
                           for p in ALL if p not in CHECKS],
    }
    with open(os.path.join(ROOT, "MANIFEST.json"), "w") as f:
        json.dump(man, f, indent=1)
        f.write("\n")

if __name__ == "__main__":
    main()
