#!/usr/bin/env python3
"""Writes MANIFEST.json from the table below (kept in one place so that the
manifest stays valid and in step with the checks that exist)."""
import json, os
ROOT = os.path.dirname(os.path.dirname(os.path.abspath(__file__)))
BASELINE_OFF = ("cd /repo && GOFLAGS=-mod=mod go build ./... && GOFLAGS=-mod=mod go test -json -vet=off -count=1 -timeout 25m ./...")

CHECKS = {
 "C13": dict(
   technique="Coq proof (induction over the byte string) of go_eval(encode s)=s + exhaustive/differential check of encoder and Go-literal evaluator against the real generator and go/types",
   text="Theorem C13_embed: for every byte string s without NUL (unbounded length) the Go constant expression emitted by the model of "
        "encodeRawFileAsString evaluates under a model of Go's raw/interpreted string-literal rules to exactly s; C13_one_line_literal keeps the "
        "declaration on one line. Tie on every run: the REAL Generate embeds each content (all 2801 strings of length<=4 over {`,\",\\,LF,CR,$,a}, "
        "real specs in CRLF/one-line-JSON/no-trailing-newline forms, random text), the SpecFile constant of the written file is evaluated with "
        "go/parser+go/types and compared with the model and with s; the literal evaluator itself is validated against go/types on synthetic literals. "
        "The served half (GET <base>/<name>, middlewares bypassed, only when installed) is covered by the router model (C16 theorems) and its tie.",
   note="Trusted: Coq kernel; extraction + driver.ml; Go harness; go/types as the judge of constant values. Modelled not verified: Go literal lexing "
        "(validated every run against go/types), strings.NewReplacer on single-byte patterns. Domain: no NUL; bytes>=0x80 opaque (valid UTF-8 assumed). "
        "gofmt preserving literal contents is checked per case, not proved.",
   ref="DESIGN.md section 4 (C13)"),
 "C19": dict(
   technique="Coq proof (induction over invocation histories) + exhaustive differential check of the model against the real generator",
   text="Theorems C19_last_wins(_spec), C19_stale_gone, C19_wanted_rewritten, C19_foreign_untouched, C19_idempotent are proved in Coq for "
        "every starting directory and every history of any length over a model of goag.go Generate's write/remove sequence. The model is tied "
        "to /repo on every run by running the real generator over all 584 histories of length<=3 (the property's stated universe, from an empty "
        "and from a user-populated directory) plus seeded longer histories, comparing every file's presence and sha256 with the model and with the "
        "declarative single-run specification.",
   note="Trusted: Coq kernel; extraction (ExtrOcamlBasic) + driver.ml; Go harness. Modelled not verified: the order of os.Remove/OpenFile(O_TRUNC) "
        "calls in goag.go Generate; file contents opaque (sha256 of single-run outputs). Histories consist of successful invocations.",
   ref="DESIGN.md section 4 (C19)"),
}

ALL = ["C%02d" % i for i in range(1, 21)]

def main():
    checks = []
    for pid in ALL:
        if pid not in CHECKS:
            continue
        c = CHECKS[pid]
        checks.append({
            "property_id": pid,
            "quick_cmd": "./check %s quick" % pid,
            "thorough_cmd": "./check %s thorough" % pid,
            "evidence_file": "/verif/evidence/%s.json" % pid,
            "replay_cmd_template": "./check %s --replay {path}" % pid,
            "engine": "coq+vh",
            "level_claimed": {"category": "proof", "text": c["text"], "design_ref": c["ref"]},
            "level_note": c["note"],
            "technique": c["technique"],
        })
    man = {
        "version": 1,
        "setup_cmd": "./check setup",
        "hooks": {"guard": "verif", "enable": "-tags verif", "baseline_off_cmd": BASELINE_OFF,
                  "source_commits": [], "add_only": True},
        "engines": [{"name": "coq+vh", "path": "/verif/tools/vcheck.py",
                     "serves_properties": sorted(CHECKS),
                     "kind_free_text": "Coq 8.16.1 development (coq/theories) + extracted OCaml model (build/modelrun) + Go correspondence harness "
                                       "(harness/cmd/vh, module-replaced onto /repo) + comparator"}],
        "checks": checks,
        "notes": "See DESIGN.md. Every check rebuilds the harness against /repo's working tree, re-checks the Coq development (make), "
                 "runs the real generator and compares impl / extracted model / declarative spec.",
        "not_applicable": [{"property_id": p, "reason": "check not built yet in this round (see DESIGN.md section 14 for the build order); "
                            "the technique applies and the property will be claimed once its model, theorems and tie exist"}
                           for p in ALL if p not in CHECKS],
    }
    with open(os.path.join(ROOT, "MANIFEST.json"), "w") as f:
        json.dump(man, f, indent=1)
        f.write("\n")

if __name__ == "__main__":
    main()
