#!/usr/bin/env python3
"""Orchestrator of the goag verification checks.

  ./check <Cnn> quick|thorough        run the check for one property
  ./check <Cnn> --replay <file>       re-run the case(s) of a replay file
  ./check setup                       build everything from files on disk
  ./check lint                        lint the Coq development
  ./check coqchk                      coqchk -o over every property file (also part of every thorough run, cached)

Exit 0: property held on everything explored (known findings are printed as
KNOWN-FINDING lines).  Exit 1: a line `VIOLATION property=<id> replay=<path>`
was printed.
"""
import fcntl
import hashlib
import urllib.parse
import json
import os
import re
import subprocess
import sys
import time

ROOT = os.path.dirname(os.path.dirname(os.path.abspath(__file__)))
COQ = os.path.join(ROOT, "coq")
BUILD = os.path.join(ROOT, "build")
HARNESS = os.path.join(ROOT, "harness")
EVID = os.path.join(ROOT, "evidence")
REPLAYS = os.path.join(ROOT, "replays")
KNOWN = os.path.join(ROOT, "KNOWN_FINDINGS.txt")

GOENV = dict(os.environ, GOFLAGS="-mod=mod", GOPROXY="off", GOSUMDB="off",
             GOTOOLCHAIN="local", CGO_ENABLED=os.environ.get("CGO_ENABLED", "1"))


def log(prop, msg):
    print("[%s] %s" % (prop, msg), flush=True)


def sh(cmd, cwd=None, env=None, timeout=None, check=False, input=None):
    p = subprocess.run(cmd, cwd=cwd, env=env, timeout=timeout, input=input,
                       stdout=subprocess.PIPE, stderr=subprocess.STDOUT, text=True,
                       shell=isinstance(cmd, str))
    if check and p.returncode != 0:
        raise RuntimeError("command failed (%d): %s\n%s" % (p.returncode, cmd, p.stdout[-4000:]))
    return p.returncode, p.stdout


class Lock:
    def __enter__(self):
        os.makedirs(BUILD, exist_ok=True)
        self.f = open(os.path.join(BUILD, ".lock"), "w")
        fcntl.flock(self.f, fcntl.LOCK_EX)
        return self

    def __exit__(self, *a):
        fcntl.flock(self.f, fcntl.LOCK_UN)
        self.f.close()


# --------------------------------------------------------------------------
# Coq development: lint, build, property theorems
# --------------------------------------------------------------------------

FORBIDDEN = [
    r"\bAdmitted\b", r"\badmit\b", r"\bAxiom\b", r"\bAxioms\b", r"\bParameter\b", r"\bParameters\b",
    r"\bConjecture\b", r"\bAdmit Obligations\b", r"Unset Guard Checking", r"bypass_check",
    r"Unset Positivity Checking", r"Unset Universe Checking", r"type-in-type", r"impredicative-set",
    r"\bnative_compute\b",
]


def strip_comments(src):
    out, depth, i = [], 0, 0
    while i < len(src):
        if src.startswith("(*", i):
            depth += 1
            i += 2
        elif src.startswith("*)", i) and depth > 0:
            depth -= 1
            i += 2
        else:
            if depth == 0:
                out.append(src[i])
            i += 1
    return "".join(out)


def coq_files():
    res = []
    for d, _, fs in os.walk(os.path.join(COQ, "theories")):
        for f in sorted(fs):
            if f.endswith(".v"):
                res.append(os.path.join(d, f))
    res.append(os.path.join(COQ, "extract", "Extract.v"))
    return sorted(res)


def lint():
    """No axioms / admits / disabled checks anywhere; Variable/Hypothesis only
    inside Sections."""
    problems = []
    for path in coq_files():
        src = strip_comments(open(path).read())
        # remove string literals
        src_ns = re.sub(r'"[^"]*"', '""', src)
        for pat in FORBIDDEN:
            for m in re.finditer(pat, src_ns):
                line = src_ns.count("\n", 0, m.start()) + 1
                problems.append("%s:%d: forbidden %s" % (os.path.relpath(path, ROOT), line, m.group(0)))
        depth = 0
        for ln, line in enumerate(src_ns.split("\n"), 1):
            s = line.strip()
            if re.match(r"(Section|Module)\s+\w+", s) and not re.match(r"Module\s+\w+\s*:=", s):
                if s.startswith("Section"):
                    depth += 1
            elif re.match(r"End\s+\w+\s*\.", s):
                depth = max(0, depth - 1)
            elif re.match(r"(Variable|Variables|Hypothesis|Hypotheses|Context)\b", s) and depth == 0:
                problems.append("%s:%d: %s outside a section" % (os.path.relpath(path, ROOT), ln, s.split()[0]))
    proj = open(os.path.join(COQ, "_CoqProject")).read()
    if re.search(r"-(type-in-type|impredicative-set|vos|vok)", proj):
        problems.append("_CoqProject: forbidden flag")
    return problems


def build_coq(prop="setup"):
    """Full .vo build (make); returns (ok, log)."""
    with Lock():
        if not os.path.exists(os.path.join(COQ, "Makefile")):
            sh("coq_makefile -f _CoqProject -o Makefile", cwd=COQ, check=True)
        elif os.path.getmtime(os.path.join(COQ, "_CoqProject")) > os.path.getmtime(os.path.join(COQ, "Makefile")):
            sh("coq_makefile -f _CoqProject -o Makefile", cwd=COQ, check=True)
        target = "" if prop in ("setup", None) else " theories/Properties/%s.vo" % prop
        rc, out = sh("timeout 1500 make -j16" + target, cwd=COQ)
        os.makedirs(BUILD, exist_ok=True)
        with open(os.path.join(BUILD, "coq-make.log"), "a") as f:
            f.write(out)
        return rc == 0, out


def property_theorems(prop):
    """Compile Properties/<prop>.v alone (its dependencies are built) and read
    the theorem names and the Print Assumptions output beneath each."""
    path = os.path.join(COQ, "theories", "Properties", prop + ".v")
    src = strip_comments(open(path).read())
    names = re.findall(r"^\s*(?:Theorem|Lemma|Corollary)\s+(\w+)", src, re.M)
    bad = []
    # each proof must be a one-line `exact`
    for m in re.finditer(r"(?:Theorem|Lemma|Corollary)\s+(\w+).*?Proof\.(.*?)Qed\.", src, re.S):
        body = m.group(2).strip()
        if not re.fullmatch(r"exact\s+[^.]*(\.[A-Za-z_][^.]*)*\.", body):
            bad.append(m.group(1))
    with Lock():
        rc, out = sh(["timeout", "600", "coqc", "-Q", "theories", "Goag", path], cwd=COQ)
    assumptions = {}
    if rc == 0:
        chunks = re.split(r"(?=Closed under the global context|Axioms:|Section Variables:)", out)
        reports = [c.strip() for c in chunks if c.strip()]
        printed = re.findall(r"Print Assumptions\s+(\w+)", src)
        for n, r in zip(printed, reports):
            assumptions[n] = r
    return {"file": os.path.relpath(path, ROOT), "names": names, "not_exact": bad,
            "compiled": rc == 0, "output": out[-3000:], "assumptions": assumptions}


def coqchk(props, force=False):
    """Re-checks compiled property files and everything they depend on with Coq's independent checker (coqchk -o prints the
    axioms the loaded libraries rely on).  Cached per content of the compiled files and list of modules."""
    h = hashlib.sha256()
    for f in coq_files():
        vo = f[:-2] + ".vo"
        if os.path.exists(vo):
            h.update(open(vo, "rb").read())
    h.update(" ".join(props).encode())
    key = h.hexdigest()[:16]
    cdir = os.path.join(BUILD, "coqchk")
    os.makedirs(cdir, exist_ok=True)
    cf = os.path.join(cdir, key + ".json")
    if os.path.exists(cf) and not force:
        return json.load(open(cf))
    mods = ["Goag.Properties." + p for p in props if os.path.exists(os.path.join(COQ, "theories", "Properties", p + ".vo"))]
    t0 = time.time()
    with Lock():
        rc, out = sh(["timeout", "3000", "coqchk", "-silent", "-o", "-Q", "theories", "Goag"] + mods, cwd=COQ)
    m = re.search(r"CONTEXT SUMMARY.*", out, re.S)
    summary = re.sub(r"[ \t]+", " ", m.group(0)).strip() if m else out[-1500:]
    ax = re.search(r"\* Axioms:(.*?)(?=\n\s*\* |\Z)", summary, re.S)
    res = {"ok": rc == 0, "modules": mods, "axioms": ax.group(1).strip() if ax else "?", "summary": summary[:3000],
           "wall_s": round(time.time() - t0, 1), "cmd": "coqchk -silent -o -Q theories Goag " + " ".join(mods)}
    with open(cf, "w") as f:
        json.dump(res, f)
    return res


CROSS_FUNS = {
    # case-line prefix -> (Gallina function of type str -> str, the modules it needs)
    "N pfn": ("Naming.public_field_name", "Model.Naming"),
    "N cmt": ("Holes.comment", "Model.Holes"),
    "UE pe": ("UrlEscape.path_escape", "Model.UrlEscape"),
    "UE qe": ("UrlEscape.query_escape", "Model.UrlEscape"),
    "N jq": ("JsonString.quote", "Model.JsonString"),
    "C13 enc": ("(fun s => match GoLit.go_eval (GoLit.encode s) with Some v => v | None => [] end)", "Model.GoLit"),
}


def crosscheck_extraction(run, cases, model, every=50):
    """thorough tier: a sample of the string-valued cases is evaluated INSIDE Coq (vm_compute on the Gallina definition) and must
    give what the extracted OCaml program printed: checks extraction and the driver's conversions together."""
    picked = {}
    for i, c in enumerate(cases):
        f = c.split(" ")
        if len(f) != 3 or (f[0] + " " + f[1]) not in CROSS_FUNS:
            continue
        mv = parse_kv(model[i]).get("model")
        if mv is None or not re.fullmatch(r"-|([0-9a-f][0-9a-f])*", f[2]) or not re.fullmatch(r"-|([0-9a-f][0-9a-f])*", mv):
            continue
        picked.setdefault(f[0] + " " + f[1], []).append((f[2], mv))
    total, bad = 0, []
    for key, items in sorted(picked.items()):
        items = items[::every][:400]
        fun, mod = CROSS_FUNS[key]
        lst = lambda h: "[" + ";".join(str(b) for b in (bytes.fromhex(h) if h != "-" else b"")) + "]"
        src = ("From Coq Require Import List Ascii. Import ListNotations.\n"
               "From Goag Require Import Base.Str %s.\n"
               "Definition inputs : list (list nat) := [%s].\n"
               "Definition outs := Eval vm_compute in map (fun s => map nat_of_ascii (%s (map ascii_of_nat s))) inputs.\n"
               "Set Printing Width 1000000. Set Printing Depth 1000000.\nPrint outs.\n") % (
                   mod, ";".join(lst(h) for h, _ in items), fun)
        q = os.path.join(BUILD, "crosscheck_%s.v" % re.sub(r"\W", "_", key))
        open(q, "w").write(src)
        rc, out = sh(["timeout", "600", "coqc", "-Q", os.path.join(COQ, "theories"), "Goag", q], cwd=BUILD)
        for ext in (".vo", ".vok", ".vos", ".glob"):
            try:
                os.remove(q[:-2] + ext)
            except OSError:
                pass
        m = re.search(r"outs\s*=\s*(\[.*\])\s*:\s*list", out, re.S)
        if rc != 0 or not m:
            bad.append((key, "coqc failed: " + out[-300:]))
            continue
        got = json.loads(re.sub(r";", ",", m.group(1)))
        for (h, mv), g in zip(items, got):
            total += 1
            want = list(bytes.fromhex(mv)) if mv != "-" else []
            if g != want:
                bad.append((key + " " + h, "in Coq: %s, extracted: %s" % (bytes(g).hex(), mv)))
    run.coverage["extraction_crosscheck"] = {"evaluated_in_coq": total, "mismatches": len(bad), "functions": sorted(picked)}
    run.log("extraction cross-check: %d cases evaluated inside Coq, %d differ from the extracted program" % (total, len(bad)))
    if bad:
        run.violation({"property": run.prop, "input": None, "broken": "extraction / driver: the extracted program and the Gallina definition "
                       "evaluated inside Coq disagree", "cases": bad[:5]}, None, note="no-failing-input-found")


def count_lemmas(prop):
    """Lemmas/theorems in the Proofs files the property file imports."""
    path = os.path.join(COQ, "theories", "Properties", prop + ".v")
    src = open(path).read()
    mods = set(re.findall(r"\b(?:Proofs|Model|Spec|Gen)\.(\w+)", src))
    n = 0
    files = []
    for sub in ("Proofs", "Spec", "Model", "Gen", "Base"):
        d = os.path.join(COQ, "theories", sub)
        if not os.path.isdir(d):
            continue
        for f in sorted(os.listdir(d)):
            if f.endswith(".v") and f[:-2] in mods:
                s = strip_comments(open(os.path.join(d, f)).read())
                k = len(re.findall(r"^\s*(?:Theorem|Lemma|Corollary|Example|Fact)\s+\w+", s, re.M))
                n += k
                files.append("%s/%s:%d" % (sub, f, k))
    return n, files


def build_modelrun():
    ex = os.path.join(COQ, "extract")
    out = os.path.join(BUILD, "modelrun")
    with Lock():
        deps = [os.path.join(ex, "Extract.v"), os.path.join(ex, "driver.ml")]
        for d, _, fs in os.walk(os.path.join(COQ, "theories", "Model")):
            deps += [os.path.join(d, f) for f in fs if f.endswith(".vo")]
        for d, _, fs in os.walk(os.path.join(COQ, "theories", "Spec")):
            deps += [os.path.join(d, f) for f in fs if f.endswith(".vo")]
        for d, _, fs in os.walk(os.path.join(COQ, "theories", "Base")):
            deps += [os.path.join(d, f) for f in fs if f.endswith(".vo")]
        if os.path.exists(out) and all(os.path.getmtime(p) <= os.path.getmtime(out) for p in deps if os.path.exists(p)):
            return
        sh(["timeout", "600", "coqc", "-Q", "../theories", "Goag", "Extract.v"], cwd=ex, check=True)
        bdir = os.path.join(BUILD, "ocaml")
        os.makedirs(bdir, exist_ok=True)
        for f in ("model.ml", "model.mli", "driver.ml"):
            with open(os.path.join(ex, f)) as src, open(os.path.join(bdir, f), "w") as dst:
                dst.write(src.read())
        sh(["timeout", "600", "ocamlfind", "ocamlopt", "-O3", "-w", "-a", "-o", out, "model.mli", "model.ml", "driver.ml"],
           cwd=bdir, check=False)
        if not os.path.exists(out) or os.path.getmtime(out) < os.path.getmtime(os.path.join(bdir, "driver.ml")):
            sh(["timeout", "600", "ocamlfind", "ocamlopt", "-w", "-a", "-o", out, "model.mli", "model.ml", "driver.ml"],
               cwd=bdir, check=True)


def build_vh():
    """Always `go build`: the go tool decides what to recompile from /repo's
    current working tree (module replace => /repo)."""
    with Lock():
        gosum = os.path.join(HARNESS, "go.sum")
        src = open("/repo/go.sum").read()
        if not os.path.exists(gosum) or open(gosum).read() != src:
            open(gosum, "w").write(src)
        os.makedirs(os.path.join(BUILD, "bin"), exist_ok=True)
        rc, out = sh(["go", "build", "-tags", "verif", "-o", os.path.join(BUILD, "bin", "vh"), "./cmd/vh"],
                     cwd=HARNESS, env=GOENV, timeout=900)
        return rc == 0, out


def repo_tree_hash():
    rc, out = sh("git -C /repo ls-files -co --exclude-standard", check=True)
    h = hashlib.sha256()
    for f in sorted(out.split("\n")):
        if not f or f.startswith("tests/") or f.startswith("examples/"):
            continue
        if not (f.endswith(".go") or f.endswith(".gotmpl") or f in ("go.mod", "go.sum")):
            continue
        p = os.path.join("/repo", f)
        if os.path.exists(p):
            h.update(f.encode())
            h.update(open(p, "rb").read())
    return h.hexdigest()[:16]


# --------------------------------------------------------------------------
# Known findings
# --------------------------------------------------------------------------

def load_known():
    known = []
    if os.path.exists(KNOWN):
        for line in open(KNOWN):
            line = line.strip()
            m = re.match(r"known:\s+property=(\w+)\s+id=(\w+)\s+signature=(\S+)\s+(.*)", line)
            if m:
                known.append({"property": m.group(1), "id": m.group(2), "signature": m.group(3), "text": m.group(4)})
    return known


# --------------------------------------------------------------------------
# A check run
# --------------------------------------------------------------------------

class Run:
    def __init__(self, prop, tier, seed):
        self.prop, self.tier, self.seed = prop, tier, seed
        self.t0 = time.time()
        self.dir = os.path.join(BUILD, "run", prop)
        self.violations = []      # (replay path, note)
        self.known_hits = {}      # signature -> [count, example]
        self.coverage = {}
        self.assumptions = []
        self.known = [k for k in load_known() if k["property"] == prop]

    def log(self, msg):
        log(self.prop, msg)

    # -- proof side ---------------------------------------------------------
    def proof_side(self):
        probs = lint()
        if probs:
            for p in probs[:20]:
                self.log("lint: " + p)
            self.violation({"broken": "lint", "problems": probs}, None, note="lint")
            return False
        ok, out = build_coq(self.prop)
        if not ok:
            err = out[-3000:]
            self.log("coq build FAILED:\n" + err)
            m = re.search(r'File "([^"]+)", line (\d+)', out)
            self.coq_failure = {"broken": "coq build", "where": m.group(0) if m else "?", "log": err}
            return False
        pt = property_theorems(self.prop)
        self.pt = pt
        if not pt["compiled"]:
            self.log("Properties/%s.v does not compile:\n%s" % (self.prop, pt["output"]))
            self.coq_failure = {"broken": "Properties/%s.v" % self.prop, "log": pt["output"]}
            return False
        nl, files = count_lemmas(self.prop)
        open_ax = {n: a for n, a in pt["assumptions"].items() if not a.startswith("Closed under the global context")}
        self.coverage.update({
            "obligations": len(pt["names"]) + nl,
            "discharged": len(pt["names"]) + nl,
            "property_theorems": pt["names"],
            "supporting_lemmas": nl,
            "supporting_files": files,
            "checker_cmd": "make -C coq (coqc 8.16.1, full .vo build) + coqc theories/Properties/%s.v" % self.prop,
            "print_assumptions": pt["assumptions"],
        })
        if pt["not_exact"]:
            self.log("property theorems not closed by `exact`: %s" % pt["not_exact"])
        self.log("coq: %d property theorems + %d supporting lemmas checked; lint ok; assumptions: %s" % (
            len(pt["names"]), nl, "closed" if not open_ax else json.dumps(open_ax)))
        if self.tier == "thorough":
            # the independent checker over this property's file and everything it depends on (just brought up to date by make;
            # other property files may be stale with respect to regenerated Gen/*.v and are left to their own checks)
            ck = coqchk([self.prop])
            self.coverage["coqchk"] = ck
            self.log("coqchk: %s; axioms: %s (%s s)" % ("ok" if ck["ok"] else "FAILED", ck["axioms"], ck["wall_s"]))
            if not ck["ok"]:
                self.coq_failure = {"broken": "coqchk", "log": ck["summary"]}
                return False
        return True

    # -- tie side -------------------------------------------------------------
    def run_vh(self, extra=None, timeout=None):
        if timeout is None:
            # (a hang must not cost an hour: the slowest quick run takes 40 s, the slowest thorough run 9 minutes)
            timeout = 5400 if self.tier == "thorough" else 900
        ok, out = build_vh()
        if not ok:
            raise RuntimeError("harness does not build against /repo:\n" + out[-3000:])
        build_modelrun()
        sh(["rm", "-rf", self.dir])
        os.makedirs(self.dir, exist_ok=True)
        cmd = [os.path.join(BUILD, "bin", "vh"), self.prop, "-out", self.dir, "-tier", self.tier, "-seed", str(self.seed)]
        if extra:
            cmd += extra
        rc, out = sh(cmd, env=GOENV, timeout=timeout, cwd=HARNESS)
        if rc != 0:
            raise RuntimeError("vh failed (%d):\n%s" % (rc, out[-4000:]))
        if out.strip():
            for l in [l for l in out.strip().split("\n") if "Error: <nil>" not in l][-15:]:
                self.log("vh: " + l)
        cases = open(os.path.join(self.dir, "cases.txt")).read().split("\n")
        impl = open(os.path.join(self.dir, "impl.txt")).read().split("\n")
        if cases and cases[-1] == "":
            cases.pop()
        if impl and impl[-1] == "":
            impl.pop()
        rc, mout = sh([os.path.join(BUILD, "modelrun")], input="\n".join(cases) + "\n", timeout=timeout)
        if rc != 0:
            raise RuntimeError("modelrun failed:\n" + mout[-2000:])
        model = mout.split("\n")
        if model and model[-1] == "":
            model.pop()
        if not (len(cases) == len(impl) == len(model)):
            raise RuntimeError("line count mismatch cases=%d impl=%d model=%d" % (len(cases), len(impl), len(model)))
        meta = {}
        mp = os.path.join(self.dir, "meta.json")
        if os.path.exists(mp):
            meta = json.load(open(mp))
        if "templates_executed" in meta:
            self.coverage["templates_executed_by_name"] = len(meta["templates_executed"])
            self.coverage["templates_never_executed_by_name"] = meta.get("templates_never_executed_by_name")
        return cases, impl, model, meta

    def violation(self, replay, case_key, note=""):
        os.makedirs(os.path.join(REPLAYS, self.prop), exist_ok=True)
        blob = json.dumps(replay, indent=1, sort_keys=True)
        name = hashlib.sha256(blob.encode()).hexdigest()[:12] + ".json"
        path = os.path.join(REPLAYS, self.prop, name)
        with open(path, "w") as f:
            f.write(blob)
        self.violations.append((path, note))
        return path

    def proof_failed(self, extra=None):
        """the proof side (lint / Coq build / property file) does not check: if the correspondence run above has produced a
        concrete failing input the violation is already reported with it; otherwise report it naming what no longer checks"""
        cf = dict(getattr(self, "coq_failure", {}), input=None)
        if extra:
            cf.update(extra)
        if self.violations:
            self.violation(dict(cf, note="a failing input was found by the run: see the other replay files"), None)
        else:
            self.violation(cf, None, note="no-failing-input-found")

    def known_hit(self, sig, example):
        e = self.known_hits.setdefault(sig, [0, example])
        e[0] += 1

    def finish(self, level="proof"):
        wall = time.time() - self.t0
        for sig, (n, ex) in sorted(self.known_hits.items()):
            k = [k for k in self.known if k["signature"] == sig][0]
            print("KNOWN-FINDING: property=%s %s [%s/%s] (%d cases, e.g. %s)" % (self.prop, k["text"], k["id"], sig, n, ex), flush=True)
        self.coverage["known_findings_hit"] = {s: v[0] for s, v in self.known_hits.items()}
        ev = {
            "property_id": self.prop, "tier": self.tier, "seed": self.seed, "level": level,
            "coverage": self.coverage, "assumptions": self.assumptions,
            "wall_s": round(wall, 2), "violations": len(self.violations),
        }
        os.makedirs(EVID, exist_ok=True)
        with open(os.path.join(EVID, self.prop + ".json"), "w") as f:
            json.dump(ev, f, indent=1, sort_keys=True)
        self.log("evidence written: evidence/%s.json (wall %.1f s)" % (self.prop, wall))
        seen = set()
        for path, note in self.violations:
            if path in seen:
                continue
            seen.add(path)
            print("VIOLATION property=%s replay=%s%s" % (self.prop, path, (" " + note) if note == "no-failing-input-found" else ""), flush=True)
        return 1 if self.violations else 0


def parse_kv(line):
    """'a=x b=y' -> dict (values have no spaces)."""
    d = {}
    for tok in line.split(" "):
        if "=" in tok:
            k, v = tok.split("=", 1)
            d[k] = v
    return d


# --------------------------------------------------------------------------
# generic three-way comparison
# --------------------------------------------------------------------------

def compare(run, cases, impl, model, canon_model=None, canon_impl=None, signature=None,
            nontrivial=None, context=None, max_replays=3, get_impl=None, impl_for_spec=None, eq=None, spec_of=None):
    """impl[i] is 'impl=<obs>', model[i] is 'model=<obs> spec=<obs>'.
    property mismatch: impl != spec (VIOLATION unless a known-finding signature matches)
    correspondence mismatch: impl != model while impl == spec (model is stale)"""
    n_eval = 0
    corr_mis, prop_mis = [], []
    distinct = set()
    for i, (c, im, mo) in enumerate(zip(cases, impl, model)):
        if mo.startswith("SKIP") or im.startswith("SKIP"):
            continue
        ikv, mkv = parse_kv(im), parse_kv(mo)
        if get_impl:
            ikv = {"impl": get_impl(im, mo)}
        if mo.startswith("ERROR") or "model" not in mkv or "impl" not in ikv:
            corr_mis.append((i, c, im, mo))
            continue
        n_eval += 1
        iv = ikv["impl"]
        mv, sv = mkv["model"], mkv.get("spec", mkv["model"])
        if spec_of:
            sv = spec_of(c, mkv, mv, sv)
        if canon_model:
            mv, sv = canon_model(mv), canon_model(sv)
        if canon_impl:
            iv = canon_impl(iv)
        if nontrivial is None or nontrivial(c, iv):
            distinct.add(hashlib.sha256((c + "|" + iv).encode()).digest()[:8])
        ivs = impl_for_spec(iv) if impl_for_spec else iv
        same = eq if eq else (lambda a, b: a == b)
        if not same(ivs, sv):
            sig = signature(c, iv, mv, sv, context(i) if context else None) if signature else None
            if sig and any(k["signature"] == sig for k in run.known):
                run.known_hit(sig, c if len(c) < 160 else c[:160] + "...")
                if not same(iv, mv):
                    corr_mis.append((i, c, im, mo))
            else:
                prop_mis.append((i, c, ivs, mv, sv))
                if not same(iv, mv):
                    corr_mis.append((i, c, im, mo))
        elif not same(iv, mv):
            corr_mis.append((i, c, im, mo))
    prop_mis.sort(key=lambda t: (len(t[1]), t[0]))
    for (i, c, iv, mv, sv) in prop_mis[:max_replays]:
        run.violation({"property": run.prop, "case": c, "context": context(i) if context else None,
                       "expected_spec": sv, "observed_impl": iv, "model": mv,
                       "broken": "impl differs from the declarative specification on this case"}, c)
    if corr_mis and not prop_mis:
        i, c, im, mo = corr_mis[0]
        run.violation({"property": run.prop, "case": c, "context": context(i) if context else None,
                       "impl": im, "model": mo, "input": None,
                       "broken": "correspondence impl=model (the model the theorems are about no longer describes /repo); "
                                 "impl agrees with the specification on all %d explored cases" % n_eval,
                       "mismatching_cases": len(corr_mis)}, c, note="no-failing-input-found")
    run.coverage.update({
        "evaluations": n_eval, "distinct_nontrivial": len(distinct),
        "correspondence_mismatches": len(corr_mis), "property_mismatches": len(prop_mis),
    })
    run.log("cases: %d evaluated; impl=model %d/%d; impl=spec %d/%d (+%d known-finding cases)" % (
        n_eval, n_eval - len(corr_mis), n_eval, n_eval - len(prop_mis) - sum(v[0] for v in run.known_hits.values()),
        n_eval, sum(v[0] for v in run.known_hits.values())))
    return corr_mis, prop_mis


# --------------------------------------------------------------------------
# per-property drivers
# --------------------------------------------------------------------------

TRUSTED_COMMON = [
    "Coq 8.16.1 kernel (coqc, full .vo build; vm_compute only where stated; no native_compute)",
    "axioms: none declared; Print Assumptions text per theorem is in coverage.print_assumptions",
    "extraction: ExtrOcamlBasic only (bool/option/list/prod/unit/sumbool/sumor natives, andb/orb inlined); OCaml 4.13.1; coq/extract/driver.ml glue",
    "Go harness /verif/harness (vh), module-replaced onto /repo's working tree; comparator tools/vcheck.py",
]


def check_C19(run, replay=None):
    proof_ok = run.proof_side()
    extra = ["-cases", replay] if replay else None
    cases, impl, model, meta = run.run_vh(extra)
    table = meta["table"]

    def canon_model(v):
        return ",".join("-" if t == "-" else table.get(t, "?" + t) for t in v.split(","))

    compare(run, cases, impl, model, canon_model=canon_model,
            nontrivial=lambda c, iv: not c.endswith(" -"))
    run.coverage.update({
        "rule": "all 1884 histories of length<=3 over the 12 invocations {spec with components / without / with a components section that renders nothing}x{client}x{api-handler} (the 584 histories over the first two specs are the property's stated universe), "
                "each from an empty directory and from one holding 3 user files, plus seeded random longer histories with stale "
                "goag-named files; a case is non-trivial when its history is non-empty; distinct by (case, observed directory state)",
        "exhaustive": True,
        "exhaustive_universe": "histories of length <= 3 (1884, containing the 584 of the stated universe) x {empty dir, dir with user files}",
        "input_distribution": {"history_lengths": meta["history_lengths"], "generator_runs": meta["generator_runs"]},
        "programs": 2,
        "samples": [{"case": cases[i], "impl": impl[i], "model_and_spec": model[i]} for i in sorted({min(5, len(cases) - 1), min(200, len(cases) - 1), len(cases) - 1})],
        "trusted_base": TRUSTED_COMMON + [
            "modelled, not verified: goag.go Generate's write/remove sequence (Model/OutDir.v run); file contents are opaque "
            "(identified with the sha256 of the twelve single-run outputs)",
            "os.Remove/O_TRUNC semantics as 'file gone'/'content replaced'",
        ],
    })
    if not proof_ok:
        run.proof_failed()
    return run.finish()


def check_C13(run, replay=None):
    proof_ok = run.proof_side()
    cases, impl, model, meta = run.run_vh(["-cases", replay] if replay else None)
    compare(run, cases, impl, model,
            nontrivial=lambda c, iv: len(c.split(" ")[2]) > 2)
    if run.tier == "thorough" and not replay:
        crosscheck_extraction(run, cases, model)
    k = meta.get("kinds", {})
    idx = sorted({min(7, len(cases) - 1), min(1500, len(cases) - 1), len(cases) - 1})
    run.coverage.update({
        "rule": "enc cases: content s is embedded by the REAL Generate (goimports included), the constant SpecFile of the written spec_file.go "
                "is evaluated with go/parser+go/types and compared with go_eval(encode s) (model) and with s (spec): exhaustive over all strings of "
                "length<=4 over {`,\",\\,LF,CR,$,a} (2801), real specs in original/CRLF/no-trailing-newline/one-line-JSON forms, seeded random text; "
                "lit cases validate the model's Go-literal evaluator against go/types on synthetic valid and invalid literal expressions; "
                "non-trivial = content longer than one byte; distinct by (case, observation)",
        "exhaustive": True,
        "exhaustive_universe": "all byte strings of length <= 4 over 7 symbols (2801 contents)",
        "input_distribution": {"kinds": k, "impl_invalid_literals": meta.get("impl_invalid")},
        "programs": k.get("enc", 0),
        "samples": [{"case": cases[i], "impl": impl[i], "model_and_spec": model[i]} for i in idx],
        "trusted_base": TRUSTED_COMMON + [
            "modelled, not verified: Go's lexical rules for raw/interpreted string literals and constant '+' (Model/GoLit.v go_eval), "
            "tied to go/parser+go/types on every run by the lit cases; strings.NewReplacer on single-byte patterns as a per-byte substitution",
            "domain: content without NUL (Go source cannot contain it); bytes >= 0x80 are opaque to the model (invalid UTF-8 / BOM are illegal in Go source)",
            "gofmt/goimports do not alter string-literal contents (checked on every enc case, not proved)",
        ],
    })
    if not proof_ok:
        run.proof_failed()
    return run.finish()


def regen_translator(run, name):
    """runs a translator (`vh <name>`) that regenerates coq/theories/Gen/*.v from /repo's source"""
    ok, out = build_vh()
    if not ok:
        raise RuntimeError("harness does not build against /repo:\n" + out[-3000:])
    rc, out = sh([os.path.join(BUILD, "bin", "vh"), name, "-out", os.path.join(COQ, "theories", "Gen")], env=GOENV, cwd=HARNESS, timeout=600)
    if rc != 0:
        raise RuntimeError("translator %s failed:\n%s" % (name, out[-3000:]))
    run.log("translator: " + out.strip().split("\n")[-1])


def check_C12(run, replay=None):
    regen_translator(run, "mapsites")
    proof_ok = run.proof_side()
    # the unreachable-function claim of the site table (KDead) is re-checked with the deadcode tool
    rc, dc = sh("deadcode ./... 2>/dev/null", cwd="/repo", env=GOENV, timeout=300)
    dead_ok = "unreachable func: GetSecurity" in dc
    cases, impl, model, meta = run.run_vh(["-cases", replay] if replay else None)
    compare(run, cases, impl, model, nontrivial=lambda c, iv: True,
            context=lambda i: None)
    run.coverage.update({
        "rule": "REGENERATED OBLIGATION: the map-range inventory of /repo's non-test packages (go/packages + go/types) must lie inside the "
                "reviewed site table (C12_all_map_sites_modelled, C12_no_other_sources, closed by computation). BEHAVIOUR: a map-fat spec (>=4 "
                "entries in paths, parameters, headers, responses, schemas, properties, security schemes, requirement lists, discriminator mapping "
                "with several keys per target, server variables whose defaults mention each other, scopes, request bodies) with and without client, "
                "every fixture spec and seeded JSON-corpus specs are each generated N times in one process and M times in fresh processes; the "
                "sha256 over all written files must be one value per (spec, options); Go randomises every map range, so every run is a new "
                "schedule; non-trivial: every case",
        "input_distribution": meta,
        "programs": meta.get("specs", 0),
        "deadcode_confirms_GetSecurity_unreachable": dead_ok,
        "samples": [{"spec": c.split(" ")[1], "impl": i} for c, i in list(zip(cases, impl))[:4]],
        "trusted_base": TRUSTED_COMMON + [
            "translator harness/cmd/vh/mapsites.go (go/packages, go/types): completeness of the map-range inventory; the site table's kinds are a "
            "reviewed reading of each loop (Model/MapOrder.v); text/template iterating maps in sorted key order and goimports being deterministic "
            "are trusted; Go's map iteration freedom is modelled as 'any permutation'"],
    })
    if not dead_ok:
        run.violation({"property": "C12", "broken": "site table: specification.GetSecurity is classified KDead but deadcode no longer reports it unreachable",
                       "input": None}, None, note="no-failing-input-found")
    if not proof_ok:
        # a new or edited map range: search for two differing outputs with a longer run
        found = [c for c, i in zip(cases, impl) if not i.startswith("impl=1")]
        cf = getattr(run, "coq_failure", {})
        try:
            cf["map_ranges"] = open(os.path.join(COQ, "theories", "Gen", "MapSites.txt")).read()[-6000:]
        except OSError:
            pass
        if not found and not run.violations:
            run.violation(dict(cf, input=None), None, note="no-failing-input-found")
        elif not found:
            run.violation(dict(cf, input=None, note="differing outputs were found by the run: see the other replay files"), None)
    return run.finish()


def check_C15(run, replay=None):
    proof_ok = run.proof_side()
    cases, impl, model, meta = run.run_vh(["-cases", replay] if replay else None)
    n_eval = 0
    bad = []
    corr = []
    located = unlocated = cli_n = 0
    distinct = set()
    for i, (c, im, mo) in enumerate(zip(cases, impl, model)):
        ikv, mkv = parse_kv(im), parse_kv(mo)
        n_eval += 1
        f = c.split(" ")
        distinct.add((f[2], ikv.get("impl"), ikv.get("outcome")))
        if ikv.get("impl") != "clean":
            bad.append((c, im, mo, "the generator crashed (%s)" % ikv.get("impl")))
            continue
        if "cli" in ikv:
            cli_n += 1
            is_err = ikv.get("outcome") == "error"
            if ("panic" in ikv["cli"]) or (is_err and ikv["cli"] == "0") or (not is_err and ikv["cli"] != "0"):
                bad.append((c, im, mo, "command exit status %s does not match the outcome" % ikv["cli"]))
                continue
        if ikv.get("outcome") == "error":
            if "unlocated" in im.split(" "):
                unlocated += 1
            else:
                located += 1
        if mo.startswith("ERROR") or "model" not in mkv:
            corr.append((c, im, mo, "model failed"))
        elif mkv["model"] != "clean":
            corr.append((c, im, mo, "the model predicts a panic where the generator is clean"))
        elif mkv.get("inv") != "1":
            corr.append((c, im, mo, "a document accepted by the loader violates the modelled loader post-condition"))
        elif mkv.get("must") == "err" and ikv.get("outcome") != "error":
            corr.append((c, im, mo, "the model's guard reports an error, the generator succeeds"))
    for (c, im, mo, why) in sorted(bad, key=lambda t: len(t[0]))[:3]:
        f = c.split(" ")
        run.violation({"property": "C15", "case": c, "mutation": f[2], "at": f[3], "document": bytes.fromhex(f[4]).decode("utf-8", "replace")[:6000],
                       "observed_impl": im[:1500], "model": mo, "broken": why}, c)
    if corr and not bad:
        c, im, mo, why = sorted(corr, key=lambda t: len(t[0]))[0]
        f = c.split(" ")
        run.violation({"property": "C15", "case": c, "mutation": f[2], "at": f[3], "impl": im[:1500], "model": mo, "input": None,
                       "broken": "correspondence impl=model (nil-safety front): " + why, "mismatching_cases": len(corr)}, c,
                      note="no-failing-input-found")
    run.coverage.update({
        "evaluations": n_eval, "distinct_nontrivial": len(distinct),
        "correspondence_mismatches": len(corr), "property_mismatches": len(bad),
        "errors_with_location": located, "errors_without_location": unlocated, "cli_runs": cli_n,
        "rule": "every fixture spec, the map-fat spec and regression documents under structural mutation (delete a key, null a value, swap a "
                "value's JSON type, drop `schema`/`items`, `content` parameters, non-string server-variable defaults, dangling $ref, unsupported "
                "type/format), 30 mutants per base in quick and 900 in thorough; each mutant is loaded with the real loader in a worker subprocess "
                "(a loader failure or loader panic = not accepted, outside the property) and generated under recover(); outcome class "
                "{clean-ok, clean-error, panic, process death}; a sample also runs through the built command for its exit status; the extracted "
                "nil-safety model runs on an abstraction of the same document (driver.ml abs_doc) and must predict no panic, must see its loader "
                "post-condition hold, and where one of its guards fires the generator must report an error; non-trivial: distinct by (mutation "
                "kind, outcome)",
        "input_distribution": meta,
        "samples": [{"case": cases[i][:160], "impl": impl[i][:200], "model": model[i]} for i in sorted({0, len(cases) // 2, len(cases) - 1})],
        "trusted_base": TRUSTED_COMMON + [
            "modelled, not verified: which optional OpenAPI fields the generator dereferences and where it guards them (Model/NilSafety.v is a "
            "hand audit of specification/*.go; the mutation run is what checks it); the abstraction abs_doc in driver.ml; kin-openapi's loader "
            "post-condition loader_inv (every clause exercised by the mutants)",
            "text/template converting panics in render methods into errors; Go runtime"],
    })
    run.log("cases: %d accepted by the loader; crashes %d; correspondence mismatches %d; errors located/unlocated %d/%d; cli runs %d" % (
        n_eval, len(bad), len(corr), located, unlocated, cli_n))
    if not proof_ok:
        run.proof_failed()
    return run.finish()


# ---- router family --------------------------------------------------------

def fam_impl(im, mo=""):
    kv = parse_kv(im)
    if "status" not in kv:
        return "?" + im
    out = kv["status"] + "|" + kv.get("trace", "-")
    mv = parse_kv(mo).get("model", "")
    if mv.count("|") >= 2:
        # the model reports a parse observation only for operations declared by a P line
        mparse = mv.split("|", 2)[2]
        out += "|" + ("-" if mparse == "-" else kv.get("parse", "-"))
    return out


def fam_impl_for_spec(iv):
    """projection compared with the declarative spec: authenticator call events
    dropped (which hooks are consulted is not part of the property), preflight
    header list compared as a set"""
    parts = iv.split("|", 2)
    st, tr = parts[0], parts[1] if len(parts) > 1 else "-"
    evs = []
    for e in tr.split(";"):
        if e.startswith("A") and "(" in e:
            continue
        m = re.match(r"CORS\(([^!]*)!([^)]*)\)$", e)
        if m:
            hs = m.group(2)
            if hs != "-":
                # (order is free; a name listed twice is not: C17 asks for the de-duplicated set)
                names = sorted(bytes.fromhex(hs).decode("latin1").split(","))
                hs = ",".join(names).encode("latin1").hex()
            e = "CORS(%s!%s)" % (m.group(1), hs)
        if e and e != "-":
            evs.append(e)
    out = st + "|" + (";".join(evs) if evs else "-")
    if len(parts) > 2:
        out += "|" + parts[2]
    return out


def parse_equal(a, b):
    """Parse observations: equal, or both errors where the implementation's
    message mentions (one of) the parameter(s) the model/reference names."""
    if a == b:
        return True
    ma, mb = re.match(r"Err\((.*)\)$", a), re.match(r"Err\((.*)\)$", b)
    if ma and mb:
        # a: implementation message (hex); b: '+'-joined hex names
        try:
            msg = bytes.fromhex(ma.group(1)).decode("latin1") if ma.group(1) != "-" else ""
        except ValueError:
            return False
        for hn in mb.group(1).split("+"):
            try:
                name = bytes.fromhex(hn).decode("latin1") if hn != "-" else ""
            except ValueError:
                return False
            if name and name in msg:
                return True
        return False
    return False


def fam_eq(a, b):
    pa, pb = a.split("|", 2), b.split("|", 2)
    if pa[:2] != pb[:2]:
        return False
    if len(pa) < 3 or len(pb) < 3:
        return len(pa) == len(pb) or (pa + ["-"])[2] == (pb + ["-"])[2] == "-"
    return parse_equal(pa[2], pb[2])


def fam_spec_of(c, mkv, mv, sv):
    """spec observation = declarative dispatch/trace (from the model line) + the
    parse observation of the harness's reference parser (#ref= on the case line,
    valid when the reference's template is the one dispatched)"""
    mparts = mv.split("|", 2)
    if len(mparts) < 3:
        return sv
    parse = mparts[2]
    m = re.search(r" #ref=(\S+)", c)
    if m and parse != "-":
        ref = m.group(1)
        if "@" in ref:
            raw, ref = ref.split("@", 1)
            if ("H" in sv) and (":" + raw + "[") in sv:
                parse = ref
        else:
            parse = ref
    if not re.search(r"(^|;)H", sv.split("|", 1)[1] if "|" in sv else ""):
        parse = "-"
    return sv + "|" + parse


def fam_context(cases):
    """index -> the D and S lines of the request's package"""
    heads = {}
    for c in cases:
        if c.startswith("D ") or c.startswith("S ") or c.startswith("P "):
            heads.setdefault(c.split(" ", 2)[1], []).append(c)

    def ctx(i):
        f = cases[i].split(" ", 2)
        return heads.get(f[1], []) if len(f) > 1 else []
    return ctx


def fam_report_bad_packages(run, meta, allowed=None):
    """a package of the corpus that does not generate or compile is itself an
    observation; for the router family every corpus spec is in the dialect, so
    it is a failure of the tie (reported as a violation of the property being
    checked, with the document as replay)"""
    bad = [b for b in (meta.get("packages_bad") or []) if not (b["generr"] and not b["genpanic"] and not b["builderr"])]
    # (a package the generator REJECTS with an error is compared with the model's gen_accepts on its S line)
    for b in bad[:3]:
        run.violation({"property": run.prop, "broken": "corpus package does not generate/compile",
                       "generr": b["generr"], "genpanic": b["genpanic"], "builderr": b["builderr"],
                       "doc": b["doc"]}, None)
    return len(bad)


def decode_rline(c):
    f = c.split(" ")
    if f[0] != "R" or len(f) < 9:
        return c
    ux = lambda h: "" if h == "-" else bytes.fromhex(h).decode("latin1")
    return {"pkg": f[1], "api_cfg": f[2], "method": f[3], "url": ux(f[4]), "headers": ux(f[5]), "path": ux(f[7])}


def check_router_family(run, replay, rule, trusted, signature=None, extra_cov=None):
    proof_ok = run.proof_side()
    cases, impl, model, meta = run.run_vh(["-cases", replay] if replay else None)
    ctx = fam_context(cases)
    nbad = fam_report_bad_packages(run, meta)
    compare(run, cases, impl, model, get_impl=fam_impl, impl_for_spec=fam_impl_for_spec,
            nontrivial=lambda c, iv: not iv.startswith("404|"), context=ctx, signature=signature,
            eq=fam_eq, spec_of=fam_spec_of)
    ridx = [i for i, c in enumerate(cases) if c.startswith("R ")]
    pick = [ridx[k] for k in sorted({0, len(ridx) // 3, len(ridx) // 2, len(ridx) - 1})] if ridx else []
    dispatched = sum(1 for i in ridx if not impl[i].startswith("status=404"))
    run.coverage.update({
        "rule": rule,
        "programs": meta.get("packages_ok", 0),
        "packages_not_built": nbad,
        "input_distribution": dict({k: v for k, v in meta.items() if k not in ("packages_bad",)},
                                   requests=len(ridx), requests_not_404=dispatched),
        "samples": [{"request": decode_rline(cases[i]), "impl": impl[i][:300], "model_and_spec": model[i][:400]} for i in pick],
        "trusted_base": TRUSTED_COMMON + trusted,
    })
    if extra_cov:
        run.coverage.update(extra_cov)
    if not proof_ok:
        run.proof_failed()
    return run.finish()


ROUTER_TRUSTED = [
    "modelled, not verified: the Go semantics of the emitted router (Model/Router.v route = template \"Route\", Model/Serve.v serve = API.ServeHTTP), "
    "Route.add (Model/Router.v add), NewRouter (Model/Serve.v gen_*); tied to /repo by running every request of the universe through the compiled "
    "generated package and the extracted model",
    "oracles: net/url parsing of the request line (URL.Path, URL.Query()) and url.Parse(servers[0].url).Path are computed by the harness with net/url and handed to the model",
    "the reflective driver (scratch/reg) and the AST-generated zz_driver_gen.go installed into each generated package",
]


# ---- JSON family ----------------------------------------------------------

def canon_json_bytes(bs):
    def pairs(ps):
        d = {}
        dup = False
        for k, v in ps:
            if k in d:
                dup = True
            d[k] = v
        if dup:
            d["__DUPLICATE_KEYS__"] = True
        return d
    try:
        import decimal
        num = lambda t: "#num:" + str(decimal.Decimal(t).normalize() + 0)
        v = json.loads(bs.decode("utf-8"), object_pairs_hook=pairs, parse_float=num, parse_int=num)
    except Exception as e:
        return "UNPARSEABLE(%s)" % e
    return json.dumps(v, sort_keys=True, ensure_ascii=True)


def canon_json_hex(h):
    if not re.fullmatch(r"[0-9a-f]*", h or ""):
        return h
    return canon_json_bytes(bytes.fromhex(h))


def canon_dump(d):
    if d is None:
        return None
    d = d.replace("Nil[]", "[]").replace("NilMap", "M{}")
    d = re.sub(r"F\(([^)]*)\)", lambda m: "F(%r)" % float(m.group(1)) if m.group(1) else "F()", d)
    d = re.sub(r"Raw\(([0-9a-f]*|-)\)", lambda m: "Raw(%s)" % canon_json_bytes(bytes.fromhex(m.group(1)) if m.group(1) != "-" else b"null"), d)
    return d


def err_mentions(impl_err, key_hex):
    m = re.match(r"Err\(([0-9a-f]*)\)$", impl_err or "")
    if not m:
        return False
    try:
        msg = bytes.fromhex(m.group(1)).decode("latin1")
        key = bytes.fromhex(key_hex).decode("latin1") if key_hex != "-" else ""
    except ValueError:
        return False
    return key != "" and key in msg


def d47_only(iobj, mobj, parent_is_list=False):
    """True when the implementation's JSON differs from the model's only by null in place of [] for an array that is itself an
    ITEM of an array (D47: the inner slices of an array of arrays are encoded by encoding/json's default)"""
    if iobj is None and mobj == [] and parent_is_list:
        return True
    if type(iobj) != type(mobj):
        return False
    if isinstance(iobj, list):
        return len(iobj) == len(mobj) and all(d47_only(a, b, True) for a, b in zip(iobj, mobj))
    if isinstance(iobj, dict):
        return iobj.keys() == mobj.keys() and all(d47_only(iobj[k], mobj[k], False) for k in iobj)
    return iobj == mobj


def check_json_family(run, prop, replay=None):
    proof_ok = run.proof_side()
    cases, impl, model, meta = run.run_vh(["-cases", replay] if replay else None)
    heads = {}
    jo_lines = {}
    for c in cases:
        if c[:2] in ("D ", "J "):
            heads.setdefault(c.split(" ", 2)[1], []).append(c)
        elif c[:3] == "JO ":
            f = c.split(" ", 3)
            jo_lines.setdefault((f[1], f[2]), []).append(c)
    nbad = fam_report_bad_packages(run, meta)
    n_eval = 0
    corr, propm = [], []
    distinct = set()
    kinds = {}
    # C07: where the implementation's encoding differs from the model's, the implementation's OWN output is judged by the
    # extracted validator (a second run of the model on `U <pkg> <type> <impl json>` lines)
    impl_valid = {}
    if prop == "C07":
        extra = []
        for i, (c, im, mo) in enumerate(zip(cases, impl, model)):
            if c[:2] == "E " and not im.startswith("SKIP"):
                iv, mv = parse_kv(im).get("impl", "?"), parse_kv(mo).get("model", "?")
                if re.fullmatch(r"[0-9a-f]+", iv) and iv != mv:
                    f = c.split(" ")
                    extra.append((i, "U %s %s %s" % (f[1], f[2], iv)))
        if extra:
            lines = [c for c in cases if c[:2] in ("J ", "O ")] + [l for _, l in extra]
            rc, mout = sh([os.path.join(BUILD, "modelrun")], input="\n".join(lines) + "\n", timeout=600)
            outs = mout.split("\n")
            base = len(lines) - len(extra)
            for k, (i, _) in enumerate(extra):
                o = outs[base + k] if base + k < len(outs) else ""
                impl_valid[i] = parse_kv(o).get("valid")
    for i, (c, im, mo) in enumerate(zip(cases, impl, model)):
        kind = c[:1]
        if kind not in ("E", "U") or im.startswith("SKIP"):
            continue
        if kind == "E" and prop in ("C06", "C07"):
            # the same value as a response body through the generated Write (after a large body went the same way): it must be the
            # encoding of the value and a newline
            w = parse_kv(im).get("wire")
            if w is not None:
                kinds["written-as-response-body"] = kinds.get("written-as-response-body", 0) + 1
                if w != "same":
                    f = c.split(" ")
                    propm.append((i, c, im, mo, [l for l in heads.get(f[1], []) if l.startswith("D ")],
                                  "the body the response's Write method wrote is not the JSON encoding of the value (what was written: %r)" %
                                  (bytes.fromhex(w)[:300] if w != "-" else b"")))
                    continue
        if c.startswith("EK "):
            # an array of items that are a oneOf defined in place: not modelled; the encoding is judged by kin-openapi's
            # validator (support for the search, not a theorem), the round trip against the sent value
            n_eval += 1
            kinds["oneof-items"] = kinds.get("oneof-items", 0) + 1
            ikv = parse_kv(im)
            f = c.split(" ")
            ctx = [l for l in heads.get(f[1], []) if l.startswith("D ")]
            if prop == "C07" and ikv.get("kin", "ok") not in ("ok", "unavailable"):
                why = ikv["kin"]
                if why.startswith("no:"):
                    why = bytes.fromhex(why[3:]).decode("utf8", "replace")[:200] if why[3:] != "-" else ""
                propm.append((i, c, im, mo, ctx, "encoded JSON does not validate against the schema (kin-openapi: %s)" % why))
            elif prop == "C06" and canon_dump(ikv.get("back")) != canon_dump(f[3]):
                propm.append((i, c, im, mo, ctx, "decoding the encoding of an array of oneOf items does not return the value"))
            continue
        if c.startswith("EO ") or c.startswith("UO "):
            # oneOf types (Model/OneOf.v): the encoding, the value decoded from it, and the decoder's verdict on documents
            n_eval += 1
            ikv, mkv = parse_kv(im), parse_kv(mo)
            f = c.split(" ")
            ctx = [l for l in heads.get(f[1], []) if l.startswith("D ")] + jo_lines.get((f[1], f[2]), [])
            if mo.startswith("ERROR") or "model" not in mkv:
                corr.append((i, c, im, mo, ctx, "model failed"))
                continue
            iv, mv = ikv.get("impl", "?"), mkv["model"]
            if c.startswith("EO "):
                kinds["oneof-encode"] = kinds.get("oneof-encode", 0) + 1
                i_ok = re.fullmatch(r"[0-9a-f]+", iv) is not None
                ij = canon_json_hex(iv) if i_ok else iv
                mj = canon_json_hex(mv) if mv != "MarshalErr" else mv
                iback = ikv.get("back", "?")
                iback = "Err" if iback.startswith("Err") else canon_dump(iback)
                mback = mkv.get("back", "?")
                mback = "Err" if mback.startswith("Err") else canon_dump(mback)
                if i_ok:
                    distinct.add(hashlib.sha256((c + ij).encode()).digest()[:8])
                if ij != mj or iback != mback:
                    corr.append((i, c, im, mo, ctx, "oneOf encode/round-trip observation differs from the model"))
                if prop in ("C06", "C07") and (not i_ok or ij.startswith("UNPARSEABLE") or "__DUPLICATE_KEYS__" in ij):
                    propm.append((i, c, im, mo, ctx, "encoding of a oneOf value is not valid JSON (%s)" % iv[:80]))
                elif prop == "C06" and iback != canon_dump(f[3]):
                    # (the corpus only holds values whose variant is the one the decoder must choose: a required key of
                    #  its own without discriminator, an accepted discriminator name with one)
                    propm.append((i, c, im, mo, ctx, "decoding the encoding of a oneOf value does not return the value"))
            else:
                exp = (re.search(r"#exp=(\S+)", c) or [None, "?"])[1]
                kinds["oneof-decode:" + exp] = kinds.get("oneof-decode:" + exp, 0) + 1
                i_err, m_err = iv.startswith("Err"), mv.startswith("Err")
                distinct.add(hashlib.sha256((c + iv[:40]).encode()).digest()[:8])
                if i_err != m_err:
                    corr.append((i, c, im, mo, ctx, "oneOf decode outcome differs from the model"))
                elif not i_err and canon_dump(iv) != canon_dump(mv):
                    corr.append((i, c, im, mo, ctx, "oneOf decoded value differs from the model"))
                if prop == "C08":
                    # strictness at the oneOf level: no discriminator name the switch lists / no variant's required key => rejected
                    jo = [l for l in ctx if l.startswith("JO ")]
                    hasdisc = bool(jo) and jo[-1].split(" ")[3] != "-"
                    must_reject = ("kindtype", "notobject", "norequired", "wrongtype") + (("unknownkind", "nokind", "kindnull") if hasdisc else ())
                    if exp in must_reject and not i_err:
                        propm.append((i, c, im, mo, ctx, "a oneOf document that must be rejected (%s) was accepted" % exp))
                    if exp == "valid" and i_err:
                        propm.append((i, c, im, mo, ctx, "a valid oneOf document was rejected"))
            continue
        n_eval += 1
        ikv, mkv = parse_kv(im), parse_kv(mo)
        f = c.split(" ")
        ctx = [l for l in heads.get(f[1], []) if l.startswith("D ") or l.startswith("J %s %s " % (f[1], f[2]))]
        if mo.startswith("ERROR") or "model" not in mkv:
            corr.append((i, c, im, mo, ctx, "model failed"))
            continue
        iv, mv = ikv.get("impl", "?"), mkv["model"]
        if kind == "E":
            kinds["encode"] = kinds.get("encode", 0) + 1
            i_ok = re.fullmatch(r"[0-9a-f]+", iv) is not None
            m_ok = mv != "MarshalErr"
            ij = canon_json_hex(iv) if i_ok else iv
            mj = canon_json_hex(mv) if m_ok else mv
            iback, mback = canon_dump(ikv.get("back")), canon_dump(mkv.get("back"))
            orig = canon_dump(f[3])
            if i_ok:
                distinct.add(hashlib.sha256((c + ij).encode()).digest()[:8])
            same = (ij == mj) and (iback == mback)
            if not same:
                corr.append((i, c, im, mo, ctx, "encode/round-trip observation differs from the model"))
            # the properties themselves
            bad = None
            if prop in ("C06", "C08") or True:
                if not i_ok or "__DUPLICATE_KEYS__" in ij or ij.startswith("UNPARSEABLE"):
                    if prop in ("C06", "C07"):
                        bad = "encoding is not valid JSON (%s)" % (iv if not i_ok else "duplicate keys")
                elif prop == "C06" and iback != orig:
                    bad = "decoding the encoding does not return the value"
                elif prop == "C07" and not (same and mkv.get("valid") == "1"):
                    if ij == mj and mkv.get("valid") != "1":
                        bad = "encoded JSON does not validate against the schema"
                    elif ij != mj and impl_valid.get(i) == "0":
                        bad = "encoded JSON does not validate against the schema (the implementation's own output, judged by the Coq validator)"
            if bad:
                propm.append((i, c, im, mo, ctx, bad))
        else:
            kinds["decode"] = kinds.get("decode", 0) + 1
            exp = (re.search(r"#exp=(\S+)", c) or [None, "?"])[1]
            kinds["decode:" + exp.split(":")[0]] = kinds.get("decode:" + exp.split(":")[0], 0) + 1
            i_err = iv.startswith("Err(")
            m_err = mv.startswith("Err") 
            if i_err != m_err:
                corr.append((i, c, im, mo, ctx, "decode outcome differs from the model"))
            elif i_err:
                mk = re.match(r"Err\((.*)\)$", mv)
                if mk and not err_mentions(iv, mk.group(1)):
                    corr.append((i, c, im, mo, ctx, "error does not mention the key the model names"))
            elif c.startswith("UB "):
                # (through the server's Parse(): the parsed body is observed as the JSON it re-encodes to)
                if canon_json_hex(ikv.get("reenc", "")) != canon_json_hex(mkv.get("reenc", "")):
                    corr.append((i, c, im, mo, ctx, "the request body the server parsed re-encodes differently from the model"))
            else:
                if canon_dump(iv) != canon_dump(mv) or canon_json_hex(ikv.get("reenc", "")) != canon_json_hex(mkv.get("reenc", "")):
                    corr.append((i, c, im, mo, ctx, "decoded value / re-encoding differs from the model"))
            distinct.add(hashlib.sha256((c + iv[:40]).encode()).digest()[:8])
            if prop == "C08":
                bad = None
                if exp == "valid":
                    if mkv.get("valid") != "1":
                        bad = "reference disagreement: the document generator says valid, the Coq validator says invalid"
                    elif i_err:
                        bad = "a valid document is rejected"
                    elif "__DUPLICATE_KEYS__" in canon_json_hex(ikv.get("reenc", "")) or ikv.get("reenc") == "MarshalErr":
                        bad = "re-encoding a decoded valid document is not valid JSON"
                    elif canon_json_hex(ikv.get("reenc", "")) != canon_json_hex(mkv.get("keep", mkv.get("reenc", ""))):
                        # [keep] of Spec/JsonSpec.v, evaluated by the extracted specification (C08_lossless)
                        bad = "re-encoding differs from the kept part of the document"
                    elif "keep" in mkv and canon_json_hex(mkv["keep"]) != canon_json_hex(mkv.get("reenc", "")):
                        corr.append((i, c, im, mo, ctx, "the model's re-encoding differs from keep (C08_lossless does not apply to this schema?)"))
                else:
                    k = exp.split(":", 1)[1]
                    if not i_err:
                        bad = "a document with a %s is accepted" % exp.split(":")[0]
                    elif not err_mentions(iv, k):
                        bad = "the error does not name the property"
                if bad:
                    propm.append((i, c, im, mo, ctx, bad))
    propm.sort(key=lambda t: len(t[1]))

    def json_sig(ctx):
        # D28: an allOf $ref member that itself declares additionalProperties
        for l in ctx:
            if not l.startswith("J "):
                continue
            k = l.find("E:o(")
            while k >= 0:
                # the matching parenthesis of this embedded object; its additionalProperties part follows the last top-level '|'
                depth, j, bar = 0, k + 3, -1
                while j < len(l):
                    if l[j] == "(":
                        depth += 1
                    elif l[j] == ")":
                        depth -= 1
                        if depth == 0:
                            break
                    elif l[j] == "|" and depth == 1:
                        bar = j
                    j += 1
                if bar >= 0 and l[bar + 1:j] != "-":
                    return "embedded_member_with_additional_properties"
                k = l.find("E:o(", k + 1)
        return None
    rest = []
    for t in propm:
        sg = json_sig(t[4])
        if not sg and prop == "C07" and t[1].startswith("E "):
            try:
                io = json.loads(bytes.fromhex(parse_kv(t[2]).get("impl", "")).decode("utf8"))
                mo_ = json.loads(bytes.fromhex(parse_kv(t[3]).get("model", "")).decode("utf8"))
                if io != mo_ and d47_only(io, mo_):
                    sg = "nil_inner_array_encodes_null"
            except Exception:
                pass
        if sg and any(k["signature"] == sg for k in run.known):
            run.known_hit(sg, t[1][:160])
        else:
            rest.append(t)
    propm = rest
    def corr_known(t):
        if json_sig(t[4]) and any(k["signature"] == json_sig(t[4]) for k in run.known):
            return True
        if t[1].startswith("E ") and any(k["signature"] == "nil_inner_array_encodes_null" for k in run.known):
            try:
                io = json.loads(bytes.fromhex(parse_kv(t[2]).get("impl", "")).decode("utf8"))
                mo_ = json.loads(bytes.fromhex(parse_kv(t[3]).get("model", "")).decode("utf8"))
                if io != mo_ and d47_only(io, mo_):
                    if prop != "C07":
                        run.known_hit("nil_inner_array_encodes_null", t[1][:160])
                    return True
            except Exception:
                return False
        return False
    corr = [t for t in corr if not corr_known(t)]
    # XB lines: a nullable object component as the request body itself (not modelled; expectations written by hand)
    if prop == "C08":
        nxb = 0
        for i, c in enumerate(cases):
            if not c.startswith("XB ") or impl[i].startswith("SKIP"):
                continue
            nxb += 1
            f = c.split(" ")
            exp = re.search(r"#exp=(\S+)", c).group(1)
            ikv = parse_kv(impl[i])
            got = "reject" if ikv.get("impl", "").startswith("Err(") else ("accept" if ikv.get("impl") == "OK" else "?")
            body = bytes.fromhex(f[3]).decode() if f[3] != "-" else ""
            bad = None
            if got != exp:
                bad = "the request body %r must be %sed by the server's Parse() and was %sed" % (body, exp, got)
            elif got == "accept" and canon_json_bytes(bytes.fromhex(ikv.get("reenc", "") if ikv.get("reenc", "-") != "-" else "")) != canon_json_bytes(body.encode()):
                bad = "the accepted request body %r re-encodes to another document" % body
            if bad:
                propm.append((i, c, impl[i], model[i], [l for l in heads.get(f[1], []) if l.startswith("D ")], bad))
        kinds["nullable-body-component"] = nxb
    for (i, c, im, mo, ctx, why) in propm[:3]:
        run.violation({"property": prop, "case": c, "context": ctx, "observed_impl": im[:2000], "model": mo[:2000], "broken": why}, c)
    if corr and not propm:
        i, c, im, mo, ctx, why = sorted(corr, key=lambda t: len(t[1]))[0]
        run.violation({"property": prop, "case": c, "context": ctx, "impl": im[:2000], "model": mo[:2000], "input": None,
                       "broken": "correspondence impl=model for the JSON codec: " + why, "mismatching_cases": len(corr)}, c,
                      note="no-failing-input-found")
    eidx = [i for i, c in enumerate(cases) if c[:2] in ("E ", "U ")]
    pick = [eidx[k] for k in sorted({0, len(eidx) // 2, len(eidx) - 1})] if eidx else []
    run.coverage.update({
        "evaluations": n_eval, "distinct_nontrivial": len(distinct),
        "correspondence_mismatches": len(corr), "property_mismatches": len(propm),
        "programs": meta.get("packages_ok", 0), "packages_not_built": nbad,
        "input_distribution": dict({k: v for k, v in meta.items() if k != "packages_bad"}, case_kinds=kinds),
        "rule": "seeded schemas of the JSON dialect (objects with required/optional/nullable properties of every primitive kind, arrays, nested "
                "inline and $ref objects, additionalProperties true/schema, allOf with $ref (embedded) and inline members in every order incl. "
                "all-optional embedded members, any), 8 types per package; E cases: boundary/random values (strings needing escapes, non-BMP, "
                "extreme ints/floats, zoned times, unset/null combinations, map keys with spaces and quotes) are marshalled by the compiled package, "
                "checked with json.Valid, unmarshalled again and dumped; U cases: documents generated FROM the schema (optional subsets, null where "
                "allowed, extra keys, shuffled key order) and their single-fault mutants (one required key dropped; one value's JSON type swapped) "
                "are unmarshalled, dumped and re-marshalled; everything is compared with the extracted Coq codec model and validator; non-trivial = "
                "produced a JSON value / decoded value; distinct by (case, observation)",
        "samples": [{"case": cases[i][:400], "impl": impl[i][:400], "model": model[i][:400]} for i in pick],
        "trusted_base": TRUSTED_COMMON + [
            "modelled, not verified: the Go semantics of the emitted MarshalJSON/UnmarshalJSON code (Model/Json.v), encoding/json on leaf types "
            "(strings, numbers, booleans, RawMessage, time via layout) as oracles; numbers are compared numerically, objects up to key order",
            "the reflective value builder/dumper of the driver and the OCaml JSON reader/printer in driver.ml"],
    })
    # encoding/json on string texts against its transcription (Model/JsonString.v): N jq / N ju lines
    nidx = [i for i, c in enumerate(cases) if c.startswith("N j")]
    nbadn = [i for i in nidx if parse_kv(impl[i]).get("impl") != parse_kv(model[i]).get("model")]
    run.coverage["json_string_cases"] = len(nidx)
    run.coverage["json_string_mismatches"] = len(nbadn)
    if nbadn and prop == "C06":
        i = nbadn[0]
        run.violation({"property": run.prop, "case": cases[i], "impl": impl[i], "model": model[i], "input": None,
                       "broken": "correspondence: encoding/json's string text differs from its transcription Model/JsonString.v "
                                 "(C06_string_text_roundtrip is about the latter)", "mismatching_cases": len(nbadn)},
                      cases[i], note="no-failing-input-found")
    run.log("cases: %d evaluated; correspondence mismatches %d; property mismatches %d" % (n_eval, len(corr), len(propm)))
    if not proof_ok:
        run.proof_failed()
    return run.finish()


def check_C06(run, replay=None):
    return check_json_family(run, "C06", replay)


def check_C07(run, replay=None):
    return check_json_family(run, "C07", replay)


def check_C08(run, replay=None):
    return check_json_family(run, "C08", replay)


def check_C04(run, replay=None):
    return check_router_family(
        run, replay,
        rule="parameter declaration matrix: 10 type kinds x {query scalar, query array, header scalar, header array} x required/optional x "
             "{inline, schema $ref, component-parameter $ref} x {operation level, path-item level} + nullable variants (1120 cells; thorough: all, "
             "quick: seeded 140), packed 6 per operation; per operation: all valid, all absent, and each parameter varied over its type's lexeme "
             "classes (canonical, boundary +-2^31/+-2^63/1e309/float32 max, out-of-range, garbage, empty, leading +, leading zeros, whitespace, "
             "non-ASCII digits) and cardinalities {absent, two, three} while the others stay valid; Parse() is called inside the handler and the "
             "params struct dumped reflectively; compared with the extracted model and with an independent reference parser in the harness "
             "(strconv / time.Parse as the lexical-space oracles); an error must mention an offending parameter; non-trivial = not a 404",
        trusted=ROUTER_TRUSTED + [
            "oracles: strconv.ParseFloat and time.Parse(RFC3339Nano) results are computed by the harness with the real functions and handed "
            "to the model as tables (float/time lexical spaces are oracle-relative); strconv.ParseInt/ParseBool are modelled and proved against "
            "an independent definition of the lexical space",
            "the harness's reference parser (cmd/vh/params.go refParse) as the executable reading of the property for the tie"])


def check_C05(run, replay=None):
    return check_router_family(
        run, replay,
        rule="seeded template sets (depth<=4, literal/variable conflicts, trailing slashes) whose variables get typed parameters (string, "
             "integer/int32/int64, number/float/double, boolean, date-time, password; inline, schema $ref, component-parameter $ref) x 10 "
             "base-path forms; requests: every template instantiated with every choice of segment at its variable positions from an alphabet of "
             "typed lexemes (valid, out-of-range, empty, foreign, escaped), plus the path one segment longer/shorter; for every dispatched "
             "request Parse() is called in the handler and Params.Path dumped; compared with the model and the reference (typed value of exactly "
             "the matched segment, or an error naming the first empty/ill-typed variable); non-trivial = not a 404",
        trusted=ROUTER_TRUSTED + ["oracles as C04 (ParseFloat / time.Parse tables)"])


def check_C03(run, replay=None):
    return check_router_family(
        run, replay,
        rule="template sets (all sets of <=2 non-equivalent templates of depth<=2 over {a,b,{v},trailing-slash} in thorough, a seeded subset in quick; "
             "seeded random sets of 3-7 templates of depth<=4) x 10 base-path forms (flag / servers URL / variables / trailing slash / '/'); for each "
             "package ALL request paths up to the stated depth over the set's literals + a foreign literal + the empty segment, under the base path and "
             "near-miss bases, x declared and undeclared methods; each request runs through the compiled package (handler identity from the generated "
             "Path()/Method(), SchemaPath seen by a middleware) and through the extracted model and reference matcher; non-trivial = not a 404; "
             "distinct by (request, observation)",
        trusted=ROUTER_TRUSTED)


def sig_security(c, iv, mv, sv, ctx):
    """known-finding signatures for C11 (see KNOWN_FINDINGS.txt)"""
    sline = next((l for l in (ctx or []) if l.startswith("S ")), "")
    kv = parse_kv(sline)
    kinds = {}
    for e in kv.get("schemes", "-").split(","):
        p = e.split(":")
        if len(p) == 3:
            kinds[p[0]] = p[1]
    multi = False
    unsupported = False
    secs = [kv.get("global", "none")]
    for p in kv.get("paths", "").split(";"):
        for o in p.split("~")[-1].split("&"):
            f = o.split("/")
            if len(f) == 3:
                secs.append(f[1])
    for sec in secs:
        if sec in ("i", "e", "none"):
            continue
        for alt in sec.split("|"):
            names = alt.split("+")
            if len(names) > 1:
                multi = True
            if any(kinds.get(n) not in ("bearer", "keyheader", "keyquery") for n in names):
                unsupported = True
    if multi:
        return "multi_scheme_requirement"
    if unsupported:
        return "unsupported_scheme_kind"
    return None


def check_C11(run, replay=None):
    return check_router_family(
        run, replay,
        rule="all small security configurations: (A,B) drawn from {bearer, apiKey-header, apiKey-query, http-basic (unsupported)} x global in "
             "{none,[A],[A,B]} x GET and POST each in {inherit,[],[A],[B],[A,B],[A and B]} x {same path, different paths} plus a PUT with "
             "`security: []` (2592 specs; thorough: all, quick: a seeded 150); per spec every combination of {absent, valid, invalid} credentials "
             "for A and B x hooks {all installed, A nil, B nil} x the three operations; hooks tag the request so the handler reports which "
             "authenticator's request it received; non-trivial = not a 404",
        trusted=ROUTER_TRUSTED + ["user authenticators are modelled as token predicates (accept exactly one token / nil)"],
        signature=sig_security)


def check_C16(run, replay=None):
    return check_router_family(
        run, replay,
        rule="seeded template sets x base-path forms, half with bearer/apiKey-secured operations, a third with CORS; middleware stacks of length "
             "0..4 x spec-file handler installed or not x not-found handler installed or not; requests: the C03 universe (depth<=3), every "
             "template instantiated, the spec-file path and four near-misses, x GET/POST/OPTIONS; traces (enter/leave with SchemaPath, "
             "authenticator calls, handler, not-found, spec-file, preflight) compared verbatim with the model and, without authenticator "
             "events, with the declarative spec; non-trivial = not a 404",
        trusted=ROUTER_TRUSTED + ["user middlewares are the well-behaved wrappers Enter i; next; Leave i"])


def check_C17(run, replay=None):
    return check_router_family(
        run, replay,
        rule="seeded path items (method subsets incl. explicit OPTIONS, header parameters at path-item and operation level in several "
             "spellings, bearer / apiKey-header / apiKey-query / empty security, global bearer) x cors on/off x CORS handler nil/set; "
             "OPTIONS/GET/POST to every declared path and one undeclared; the installed CORSHandler records its arguments; "
             "methods compared as a list, headers as a set against the declarative spec and verbatim against the model; non-trivial = not a 404",
        trusted=ROUTER_TRUSTED + ["http.CanonicalHeaderKey modelled for ASCII (Model/Serve.v canon_key), tied by these cases"])


# ---- C09: client/server agreement -----------------------------------------

def c09_impl(im, mo=""):
    kv = parse_kv(im)
    if "impl" not in kv:
        return "MISSING"
    if kv.get("call") != "ok":
        return "CALLFAIL(%s)|%s" % (kv.get("call"), kv["impl"])
    v = kv.get("valid", "unavailable")
    if v != "ok":
        return "WIRE-REJECTED-BY-VALIDATOR(%s)|%s" % (v, kv["impl"])
    w = kv.get("wire", ",,").split(",")
    # the request URL as the client wrote it (compared byte for byte with Model/Client.v client_wire)
    url = w[1] if len(w) > 1 else ""
    return c09_canon(kv["impl"]) + "|" + url


def c09_canon(d):
    # a reader body is sent as Body(hex) and dumped as Raw(hex): compare the bytes
    d = re.sub(r"(Body|Raw)\(([0-9a-f]*|-)\)\}$", lambda m: "Bytes(%s)}" % m.group(2), d)
    return canon_dump(d).replace(" ", "\x01")


def check_C09(run, replay=None):
    proof_ok = run.proof_side()
    cases, impl, model, meta = run.run_vh(["-cases", replay] if replay else None)
    heads = fam_context(cases)
    olines = [c for c in cases if c.startswith("O ")]

    def ctx(i):
        return heads(i) + olines
    nbad = fam_report_bad_packages(run, meta)
    # S lines are not this property's comparison (C03/C16 own them)
    cs, ims, mos = [], [], []
    keep = []
    for i, c in enumerate(cases):
        if c.startswith("K "):
            keep.append(i)
    # a null for a nullable parameter: expressible in the Go request type, outside the wire format and the model (D24)
    nullpat = r"P\((I\(0\)|S\(-\)|F\(0(\.0)?\)|B\(0\)|T\([^)]*\))\)"
    rest = []
    null_hits = []
    for i in keep:
        if not model[i].startswith("model=Unexpressible(null-parameter)"):
            rest.append(i)
            continue
        if impl[i].startswith("SKIP"):
            continue
        c = cases[i]
        f = c.split(" ")
        sent = f[3]
        if len(f) >= 6:
            inner = sent[1:-1]
            sent = "{" + (inner + "," if inner else "") + f[5] + "}"
        sent = c09_canon(sent)
        iv = c09_canon(parse_kv(impl[i]).get("impl", ""))
        rx = "^" + re.escape(sent).replace("Null", "(Null|" + nullpat + ")") + "$"
        known = any(k["signature"] == "nullable_parameter_null" for k in run.known)
        if iv == sent:
            continue  # (the defect is gone: nothing to report; the entry in KNOWN_FINDINGS.txt is then stale)
        if known and re.match(rx, iv) and "call=ok" in impl[i]:
            null_hits.append(c[:160])
        else:
            run.violation({"property": run.prop, "case": c, "context": ctx(i), "expected_spec": sent, "observed_impl": impl[i],
                           "model": model[i], "broken": "the handler's parsed parameters differ from what was sent"}, c)
    keep = rest
    kc = [cases[i] for i in keep]
    ki = [impl[i] for i in keep]
    km = []
    for i in keep:
        mkv = parse_kv(model[i])
        if "model" in mkv:
            km.append("model=%s|%s spec=%s|%s" % (c09_canon(mkv["model"]), mkv.get("wire", ""), c09_canon(mkv.get("spec", "")), mkv.get("wire", "")))
        else:
            km.append(model[i])
    compare(run, kc, ki, km, get_impl=c09_impl, context=lambda j: ctx(keep[j]),
            nontrivial=lambda c, iv: True)
    # net/url itself against its transcription (Model/UrlEscape.v): every UE line
    uidx = [i for i, c in enumerate(cases) if c.startswith("UE ")]
    ucorr = [i for i in uidx if parse_kv(impl[i]).get("impl") != parse_kv(model[i]).get("model")]
    uprop = [i for i in uidx if "spec" in parse_kv(model[i]) and parse_kv(impl[i]).get("impl") != parse_kv(model[i]).get("spec")]
    for i in uprop[:2]:
        run.violation({"property": run.prop, "case": cases[i], "observed_impl": impl[i], "model": model[i],
                       "broken": "url.Values.Encode followed by URL.Query() does not return the pairs that were encoded"}, cases[i])
    if ucorr and not uprop:
        i = ucorr[0]
        run.violation({"property": run.prop, "case": cases[i], "impl": impl[i], "model": model[i], "input": None,
                       "broken": "correspondence: net/url differs from its transcription Model/UrlEscape.v (the C09 wire theorems are about the latter)",
                       "mismatching_cases": len(ucorr)}, cases[i], note="no-failing-input-found")
    if run.tier == "thorough" and not replay:
        crosscheck_extraction(run, cases, model, every=100)
    run.coverage["url_escape_cases"] = len(uidx)
    run.coverage["url_escape_mismatches"] = len(ucorr)
    for c in null_hits:
        run.known_hit("nullable_parameter_null", c)
    run.coverage["null_parameter_cases"] = len(null_hits)
    pick = [keep[k] for k in sorted({0, len(keep) // 3, len(keep) // 2, len(keep) - 1})] if keep else []
    run.coverage.update({
        "rule": "seeded operations (path variables 0-2, 1-5 query/header parameters; types string/int/int32/int64/number/float/double/boolean/"
                "date-time/password, arrays in query, nullable, schema $refs, required/optional; 10 base-path forms incl. --base-path and "
                "servers[0].url) generated WITH the client; for each operation a set of seeded request values (boundary integers, float "
                "extremes, text with reserved characters '/ ? & = % + space # , unicode', empty text, empty/1/3-element arrays, absent "
                "optionals) is sent by the GENERATED CLIENT through an http.RoundTripper into the GENERATED API of the same package; the "
                "handler calls Parse() and dumps the params; observed: the dumped params equal the value sent, the call returns no error, "
                "the request path equals the model's, and the wire request is valid per kin-openapi openapi3filter.ValidateRequest (an "
                "independent reading of the document). The model side runs Client.client_request then Params.parse_request (extracted).",
        "programs": meta.get("packages_ok", 0), "packages_not_built": nbad,
        "input_distribution": {k: v for k, v in meta.items() if k != "packages_bad"},
        "samples": [{"case": cases[i][:300], "impl": impl[i][:400], "model_and_spec": model[i][:400]} for i in pick],
        "trusted_base": TRUSTED_COMMON + ROUTER_TRUSTED + [
            "modelled, not verified: the emitted client's request construction (Model/Client.v client_request = template Client.<Op> + "
            "<Op>Request): strconv.FormatInt/FormatBool are modelled and proved inverse to the modelled ParseInt/ParseBool (Proofs/IntFormat.v); "
            "strconv.FormatFloat and time.Format(RFC3339) are section oracles with the stated hypotheses float_rt / time_rt "
            "(parse (format x) = x), instantiated by the harness from the real functions; url.PathEscape / url.QueryEscape / header "
            "canonicalisation are abstracted as the transport (the wire form is judged by the independent validator and by the impl run, "
            "not by the theorem)",
            "kin-openapi openapi3filter as an independent validator of the wire request (support for the tie, not part of the theorem)"],
    })
    if not proof_ok:
        run.proof_failed()
    return run.finish()


# ---- C10 / C02 (Write half): responses ---------------------------------------

def c10_wire_canon(w, json_body):
    """'<status>,<hex header lines>,<hex body>' -> comparable tuple"""
    f = (w or "").split(",")
    if len(f) != 3:
        return ("?", w)
    hdr = sorted(bytes.fromhex(f[1]).decode("latin1").split("\n")) if f[1] != "-" else []
    hdr = [h for h in hdr if h]
    body = bytes.fromhex(f[2]) if f[2] != "-" else b""
    if json_body:
        body = canon_json_bytes(body)
    else:
        body = body.hex()
    return (f[0], tuple(hdr), body)


def c10_impl(im, mo=""):
    kv = parse_kv(im)
    iv = kv.get("impl", "MISSING")
    if iv.startswith("Err(") or iv == "Err":
        return "Err"
    return kv.get("kind", "-") + ":" + c09_canon(re.sub(r"Raw\(([0-9a-f]*|-)\)", lambda m: "Bytes(%s)" % m.group(1), iv) if False else iv)


def check_C02(run, replay=None):
    return check_C10(run, replay)


def check_C10(run, replay=None):
    proof_ok = run.proof_side()
    cases, impl, model, meta = run.run_vh(["-cases", replay] if replay else None)
    heads = {}
    for c in cases:
        if c[:2] in ("D ", "J ", "W ", "Y "):
            heads.setdefault(c.split(" ", 2)[1], []).append(c)
    olines = [c for c in cases if c.startswith("O ")]

    def ctx(i):
        return heads.get(cases[i].split(" ", 2)[1], []) + olines
    nbad = fam_report_bad_packages(run, meta)
    keep = [i for i, c in enumerate(cases) if c[:2] in ("V ", "X ") and not impl[i].startswith("SKIP")]
    ilines = [i for i, c in enumerate(cases) if c[:2] == "I " and not impl[i].startswith("SKIP")]
    kc, ki, km = [], [], []
    wire_bad = []
    n_wire = 0
    for i in keep:
        c = cases[i]
        mkv = parse_kv(model[i])
        ikv = parse_kv(impl[i])
        mv = mkv.get("model")
        if mv is None:
            kc.append(c); ki.append(impl[i]); km.append(model[i])
            continue
        canon = lambda x: "Err" if x.startswith("Err") else (x.split(":", 1)[0] + ":" + c09_canon(x.split(":", 1)[1]) if ":" in x else x)
        if c.startswith("V "):
            sv = mkv.get("spec", "")
            # the Write half: the wire response is the documented one
            json_body = "JSON" in sv.split(":", 1)[0] or b"application/json" in bytes.fromhex((mkv.get("wire", ",-,").split(",")[1] or "").replace("-", "") or "")
            wi, wm = c10_wire_canon(ikv.get("wire"), json_body), c10_wire_canon(mkv.get("wire"), json_body)
            n_wire += 1
            if wi != wm:
                wire_bad.append((i, wi, wm))
        else:
            # an undocumented status: the default response carrying that status, or an error; never another kind
            m = re.search(r"#exp=(\S+)", c)
            exp = m.group(1) if m else "err"
            iv = c10_impl(impl[i])
            if exp == "err":
                sv = "Err"
            else:
                _, kind, code = exp.split(":")
                sv = iv if (iv == "Err" or (iv.startswith(kind + ":{I(" + code + ")"))) else "Err-or-" + kind + "(code " + code + ")"
        kc.append(c)
        f5 = c.split(" ")[5] if c.startswith("V ") and len(c.split(" ")) > 5 else ""
        if f5 == "Null" or f5.startswith("P([") or f5 == "P(Nil[])" or (c.startswith("X ") and ("Null" in mv or "P([" in mv)):
            # a nullable array written in place is a plain Go slice on both sides: null is the nil slice, a value is the slice (the value
            # comparison does not tell nil from empty — canon_dump — the WIRE comparison above does: null vs [])
            narr = lambda x: re.sub(r"P\((\[[^\[\]]*\])\)", r"\1", x.replace("P(Nil[])", "[]").replace("Null", "[]").replace("Nil[]", "[]"))
            ki.append(re.sub(r"impl=(\S+)", lambda m: "impl=" + narr(m.group(1)), impl[i]))
            km.append("model=%s spec=%s" % (narr(canon(mv)), narr(canon(sv))))
            continue
        ki.append(impl[i])
        km.append("model=%s spec=%s" % (canon(mv), canon(sv)))
    if run.prop == "C02":
        # which declared types satisfy the operation's response interface: reflection over the compiled package
        # vs the model's implementers vs the documented set computed by the corpus generator
        ic = [cases[i] for i in ilines]
        ii = [impl[i] for i in ilines]
        imo = []
        for i in ilines:
            m = re.search(r"#exp=(\S+)", cases[i])
            imo.append("%s spec=%s" % (model[i], m.group(1) if m else "-"))
        compare(run, ic, ii, imo, context=lambda j: ctx(ilines[j]))
    else:
        compare(run, kc, ki, km, get_impl=lambda im, mo: (lambda x: "Err" if x == "Err" else x.split(":", 1)[0] + ":" + c09_canon(x.split(":", 1)[1]))(c10_impl(im)),
                context=lambda j: ctx(keep[j]), nontrivial=lambda c, iv: iv != "Err")
    for (i, wi, wm) in wire_bad[:3]:
        run.violation({"property": run.prop, "case": cases[i], "context": ctx(i), "observed_wire": repr(wi), "expected_wire": repr(wm),
                       "broken": "the response on the wire (status, headers, body) differs from the documented one (model of Write = spec of C02_write_documented)"}, cases[i])
    pick = [keep[k] for k in sorted({0, len(keep) // 3, len(keep) // 2, len(keep) - 1})] if keep else []
    run.coverage.update({
        "rule": "response matrix: packages of 5 operations x 1-3 documented status codes (+ default in half) x {inline, shared component response, "
                "alias of a component response, component default} x 0-3 headers (10 scalar types, arrays, required/optional, inline or "
                "components.headers) x body {none, JSON object $ref / inline object / array of objects, raw octet-stream / text}; for every "
                "response type seeded values are built reflectively, returned by the handler, served by the generated API, recorded on the "
                "wire and reconstructed by the generated client (V lines); a stub transport replays undocumented status codes "
                "{100,199,200,201,204,299,301,400,404,418,500,599} x 5 bodies (X lines). Compared: client result kind+value vs sent value vs "
                "extracted model (write; client_decode); wire status/headers/body vs model write.",
        "programs": meta.get("packages_ok", 0), "packages_not_built": nbad,
        "wire_comparisons": n_wire, "wire_mismatches": len(wire_bad),
        "input_distribution": {k: v for k, v in meta.items() if k != "packages_bad"},
        "samples": [{"case": cases[i][:300], "impl": impl[i][:400], "model_and_spec": model[i][:400]} for i in pick],
        "trusted_base": TRUSTED_COMMON + ROUTER_TRUSTED + [
            "modelled, not verified: the emitted Write method and the client's status switch / ClientResponse (Model/Response.v); strconv.FormatFloat/"
            "time.Format and their parsers as oracle hypotheses (float_rt, time_rt, num_rt); JSON text printing/parsing is the transport between "
            "enc and dec (driver glue; canonical JSON comparison)"],
    })
    if not proof_ok:
        run.proof_failed()
    return run.finish()


# ---- C01: compile matrix, naming differential --------------------------------

def check_C01(run, replay=None):
    regen_translator(run, "holes")
    proof_ok = run.proof_side()
    holes_txt = open(os.path.join(ROOT, "coq", "theories", "Gen", "HoleSites.txt")).read()
    cases, impl, model, meta = run.run_vh(["-cases", replay] if replay else None, timeout=6000)
    dline = {}
    for c in cases:
        if c.startswith("D "):
            dline[c.split(" ", 2)[1]] = c
    # (1) the naming function against its model
    nidx = [i for i, c in enumerate(cases) if c.startswith("N ")]
    compare(run, [cases[i] for i in nidx], [impl[i] for i in nidx], [model[i] for i in nidx])
    if run.tier == "thorough" and not replay:
        crosscheck_extraction(run, cases, model, every=200)
    # (2) the matrix: success => parses, gofmt-stable, standard library only, type-checks
    verdicts = {}
    bad = []
    n_cells = 0
    for i, c in enumerate(cases):
        if not c.startswith("C01 "):
            continue
        n_cells += 1
        f = c.split(" ")
        kv = parse_kv(impl[i])
        v = kv.get("impl", "MISSING")
        verdicts[v] = verdicts.get(v, 0) + 1
        if v in ("ok", "rejected"):
            continue
        name = bytes.fromhex(f[2]).decode("utf8", "replace")
        detail = bytes.fromhex(kv.get("detail", "")).decode("utf8", "replace") if kv.get("detail", "-") != "-" else ""
        sig = None
        if v == "typecheck" and (re.match(r"name/component-header/(c|s)$", name) or
                                 re.match(r"name/component-primitive/(q|r|params|ok|zero|query)$", name) or
                                 re.match(r"name/alias-of-primitive/c$", name)):
            # D42: a component named like a local variable of the generated code (the cells name the component and the local)
            sig = "header_component_named_like_a_local"
        if sig and any(k["signature"] == sig for k in run.known):
            run.known_hit(sig, name + " [" + f[3] + "]")
            continue
        bad.append((len(dline.get(f[1], "")), i, name, f[3], v, detail))
    bad.sort()
    for (_, i, name, opt, v, detail) in bad[:3]:
        f = cases[i].split(" ")
        run.violation({"property": run.prop, "case": cases[i], "context": [dline.get(f[1], "")], "cell": name, "flags": opt,
                       "verdict": v, "detail": detail[:2000],
                       "broken": "goag reported success and the package it wrote is not a valid, gofmt-stable, standard-library-only, "
                                 "type-correct Go package" if v != "panic" else "the generator crashed"}, cases[i])
    run.coverage.update({
        "rule": "feature matrix, one small document per cell: parameters (3 locations x 10 primitive types x scalar/array x required x nullable x "
                "inline/schema-$ref/parameter-$ref x operation/path-item level), JSON positions (60 schema kinds incl. nullable, arrays, maps, any, "
                "allOf, refs to primitive/array/map/nullable components x 8 positions: component, property required/optional, items, "
                "additionalProperties, request body inline/component, response body inline/component), response headers (10 types x scalar/array x "
                "required x inline/components.headers/schema-$ref/component response), non-JSON bodies (6 media types x 4 positions), name shapes "
                "(60 names incl. Go keywords, predeclared and goag-fixed identifiers, separators, digits, non-ASCII x 14 positions), free-text shapes "
                "(16 texts incl. newlines, comment delimiters, quotes x 10 positions), route shapes, methods, security shapes, status keys, plus "
                "seeded compositions; each x flag combinations {client, do-not-edit, cors, base path from flag / servers / servers with variables}. "
                "Every package the generator reports success for is judged with go/parser, gofmt idempotence (go/format), an import check "
                "(standard library only) and `go build`. generator.PublicFieldName is compared with its Coq model on seeded ASCII names.",
        "cells": n_cells, "verdicts": verdicts, "matrix_failures": len(bad),
        "hole_inventory": {k: len(re.findall(r"\[%s\]" % k, holes_txt)) for k in ("Code", "Ident", "Str", "Raw", "Rune", "LineComment", "BlockComment")},
        "hole_rule": "REGENERATED OBLIGATION: the translator `vh holes` (text/template/parse over /repo/generator/*.gotmpl + a Go lexer state machine over "
                     "the literal text) lists every action that writes into the generated source with its lexical context and last function; "
                     "C01_holes_classified / C01_templates_balanced are closed by computation; C01_comment_inert, C01_name_hole_inert are the theorems "
                     "about what may be written there. `N cmt` cases run the generator's own comment function (through the StructureField template) "
                     "against the model and go/scanner; `N lex` cases run the translator's lexer against the model's.",
        "input_distribution": {k: v for k, v in meta.items() if k != "packages_bad"},
        "trusted_base": TRUSTED_COMMON + [
            "PARTIAL: type-correctness of the generated package is NOT a theorem; it is decided per matrix cell by the Go toolchain (go build) "
            "on the real output: a finite enumeration outside Coq",
            "oracles of the gate theorem: imports.Process (x/tools) succeeds only on parsable text and returns a gofmt fixpoint that parses; "
            "go/parser and the clash check are section variables",
            "the naming model covers ASCII names (unicode.IsLetter/IsUpper/IsDigit, strings.Title on bytes < 128); Title()/x-text casing is not modelled"],
    })
    if not proof_ok:
        run.proof_failed({"unclassified_holes": unclassified_holes()})
    return run.finish()


def unclassified_holes():
    """the holes of Gen/HoleSites.v that Model/Holes.v hole_ok refuses (for the replay file of a broken C01_holes_classified)"""
    q = os.path.join(BUILD, "holes_query.v")
    with open(q, "w") as f:
        f.write("From Coq Require Import String List. Import ListNotations.\n"
                "From Goag Require Import Gen.HoleSites Model.Holes.\n"
                "Eval vm_compute in filter (fun h => negb (hole_ok h)) observed_holes.\n"
                "Eval vm_compute in filter (fun u => negb (in_s u unbalanced_reviewed)) observed_unbalanced.\n")
    rc, out = sh(["timeout", "300", "coqc", "-Q", os.path.join(COQ, "theories"), "Goag", q], cwd=BUILD)
    for ext in (".vo", ".vok", ".vos", ".glob"):
        try:
            os.remove(q[:-2] + ext)
        except OSError:
            pass
    return re.sub(r"\s+", " ", out)[:3000] if rc == 0 else "query failed: " + out[-500:]


# ---- C14: no panic, exactly one response ---------------------------------------

def check_C14(run, replay=None):
    regen_translator(run, "panicsites")
    proof_ok = run.proof_side()
    sites_txt = open(os.path.join(ROOT, "coq", "theories", "Gen", "PanicSites.txt")).read()
    unguarded = [l.strip() for l in re.findall(r"== Unguarded.*?(?=\n== |\Z)", sites_txt, re.S)[0].split("\n")[1:]] if "== Unguarded" in sites_txt else []
    cases, impl, model, meta = run.run_vh(["-cases", replay] if replay else None, timeout=6000)
    dline = {}
    for c in cases:
        if c.startswith("D "):
            dline[c.split(" ", 2)[1]] = c
    nbad = fam_report_bad_packages(run, meta)
    n = 0
    outcomes = {}
    bad = []
    for i, c in enumerate(cases):
        if not c.startswith("F ") or impl[i].startswith("SKIP"):
            continue
        n += 1
        kv = parse_kv(impl[i])
        st = kv.get("status", "CRASH" if impl[i].startswith("CRASH") else "?")
        why = None
        if st == "PANIC":
            why = "panic while serving: " + bytes.fromhex(kv.get("panic", "")).decode("utf8", "replace")
        elif st in ("CRASH", "?"):
            why = "the server process died (fatal error) or gave no observation: " + impl[i][:200]
        elif kv.get("parse", "").startswith("Panic("):
            why = "panic inside Parse(): " + bytes.fromhex(kv["parse"][6:-1]).decode("utf8", "replace")
        elif kv.get("wh") != "1":
            why = "WriteHeader was called %s times (exactly one response expected)" % kv.get("wh")
        pc = "value" if kv.get("parse", "").startswith("{") else ("error" if kv.get("parse", "").startswith("Err(") else "-")
        key = "%s/parse=%s" % (st, pc)
        outcomes[key] = outcomes.get(key, 0) + 1
        if why:
            bad.append((len(c), i, why))
    bad.sort()
    for (_, i, why) in bad[:3]:
        f = cases[i].split(" ")
        ux = lambda h: "" if h == "-" else bytes.fromhex(h).decode("latin1")
        run.violation({"property": run.prop, "case": cases[i], "context": [dline.get(f[1], "")],
                       "request": {"api_cfg": f[2], "method": f[3], "url": ux(f[4]), "headers": ux(f[5]), "body": ux(f[6])[:2000]},
                       "observed": impl[i][:1000], "broken": why}, cases[i])
    run.coverage.update({
        "rule": "REGENERATED OBLIGATION: the translator (go/packages + go/types over the server-side files the generator emits for 300+ documents: "
                "kitchen-sink packages and a spread of the C01 matrix) inventories every slice, index, non-comma-ok type assertion, func-value call, "
                "nil-able interface call, map store and integer division, and classifies the guard around it; every class must be one proved "
                "sufficient (C14_every_site_classified by computation, C14_guards_suffice). RUN: random kitchen-sink packages (typed path variables, "
                "query/header parameters of every type incl. arrays and nullable, JSON bodies incl. allOf, raw bodies, three security schemes, CORS, "
                "10 base-path forms, responses with headers/bodies/default) x API configurations x requests: near-valid, doubled slashes, truncated "
                "and extended paths, base-path near-misses, other methods, malformed queries, huge paths, odd request targets, wrong content "
                "types; JSON bodies: 30 malformed shapes (truncated, 20000-deep nesting, invalid UTF-8, BOM, trailing data) and per-key type/"
                "null/drop mutants of valid documents; observed: recover() around ServeHTTP and around Parse(), WriteHeader count.",
        "evaluations": n, "outcomes": outcomes, "failures": len(bad),
        "programs": meta.get("packages_ok", 0), "packages_not_built": nbad,
        "site_inventory": [l for l in sites_txt.split("\n") if l.startswith("==") or l.startswith("packages")],
        "unguarded_sites": unguarded[:20],
        "input_distribution": {k: v for k, v in meta.items() if k != "packages_bad"},
        "trusted_base": TRUSTED_COMMON + ROUTER_TRUSTED + [
            "PARTIAL: panics inside encoding/json, strconv, time, net/url, net/http, stack exhaustion and user code (handlers, hooks) are outside "
            "the model; they are exercised by the run, not proved absent",
            "translator harness/cmd/vh/panicsites.go: completeness of the site inventory (AST kinds listed in the rule) and soundness of its "
            "syntactic guard recognition (dominating if-return, loop headers, make-before-use) are trusted; each recognised shape is modelled "
            "in Model/Partial.v and proved in Proofs/PartialProofs.v",
            "preconditions of the property used by four classes: configured API (handlers, hooks, middlewares, LogError non-nil), server "
            "request (net/http: Body non-nil), handlers return responses with non-nil body readers"],
    })
    if not proof_ok:
        # a site lost its guard (or a new kind of site appeared): the run above is the search for a crashing request
        cf = dict(getattr(run, "coq_failure", {}), input=None, unguarded_sites=unguarded[:20])
        if not bad:
            run.violation(cf, None, note="no-failing-input-found")
    return run.finish()


# ---- C18: $ref == inline ---------------------------------------------------------

def c18_obs(case, im):
    """canonical observation of one variant"""
    kv = parse_kv(im)
    if case.startswith("RV "):
        w = kv.get("wire")
        if not w:
            return ("NOOBS", im[:200])
        f = w.split(",")
        hdr = bytes.fromhex(f[1]).decode("latin1") if len(f) > 1 and f[1] != "-" else ""
        return ("wire",) + c10_wire_canon(w, "application/json" in hdr)
    st = kv.get("status", "CRASH" if im.startswith("CRASH") else "?")
    parse = kv.get("parse", "-")
    if parse.startswith("Err("):
        parse = "Err"          # (messages name Go types, which legitimately differ between the variants)
    elif parse.startswith("Panic("):
        parse = "Panic"
    else:
        parse = canon_dump(parse)
    re_ = kv.get("reenc", "-")
    if re_.startswith("json:"):
        re_ = "json:" + canon_json_bytes(bytes.fromhex(re_[5:]) if re_[5:] != "-" else b"")
    elif re_.startswith("marshalerr:"):
        re_ = "marshalerr"
    # (the response the driver's stand-in handler returns is its own choice among the documented ones — which one it
    #  picks depends on which responses are components in this variant: once the handler is reached the status is the
    #  stand-in's, not the generated code's; responses are compared by the RV lines)
    if any(e.startswith("H") for e in kv.get("trace", "-").split(";")) and st not in ("PANIC", "CRASH"):
        st = "handler"
    return ("req", st, kv.get("wh"), parse, re_)


def doc_has_allof_member_with_addl(doc):
    """D28's shape in an OpenAPI document: an allOf member (inline or behind $ref) that declares additionalProperties"""
    comps = (doc.get("components") or {}).get("schemas") or {}

    def resolve(s, depth=0):
        while isinstance(s, dict) and "$ref" in s and depth < 20:
            s = comps.get(s["$ref"].rsplit("/", 1)[-1], {})
            depth += 1
        return s if isinstance(s, dict) else {}

    found = [False]

    def walk(x):
        if isinstance(x, dict):
            for m in x.get("allOf") or []:
                if resolve(m).get("additionalProperties") not in (None, False):
                    found[0] = True
            for v in x.values():
                walk(v)
        elif isinstance(x, list):
            for v in x:
                walk(v)
    walk(doc)
    return found[0]


def check_C18(run, replay=None):
    proof_ok = run.proof_side()
    cases, impl, model, meta = run.run_vh(["-cases", replay] if replay else None, timeout=6000)
    dline = {}
    variant = {}
    for c in cases:
        if c.startswith("D "):
            f = c.split(" ")
            dline[f[1]] = " ".join(f[:4])
            m = re.search(r"#variant=(\S+)", c)
            variant[f[1]] = m.group(1) if m else "?"
    nbad = fam_report_bad_packages(run, meta)
    groups = {}
    for i, c in enumerate(cases):
        m = re.search(r"#grp=(\d+)", c)
        if not m or impl[i].startswith("SKIP"):
            continue
        groups.setdefault(m.group(1), []).append(i)
    n_groups = n_obs = 0
    kinds = {}
    bad = []
    d28_docs = {}
    for g, idxs in groups.items():
        if len(idxs) < 2:
            continue
        n_groups += 1
        obs = [c18_obs(cases[i], impl[i]) for i in idxs]
        n_obs += len(obs)
        k = obs[0][0] + ":" + (str(obs[0][1]) if obs[0][0] == "req" else str(obs[0][1]))
        kinds[k] = kinds.get(k, 0) + 1
        if any(o != obs[0] for o in obs[1:]):
            # D46: a nil top-level array body re-encodes as null when the array is defined inline (plain Go slice) and as [] when it is
            # a component (generated MarshalJSON)
            if obs[0][0] == "req" and all(o[:4] == obs[0][:4] for o in obs) and len(set(o[4].replace("[]", "null") for o in obs)) == 1 \
                    and any(k["signature"] == "nil_array_body_null_vs_empty" for k in run.known):
                run.known_hit("nil_array_body_null_vs_empty", re.sub(r" #grp=\d+", "", cases[idxs[0]])[:160])
                continue
            # D28: additionalProperties on an allOf member (captures sibling keys when embedded, ignored when the member is inline)
            if obs[0][0] == "req" and all(o[:4] == obs[0][:4] for o in obs) and any(k["signature"] == "embedded_member_with_additional_properties" for k in run.known):
                pkg0 = cases[idxs[0]].split(" ")[1]
                if pkg0 not in d28_docs:
                    try:
                        d28_docs[pkg0] = doc_has_allof_member_with_addl(json.loads(bytes.fromhex(dline[pkg0].split(" ")[2])))
                    except Exception:
                        d28_docs[pkg0] = False
                if d28_docs[pkg0]:
                    run.known_hit("embedded_member_with_additional_properties", re.sub(r" #grp=\d+", "", cases[idxs[0]])[:160])
                    continue
            bad.append((sum(len(cases[i]) for i in idxs), g, idxs, obs))
    bad.sort()
    for (_, g, idxs, obs) in bad[:3]:
        pk = [cases[i].split(" ")[1] for i in idxs]
        run.violation({"property": run.prop, "case": None, "context": [dline.get(p, "") for p in pk] + [re.sub(r" #grp=\d+", "", cases[i]) + " #grp=1" for i in idxs],
                       "variants": {variant.get(p, p): repr(o)[:1500] for p, o in zip(pk, obs)},
                       "broken": "the same input is treated differently by the packages generated from the document as written, with every "
                                 "$ref inlined, and with every inline definition hoisted into components"}, g)
    run.coverage.update({
        "rule": "kitchen-sink documents (as C14: typed path variables, query/header parameters, JSON bodies incl. allOf with $ref members, raw "
                "bodies, security, CORS, base paths, responses with typed headers and JSON/raw bodies, some through components) x 3 variants: as "
                "written, InlineAll (every schema/parameter/header/request-body/response reference, through alias chains, replaced by a copy of its "
                "target), HoistAll (every inline parameter, response, request body, scalar response header and schema moved to components); the "
                "three packages get the same structured/mutated raw requests (status, WriteHeader count, parsed parameters, the JSON the parsed "
                "body re-encodes to or its raw bytes, response status/headers) and the same response values for every documented response (wire "
                "status, headers, canonical JSON or raw body); all variants of a group must agree.",
        "evaluations": n_obs, "groups": n_groups, "group_kinds": kinds, "disagreeing_groups": len(bad),
        "programs": meta.get("packages_ok", 0), "packages_not_built": nbad,
        "input_distribution": {k: v for k, v in meta.items() if k != "packages_bad"},
        "trusted_base": TRUSTED_COMMON + [
            "the rewrites InlineAll / HoistAll of harness/internal/dialect (that they preserve the meaning of the document is the premise of "
            "the comparison); parse errors are compared as accept/reject (messages name Go types)",
            "the theorems are about the models' reference-blindness and the embedded-member/inline-member equivalence of the JSON encoder model; "
            "the generator's resolution of references itself (specification.Ref) is exercised by this run, not modelled"],
    })
    if not proof_ok:
        run.proof_failed()
    return run.finish()


# ---- C20: concurrency ---------------------------------------------------------------

def check_C20(run, replay=None):
    regen_translator(run, "access")
    proof_ok = run.proof_side()
    acc_txt = open(os.path.join(ROOT, "coq", "theories", "Gen", "SharedAccess.txt")).read()
    writes = [l.strip() for l in acc_txt.split("\n") if " written in " in l]
    cases, impl, model, meta = run.run_vh(["-cases", replay] if replay else None, timeout=6000)
    dline = {}
    for c in cases:
        if c.startswith("D "):
            dline[c.split(" ", 2)[1]] = c
    nbad = fam_report_bad_packages(run, meta)
    n = calls = 0
    bad = []
    for i, c in enumerate(cases):
        if not c.startswith("CONC ") or impl[i].startswith("SKIP"):
            continue
        n += 1
        kv = parse_kv(impl[i])
        calls += int(kv.get("calls", "0") or 0)
        why = None
        if kv.get("impl") != "done":
            why = "the concurrent run did not complete: " + impl[i][:300]
        elif kv.get("races", "0") != "0":
            why = "the race detector reported %s data race(s):\n%s" % (kv["races"], bytes.fromhex(kv.get("report", "")).decode("utf8", "replace")[:4000])
        elif kv.get("mismatches", "0") != "0":
            why = "a caller received the digest of another request's parameters (or a failed call): " + \
                  bytes.fromhex(kv.get("first", "")).decode("utf8", "replace")[:3000]
        elif kv.get("ops", "0") == "0":
            why = "no operation could be exercised"
        if why:
            bad.append((i, why))
    for (i, why) in bad[:3]:
        f = cases[i].split(" ")
        run.violation({"property": run.prop, "case": cases[i], "context": [dline.get(f[1], "")], "broken": why}, cases[i])
    run.coverage.update({
        "rule": "REGENERATED OBLIGATION: the translator (go/packages + go/types over server and client files of ~150 freshly generated packages) "
                "lists every use of a package-level variable and of a field of the shared *API / *Client receivers in function bodies and "
                "classifies it read / write (assignment target incl. through index/selector, ++/--, address taken, range assignment); all must be "
                "reads (C20_shared_state_is_only_read by computation). RUN: packages whose operations (typed path variables, query/header "
                "parameters incl. arrays, JSON bodies, bearer/apiKey security, 2 middlewares) answer with an X-Echo header are built with -race; "
                "G goroutines x I iterations call random operations through ONE API value and its ONE LocalClient with values unique to "
                "(goroutine, iteration); the handler echoes the dump of what IT parsed, the caller compares it with the dump of what it sent; "
                "GOMAXPROCS 1, 4, 16; race reports are read from the driver's stderr.",
        "evaluations": n, "concurrent_calls": calls, "failures": len(bad),
        "programs": meta.get("packages_ok", 0), "packages_not_built": nbad,
        "shared_access_inventory": [l for l in acc_txt.split("\n") if l.startswith("==") or l.startswith("packages")],
        "shared_writes": writes[:20],
        "trusted_base": TRUSTED_COMMON + [
            "PARTIAL: the Go memory model, net/http, encoding/json, httptest and user code (handlers, hooks, HTTPClient) are not modelled; "
            "the run under the race detector covers them empirically",
            "translator harness/cmd/vh/access.go: the set of shared locations (package-level variables; fields reached through *API and *Client "
            "receivers) and its syntactic read/write classification are trusted; values reachable only through a request (params, bodies, "
            "responses) are private by construction of the handler signature"],
    })
    if not proof_ok:
        cf = dict(getattr(run, "coq_failure", {}), input=None, shared_writes=writes[:20])
        if not bad:
            run.violation(cf, None, note="no-failing-input-found")
    return run.finish()


CHECKS = {"C20": check_C20, "C18": check_C18, "C14": check_C14, "C01": check_C01, "C02": check_C02, "C10": check_C10, "C09": check_C09, "C12": check_C12, "C15": check_C15, "C19": check_C19, "C13": check_C13, "C03": check_C03, "C04": check_C04, "C05": check_C05, "C06": check_C06, "C07": check_C07, "C08": check_C08, "C11": check_C11, "C16": check_C16, "C17": check_C17}


def setup():
    """builds everything once: harness, regenerated inventories (from /repo as it is now), the whole Coq development, the
    extracted model.  A property file that does not compile (a regenerated obligation that no longer holds for the /repo at
    hand) does not fail setup: the property's own check reports it."""
    t0 = time.time()
    probs = lint()
    for p in probs:
        print("lint:", p)
    ok, out = build_vh()
    if not ok:
        print(out)
        return 1
    for tr in ("mapsites", "panicsites", "access", "holes"):
        rc, out = sh([os.path.join(BUILD, "bin", "vh"), tr, "-out", os.path.join(COQ, "theories", "Gen")], env=GOENV, cwd=HARNESS, timeout=900)
        print("translator %s: %s" % (tr, out.strip().split("\n")[-1] if out.strip() else rc))
    if not os.path.exists(os.path.join(COQ, "Makefile")):
        sh("coq_makefile -f _CoqProject -o Makefile", cwd=COQ)
    sh("make clean", cwd=COQ)
    rc, out = sh("make -k -j16", cwd=COQ, timeout=3000)
    print(out[-1500:])
    missing = []
    for f in coq_files():
        rel = os.path.relpath(f, COQ)
        if not rel.startswith("theories/"):
            continue
        if not os.path.exists(f[:-2] + ".vo"):
            missing.append(rel)
    core_missing = [m for m in missing if not m.startswith("theories/Properties/")]
    if missing:
        print("not compiled:", ", ".join(missing))
    if core_missing:
        return 1
    build_modelrun()
    print("setup done in %.1f s" % (time.time() - t0))
    return 1 if probs else 0


def main(argv):
    if len(argv) < 2:
        print(__doc__)
        return 2
    if argv[1] == "setup":
        return setup()
    if argv[1] == "coqchk":
        ok, out = build_coq("setup")
        ck = coqchk(sorted(CHECKS), force=True)
        print(ck["cmd"])
        print(ck["summary"])
        return 0 if ck["ok"] else 1
    if argv[1] == "lint":
        probs = lint()
        for p in probs:
            print(p)
        return 1 if probs else 0
    prop = argv[1]
    if prop not in CHECKS:
        print("unknown property", prop)
        return 2
    seed = int(os.environ.get("VERIF_SEED", "1"))
    if len(argv) >= 4 and argv[2] == "--replay":
        run = Run(prop, os.environ.get("VERIF_TIER", "quick"), seed)
        rp = json.load(open(argv[3]))
        cf = os.path.join(BUILD, "run", prop + "-replay-cases.txt")
        os.makedirs(os.path.dirname(cf), exist_ok=True)
        lines = rp.get("context") or []
        if isinstance(lines, str):
            lines = [lines]
        if rp.get("case"):
            lines = list(lines) + [rp["case"]]
        open(cf, "w").write("\n".join(lines) + "\n")
        return CHECKS[prop](run, replay=cf)
    tier = argv[2] if len(argv) > 2 else os.environ.get("VERIF_TIER", "quick")
    run = Run(prop, tier, seed)
    try:
        return CHECKS[prop](run)
    except Exception as e:  # machinery failure: never silently pass
        import traceback
        traceback.print_exc()
        print("[%s] check machinery failed: %s" % (prop, e))
        return 2


if __name__ == "__main__":
    sys.exit(main(sys.argv))
