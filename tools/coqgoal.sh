#!/bin/bash
# usage: coqgoal.sh <file.v> <line>  — show the goals after line <line>
f=$1; n=$2; d=$(dirname "$f"); t="$d/zz_goal_tmp.v"
head -n "$n" "$f" > "$t"; echo "Show. Abort All." >> "$t"
(cd /verif/coq && coqc -Q theories Goag "$t" 2>&1 | tail -n ${3:-60}); rm -f "$t" "$d"/zz_goal_tmp.* "$d"/.zz_goal_tmp.*
