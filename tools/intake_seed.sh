#!/bin/bash
# usage: tools/intake_seed.sh <worktree-of-the-sub-agent> <seed-id>
#   confirms that the delivered change applies to /repo's HEAD, that the repository still builds and its tests pass with it
#   (in a scratch worktree that is removed afterwards), and stores it as /verif/seeded/<seed-id>/
set -u
src=$1; id=$2
export GOFLAGS=-mod=mod GOPROXY=off GOSUMDB=off GOTOOLCHAIN=local
[ -f $src/MUTATION.diff ] || { echo "no MUTATION.diff in $src"; exit 2; }
W=/tmp/intake_$id
git -C /repo worktree add -q --detach $W HEAD || exit 2
trap 'git -C /repo worktree remove --force '$W' >/dev/null 2>&1' EXIT
cd $W
git apply $src/MUTATION.diff || { echo "$id: patch does not apply to HEAD"; exit 3; }
if ! go build ./... >/tmp/intake_$id.log 2>&1; then echo "$id: BUILD FAILS"; tail -5 /tmp/intake_$id.log; exit 4; fi
if ! go test -count=1 ./... >/tmp/intake_$id.log 2>&1; then echo "$id: TESTS FAIL"; grep -v "^ok\|no test files" /tmp/intake_$id.log | head; exit 5; fi
d=/verif/seeded/$id
mkdir -p $d
git diff > $d/patch.diff
cp $src/DEMO.md $d/DEMO.md
[ -d $src/demo ] && { rm -rf $d/demo; cp -r $src/demo $d/demo; }
python3 - "$src/META.json" "$d/meta.json" <<'PY'
import json,sys
m=json.load(open(sys.argv[1]))
m["confirmed"]="patch applied to /repo HEAD in a scratch worktree: go build ./... and go test ./... pass (tools/intake_seed.sh); the property's check was then run on the patched tree (tools/seeded.sh, result.txt.*)"
json.dump(m,open(sys.argv[2],"w"))
PY
echo "$id: stored ($(wc -l < $d/patch.diff) diff lines)"
rm -f /tmp/intake_$id.log
