#!/bin/bash
# usage: tools/seeded.sh <seed-id> <Cnn> [tier]
#   applies /verif/seeded/<seed-id>/patch.diff to /repo's working tree, runs the check of
#   property Cnn, reverts /repo, and records the verdict in seeded/<seed-id>/result.txt
set -u
id=$1; prop=$2; tier=${3:-quick}
d=/verif/seeded/$id
[ -f $d/patch.diff ] || { echo "no $d/patch.diff"; exit 2; }
if [ -n "$(git -C /repo status --porcelain)" ]; then echo "/repo is not clean"; exit 2; fi
git -C /repo apply $d/patch.diff || { echo "patch does not apply"; exit 2; }
trap 'git -C /repo checkout -- . ; git -C /repo clean -fdq -- tests demo 2>/dev/null; git -C /verif checkout -- coq/theories/Gen evidence 2>/dev/null' EXIT
out=$(/verif/check $prop $tier 2>&1); rc=$?
viol=$(echo "$out" | grep "^VIOLATION" | head -3)
{
  echo "seed=$id property=$prop tier=$tier exit=$rc"
  echo "$viol"
  echo "$out" | grep "cases:\|coq build FAILED\|does not compile" | head -3
} > $d/result.txt.$prop
cat $d/result.txt.$prop
# keep the first replay for the record
rp=$(echo "$viol" | head -1 | sed -n 's/.*replay=\([^ ]*\).*/\1/p')
[ -n "$rp" ] && [ -f "$rp" ] && cp "$rp" $d/replay.$prop.json
exit 0
