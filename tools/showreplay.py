#!/usr/bin/env python3
"""print the newest replay files of a property in readable form"""
import json, re, glob, os, sys
prop = sys.argv[1]; n = int(sys.argv[2]) if len(sys.argv) > 2 else 2
fs = sorted(glob.glob('/verif/replays/%s/*.json' % prop), key=lambda f: -os.path.getmtime(f))[:n]
for f in fs:
    r = json.load(open(f))
    print("==", f)
    for k in ['case', 'expected_spec', 'observed_impl', 'model', 'impl', 'broken']:
        if k in r:
            v = str(r.get(k))
            v = re.sub(r'\((invalid|Err|PANIC|no-route):?([0-9a-f]{6,})\)', lambda m: '(' + m.group(1) + ':' + bytes.fromhex(m.group(2)).decode('utf8', 'replace') + ')', v)
            print(k, v[:1200])
