#!/bin/bash
# Regenerates every fixture under /repo/tests with the CURRENT generator into a
# scratch worktree and runs the fixture tests against the regenerated code.
# (Sanity check for fix: commits; not part of the registered checks.)
set -e
export GOFLAGS=-mod=mod GOPROXY=off GOSUMDB=off GOTOOLCHAIN=local
W=$(mktemp -d /tmp/regen_wt.XXXX); rmdir $W
git -C /repo worktree add -q $W HEAD
trap 'cd /; git -C /repo worktree remove --force '$W' >/dev/null 2>&1' EXIT
(cd /repo && go build -o $W/goag.bin ./cmd/goag)
cd $W
FAILED=0
for d in tests/*/; do (cd $d && $W/goag.bin --file openapi.yaml --out . --package test --client=true --donotedit=false >/dev/null 2>&1) || { echo "GENFAIL $d"; FAILED=1; }; done
git status --short | grep -c "^ M" || true
go test -vet=off -count=1 ./... 2>&1 | grep -v "^ok\|no test files" || echo "all fixture tests pass on regenerated code"
if [ $FAILED = 1 ]; then echo "SOME FIXTURE SPECS NO LONGER GENERATE"; exit 1; fi
