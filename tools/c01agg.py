#!/usr/bin/env python3
"""aggregate the failing cells of a C01 run directory"""
import sys, re, collections
d = sys.argv[1] if len(sys.argv) > 1 else '/verif/build/run/C01'
cases = open(d + '/cases.txt').read().split('\n'); impl = open(d + '/impl.txt').read().split('\n')
agg = collections.defaultdict(list)
for c, i in zip(cases, impl):
    if not c.startswith('C01 '):
        continue
    f = c.split(' ')
    name = bytes.fromhex(f[2]).decode(); opt = f[3]
    m = re.match(r'impl=(\S+)(?: detail=(\S+))?', i)
    if not m:
        continue
    v = m.group(1); dt = bytes.fromhex(m.group(2)).decode('utf8', 'replace') if m.group(2) and m.group(2) != '-' else ''
    if v in ('ok', 'rejected'):
        continue
    e = dt.split('\n')[0]
    e = re.sub(r'p\d{5}/', '', e); e = re.sub(r':\d+:\d+', '', e)
    e = re.sub(r'(Get|Post|Put|Delete)C\d(ID)?Response\w+', 'OpResp', e); e = re.sub(r'Extra\d', 'ExtraN', e)
    agg[(v, e[:150])].append(name + ' [' + opt + ']')
for (v, e), ns in sorted(agg.items(), key=lambda kv: -len(kv[1])):
    print(len(ns), v, '|', e)
    cells = sorted(set(n.split(' [')[0] for n in ns))
    print('      cells:', '; '.join(cells[:6]), ('... +%d' % (len(cells) - 6)) if len(cells) > 6 else '')
