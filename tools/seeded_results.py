#!/usr/bin/env python3
"""Rebuild seeded/RESULTS.md from the seed directories (meta.json, result.txt.<Cnn>) and seeded/first_verdicts.json."""
import glob, json, os, re
root = os.path.join(os.path.dirname(os.path.abspath(__file__)), "..", "seeded")
first = json.load(open(os.path.join(root, "first_verdicts.json")))
rows = []
for d in sorted(glob.glob(os.path.join(root, "C*"))):
    if not os.path.isdir(d):
        continue
    name = os.path.basename(d)
    try:
        meta = json.load(open(os.path.join(d, "meta.json")))
    except Exception:
        meta = {}
    own = name[:3]
    for rf in sorted(glob.glob(os.path.join(d, "result.txt.C*"))):
        chk = rf.rsplit(".", 1)[1]
        txt = open(rf).read()
        viol = re.findall(r"^VIOLATION property=(\S+) replay=(\S+)(.*)$", txt, re.M)
        if viol:
            verdict = "CAUGHT"
            if all("no-failing-input-found" in v[2] for v in viol):
                verdict = "CAUGHT (obligation/correspondence only, no-failing-input-found)"
        else:
            verdict = "not reported"
        if chk != own and not viol:
            continue  # a neighbouring check that is rightly silent is not listed
        note = first.get(name, "caught as delivered") if chk == own else "also reported by this neighbouring check"
        cut = lambda s: (s or "").replace("|", "/").replace("\n", " ")[:220]
        rows.append("| %s | %s | %s | %s | %s | %s |" % (name, chk, verdict, note.replace("|", "/"), cut(meta.get("summary")), cut(meta.get("trigger"))))
hdr = """# Seeded changes and what the checks do with them

Each directory holds `patch.diff` (the change, produced by a fresh sub-agent that saw only the property text and a private worktree of /repo),
`DEMO.md` (its demonstration), `meta.json`, `result.txt.<Cnn>` (the check run with the patch applied to /repo) and the first replay.
Re-run with `tools/seeded.sh <dir> <Cnn>` (applies the patch, runs the check, reverts /repo and restores the regenerated Gen/ and evidence/ files).
Round 1: the directories without suffix; rounds 2-10: suffixes `b` to `j`. This table is rebuilt by `tools/seeded_results.py`.

| seed | check | verdict | first verdict / what was strengthened | change | trigger |
|---|---|---|---|---|---|
"""
open(os.path.join(root, "RESULTS.md"), "w").write(hdr + "\n".join(rows) + "\n")
print(len(rows), "rows")
