// Package gen runs the REAL goag generator (module replaced onto /repo's
// working tree) in-process.
package gen

import (
	"fmt"
	"io"
	"log"
	"runtime/debug"
	"strings"

	"github.com/getkin/kin-openapi/openapi3"
	"github.com/vkd/goag"
	"github.com/vkd/goag/generator"
)

type Options struct {
	Package   string
	Client    bool
	API       bool
	DoNotEdit bool
	BasePath  string
	SpecName  string // spec handler name, default openapi.yaml
	Cors      bool
	SpecRaw   []byte // bytes to embed; default = the document itself
}

func init() { log.SetOutput(io.Discard) }

// Generate loads doc with the real loader and runs goag.Generator.Generate.
// A panic inside the generator is returned as panicked=true.
func Generate(doc []byte, outDir string, o Options) (err error, panicked bool, panicVal interface{}) {
	defer func() {
		if r := recover(); r != nil {
			panicked = true
			// the first frames inside /repo identify the crash site
			site := ""
			for _, l := range strings.Split(string(debug.Stack()), "\n") {
				l = strings.TrimSpace(l)
				if strings.HasPrefix(l, "/repo/") {
					if i := strings.Index(l, " "); i > 0 {
						l = l[:i]
					}
					site += " " + strings.TrimPrefix(l, "/repo/")
					if strings.Count(site, " ") >= 3 {
						break
					}
				}
			}
			panicVal = fmt.Sprintf("%v @%s", r, site)
			err = fmt.Errorf("panic: %v", panicVal)
		}
	}()
	sw, lerr := openapi3.NewSwaggerLoader().LoadSwaggerFromData(doc)
	if lerr != nil {
		return fmt.Errorf("load: %w", lerr), false, nil
	}
	if o.Package == "" {
		o.Package = "test"
	}
	if o.SpecName == "" {
		o.SpecName = "openapi.yaml"
	}
	raw := o.SpecRaw
	if raw == nil {
		raw = doc
	}
	var cfg generator.Config
	cfg.Cors.Enable = o.Cors
	g := goag.Generator{GenClient: o.Client, GenAPIHandler: o.API, DoNotEdit: o.DoNotEdit}
	return g.Generate(sw, outDir, o.Package, raw, o.SpecName, o.BasePath, cfg), false, nil
}
