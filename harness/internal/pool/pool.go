// Package pool runs case lines through worker subprocesses of the current
// binary.  The generator is not safe for concurrent use inside one process
// (package-level x/text Caser) and some documents kill the process outright
// (stack overflow), so parallelism and isolation are by process.
package pool

import (
	"bufio"
	"bytes"
	"fmt"
	"io"
	"os"
	"os/exec"
	"strings"
	"sync"
	"time"
)

// JobTimeout bounds one job of a worker.
var JobTimeout = 20 * time.Second

type worker struct {
	cmd    *exec.Cmd
	in     io.WriteCloser
	out    *bufio.Reader
	stderr *bytes.Buffer
}

func start(args []string) (*worker, error) {
	cmd := exec.Command(os.Args[0], args...)
	in, err := cmd.StdinPipe()
	if err != nil {
		return nil, err
	}
	out, err := cmd.StdoutPipe()
	if err != nil {
		return nil, err
	}
	var eb bytes.Buffer
	cmd.Stderr = &eb
	if err := cmd.Start(); err != nil {
		return nil, err
	}
	return &worker{cmd: cmd, in: in, out: bufio.NewReaderSize(out, 1<<20), stderr: &eb}, nil
}

func (w *worker) stop() {
	w.in.Close()
	w.cmd.Wait()
}

// Map sends every input line to a worker started as `<self> <args...>` and
// returns one output line per input line, in order.  A worker that dies while
// processing a line yields "CRASH <last stderr line>" for that line and is
// replaced.
func Map(args []string, inputs []string, n int) ([]string, error) {
	if n < 1 {
		n = 1
	}
	if n > len(inputs) {
		n = len(inputs)
	}
	out := make([]string, len(inputs))
	jobs := make(chan int)
	var wg sync.WaitGroup
	var firstErr error
	var mu sync.Mutex
	for k := 0; k < n; k++ {
		wg.Add(1)
		go func() {
			defer wg.Done()
			var w *worker
			defer func() {
				if w != nil {
					w.stop()
				}
			}()
			for i := range jobs {
				if w == nil {
					var err error
					w, err = start(args)
					if err != nil {
						mu.Lock()
						firstErr = err
						mu.Unlock()
						out[i] = "CRASH cannot start worker"
						continue
					}
				}
				line := strings.ReplaceAll(inputs[i], "\n", " ")
				_, werr := io.WriteString(w.in, line+"\n")
				var res string
				var rerr error
				timedOut := false
				if werr == nil {
					// a job that does not come back (the generator spinning) is killed after the job timeout
					type rd struct {
						s   string
						err error
					}
					ch := make(chan rd, 1)
					wk := w
					go func() { s, err := wk.out.ReadString('\n'); ch <- rd{s, err} }()
					select {
					case r := <-ch:
						res, rerr = r.s, r.err
					case <-time.After(JobTimeout):
						timedOut = true
						w.cmd.Process.Kill()
						<-ch
						rerr = fmt.Errorf("timeout")
					}
				}
				if werr != nil || rerr != nil {
					w.in.Close()
					w.cmd.Wait()
					msg := strings.TrimSpace(w.stderr.String())
					if timedOut {
						msg = fmt.Sprintf("TIMEOUT: no answer after %s (the job did not terminate)", JobTimeout)
					}
					first := msg
					if j := strings.Index(first, "\n"); j >= 0 {
						first = first[:j]
					}
					if len(first) > 200 {
						first = first[:200]
					}
					out[i] = "CRASH " + strings.ReplaceAll(first, " ", "_")
					w = nil
					continue
				}
				out[i] = strings.TrimRight(res, "\n")
			}
		}()
	}
	for i := range inputs {
		jobs <- i
	}
	close(jobs)
	wg.Wait()
	return out, firstErr
}

// Serve is the worker side: calls f for every stdin line and prints the
// result (one line).
func Serve(f func(line string) string) {
	rd := bufio.NewReaderSize(os.Stdin, 1<<20)
	wr := bufio.NewWriter(os.Stdout)
	for {
		line, err := rd.ReadString('\n')
		if line != "" {
			res := f(strings.TrimRight(line, "\n"))
			res = strings.ReplaceAll(res, "\n", "\\n")
			fmt.Fprintln(wr, res)
			wr.Flush()
		}
		if err != nil {
			return
		}
	}
}
