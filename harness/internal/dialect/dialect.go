// Package dialect is the abstract syntax of the OpenAPI dialect of DESIGN.md
// section 3, with a printer to an OpenAPI document (JSON, which the loader
// accepts) and a printer to the case-line syntax read by the extracted model.
package dialect

import (
	"encoding/hex"
	"encoding/json"
	"fmt"
	"sort"
	"strings"
)

// Schema is the schema dialect.
type Schema struct {
	Ref      string // component schema name; when set the rest is ignored
	Type     string // boolean integer number string array object "" (any)
	Format   string
	Nullable bool
	Items    *Schema
	// object
	Props    []Prop
	Required []string
	AddProps *Schema // nil: not declared; &Schema{Type:""} with AddAny = true
	AddAny   bool
	AllOf    []*Schema
	OneOf    []*Schema
	DiscProp string            // discriminator.propertyName (with OneOf)
	DiscMap  map[string]string // discriminator.mapping: value -> component schema name
	Desc     string
}

type Prop struct {
	Name   string
	Schema *Schema
}

func (s *Schema) Doc() map[string]interface{} {
	if s == nil {
		return map[string]interface{}{}
	}
	if s.Ref != "" {
		return map[string]interface{}{"$ref": "#/components/schemas/" + s.Ref}
	}
	m := map[string]interface{}{}
	if s.Type != "" {
		m["type"] = s.Type
	}
	if s.Format != "" {
		m["format"] = s.Format
	}
	if s.Nullable {
		m["nullable"] = true
	}
	if s.Items != nil {
		m["items"] = s.Items.Doc()
	}
	if len(s.Props) > 0 {
		ps := map[string]interface{}{}
		for _, p := range s.Props {
			ps[p.Name] = p.Schema.Doc()
		}
		m["properties"] = ps
	}
	if len(s.Required) > 0 {
		m["required"] = s.Required
	}
	if s.AddAny {
		m["additionalProperties"] = true
	} else if s.AddProps != nil {
		m["additionalProperties"] = s.AddProps.Doc()
	}
	if len(s.AllOf) > 0 {
		var l []interface{}
		for _, x := range s.AllOf {
			l = append(l, x.Doc())
		}
		m["allOf"] = l
	}
	if len(s.OneOf) > 0 {
		var l []interface{}
		for _, x := range s.OneOf {
			l = append(l, x.Doc())
		}
		m["oneOf"] = l
		if s.DiscProp != "" {
			d := map[string]interface{}{"propertyName": s.DiscProp}
			if len(s.DiscMap) > 0 {
				mp := map[string]interface{}{}
				for k, v := range s.DiscMap {
					if strings.HasPrefix(v, "=") {
						mp[k] = v[1:] // a bare schema name
					} else {
						mp[k] = "#/components/schemas/" + v
					}
				}
				d["mapping"] = mp
			}
			m["discriminator"] = d
		}
	}
	if s.Desc != "" {
		m["description"] = s.Desc
	}
	return m
}

type Param struct {
	Name     string
	In       string // path query header
	Required bool
	Schema   *Schema
	Ref      string // components.parameters name; when set the rest describes the target
	Desc     string
}

func (p Param) Doc() map[string]interface{} {
	if p.Ref != "" {
		return map[string]interface{}{"$ref": "#/components/parameters/" + p.Ref}
	}
	return p.InlineDoc()
}

func (p Param) InlineDoc() map[string]interface{} {
	m := map[string]interface{}{"name": p.Name, "in": p.In, "schema": p.Schema.Doc()}
	if p.Required || p.In == "path" {
		m["required"] = true
	}
	if p.Desc != "" {
		m["description"] = p.Desc
	}
	return m
}

// Requirement is one security requirement object: scheme names (conjunction).
type Requirement []string

type Scheme struct {
	Name  string
	Kind  string // bearer keyheader keyquery basic keycookie oauth2 openid
	Param string // header / query / cookie name for api keys
}

func (s Scheme) Doc() map[string]interface{} {
	switch s.Kind {
	case "bearer":
		return map[string]interface{}{"type": "http", "scheme": "bearer"}
	case "basic":
		return map[string]interface{}{"type": "http", "scheme": "basic"}
	case "bearerupper":
		// (scheme names are compared as written: this spelling has no generated authenticator)
		return map[string]interface{}{"type": "http", "scheme": "Bearer"}
	case "keyheader":
		return map[string]interface{}{"type": "apiKey", "in": "header", "name": s.Param}
	case "keyquery":
		return map[string]interface{}{"type": "apiKey", "in": "query", "name": s.Param}
	case "keycookie":
		return map[string]interface{}{"type": "apiKey", "in": "cookie", "name": s.Param}
	case "oauth2":
		return map[string]interface{}{"type": "oauth2", "flows": map[string]interface{}{
			"clientCredentials": map[string]interface{}{"tokenUrl": "https://example.com/token", "scopes": map[string]interface{}{"read": "r"}}}}
	case "openid":
		return map[string]interface{}{"type": "openIdConnect", "openIdConnectUrl": "https://example.com/.well-known/openid-configuration"}
	}
	return map[string]interface{}{"type": s.Kind}
}

type Header struct {
	Name     string
	Required bool
	Schema   *Schema
	Ref      string // components.headers
	Desc     string
}

type Response struct {
	Status  string // "200" .. or "default"
	Desc    string
	Content string // media type, "" = none
	Schema  *Schema
	Headers []Header
	Ref     string // components.responses name
	// AlsoContent: further media types declared next to Content (each with a binary string schema)
	AlsoContent []string
}

type Body struct {
	Content  string
	Schema   *Schema
	Required bool
	Ref      string
	// AlsoContent: further media types declared next to Content (each with a binary string schema)
	AlsoContent []string
}

type Op struct {
	Method    string         // GET ...
	Security  *[]Requirement // nil: inherit the global list
	Params    []Param
	Body      *Body
	Responses []Response
	Summary   string
	Desc      string
	ID        string
}

type PathItem struct {
	Raw    string
	Params []Param
	Ops    []*Op
}

type Spec struct {
	ServerURL   string            // servers[0].url; "" = no servers
	MoreServers []string          // servers[1..].url (only the first server decides the base path)
	ServerVar   map[string]string // variable defaults
	Paths       []*PathItem
	Schemes     []Scheme
	Global      []Requirement // nil: no global security
	HasGlobal   bool

	CompSchemas   []Prop
	CompParams    map[string]Param
	CompHeaders   map[string]Header
	CompResponses map[string]Response // Ref field = alias target
	CompBodies    map[string]Body
	InfoDesc      string
}

func reqDoc(rs []Requirement) []interface{} {
	out := []interface{}{}
	for _, r := range rs {
		m := map[string]interface{}{}
		for _, n := range r {
			m[n] = []interface{}{}
		}
		out = append(out, m)
	}
	return out
}

func headerDoc(h Header) map[string]interface{} {
	if h.Ref != "" {
		return map[string]interface{}{"$ref": "#/components/headers/" + h.Ref}
	}
	m := map[string]interface{}{"schema": h.Schema.Doc()}
	if h.Required {
		m["required"] = true
	}
	if h.Desc != "" {
		m["description"] = h.Desc
	}
	return m
}

func respDoc(r Response) map[string]interface{} {
	if r.Ref != "" {
		return map[string]interface{}{"$ref": "#/components/responses/" + r.Ref}
	}
	d := r.Desc
	if d == "" {
		d = "response"
	}
	m := map[string]interface{}{"description": d}
	if r.Content != "" {
		mt := map[string]interface{}{}
		if r.Schema != nil {
			mt["schema"] = r.Schema.Doc()
		}
		cm := map[string]interface{}{r.Content: mt}
		for _, a := range r.AlsoContent {
			cm[a] = map[string]interface{}{"schema": map[string]interface{}{"type": "string", "format": "binary"}}
		}
		m["content"] = cm
	}
	if len(r.Headers) > 0 {
		hs := map[string]interface{}{}
		for _, h := range r.Headers {
			hs[h.Name] = headerDoc(h)
		}
		m["headers"] = hs
	}
	return m
}

func bodyDoc(b Body) map[string]interface{} {
	if b.Ref != "" {
		return map[string]interface{}{"$ref": "#/components/requestBodies/" + b.Ref}
	}
	mt := map[string]interface{}{}
	if b.Schema != nil {
		mt["schema"] = b.Schema.Doc()
	}
	content := map[string]interface{}{b.Content: mt}
	for _, a := range b.AlsoContent {
		content[a] = map[string]interface{}{"schema": map[string]interface{}{"type": "string", "format": "binary"}}
	}
	m := map[string]interface{}{"content": content}
	if b.Required {
		m["required"] = true
	}
	return m
}

// Doc prints the OpenAPI document (JSON).
func (s *Spec) Doc() []byte {
	doc := map[string]interface{}{
		"openapi": "3.0.0",
		"info":    map[string]interface{}{"title": "verif", "version": "1"},
	}
	if s.InfoDesc != "" {
		doc["info"].(map[string]interface{})["description"] = s.InfoDesc
	}
	if s.ServerURL != "" {
		sv := map[string]interface{}{"url": s.ServerURL}
		if len(s.ServerVar) > 0 {
			vs := map[string]interface{}{}
			for k, v := range s.ServerVar {
				vs[k] = map[string]interface{}{"default": v}
			}
			sv["variables"] = vs
		}
		svs := []interface{}{sv}
		for _, u := range s.MoreServers {
			svs = append(svs, map[string]interface{}{"url": u})
		}
		doc["servers"] = svs
	}
	paths := map[string]interface{}{}
	for _, pi := range s.Paths {
		item := map[string]interface{}{}
		if len(pi.Params) > 0 {
			var ps []interface{}
			for _, p := range pi.Params {
				ps = append(ps, p.Doc())
			}
			item["parameters"] = ps
		}
		for _, o := range pi.Ops {
			od := map[string]interface{}{}
			if len(o.Params) > 0 {
				var ps []interface{}
				for _, p := range o.Params {
					ps = append(ps, p.Doc())
				}
				od["parameters"] = ps
			}
			if o.Security != nil {
				od["security"] = reqDoc(*o.Security)
			}
			if o.Body != nil {
				od["requestBody"] = bodyDoc(*o.Body)
			}
			if o.Summary != "" {
				od["summary"] = o.Summary
			}
			if o.Desc != "" {
				od["description"] = o.Desc
			}
			if o.ID != "" {
				od["operationId"] = o.ID
			}
			rs := map[string]interface{}{}
			if len(o.Responses) == 0 {
				rs["200"] = map[string]interface{}{"description": "ok"}
			}
			for _, r := range o.Responses {
				rs[r.Status] = respDoc(r)
			}
			od["responses"] = rs
			item[strings.ToLower(o.Method)] = od
		}
		paths[pi.Raw] = item
	}
	doc["paths"] = paths
	comp := map[string]interface{}{}
	if len(s.Schemes) > 0 {
		m := map[string]interface{}{}
		for _, sc := range s.Schemes {
			m[sc.Name] = sc.Doc()
		}
		comp["securitySchemes"] = m
	}
	if len(s.CompSchemas) > 0 {
		m := map[string]interface{}{}
		for _, p := range s.CompSchemas {
			m[p.Name] = p.Schema.Doc()
		}
		comp["schemas"] = m
	}
	if len(s.CompParams) > 0 {
		m := map[string]interface{}{}
		for k, p := range s.CompParams {
			m[k] = p.InlineDoc()
		}
		comp["parameters"] = m
	}
	if len(s.CompHeaders) > 0 {
		m := map[string]interface{}{}
		for k, h := range s.CompHeaders {
			m[k] = headerDoc(h)
		}
		comp["headers"] = m
	}
	if len(s.CompResponses) > 0 {
		m := map[string]interface{}{}
		for k, r := range s.CompResponses {
			m[k] = respDoc(r)
		}
		comp["responses"] = m
	}
	if len(s.CompBodies) > 0 {
		m := map[string]interface{}{}
		for k, b := range s.CompBodies {
			m[k] = bodyDoc(b)
		}
		comp["requestBodies"] = m
	}
	if len(comp) > 0 {
		doc["components"] = comp
	}
	if s.HasGlobal {
		doc["security"] = reqDoc(s.Global)
	}
	bs, err := json.MarshalIndent(doc, "", " ")
	if err != nil {
		panic(err)
	}
	return bs
}

// Hx hex-encodes a string for case lines ("-" is the empty string).
func Hx(s string) string {
	if s == "" {
		return "-"
	}
	return hex.EncodeToString([]byte(s))
}

func UnHx(h string) string {
	if h == "-" {
		return ""
	}
	b, err := hex.DecodeString(h)
	if err != nil {
		panic(fmt.Sprintf("bad hex %q", h))
	}
	return string(b)
}

func SortedKeys[V any](m map[string]V) []string {
	ks := make([]string, 0, len(m))
	for k := range m {
		ks = append(ks, k)
	}
	sort.Strings(ks)
	return ks
}

// ---------------------------------------------------------------------------
// C18: the same document with every reference replaced by a copy of its target

func inlineSchema(s *Schema, comps map[string]*Schema, depth int) *Schema {
	if s == nil {
		return nil
	}
	if s.Ref != "" {
		if depth > 20 {
			return &Schema{}
		}
		return inlineSchema(comps[s.Ref], comps, depth+1)
	}
	cp := *s
	cp.Items = inlineSchema(s.Items, comps, depth)
	cp.AddProps = inlineSchema(s.AddProps, comps, depth)
	cp.Props = nil
	for _, p := range s.Props {
		cp.Props = append(cp.Props, Prop{Name: p.Name, Schema: inlineSchema(p.Schema, comps, depth)})
	}
	cp.AllOf = nil
	for _, a := range s.AllOf {
		cp.AllOf = append(cp.AllOf, inlineSchema(a, comps, depth))
	}
	cp.OneOf = nil
	for _, a := range s.OneOf {
		cp.OneOf = append(cp.OneOf, inlineSchema(a, comps, depth))
	}
	return &cp
}

// InlineAll returns a document without components (security schemes aside):
// schema, parameter, header, request-body and response references (through
// alias chains) are replaced by inline copies of their targets.
func (s *Spec) InlineAll() *Spec {
	comps := map[string]*Schema{}
	for _, p := range s.CompSchemas {
		comps[p.Name] = p.Schema
	}
	out := &Spec{ServerURL: s.ServerURL, MoreServers: s.MoreServers, ServerVar: s.ServerVar, Schemes: s.Schemes, Global: s.Global, HasGlobal: s.HasGlobal, InfoDesc: s.InfoDesc}
	param := func(p Param) Param {
		if p.Ref != "" {
			p = s.CompParams[p.Ref]
		}
		p.Ref = ""
		p.Schema = inlineSchema(p.Schema, comps, 0)
		return p
	}
	header := func(h Header) Header {
		if h.Ref != "" {
			t := s.CompHeaders[h.Ref]
			t.Name = h.Name
			h = t
		}
		h.Ref = ""
		h.Schema = inlineSchema(h.Schema, comps, 0)
		return h
	}
	for _, pi := range s.Paths {
		npi := &PathItem{Raw: pi.Raw}
		for _, p := range pi.Params {
			npi.Params = append(npi.Params, param(p))
		}
		for _, o := range pi.Ops {
			no := &Op{Method: o.Method, Security: o.Security, Summary: o.Summary, Desc: o.Desc, ID: o.ID}
			for _, p := range o.Params {
				no.Params = append(no.Params, param(p))
			}
			if o.Body != nil {
				b := *o.Body
				if b.Ref != "" {
					b = s.CompBodies[b.Ref]
				}
				b.Ref = ""
				b.Schema = inlineSchema(b.Schema, comps, 0)
				no.Body = &b
			}
			for _, r := range o.Responses {
				st := r.Status
				for k := 0; r.Ref != "" && k < 20; k++ {
					r = s.CompResponses[r.Ref]
				}
				r.Status = st
				r.Ref = ""
				r.Schema = inlineSchema(r.Schema, comps, 0)
				var hs []Header
				for _, h := range r.Headers {
					hs = append(hs, header(h))
				}
				r.Headers = hs
				no.Responses = append(no.Responses, r)
			}
			npi.Ops = append(npi.Ops, no)
		}
		out.Paths = append(out.Paths, npi)
	}
	return out
}

// HoistAll returns a document in which every inline parameter, response,
// request body, response header (scalar) and object/array/primitive schema of
// those has been moved into components and is used by reference. names maps
// "<METHOD> <raw path> <status>" to the response component's name.
func (s *Spec) HoistAll() (*Spec, map[string]string) {
	out := &Spec{ServerURL: s.ServerURL, MoreServers: s.MoreServers, ServerVar: s.ServerVar, Schemes: s.Schemes, Global: s.Global, HasGlobal: s.HasGlobal, InfoDesc: s.InfoDesc,
		CompSchemas: append([]Prop{}, s.CompSchemas...), CompParams: map[string]Param{}, CompHeaders: map[string]Header{}, CompResponses: map[string]Response{}, CompBodies: map[string]Body{}}
	for k, v := range s.CompParams {
		out.CompParams[k] = v
	}
	for k, v := range s.CompHeaders {
		out.CompHeaders[k] = v
	}
	for k, v := range s.CompResponses {
		out.CompResponses[k] = v
	}
	for k, v := range s.CompBodies {
		out.CompBodies[k] = v
	}
	n := 0
	fresh := func(p string) string { n++; return fmt.Sprintf("%s%d", p, n) }
	schema := func(sc *Schema) *Schema {
		// (a nullable primitive/array component is refused by the generator; `any` has no type to name)
		if sc == nil || sc.Ref != "" || (sc.Nullable && sc.Type != "object") || (sc.Type == "" && len(sc.AllOf) == 0) {
			return sc
		}
		name := fresh("HS")
		out.CompSchemas = append(out.CompSchemas, Prop{Name: name, Schema: sc})
		return &Schema{Ref: name}
	}
	names := map[string]string{}
	param := func(p Param) Param {
		if p.Ref != "" {
			return p
		}
		p.Schema = schema(p.Schema)
		name := fresh("HP")
		out.CompParams[name] = p
		return Param{Ref: name, Name: p.Name, In: p.In, Required: p.Required, Schema: p.Schema}
	}
	for _, pi := range s.Paths {
		npi := &PathItem{Raw: pi.Raw}
		for _, p := range pi.Params {
			npi.Params = append(npi.Params, param(p))
		}
		for _, o := range pi.Ops {
			no := &Op{Method: o.Method, Security: o.Security, Summary: o.Summary, Desc: o.Desc, ID: o.ID}
			for _, p := range o.Params {
				no.Params = append(no.Params, param(p))
			}
			if o.Body != nil {
				b := *o.Body
				if b.Ref == "" {
					if b.Content == "application/json" {
						b.Schema = schema(b.Schema)
					}
					name := fresh("HB")
					out.CompBodies[name] = b
					b = Body{Ref: name}
				}
				no.Body = &b
			}
			for _, r := range o.Responses {
				if r.Ref == "" {
					st := r.Status
					if r.Content == "application/json" {
						r.Schema = schema(r.Schema)
					}
					var hs []Header
					for _, h := range r.Headers {
						if h.Ref == "" && h.Schema != nil && h.Schema.Type != "array" {
							hn := fresh("HH")
							out.CompHeaders[hn] = Header{Required: h.Required, Schema: h.Schema, Desc: h.Desc}
							h = Header{Name: h.Name, Ref: hn}
						}
						hs = append(hs, h)
					}
					r.Headers = hs
					r.Status = ""
					name := fresh("HR")
					out.CompResponses[name] = r
					names[o.Method+" "+pi.Raw+" "+st] = name
					r = Response{Status: st, Ref: name}
				}
				no.Responses = append(no.Responses, r)
			}
			npi.Ops = append(npi.Ops, no)
		}
		out.Paths = append(out.Paths, npi)
	}
	return out, names
}
