// Package scratch generates packages with the REAL goag into one scratch Go
// module, adds the driver, builds ONE binary and talks to it over pipes.
package scratch

import (
	"bufio"
	"bytes"
	_ "embed"
	"encoding/json"
	"fmt"
	"go/ast"
	"go/parser"
	"go/printer"
	"go/token"
	"io"
	"os"
	"os/exec"
	"path/filepath"
	"regexp"
	"sort"
	"strings"

	"verifharness/internal/dialect"
	"verifharness/internal/gen"
	"verifharness/internal/pool"
)

//go:embed regsrc/reg.go.txt
var regSrc string

type Pkg struct {
	Name string
	Doc  []byte
	Opts gen.Options

	GenErr   string // generator returned an error
	GenPanic string // generator panicked / process died
	BuildErr string // generated package does not compile
	Files    []string

	Templates []string // with Coverage: the named templates the generator executed for this package
}

// Coverage asks the generation workers for a second pass with TEMPLATE_DEBUG set (the generator's own marker comments
// around the output of every template it executes by name); evidence only.
var Coverage bool

var tmplMark = regexp.MustCompile(`/\*\* ([A-Za-z0-9_]+) >>> \*/`)

func templatesUsed(doc []byte, o gen.Options) []string {
	dir, err := os.MkdirTemp("", "vhcov")
	if err != nil {
		return nil
	}
	defer os.RemoveAll(dir)
	os.Setenv("TEMPLATE_DEBUG", "1")
	defer os.Unsetenv("TEMPLATE_DEBUG")
	if err, _, _ := gen.Generate(doc, dir, o); err != nil {
		return nil
	}
	seen := map[string]bool{}
	files, _ := filepath.Glob(filepath.Join(dir, "*.go"))
	for _, f := range files {
		bs, _ := os.ReadFile(f)
		for _, m := range tmplMark.FindAllSubmatch(bs, -1) {
			seen[string(m[1])] = true
		}
	}
	var out []string
	for n := range seen {
		out = append(out, n)
	}
	sort.Strings(out)
	return out
}

func (p *Pkg) OK() bool { return p.GenErr == "" && p.GenPanic == "" && p.BuildErr == "" }

type Module struct {
	Root string
	Pkgs []*Pkg
	Bin  string
	Tags string

	cmd *exec.Cmd
	in  io.WriteCloser
	out *bufio.Reader
}

type genJob struct {
	Dir   string
	Doc   string // hex
	Opts  gen.Options
	Cover bool
}

// GenWorker is the worker side of generation (one job per line).
func GenWorker() {
	pool.Serve(func(line string) string {
		var j genJob
		if err := json.Unmarshal([]byte(line), &j); err != nil {
			return "err:" + dialect.Hx("bad job")
		}
		os.MkdirAll(j.Dir, 0o755)
		err, panicked, _ := gen.Generate([]byte(dialect.UnHx(j.Doc)), j.Dir, j.Opts)
		if panicked {
			return "panic:" + dialect.Hx(err.Error())
		}
		if err != nil {
			return "err:" + dialect.Hx(err.Error())
		}
		if j.Cover {
			return "ok cov=" + strings.Join(templatesUsed([]byte(dialect.UnHx(j.Doc)), j.Opts), ",")
		}
		return "ok"
	})
}

// New creates the module under root and generates every package (in worker
// subprocesses of the current binary: `<self> genworker`).
func New(root string, pkgs []*Pkg) (*Module, error) {
	m := &Module{Root: root, Pkgs: pkgs}
	if err := os.MkdirAll(filepath.Join(root, "reg"), 0o755); err != nil {
		return nil, err
	}
	os.WriteFile(filepath.Join(root, "go.mod"), []byte("module scratch\n\ngo 1.20\n"), 0o644)
	os.WriteFile(filepath.Join(root, "reg", "reg.go"), []byte(regSrc), 0o644)
	jobs := make([]string, len(pkgs))
	for i, p := range pkgs {
		o := p.Opts
		o.Package = p.Name
		bs, _ := json.Marshal(genJob{Dir: filepath.Join(root, p.Name), Doc: dialect.Hx(string(p.Doc)), Opts: o, Cover: Coverage})
		jobs[i] = string(bs)
	}
	res, err := pool.Map([]string{"genworker"}, jobs, 16)
	if err != nil {
		return nil, err
	}
	for i, r := range res {
		p := pkgs[i]
		switch {
		case r == "ok":
		case strings.HasPrefix(r, "ok cov="):
			if t := strings.TrimPrefix(r, "ok cov="); t != "" {
				p.Templates = strings.Split(t, ",")
			}
		case strings.HasPrefix(r, "err:"):
			p.GenErr = dialect.UnHx(strings.TrimPrefix(r, "err:"))
		case strings.HasPrefix(r, "panic:"):
			p.GenPanic = dialect.UnHx(strings.TrimPrefix(r, "panic:"))
		default:
			p.GenPanic = r
		}
		if p.GenErr != "" || p.GenPanic != "" {
			// a failed generation must not leave files the build would pick up
			os.RemoveAll(filepath.Join(root, p.Name))
		}
	}
	return m, nil
}

// AddDrivers writes zz_driver_gen.go into every generated package.
func (m *Module) AddDrivers() {
	for _, p := range m.Pkgs {
		if p.GenErr != "" || p.GenPanic != "" {
			continue
		}
		dir := filepath.Join(m.Root, p.Name)
		src, err := driverSource(dir, p.Name)
		if err != nil {
			p.BuildErr = "parse: " + err.Error()
			continue
		}
		os.WriteFile(filepath.Join(dir, "zz_driver_gen.go"), []byte(src), 0o644)
	}
}

func exprString(fset *token.FileSet, e ast.Expr) string {
	var b bytes.Buffer
	printer.Fprint(&b, fset, e)
	return b.String()
}

// driverSource inspects the generated package syntactically.
func driverSource(dir, name string) (string, error) {
	fset := token.NewFileSet()
	pkgs, err := parser.ParseDir(fset, dir, func(fi os.FileInfo) bool { return !strings.HasPrefix(fi.Name(), "zz_") }, 0)
	if err != nil {
		return "", err
	}
	var files []*ast.File
	for _, p := range pkgs {
		for _, f := range p.Files {
			files = append(files, f)
		}
	}
	type fn struct {
		name   string
		params []string
		result string
	}
	var funcs []fn
	var types []string
	handlerFuncs := map[string][2]string{} // XHandlerFunc -> (request type, response type)
	var apiFields [][2]string              // field name, type name
	hasSpecFileHandler, hasSchemaPath := false, false
	methodRecv := map[string][]string{}
	for _, f := range files {
		for _, d := range f.Decls {
			switch d := d.(type) {
			case *ast.FuncDecl:
				if d.Recv != nil && len(d.Recv.List) == 1 {
					// methods: which types have write<Op> (the component responses an operation documents)
					rt := exprString(fset, d.Recv.List[0].Type)
					methodRecv[d.Name.Name] = append(methodRecv[d.Name.Name], strings.TrimPrefix(rt, "*"))
				}
				if d.Recv != nil || d.Type.TypeParams != nil || d.Name.Name == "init" || d.Name.Name == "main" || d.Name.Name == "_" {
					continue
				}
				x := fn{name: d.Name.Name}
				if d.Type.Params != nil {
					for _, p := range d.Type.Params.List {
						ts := exprString(fset, p.Type)
						n := len(p.Names)
						if n == 0 {
							n = 1
						}
						for i := 0; i < n; i++ {
							x.params = append(x.params, ts)
						}
					}
				}
				if d.Type.Results != nil && len(d.Type.Results.List) == 1 && len(d.Type.Results.List[0].Names) <= 1 {
					x.result = exprString(fset, d.Type.Results.List[0].Type)
				}
				funcs = append(funcs, x)
				if d.Name.Name == "SpecFileHandler" {
					hasSpecFileHandler = true
				}
				if d.Name.Name == "SchemaPath" {
					hasSchemaPath = true
				}
			case *ast.GenDecl:
				if d.Tok != token.TYPE {
					continue
				}
				for _, s := range d.Specs {
					ts := s.(*ast.TypeSpec)
					if ts.TypeParams != nil || ts.Name.Name == "_" {
						continue
					}
					types = append(types, ts.Name.Name)
					if ft, ok := ts.Type.(*ast.FuncType); ok && strings.HasSuffix(ts.Name.Name, "HandlerFunc") &&
						ft.Params != nil && len(ft.Params.List) == 2 && ft.Results != nil && len(ft.Results.List) == 1 {
						handlerFuncs[ts.Name.Name] = [2]string{exprString(fset, ft.Params.List[1].Type), exprString(fset, ft.Results.List[0].Type)}
					}
					if st, ok := ts.Type.(*ast.StructType); ok && ts.Name.Name == "API" {
						for _, fl := range st.Fields.List {
							tn := exprString(fset, fl.Type)
							for _, n := range fl.Names {
								apiFields = append(apiFields, [2]string{n.Name, tn})
							}
						}
					}
				}
			}
		}
	}
	sort.Slice(funcs, func(i, j int) bool { return funcs[i].name < funcs[j].name })
	sort.Strings(types)
	var b strings.Builder
	fmt.Fprintf(&b, "package %s\n\nimport (\n\tverifctx \"context\"\n\t\"io\"\n\tverifhttp \"net/http\"\n\tverifreflect \"reflect\"\n\tverifreg \"scratch/reg\"\n\t\"time\"\n)\n\n", name)
	b.WriteString("var _ = verifctx.Background\nvar _ verifhttp.Handler\nvar _ = verifreflect.TypeOf\nvar _ io.Reader\nvar _ time.Time\n\n")
	b.WriteString("func init() {\n")
	fmt.Fprintf(&b, "\tp := &verifreg.Package{Name: %q}\n", name)
	b.WriteString("\tp.Funcs = map[string]interface{}{\n")
	for _, f := range funcs {
		fmt.Fprintf(&b, "\t\t%q: %s,\n", f.name, f.name)
	}
	b.WriteString("\t}\n\tp.Types = map[string]verifreflect.Type{\n")
	for _, t := range types {
		fmt.Fprintf(&b, "\t\t%q: verifreflect.TypeOf((*%s)(nil)).Elem(),\n", t, t)
	}
	b.WriteString("\t}\n")
	var ops [][2]string // field, handler func type
	for _, f := range apiFields {
		if _, ok := handlerFuncs[f[1]]; ok {
			ops = append(ops, f)
		}
	}
	for _, o := range ops {
		opn := strings.TrimSuffix(o[1], "HandlerFunc")
		fmt.Fprintf(&b, "\tp.Ops = append(p.Ops, verifreg.OpInfo{Name: %q, Method: %s(nil).Method(), Path: %s(nil).Path()})\n", opn, o[1], o[1])
	}
	if len(apiFields) > 0 {
		b.WriteString("\tp.NewAPI = func(h *verifreg.Hooks) verifhttp.Handler {\n\t\tapi := &API{}\n")
		for _, o := range ops {
			hf := handlerFuncs[o[1]]
			opn := strings.TrimSuffix(o[1], "HandlerFunc")
			fmt.Fprintf(&b, "\t\tapi.%s = func(ctx verifctx.Context, r %s) %s {\n", o[0], hf[0], hf[1])
			fmt.Fprintf(&b, "\t\t\th.Handler(ctx, %s(nil).Method(), %s(nil).Path(), r.HTTP(), func() (interface{}, error) { return verifreg.CallParse(r) })\n", o[1], o[1])
			fmt.Fprintf(&b, "\t\t\tif h.Resp != nil {\n\t\t\t\tif v, ok := h.Resp(%q).(%s); ok {\n\t\t\t\t\treturn v\n\t\t\t\t}\n\t\t\t}\n", opn, hf[1])
			fmt.Fprintf(&b, "\t\t\tif h.RespFor != nil {\n\t\t\t\tif v, ok := h.RespFor(%q, r.HTTP(), func() (interface{}, error) { return verifreg.CallParse(r) }).(%s); ok {\n\t\t\t\t\treturn v\n\t\t\t\t}\n\t\t\t}\n", opn, hf[1])
			ctor := ""
			for _, f := range funcs {
				if f.result == hf[1] && strings.HasPrefix(f.name, "New") {
					var args []string
					for _, p := range f.params {
						if p == "io.ReadCloser" {
							// (a nil reader is the handler author's error, not the generated code's)
							args = append(args, "verifreg.EmptyBody()")
							continue
						}
						if p == "int" {
							args = append(args, "200")
							continue
						}
						args = append(args, "*new("+p+")")
					}
					ctor = f.name + "(" + strings.Join(args, ", ") + ")"
					break
				}
			}
			if ctor == "" {
				// a component response documented for the operation: its type has write<Op>, its constructor returns that type
				recvs := append([]string{}, methodRecv["write"+opn]...)
				sort.Strings(recvs)
				for _, rt := range recvs {
					for _, f := range funcs {
						if f.name == "New"+rt && f.result == rt {
							var args []string
							for _, p := range f.params {
								if p == "io.ReadCloser" {
									args = append(args, "verifreg.EmptyBody()")
									continue
								}
								if p == "int" {
									args = append(args, "200") // (the code of a default response: 0 is not a status the handler may return)
									continue
								}
								args = append(args, "*new("+p+")")
							}
							ctor = f.name + "(" + strings.Join(args, ", ") + ")"
						}
					}
					if ctor != "" {
						break
					}
				}
			}
			if ctor == "" {
				fmt.Fprintf(&b, "\t\t\tvar zero %s\n\t\t\treturn zero\n\t\t}\n", hf[1])
			} else {
				fmt.Fprintf(&b, "\t\t\treturn %s\n\t\t}\n", ctor)
			}
		}
		sf, sp := "nil", "nil"
		if hasSpecFileHandler {
			sf = "SpecFileHandler"
		}
		if hasSchemaPath {
			sp = "SchemaPath"
		}
		fmt.Fprintf(&b, "\t\tverifreg.ConfigureAPI(api, h, %s, %s)\n\t\treturn api\n\t}\n", sf, sp)
	}
	b.WriteString("\tverifreg.Register(p)\n}\n")
	return b.String(), nil
}

func goEnv() []string {
	env := os.Environ()
	env = append(env, "GOFLAGS=-mod=mod", "GOPROXY=off", "GOSUMDB=off", "GOTOOLCHAIN=local", "GOWORK=off")
	return env
}

// Build compiles every package (recording per-package errors) and links the
// packages that compile into one driver binary.
func (m *Module) Build(race bool) error {
	args := []string{"build"}
	if race {
		args = append(args, "-race")
	}
	args = append(args, "./...")
	cmd := exec.Command("go", args...)
	cmd.Dir = m.Root
	cmd.Env = goEnv()
	out, _ := cmd.CombinedOutput()
	cur := ""
	errs := map[string][]string{}
	for _, l := range strings.Split(string(out), "\n") {
		if strings.HasPrefix(l, "# scratch/") {
			cur = strings.Fields(strings.TrimPrefix(l, "# scratch/"))[0]
			continue
		}
		if l == "" {
			continue
		}
		if cur != "" {
			errs[cur] = append(errs[cur], l)
		} else if i := strings.Index(l, "/"); i > 0 && strings.Contains(l, ".go:") {
			errs[l[:i]] = append(errs[l[:i]], l)
		}
	}
	if e, ok := errs["reg"]; ok {
		return fmt.Errorf("driver runtime does not compile: %s", strings.Join(e, "\n"))
	}
	var b strings.Builder
	b.WriteString("package main\n\nimport (\n\t\"scratch/reg\"\n")
	n := 0
	for _, p := range m.Pkgs {
		if p.GenErr != "" || p.GenPanic != "" {
			continue
		}
		if e, ok := errs[p.Name]; ok {
			if len(e) > 6 {
				e = e[:6]
			}
			p.BuildErr = strings.Join(e, "\n")
			continue
		}
		fmt.Fprintf(&b, "\t_ %q\n", "scratch/"+p.Name)
		n++
	}
	b.WriteString(")\n\nfunc main() { reg.Main() }\n")
	os.MkdirAll(filepath.Join(m.Root, "cmd", "run"), 0o755)
	os.WriteFile(filepath.Join(m.Root, "cmd", "run", "main.go"), []byte(b.String()), 0o644)
	m.Bin = filepath.Join(m.Root, "run.bin")
	args = []string{"build"}
	if race {
		args = append(args, "-race")
	}
	args = append(args, "-o", m.Bin, "./cmd/run")
	cmd = exec.Command("go", args...)
	cmd.Dir = m.Root
	cmd.Env = goEnv()
	out, err := cmd.CombinedOutput()
	if err != nil {
		return fmt.Errorf("link driver: %v\n%s", err, out)
	}
	return nil
}

// BuildOnly type-checks and compiles every generated package as it was written
// (no driver file), recording per-package errors.
func (m *Module) BuildOnly() error {
	cmd := exec.Command("go", "build", "./...")
	cmd.Dir = m.Root
	cmd.Env = goEnv()
	out, _ := cmd.CombinedOutput()
	cur := ""
	errs := map[string][]string{}
	for _, l := range strings.Split(string(out), "\n") {
		if strings.HasPrefix(l, "# scratch/") {
			cur = strings.Fields(strings.TrimPrefix(l, "# scratch/"))[0]
			continue
		}
		if l == "" {
			continue
		}
		if cur != "" {
			errs[cur] = append(errs[cur], l)
		} else if i := strings.Index(l, "/"); i > 0 && strings.Contains(l, ".go:") {
			errs[l[:i]] = append(errs[l[:i]], l)
		} else {
			errs["?"] = append(errs["?"], l)
		}
	}
	if e, ok := errs["reg"]; ok {
		return fmt.Errorf("driver runtime does not compile: %s", strings.Join(e, "\n"))
	}
	if e, ok := errs["?"]; ok && len(errs) == 1 {
		return fmt.Errorf("go build: %s", strings.Join(e, "\n"))
	}
	for _, p := range m.Pkgs {
		if e, ok := errs[p.Name]; ok && p.GenErr == "" && p.GenPanic == "" {
			if len(e) > 6 {
				e = e[:6]
			}
			p.BuildErr = strings.Join(e, "\n")
		}
	}
	return nil
}

// Start launches the driver binary.
func (m *Module) Start() error {
	m.cmd = exec.Command(m.Bin)
	var err error
	m.in, err = m.cmd.StdinPipe()
	if err != nil {
		return err
	}
	o, err := m.cmd.StdoutPipe()
	if err != nil {
		return err
	}
	m.cmd.Stderr = os.Stderr
	m.out = bufio.NewReaderSize(o, 1<<20)
	return m.cmd.Start()
}

// Run sends all lines and returns one output line per input line.  The
// driver is restarted if it dies (the dying line yields CRASH).
func (m *Module) Run(lines []string) ([]string, error) {
	out := make([]string, len(lines))
	if m.cmd == nil {
		if err := m.Start(); err != nil {
			return nil, err
		}
	}
	// writer goroutine + reader (pipelined)
	i := 0
	crashes := 0
	const maxCrashes = 12
	for i < len(lines) {
		done := make(chan error, 1)
		start := i
		go func() {
			w := bufio.NewWriterSize(m.in, 1<<20)
			for k := start; k < len(lines); k++ {
				l := lines[k]
				if strings.TrimSpace(l) == "" {
					l = "nopkg NOP" // (the driver answers every non-empty line with exactly one line; an empty one would never be answered)
				}
				if _, err := w.WriteString(l + "\n"); err != nil {
					done <- err
					return
				}
			}
			done <- w.Flush()
		}()
		died := false
		for i < len(lines) {
			l, err := m.out.ReadString('\n')
			if err != nil {
				out[i] = "CRASH"
				i++
				died = true
				break
			}
			out[i] = strings.TrimRight(l, "\n")
			i++
		}
		if died {
			m.in.Close()
			m.cmd.Wait()
			<-done
			m.cmd = nil
			crashes++
			if crashes >= maxCrashes {
				// the driver keeps dying (a fatal error such as a stack overflow on many of the requests): the crashes seen so
				// far are the observation; the remaining lines are not run (each restart costs seconds)
				for ; i < len(lines); i++ {
					out[i] = "SKIP driver-died-too-often"
				}
				return out, nil
			}
			if i < len(lines) {
				if err := m.Start(); err != nil {
					return nil, err
				}
			}
		} else {
			<-done
		}
	}
	return out, nil
}

// RunOnce runs a fresh driver process on the lines with extra environment and returns its stdout lines and stderr.
func (m *Module) RunOnce(lines []string, env []string) ([]string, string, error) {
	cmd := exec.Command(m.Bin)
	cmd.Env = append(os.Environ(), env...)
	cmd.Stdin = strings.NewReader(strings.Join(lines, "\n") + "\n")
	var so, se bytes.Buffer
	cmd.Stdout = &so
	cmd.Stderr = &se
	cmd.Run()
	out := strings.Split(strings.TrimRight(so.String(), "\n"), "\n")
	for len(out) < len(lines) {
		out = append(out, "CRASH")
	}
	return out, se.String(), nil
}

func (m *Module) Close() {
	if m.cmd != nil {
		m.in.Close()
		m.cmd.Wait()
		m.cmd = nil
	}
}
