package main

// C10 (client reconstructs every response) and the Write half of C02: the
// response matrix. Handlers return reflectively built response values; the
// generated client over the generated API reconstructs them; a recording
// transport keeps the wire response. A stub transport replays status codes
// the operation does not document.

import (
	"fmt"
	"math/rand"
	"sort"
	"strconv"
	"strings"

	"verifharness/internal/dialect"
	"verifharness/internal/scratch"
)

func init() {
	commands["C10"] = runC10
	commands["C02"] = func(c runCfg) error { c02Mode = true; return runC10(c) }
}

type c10plan struct {
	status  string
	gotype  string // "@Response200JSON" (relative to the operation's name) or "NotFoundResponse"
	ctype   string
	headers []dialect.Header // resolved, sorted by name
	kind    string           // none | json | raw
	body    *JS
	bname   string
	comp    string // the component response the operation refers to ("" when defined in place)
}

var c10HeaderNames = []string{"X-Count", "X-Next", "X-Rate-Limit", "ETag", "X-Request-Uuid", "Location", "x-lower", "X-Ids"}
var c10Codes = []string{"200", "201", "202", "204", "400", "401", "404", "409", "422", "500", "503"}

// one response definition (inline form) with random headers and body
func (g *jgen) c10Response(sp *dialect.Spec, tag string, lines *[]string, pkg string) (dialect.Response, c10plan) {
	rng := g.rng
	r := dialect.Response{Desc: "r " + tag}
	pl := c10plan{kind: "none"}
	nh := []int{0, 0, 1, 2, 3}[rng.Intn(5)]
	used := map[string]bool{}
	for len(r.Headers) < nh {
		n := c10HeaderNames[rng.Intn(len(c10HeaderNames))]
		if used[strings.ToLower(n)] {
			continue
		}
		used[strings.ToLower(n)] = true
		sc := paramSchemas[rng.Intn(len(paramSchemas))]()
		if rng.Intn(4) == 0 {
			sc = &dialect.Schema{Type: "array", Items: sc}
		}
		h := dialect.Header{Name: n, Required: rng.Intn(2) == 0, Schema: sc}
		res := h
		if rng.Intn(4) == 0 && sc.Type != "array" {
			// through components.headers (an array-typed component header is refused by the generator with an error)
			cn := "H" + tag + strconv.Itoa(len(r.Headers))
			if sp.CompHeaders == nil {
				sp.CompHeaders = map[string]dialect.Header{}
			}
			sp.CompHeaders[cn] = dialect.Header{Required: h.Required, Schema: h.Schema}
			h = dialect.Header{Name: n, Ref: cn}
		}
		r.Headers = append(r.Headers, h)
		pl.headers = append(pl.headers, res)
	}
	sort.Slice(pl.headers, func(i, j int) bool { return pl.headers[i].Name < pl.headers[j].Name })
	switch rng.Intn(8) {
	case 7:
		// an array body that is nullable (null and [] are different answers), written in place
		b := &JS{Kind: "null", Inner: &JS{Kind: "arr", Inner: &JS{Kind: []string{"int", "str"}[rng.Intn(2)], Bits: 64}}}
		pl.kind, pl.body, pl.bname = "json", b, "NArr"+tag
	case 6:
		// an object with arrays of arrays defined in place (and one as a component)
		b := &JS{Kind: "obj", Members: []JM{
			{Name: "grid", Req: true, S: &JS{Kind: "arr", Inner: &JS{Kind: "arr", Inner: &JS{Kind: "int", Bits: 64}}}},
			{Name: "rows", Req: false, S: &JS{Kind: "arr", Inner: &JS{Kind: "arr", Inner: &JS{Kind: "str"}, Ref: "Row" + tag}}},
		}}
		if rng.Intn(2) == 0 {
			b.Ref = "B" + tag
		}
		pl.kind, pl.body, pl.bname = "json", b, "Grid"+tag
	case 0, 1:
		b := g.object(2, false)
		b.Ref = "B" + tag
		pl.kind, pl.body, pl.bname = "json", b, b.Ref
	case 2:
		b := g.object(2, false)
		pl.kind, pl.body, pl.bname = "json", b, "Inl"+tag
	case 3:
		it := g.object(1, false)
		it.Ref = "It" + tag
		b := &JS{Kind: "arr", Inner: it}
		pl.kind, pl.body, pl.bname = "json", b, "Arr"+tag
	case 4:
		pl.kind = "raw"
		r.Content = []string{"application/octet-stream", "text/plain"}[rng.Intn(2)]
		r.Schema = &dialect.Schema{Type: "string", Format: "binary"}
		pl.ctype = r.Content
	}
	if pl.kind == "json" {
		r.Content = "application/json"
		// every third JSON response also declares other media types (sorting before and after application/json): JSON is what is written
		switch rng.Intn(3) {
		case 0:
			r.AlsoContent = [][]string{{"text/csv"}, {"application/cbor", "text/plain"}, {"application/xml", "application/a"}}[rng.Intn(3)]
		}
		r.Schema = pl.body.Dialect(&sp.CompSchemas)
		pl.ctype = r.Content
		*lines = append(*lines, "J "+pkg+" "+pl.bname+" "+pl.body.Model())
	}
	return r, pl
}

func c10PlanStr(pl c10plan, comps map[string]*dialect.Schema) string {
	hs := "-"
	if len(pl.headers) > 0 {
		var out []string
		for _, h := range pl.headers {
			r := "0"
			if h.Required {
				r = "1"
			}
			out = append(out, dialect.Hx(h.Name)+":"+r+":"+schStr(h.Schema, comps))
		}
		hs = strings.Join(out, ";")
	}
	body := pl.kind
	if pl.kind == "json" {
		body = "json:" + pl.bname
	}
	return pl.status + "|" + pl.gotype + "|" + dialect.Hx(pl.ctype) + "|" + hs + "|" + body
}

// C02 looks at more packages with fewer values each
var c02Mode bool

func c10Cases(c runCfg) ([]*scratch.Pkg, []string, map[string]interface{}) {
	rng := rand.New(rand.NewSource(c.Seed))
	npk, nval := 6, 6
	if c.Thorough {
		npk, nval = 60, 16
	}
	if c02Mode {
		npk, nval = 24, 2
		if c.Thorough {
			npk, nval = 200, 3
		}
	}
	g := &jgen{rng: rng, noNullAny: true}
	var pkgs []*scratch.Pkg
	var lines []string
	stats := map[string]int{}
	nV, nX := 0, 0
	for pi := 0; pi < npk; pi++ {
		sp := &dialect.Spec{CompResponses: map[string]dialect.Response{}}
		pkg := fmt.Sprintf("p%04d", pi)
		bf := baseForms[pi%len(baseForms)]
		sp.ServerURL, sp.ServerVar, sp.MoreServers = bf.Server, bf.Vars, bf.More
		var head []string // J lines first
		// shared component responses: two with a code, one used as default, one alias
		type comp struct {
			name string
			pl   c10plan
		}
		var codeComps, dfltComps []comp
		for k := 0; k < 4; k++ {
			// (Zeta: a status-coded component whose name sorts AFTER the default one's)
			name := []string{"NotFound", "Created", "Unexpected", "Zeta"}[k]
			r, pl := g.c10Response(sp, name, &head, pkg)
			sp.CompResponses[name] = r
			pl.gotype = name + "Response"
			if k != 2 {
				codeComps = append(codeComps, comp{name, pl})
			} else {
				dfltComps = append(dfltComps, comp{name, pl})
			}
		}
		// an alias of a component response
		sp.CompResponses["Gone"] = dialect.Response{Ref: "NotFound"}
		codeComps = append(codeComps[:2], append([]comp{{"Gone", codeComps[0].pl}}, codeComps[2:]...)...) // NotFound, Created, Gone, Zeta
		type opinfo struct {
			pi    *dialect.PathItem
			o     *dialect.Op
			plans []c10plan
		}
		var ops []opinfo
		for oi := 0; oi < 5; oi++ {
			o := &dialect.Op{Method: []string{"GET", "POST", "DELETE"}[rng.Intn(3)]}
			item := &dialect.PathItem{Raw: fmt.Sprintf("/r%d", oi), Ops: []*dialect.Op{o}}
			// name derivation: trailing slash, the root path, nested and templated segments, an operationId
			switch {
			case oi == 4 && pi%2 == 0:
				item.Raw = "/r4/"
			case oi == 3 && pi%3 == 0:
				item.Raw = "/"
			case oi == 2 && pi%3 == 1:
				item.Raw = "/r2/sub-item/x_y"
			case oi == 1 && pi%4 == 2:
				o.ID = "list-items_v2"
			}
			ncodes := 1 + rng.Intn(3)
			// every sixth document: one operation documents a component response under one status and an ALIAS of it under
			// another (the same response twice: the generator refuses such a document; were it accepted, the two would share one
			// write method and one of the two statuses would be written for both)
			twice := pi%6 == 4 && oi == 2
			if twice && ncodes < 2 {
				ncodes = 2
			}
			perm := rng.Perm(len(c10Codes))[:ncodes]
			var keys []string
			for _, k := range perm {
				keys = append(keys, c10Codes[k])
			}
			if rng.Intn(2) == 0 || (pi%6 == 5 && oi == 0) {
				keys = append(keys, "default")
			}
			sort.Strings(keys) // the generator walks the responses in sorted key order
			var plans []c10plan
			usedComp := map[string]bool{}
			for _, key := range keys {
				var pl c10plan
				var r dialect.Response
				switch {
				case key == "default" && (rng.Intn(2) == 0 || (pi%6 == 5 && oi == 0)):
					cm := dfltComps[0]
					if pi%6 == 5 && oi == 0 {
						// a component that other operations use under a status code: the generator refuses such a document (a
						// component response is either a default one or a status-coded one); were it accepted, the values below
						// would not fit the generated type and the run would show it
						cm = codeComps[0]
					}
					r, pl = dialect.Response{Status: key, Ref: cm.name}, cm.pl
					stats["component-default"]++
				case key != "default" && twice && len(plans) <= 1:
					cm := codeComps[[]int{0, 2}[len(plans)]]
					r, pl = dialect.Response{Status: key, Ref: cm.name}, cm.pl
					stats["component-and-its-alias"]++
				case key != "default" && !(pi%6 == 5 && oi == 0) && (rng.Intn(3) == 0 || (pi%6 == 5 && oi == 1 && len(plans) == 0)):
					cm := codeComps[rng.Intn(len(codeComps))]
					if pi%6 == 5 && oi == 1 && len(plans) == 0 {
						// every sixth document uses one component both ways, whatever the seed: under a status here (directly
						// or through its alias) and as the default response of the first operation
						cm = codeComps[[]int{0, 2}[pi/6%2]]
					}
					if usedComp[cm.pl.gotype] {
						// (one component response twice in an operation is refused with an error)
						cm = codeComps[(rng.Intn(len(codeComps)))]
					}
					if usedComp[cm.pl.gotype] {
						r, pl = g.c10Response(sp, fmt.Sprintf("O%d%s", oi, strings.Title(key)), &head, pkg)
						pl.gotype = "@Response" + strings.Title(key)
						if pl.kind == "json" {
							pl.gotype += "JSON"
						}
						stats["inline"]++
						break
					}
					usedComp[cm.pl.gotype] = true
					r, pl = dialect.Response{Status: key, Ref: cm.name}, cm.pl
					stats["component"]++
					if cm.name == "Gone" {
						stats["alias"]++
					}
				default:
					r, pl = g.c10Response(sp, fmt.Sprintf("O%d%s", oi, strings.Title(key)), &head, pkg)
					pl.gotype = "@Response" + strings.Title(key)
					if pl.kind == "json" {
						pl.gotype += "JSON"
					}
					stats["inline"]++
				}
				r.Status = key
				pl.status = key
				stats["body-"+pl.kind]++
				o.Responses = append(o.Responses, r)
				plans = append(plans, pl)
			}
			sp.Paths = append(sp.Paths, item)
			ops = append(ops, opinfo{item, o, plans})
		}
		rc := rcase{Pkg: pkg, Spec: sp, FlagBase: bf.Flag, Client: true}
		p := rc.ScratchPkg()
		pkgs = append(pkgs, p)
		lines = append(lines, DLine(p))
		lines = append(lines, head...)
		comps := compSchemas(sp)
		// C02: the response document for the model of the generated response types, and per operation the
		// documented set computed here (every inline response type, every name of each referenced component)
		var yops []string
		for k, op := range ops {
			var rs []string
			for i, pl := range op.plans {
				switch {
				case op.o.Responses[i].Ref != "":
					rs = append(rs, pl.status+":c"+dialect.Hx(op.o.Responses[i].Ref))
				case pl.kind == "json":
					rs = append(rs, pl.status+":i1")
				default:
					rs = append(rs, pl.status+":i0")
				}
			}
			yops = append(yops, fmt.Sprintf("@%d~%s", k, strings.Join(rs, "|")))
		}
		lines = append(lines, "Y "+pkg+" "+strings.Join(yops, "+")+" Created>-,Gone>NotFound,NotFound>-,Unexpected>-,Zeta>-")
		for k, op := range ops {
			exp := map[string]bool{}
			for i, pl := range op.plans {
				switch op.o.Responses[i].Ref {
				case "":
					exp[strings.Replace(pl.gotype, "@", fmt.Sprintf("@%d", k), 1)] = true
				case "NotFound", "Gone":
					exp["NotFoundResponse"], exp["GoneResponse"] = true, true
				default:
					exp[op.o.Responses[i].Ref+"Response"] = true
				}
			}
			var el []string
			for n := range exp {
				el = append(el, n)
			}
			sort.Strings(el)
			lines = append(lines, fmt.Sprintf("I %s @%d %s:%s #exp=%s", pkg, k, op.o.Method, dialect.Hx(op.pi.Raw), strings.Join(el, ",")))
		}
		for _, op := range ops {
			key := op.o.Method + ":" + dialect.Hx(op.pi.Raw)
			var ps []string
			documented := map[int]bool{}
			for _, pl := range op.plans {
				ps = append(ps, c10PlanStr(pl, comps))
				if n, err := strconv.Atoi(pl.status); err == nil {
					documented[n] = true
				}
			}
			lines = append(lines, "W "+pkg+" "+key+" "+strings.Join(ps, "+"))
			or := &oracle{seen: map[string]bool{}}
			var cases []string
			dflt := ""
			for idx, pl := range op.plans {
				if pl.status == "default" {
					dflt = pl.gotype
				}
				for k := 0; k < nval; k++ {
					code := "-"
					if pl.status == "default" {
						for {
							n := []int{200, 201, 299, 300, 302, 400, 418, 499, 500, 599, 600, 999}[rng.Intn(12)]
							if !documented[n] {
								code = strconv.Itoa(n)
								break
							}
						}
					}
					body := "-"
					switch pl.kind {
					case "json":
						body = g.genValue(pl.body, or)
					case "raw":
						body = "Body(" + dialect.Hx(append(rawBodies, "")[rng.Intn(len(rawBodies)+1)]) + ")"
					}
					hdrs := "-"
					if len(pl.headers) > 0 {
						var fs []string
						for _, h := range pl.headers {
							v := c09Value(h.Schema, comps, rng, or, h.Required, false)
							if h.Required {
								fs = append(fs, v)
							} else if rng.Intn(3) == 0 {
								fs = append(fs, "N")
							} else {
								fs = append(fs, "J("+v+")")
							}
						}
						hdrs = "{" + strings.Join(fs, ",") + "}"
					}
					cases = append(cases, fmt.Sprintf("V %s %s %d %s %s %s", pkg, key, idx, code, body, hdrs))
					nV++
				}
			}
			// status codes the operation does not document, from a stub transport
			for _, n := range []int{100, 199, 200, 201, 204, 299, 301, 400, 404, 418, 500, 599} {
				if documented[n] {
					continue
				}
				for _, body := range []string{"", "{}", "null", "[]", "garbage"} {
					exp := "err"
					if dflt != "" {
						exp = "kind:" + dflt + ":" + strconv.Itoa(n)
					}
					cases = append(cases, fmt.Sprintf("X %s %s %d - %s #exp=%s", pkg, key, n, dialect.Hx(body), exp))
					nX++
				}
			}
			lines = append(lines, or.lines...)
			lines = append(lines, cases...)
		}
	}
	return pkgs, lines, map[string]interface{}{"packages_planned": npk, "response_values": nV, "stub_status_cases": nX, "response_shapes": stats}
}

func runC10(c runCfg) error {
	var pkgs []*scratch.Pkg
	var lines []string
	meta := map[string]interface{}{}
	if c.Cases != "" {
		var err error
		lines, err = readLines(c.Cases)
		if err != nil {
			return err
		}
		pkgs = pkgsFromDLines(lines)
	} else {
		pkgs, lines, meta = c10Cases(c)
	}
	root, err := mkRoot(c)
	if err != nil {
		return err
	}
	defer rmRoot(root)
	m, err := scratch.New(root, pkgs)
	if err != nil {
		return err
	}
	m.AddDrivers()
	if err := m.Build(false); err != nil {
		return err
	}
	defer m.Close()
	byName := map[string]*scratch.Pkg{}
	for _, p := range pkgs {
		byName[p.Name] = p
	}
	opname := map[string]string{}
	var ask []string
	for _, p := range pkgs {
		if p.OK() {
			ask = append(ask, p.Name+" OPSN")
		}
	}
	res, err := m.Run(ask)
	if err != nil {
		return err
	}
	k := 0
	for _, p := range pkgs {
		if !p.OK() {
			continue
		}
		for _, e := range strings.Split(strings.TrimPrefix(res[k], "ops="), ",") {
			f := strings.SplitN(e, "=", 2)
			if len(f) == 2 {
				opname[p.Name+" "+f[0]] = f[1]
			}
		}
		k++
	}
	// gotype of each plan, from the W lines
	plans := map[string][]string{}
	for _, l := range lines {
		f := strings.Split(l, " ")
		if f[0] == "W" && len(f) == 4 {
			for _, pl := range strings.Split(f[3], "+") {
				plans[f[1]+" "+f[2]] = append(plans[f[1]+" "+f[2]], strings.Split(pl, "|")[1])
			}
		}
	}
	// operation tokens of the I lines
	opTokens := map[string]map[string]string{}
	for _, l := range lines {
		f := strings.Split(l, " ")
		if f[0] == "I" && len(f) >= 4 {
			if opTokens[f[1]] == nil {
				opTokens[f[1]] = map[string]string{}
			}
			if n, ok := opname[f[1]+" "+f[3]]; ok {
				opTokens[f[1]][f[2]] = n
			}
		}
	}
	impl := make([]string, len(lines))
	var send []string
	var idx []int
	var opOf []string
	for i, l := range lines {
		f := strings.Split(l, " ")
		switch f[0] {
		case "I":
			p := byName[f[1]]
			if p == nil || !p.OK() {
				impl[i] = "SKIP pkg-unavailable"
				continue
			}
			name, ok := opname[f[1]+" "+f[3]]
			if !ok {
				impl[i] = "impl=ERROR:no_such_operation"
				continue
			}
			send = append(send, f[1]+" IMPL "+name)
			idx = append(idx, i)
			opOf = append(opOf, "")
		case "V", "X":
			p := byName[f[1]]
			if p == nil || !p.OK() {
				impl[i] = "SKIP pkg-unavailable"
				continue
			}
			name, ok := opname[f[1]+" "+f[2]]
			if !ok {
				impl[i] = "impl=ERROR:no_such_operation"
				continue
			}
			if f[0] == "X" {
				send = append(send, fmt.Sprintf("%s STAT %s %s %s %s", f[1], name, f[3], f[4], f[5]))
			} else {
				pidx, _ := strconv.Atoi(f[3])
				gts := plans[f[1]+" "+f[2]]
				if pidx >= len(gts) {
					impl[i] = "impl=ERROR:no_such_plan"
					continue
				}
				gt := strings.Replace(gts[pidx], "@", name, 1)
				var parts []string
				if f[4] != "-" {
					parts = append(parts, "I("+f[4]+")")
				}
				if f[5] != "-" {
					// a nullable array written in place is a plain Go slice: null is the nil slice, a value is the slice
					b := f[5]
					if b == "Null" {
						b = "Nil[]"
					} else if b == "P(Nil[])" {
						b = "[]" // (present: the empty, non-nil slice)
					} else if strings.HasPrefix(b, "P([") && strings.HasSuffix(b, "])") {
						b = b[2 : len(b)-1]
					}
					parts = append(parts, b)
				}
				if f[6] != "-" {
					parts = append(parts, f[6])
				}
				send = append(send, fmt.Sprintf("%s RESP %s %s {%s}", f[1], name, gt, strings.Join(parts, ",")))
			}
			idx = append(idx, i)
			opOf = append(opOf, name)
		default:
			impl[i] = "SKIP"
		}
	}
	res, err = m.Run(send)
	if err != nil {
		return err
	}
	for k, i := range idx {
		out := res[k]
		if opOf[k] == "" {
			// I line: type names relative to the operations of the package (@<k> = k-th operation in I-line order)
			f := strings.Split(lines[i], " ")
			var names []string
			for _, n := range strings.Split(strings.TrimPrefix(out, "impl="), ",") {
				for tok, on := range opTokens[f[1]] {
					if strings.HasPrefix(n, on+"Response") {
						n = tok + strings.TrimPrefix(n, on)
						break
					}
				}
				names = append(names, n)
			}
			sort.Strings(names)
			impl[i] = "impl=" + strings.Join(names, ",")
			continue
		}
		// response type names relative to the operation's name
		out = strings.Replace(out, " kind="+opOf[k]+"Response", " kind=@Response", 1)
		impl[i] = out
	}
	return writeFam(c, &famResult{Cases: lines, Impl: impl, Pkgs: pkgs}, meta)
}
