package main

import (
	"encoding/json"
	"fmt"
	"math/rand"
	"net/url"
	"os"
	"path/filepath"
	"sort"
	"strings"

	"verifharness/internal/dialect"
	"verifharness/internal/gen"
	"verifharness/internal/scratch"
)

// ---------------------------------------------------------------------------
// S lines: the router-level projection of a dialect.Spec for the model

type rcase struct {
	Pkg      string
	Spec     *dialect.Spec
	FlagBase string
	Cors     bool
	Client   bool
	SpecName string
}

func hexList(l []string) string {
	if len(l) == 0 {
		return "-"
	}
	var out []string
	for _, x := range l {
		out = append(out, dialect.Hx(x))
	}
	return strings.Join(out, ".")
}

func reqsStr(rs []dialect.Requirement) string {
	if len(rs) == 0 {
		return "e"
	}
	var alts []string
	for _, r := range rs {
		alts = append(alts, strings.Join(r, "+"))
	}
	return strings.Join(alts, "|")
}

// serverPath is what goag computes: url.Parse(url with {var} -> default).Path
func serverPath(s *dialect.Spec) (string, bool) {
	if s.ServerURL == "" {
		return "", false
	}
	raw := s.ServerURL
	for _, k := range dialect.SortedKeys(s.ServerVar) {
		raw = strings.ReplaceAll(raw, "{"+k+"}", s.ServerVar[k])
	}
	u, err := url.Parse(raw)
	if err != nil {
		return "", false
	}
	return u.Path, true
}

func headerNames(ps []dialect.Param, comp map[string]dialect.Param) []string {
	var out []string
	for _, p := range ps {
		if p.Ref != "" {
			p = comp[p.Ref]
		}
		if p.In == "header" {
			out = append(out, p.Name)
		}
	}
	return out
}

func (c rcase) SLine() string {
	s := c.Spec
	srv := "none"
	if p, ok := serverPath(s); ok {
		srv = dialect.Hx(p)
	}
	global := "none"
	if s.HasGlobal {
		global = reqsStr(s.Global)
	}
	schemes := "-"
	if len(s.Schemes) > 0 {
		var l []string
		for _, sc := range s.Schemes {
			l = append(l, sc.Name+":"+sc.Kind+":"+dialect.Hx(sc.Param))
		}
		schemes = strings.Join(l, ",")
	}
	var paths []string
	for _, pi := range s.Paths {
		var ops []string
		for _, o := range pi.Ops {
			sec := "i"
			if o.Security != nil {
				sec = reqsStr(*o.Security)
			}
			ops = append(ops, o.Method+"/"+sec+"/"+hexList(headerNames(o.Params, s.CompParams)))
		}
		paths = append(paths, dialect.Hx(pi.Raw)+"~"+hexList(headerNames(pi.Params, s.CompParams))+"~"+strings.Join(ops, "&"))
	}
	ps := "-"
	if len(paths) > 0 {
		ps = strings.Join(paths, ";")
	}
	name := c.SpecName
	if name == "" {
		name = "openapi.yaml"
	}
	cors := "0"
	if c.Cors {
		cors = "1"
	}
	return fmt.Sprintf("S %s flag=%s srv=%s cors=%s name=%s global=%s schemes=%s paths=%s",
		c.Pkg, dialect.Hx(c.FlagBase), srv, cors, dialect.Hx(name), global, schemes, ps)
}

// RLine builds a request case line (driver fields + the oracle fields the
// model reads: URL.Path and URL.Query() as net/url computes them).
func RLine(pkg, cfg, method, rawurl string, headers [][2]string, body string) string {
	var hb strings.Builder
	for _, h := range headers {
		hb.WriteString(h[0] + ":" + h[1] + "\n")
	}
	path := rawurl
	var qb strings.Builder
	if u, err := url.ParseRequestURI(rawurl); err == nil {
		path = u.Path
		// URL.Query() order of appearance per key is what matters (first value)
		for _, kv := range strings.Split(u.RawQuery, "&") {
			if kv == "" {
				continue
			}
			k, v := kv, ""
			if i := strings.Index(kv, "="); i >= 0 {
				k, v = kv[:i], kv[i+1:]
			}
			k1, err1 := url.QueryUnescape(k)
			v1, err2 := url.QueryUnescape(v)
			if err1 != nil || err2 != nil || strings.Contains(kv, ";") {
				continue
			}
			qb.WriteString(k1 + "=" + v1 + "\n")
		}
	}
	return fmt.Sprintf("R %s %s %s %s %s %s %s %s", pkg, cfg, method, dialect.Hx(rawurl), dialect.Hx(hb.String()),
		dialect.Hx(body), dialect.Hx(path), dialect.Hx(qb.String()))
}

// ---------------------------------------------------------------------------
// template-set generation

type tset struct {
	Templates []string            // raw path templates
	Methods   map[string][]string // per template
}

var routerLits = []string{"a", "b", "c"}

func pathParams(raw string) []dialect.Param {
	var ps []dialect.Param
	for _, seg := range strings.Split(strings.TrimPrefix(raw, "/"), "/") {
		if strings.HasPrefix(seg, "{") && strings.HasSuffix(seg, "}") {
			ps = append(ps, dialect.Param{Name: seg[1 : len(seg)-1], In: "path", Required: true, Schema: &dialect.Schema{Type: "string"}})
		}
	}
	return ps
}

// equivalence key: variables renamed to {}
func equivKey(raw string) string {
	segs := strings.Split(raw, "/")
	for i, s := range segs {
		if strings.HasPrefix(s, "{") {
			segs[i] = "{}"
		}
	}
	return strings.Join(segs, "/")
}

// all templates of depth<=d over {a,b,{v_i},""(last only, depth>=1)}
func enumTemplates(depth int, lits []string) []string {
	var out []string
	var rec func(prefix []string, d int)
	rec = func(prefix []string, d int) {
		if len(prefix) > 0 {
			out = append(out, "/"+strings.Join(prefix, "/"))
		}
		if d == 0 {
			return
		}
		for _, l := range lits {
			rec(append(append([]string{}, prefix...), l), d-1)
		}
		rec(append(append([]string{}, prefix...), fmt.Sprintf("{p%d}", len(prefix)+1)), d-1)
	}
	rec(nil, depth)
	// trailing-slash forms
	n := len(out)
	for i := 0; i < n; i++ {
		if strings.Count(out[i], "/") < depth {
			out = append(out, out[i]+"/")
		}
	}
	out = append(out, "/")
	sort.Strings(out)
	return out
}

func randomTemplate(rng *rand.Rand, maxDepth int, lits []string) string {
	d := 1 + rng.Intn(maxDepth)
	var segs []string
	for i := 0; i < d; i++ {
		if rng.Intn(3) == 0 {
			segs = append(segs, fmt.Sprintf("{p%d}", i+1))
		} else {
			segs = append(segs, lits[rng.Intn(len(lits))])
		}
	}
	t := "/" + strings.Join(segs, "/")
	if rng.Intn(6) == 0 && d < maxDepth {
		t += "/"
	}
	return t
}

var baseForms = []struct {
	Flag, Server string
	Vars         map[string]string
	More         []string // further servers: they never decide the base path
}{
	{"", "", nil, nil},
	{"/v1", "", nil, nil},
	{"/v1/", "", nil, nil},
	{"/", "", nil, nil},
	{"", "https://example.com/api", nil, nil},
	{"", "/api/", nil, nil},
	{"", "/", nil, nil},
	{"", "https://example.com/{b}/x", map[string]string{"b": "v2"}, nil},
	{"", "https://example.com", nil, nil},
	{"/flag", "https://example.com/ignored", nil, nil},
	{"/", "https://example.com/ignored", nil, nil},
	{"/v1/", "https://example.com/ignored/", nil, nil},
	{"", "https://api.example.com", nil, []string{"http://localhost:8080/v2", "/v3"}},
	{"", "https://example.com/first", nil, []string{"https://example.com/second"}},
}

func specFromTemplates(ts tset) *dialect.Spec {
	s := &dialect.Spec{}
	for _, raw := range ts.Templates {
		pi := &dialect.PathItem{Raw: raw, Params: pathParams(raw)}
		for _, m := range ts.Methods[raw] {
			pi.Ops = append(pi.Ops, &dialect.Op{Method: m, Responses: []dialect.Response{{Status: "200"}}})
		}
		s.Paths = append(s.Paths, pi)
	}
	return s
}

func normBase(b string) string { return strings.TrimRight(b, "/") }

// request universe for one template set: every path of depth<=depth over the
// set's literals + a foreign literal + the empty segment, under base-path
// candidates, for declared and undeclared methods.
func requestUniverse(c rcase, ts tset, depth int, cfg string) []string {
	litset := map[string]bool{"zz": true, "": true}
	for _, t := range ts.Templates {
		for _, sg := range strings.Split(strings.TrimPrefix(t, "/"), "/") {
			if !strings.HasPrefix(sg, "{") {
				litset[sg] = true
			}
		}
	}
	var alpha []string
	for l := range litset {
		alpha = append(alpha, l)
	}
	sort.Strings(alpha)
	methods := map[string]bool{"HEAD": true}
	for _, ms := range ts.Methods {
		for _, m := range ms {
			methods[m] = true
		}
	}
	var ml []string
	for m := range methods {
		ml = append(ml, m)
	}
	sort.Strings(ml)
	base := c.FlagBase
	if base == "" {
		if p, ok := serverPath(c.Spec); ok {
			base = p
		}
	}
	nb := normBase(base)
	bases := []string{nb}
	if nb != "" {
		bases = append(bases, "", nb+"x", nb[:len(nb)-1])
	} else {
		bases = append(bases, "/v1")
	}
	var paths []string
	var rec func(prefix string, d int)
	rec = func(prefix string, d int) {
		if prefix != "" {
			paths = append(paths, prefix)
		}
		if d == 0 {
			return
		}
		for _, a := range alpha {
			rec(prefix+"/"+a, d-1)
		}
	}
	rec("", depth)
	var out []string
	for bi, b := range bases {
		for _, p := range paths {
			if bi > 0 && strings.Count(p, "/") > 2 {
				continue // near-miss bases: shallow paths only
			}
			for _, m := range ml {
				out = append(out, RLine(c.Pkg, cfg, m, b+p, nil, ""))
			}
		}
	}
	// the bare base and oddities
	for _, p := range []string{nb, nb + "/", "/", "//", nb + "//a"} {
		if p == "" {
			continue
		}
		out = append(out, RLine(c.Pkg, cfg, ml[0], p, nil, ""))
	}
	return out
}

// ---------------------------------------------------------------------------
// running a batch of cases

type famResult struct {
	Cases []string
	Impl  []string
	Pkgs  []*scratch.Pkg
}

// runFamily generates/builds all packages and executes the R lines.
// lines: S and R lines in order; S lines get "SKIP ..." impl entries that
// carry the generation/build status.
func (rc rcase) ScratchPkg() *scratch.Pkg {
	return &scratch.Pkg{Name: rc.Pkg, Doc: rc.Spec.Doc(), Opts: gen.Options{
		API: true, Client: rc.Client, DoNotEdit: true, BasePath: rc.FlagBase, Cors: rc.Cors, SpecName: rc.SpecName}}
}

// DLine carries the exact document and options of a package, so that a replay
// file is self-contained ("D <pkg> <hex doc> <hex opts json>"; the model skips it).
func DLine(p *scratch.Pkg) string {
	o, _ := json.Marshal(p.Opts)
	return "D " + p.Name + " " + dialect.Hx(string(p.Doc)) + " " + dialect.Hx(string(o))
}

func pkgsFromDLines(lines []string) []*scratch.Pkg {
	var out []*scratch.Pkg
	for _, l := range lines {
		f := strings.Split(l, " ")
		if len(f) >= 4 && f[0] == "D" {
			p := &scratch.Pkg{Name: f[1], Doc: []byte(dialect.UnHx(f[2]))}
			json.Unmarshal([]byte(dialect.UnHx(f[3])), &p.Opts)
			out = append(out, p)
		}
	}
	return out
}

func runFamily(c runCfg, pkgs []*scratch.Pkg, lines []string, race bool) (*famResult, error) {
	root, err := os.MkdirTemp(c.Out, "mod")
	if err != nil {
		return nil, err
	}
	defer os.RemoveAll(root)
	byName := map[string]*scratch.Pkg{}
	for _, p := range pkgs {
		byName[p.Name] = p
	}
	m, err := scratch.New(root, pkgs)
	if err != nil {
		return nil, err
	}
	m.AddDrivers()
	if err := m.Build(race); err != nil {
		return nil, err
	}
	defer m.Close()
	impl := make([]string, len(lines))
	var send []string
	var idx []int
	for i, l := range lines {
		f := strings.SplitN(l, " ", 3)
		if len(f) < 2 {
			impl[i] = "SKIP"
			continue
		}
		p := byName[f[1]]
		switch f[0] {
		case "S":
			st := "accept"
			extra := ""
			if p == nil {
				st = "nopkg"
			} else if p.GenPanic != "" {
				st = "panic"
				extra = " detail=" + dialect.Hx(p.GenPanic)
			} else if p.GenErr != "" {
				st = "reject"
				extra = " detail=" + dialect.Hx(p.GenErr)
			} else if p.BuildErr != "" {
				st = "builderr"
				extra = " detail=" + dialect.Hx(p.BuildErr)
			}
			impl[i] = "status=" + st + " trace=-" + extra
			if st == "reject" && strings.Contains(p.GenErr, "is declared twice") {
				// two elements of the document were given one Go name: the generator may refuse what it cannot translate (C01);
				// the routing / security model has no naming layer, so the refusal is not compared
				impl[i] = "SKIP refused-for-a-name-clash"
			}
		case "R":
			if p == nil || !p.OK() {
				impl[i] = "SKIP pkg-unavailable"
				continue
			}
			// driver line: <pkg> REQ <cfg> <METHOD> <hexurl> <hexheaders> <hexbody>
			g := strings.Split(l, " ")
			send = append(send, strings.Join([]string{g[1], "REQ", g[2], g[3], g[4], g[5], g[6]}, " "))
			idx = append(idx, i)
		default:
			impl[i] = "SKIP"
		}
	}
	res, err := m.Run(send)
	if err != nil {
		return nil, err
	}
	for k, i := range idx {
		impl[i] = res[k]
	}
	return &famResult{Cases: lines, Impl: impl, Pkgs: pkgs}, nil
}

func writeFam(c runCfg, r *famResult, meta map[string]interface{}) error {
	if err := os.WriteFile(filepath.Join(c.Out, "cases.txt"), []byte(strings.Join(r.Cases, "\n")+"\n"), 0o644); err != nil {
		return err
	}
	if err := os.WriteFile(filepath.Join(c.Out, "impl.txt"), []byte(strings.Join(r.Impl, "\n")+"\n"), 0o644); err != nil {
		return err
	}
	var bad []map[string]string
	ok := 0
	for _, p := range r.Pkgs {
		if p.OK() {
			ok++
			continue
		}
		bad = append(bad, map[string]string{"pkg": p.Name, "generr": p.GenErr, "genpanic": p.GenPanic, "builderr": p.BuildErr, "doc": string(p.Doc)})
	}
	// which of the generator's named templates this corpus executed (second generation pass with TEMPLATE_DEBUG in the workers)
	if scratch.Coverage && len(r.Pkgs) > 0 {
		tcov := map[string]int{}
		for _, p := range r.Pkgs {
			for _, t := range p.Templates {
				tcov[t]++
			}
		}
		var never []string
		for _, n := range templateNames() {
			if tcov[n] == 0 {
				never = append(never, n)
			}
		}
		meta["templates_executed"] = tcov
		meta["templates_never_executed_by_name"] = never
	}
	meta["packages"] = len(r.Pkgs)
	meta["packages_ok"] = ok
	meta["packages_bad"] = bad
	bs, _ := json.MarshalIndent(meta, "", " ")
	return os.WriteFile(filepath.Join(c.Out, "meta.json"), bs, 0o644)
}

// replayCases reads S/R lines from a file; specs are rebuilt from S lines.
func readLines(file string) ([]string, error) {
	bs, err := os.ReadFile(file)
	if err != nil {
		return nil, err
	}
	var out []string
	for _, l := range strings.Split(string(bs), "\n") {
		if strings.TrimSpace(l) != "" {
			out = append(out, l)
		}
	}
	return out, nil
}

// mkRoot: a FIXED directory name under the run directory of the property, so that the Go build cache is reused between
// runs (a random name made every run a cache miss and the cache grow without bound)
func mkRoot(c runCfg) (string, error) {
	root := filepath.Join(c.Out, "mod")
	if err := os.RemoveAll(root); err != nil {
		return "", err
	}
	return root, os.MkdirAll(root, 0o755)
}
func rmRoot(root string) { os.RemoveAll(root) }
