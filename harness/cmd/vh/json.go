package main

import (
	"encoding/json"
	"fmt"
	"github.com/getkin/kin-openapi/openapi3"
	"math/rand"
	"sort"
	"strconv"
	"strings"
	"time"

	"verifharness/internal/dialect"
	"verifharness/internal/gen"
	"verifharness/internal/scratch"
)

func init() {
	commands["C06"] = func(c runCfg) error { return runJSON(c, "C06") }
	commands["C07"] = func(c runCfg) error { return runJSON(c, "C07") }
	commands["C08"] = func(c runCfg) error { return runJSON(c, "C08") }
}

// ---------------------------------------------------------------------------
// the JSON schema dialect (reference-erased), mirrored by Coq's jsch

type JS struct {
	Kind    string // str int num bool time any null arr obj
	Bits    int
	Inner   *JS // null, arr
	Members []JM
	Addl    *JS
	AddlAny bool
	Ref     string // emit as $ref to this component (the component holds the same schema)
	Alias   int    // the component Ref is itself only a $ref, through this many components, to the one that holds the schema
}

type JM struct {
	Embed bool
	Name  string
	Req   bool
	S     *JS
}

func (s *JS) Model() string {
	switch s.Kind {
	case "str":
		return "s"
	case "int":
		return fmt.Sprintf("i%d", s.Bits)
	case "num":
		return fmt.Sprintf("f%d", s.Bits)
	case "bool":
		return "b"
	case "time":
		return "t"
	case "any":
		return "y"
	case "null":
		return "n(" + s.Inner.Model() + ")"
	case "arr":
		return "a(" + s.Inner.Model() + ")"
	case "obj":
		var ms []string
		for _, m := range s.Members {
			if m.Embed {
				ms = append(ms, "E:"+m.S.Model())
			} else {
				r := "0"
				if m.Req {
					r = "1"
				}
				ms = append(ms, "F"+dialect.Hx(m.Name)+":"+r+":"+m.S.Model())
			}
		}
		ad := "-"
		if s.AddlAny {
			ad = "y"
		} else if s.Addl != nil {
			ad = s.Addl.Model()
		}
		return "o(" + strings.Join(ms, ";") + "|" + ad + ")"
	}
	return "?"
}

// Dialect converts to the OpenAPI schema; comps collects the components that
// $ref'd sub-schemas need.
func (s *JS) Dialect(comps *[]dialect.Prop) *dialect.Schema {
	if s.Ref != "" {
		has := func(n string) bool {
			for _, c := range *comps {
				if c.Name == n {
					return true
				}
			}
			return false
		}
		name := s.Ref
		if !has(name) {
			// Ref -> RefT -> RefTT ... -> the component that holds the schema
			for i := 0; i < s.Alias; i++ {
				*comps = append(*comps, dialect.Prop{Name: name, Schema: &dialect.Schema{Ref: name + "T"}})
				name += "T"
			}
		}
		if !has(name) {
			cp := *s
			cp.Ref, cp.Alias = "", 0
			*comps = append(*comps, dialect.Prop{Name: name, Schema: nil})
			sc := cp.Dialect(comps)
			for i := range *comps {
				if (*comps)[i].Name == name {
					(*comps)[i].Schema = sc
				}
			}
		}
		return &dialect.Schema{Ref: s.Ref}
	}
	switch s.Kind {
	case "str":
		return &dialect.Schema{Type: "string"}
	case "int":
		f := ""
		if s.Bits == 32 {
			f = "int32"
		} else if s.Bits == 64 {
			f = "int64"
		}
		return &dialect.Schema{Type: "integer", Format: f}
	case "num":
		f := ""
		if s.Bits == 32 {
			f = "float"
		}
		return &dialect.Schema{Type: "number", Format: f}
	case "bool":
		return &dialect.Schema{Type: "boolean"}
	case "time":
		return &dialect.Schema{Type: "string", Format: "date-time"}
	case "any":
		return &dialect.Schema{}
	case "null":
		d := s.Inner.Dialect(comps)
		if d.Ref != "" {
			// nullable applies to the schema itself: only inline inner schemas here
			return d
		}
		d.Nullable = true
		return d
	case "arr":
		return &dialect.Schema{Type: "array", Items: s.Inner.Dialect(comps)}
	case "obj":
		hasEmbed := false
		for _, m := range s.Members {
			if m.Embed {
				hasEmbed = true
			}
		}
		group := func(ms []JM, withAddl bool) *dialect.Schema {
			d := &dialect.Schema{Type: "object"}
			for _, m := range ms {
				d.Props = append(d.Props, dialect.Prop{Name: m.Name, Schema: m.S.Dialect(comps)})
				if m.Req {
					d.Required = append(d.Required, m.Name)
				}
			}
			if withAddl {
				if s.AddlAny {
					d.AddAny = true
				} else if s.Addl != nil {
					d.AddProps = s.Addl.Dialect(comps)
				}
			}
			return d
		}
		if !hasEmbed {
			return group(s.Members, true)
		}
		out := &dialect.Schema{}
		var cur []JM
		flush := func() {
			if len(cur) > 0 {
				out.AllOf = append(out.AllOf, group(cur, false))
				cur = nil
			}
		}
		for _, m := range s.Members {
			if m.Embed {
				flush()
				out.AllOf = append(out.AllOf, m.S.Dialect(comps))
			} else {
				cur = append(cur, m)
			}
		}
		flush()
		return out
	}
	return &dialect.Schema{}
}

// ---------------------------------------------------------------------------
// schema generation

type jgen struct {
	forceEmbed bool // object(..., true) always composes with allOf and its first member is a $ref
	// refAllPrims: every primitive property/item (that is not wrapped in nullable) is a component used by $ref
	refAllPrims bool
	// aliasAllEmbeds: every allOf member given by $ref refers to an alias component (one or two steps from the object)
	aliasAllEmbeds bool
	cycle          int
	noNullAny      bool
	rng            *rand.Rand
	next           int
}

func (g *jgen) prim() *JS {
	pick := g.rng.Intn(9)
	if g.refAllPrims {
		// every primitive kind in turn, so that a reference-rich document has them all
		pick = []int{5, 0, 2, 3, 4, 6, 7, 5, 1}[g.cycle%9]
		g.cycle++
	}
	switch pick {
	case 0, 1:
		return &JS{Kind: "str"}
	case 2:
		return &JS{Kind: "int", Bits: []int{0, 32, 64}[g.rng.Intn(3)]}
	case 3:
		return &JS{Kind: "num", Bits: []int{32, 64}[g.rng.Intn(2)]}
	case 4:
		return &JS{Kind: "bool"}
	case 5:
		return &JS{Kind: "time"}
	case 6:
		return &JS{Kind: "int", Bits: 64}
	case 7:
		return &JS{Kind: "num", Bits: 64}
	}
	return &JS{Kind: "any"}
}

var jsonPropNames = []string{"a", "b", "c", "id", "name", "tag", "user_id", "x-y", "Zed", "v2", "kind", "later", "items", "meta"}

func (g *jgen) value(depth int) *JS {
	switch r := g.rng.Intn(10); {
	case r < 4 || depth <= 0:
		p := g.prim()
		if g.rng.Intn(4) == 0 && p.Kind != "any" {
			return &JS{Kind: "null", Inner: p}
		}
		if p.Kind != "any" && (g.rng.Intn(8) == 0 || g.refAllPrims) {
			// a component of a primitive type, used by reference
			if g.refAllPrims {
				p.Ref = fmt.Sprintf("R%s%d", strings.Title(p.Kind), p.Bits)
			} else {
				p.Ref = g.name()
			}
			p.Alias = g.alias()
		}
		return p
	case r < 6:
		it := g.value(depth - 1)
		if it.Kind == "obj" && it.Ref == "" {
			it.Ref = g.name()
			it.Alias = g.alias()
		}
		a := &JS{Kind: "arr", Inner: it}
		if g.rng.Intn(6) == 0 {
			// an array component, used by reference
			a.Ref = g.name()
			a.Alias = g.alias()
		}
		return a
	default:
		o := g.object(depth-1, false)
		if g.rng.Intn(2) == 0 {
			o.Ref = g.name()
			o.Alias = g.alias()
		}
		return o
	}
}

// alias: how many alias components ({$ref} only) stand between a reference and the component that holds the schema
func (g *jgen) alias() int {
	if g.rng.Intn(4) == 0 {
		return 1 + g.rng.Intn(2)
	}
	return 0
}

func (g *jgen) name() string {
	g.next++
	return fmt.Sprintf("C%d", g.next)
}

func (g *jgen) fields(depth, n int, used map[string]bool) []JM {
	var ms []JM
	for len(ms) < n {
		nm := jsonPropNames[g.rng.Intn(len(jsonPropNames))]
		if used[nm] {
			if len(used) >= len(jsonPropNames) {
				break
			}
			continue
		}
		used[nm] = true
		ms = append(ms, JM{Name: nm, Req: g.rng.Intn(2) == 0, S: g.value(depth)})
	}
	sort.Slice(ms, func(i, j int) bool { return ms[i].Name < ms[j].Name })
	return ms
}

func (g *jgen) object(depth int, allowEmbed bool) *JS {
	o := &JS{Kind: "obj"}
	used := map[string]bool{}
	if allowEmbed && (g.rng.Intn(2) == 0 || g.forceEmbed) {
		// allOf with $ref members and inline groups, in random order
		parts := 2 + g.rng.Intn(2)
		for i := 0; i < parts; i++ {
			if g.rng.Intn(2) == 0 || (g.forceEmbed && i == 0) {
				e := &JS{Kind: "obj", Ref: g.name(), Alias: g.alias()}
				if g.aliasAllEmbeds {
					e.Alias = 1 + g.rng.Intn(2)
				}
				e.Members = g.fields(depth, g.rng.Intn(3), used)
				if g.rng.Intn(3) == 0 {
					for j := range e.Members {
						e.Members[j].Req = false // all-optional embedded member
					}
				}
				if g.rng.Intn(5) == 0 {
					// an embedded member that itself declares additionalProperties (D28)
					e.AddlAny = true
				}
				o.Members = append(o.Members, JM{Embed: true, S: e})
			} else {
				o.Members = append(o.Members, g.fields(depth, 1+g.rng.Intn(2), used)...)
			}
		}
		// consecutive inline members are emitted as ONE inline object, whose
		// properties goag orders by name
		for i := 0; i < len(o.Members); {
			j := i
			for j < len(o.Members) && !o.Members[j].Embed {
				j++
			}
			run := o.Members[i:j]
			sort.Slice(run, func(a, b int) bool { return run[a].Name < run[b].Name })
			if j == i {
				j++
			}
			i = j
		}
		return o
	}
	o.Members = g.fields(depth, g.rng.Intn(4), used)
	switch g.rng.Intn(6) {
	case 0:
		o.AddlAny = true
	case 1:
		o.Addl = &JS{Kind: []string{"str", "int", "bool"}[g.rng.Intn(3)]}
		if o.Addl.Kind == "int" {
			o.Addl.Bits = 64
		}
	case 2:
		// nullable values in the map (Nullable[T] reaches the encoder by value there)
		o.Addl = &JS{Kind: "null", Inner: &JS{Kind: []string{"str", "bool"}[g.rng.Intn(2)]}}
	}
	return o
}

// ---------------------------------------------------------------------------
// values (canonical Dump syntax) and documents

var jStrings = []string{"", "x", "hello world", "quote\"back\\slash", "tab\tnl\n", "<html>&amp;", "ünï¢ödé", "日本語", "😀", " ", "a/b", "null"}
var jInts = []int64{0, 1, -1, 42, 2147483647, -2147483648, 9223372036854775807, -9223372036854775808}
var jFloats = []float64{0, 1.5, -2.25, 1e21, 1e-7, 3.4028234663852886e38, 5e-324, 123456789.125}
var jTimes = []string{"2024-01-02T03:04:05Z", "2024-01-02T03:04:05.123456789+02:00", "1999-12-31T23:59:59-07:30"}

type oracle struct {
	seen  map[string]bool
	lines []string
}

func (o *oracle) add(l string) {
	if !o.seen[l] {
		o.seen[l] = true
		o.lines = append(o.lines, l)
	}
}

func (o *oracle) timeFmt(repr string, t time.Time) {
	o.add("O timefmt " + dialect.Hx(repr) + " " + dialect.Hx(t.Format(time.RFC3339Nano)))
	// and the inverse, for decoding what was encoded
	o.add("O time " + dialect.Hx(t.Format(time.RFC3339Nano)) + " " + dialect.Hx(repr))
}

func (o *oracle) num(lit string) {
	for _, bits := range []int{32, 64} {
		r := "ERR"
		if f, err := strconv.ParseFloat(lit, bits); err == nil {
			r = dialect.Hx(strconv.FormatFloat(f, 'g', -1, bits))
		}
		o.add(fmt.Sprintf("O num %d %s %s", bits, dialect.Hx(lit), r))
	}
}

func (o *oracle) timeLit(s string) {
	r := "ERR"
	if t, err := time.Parse(time.RFC3339Nano, s); err == nil {
		_, off := t.Zone()
		r = dialect.Hx(fmt.Sprintf("%d,%d", t.UnixNano(), off))
	}
	o.add("O time " + dialect.Hx(s) + " " + r)
}

// genValue: a random value of the Go type generated for s, in Dump syntax
func (g *jgen) genValue(s *JS, o *oracle) string {
	switch s.Kind {
	case "str":
		return "S(" + dialect.Hx(jStrings[g.rng.Intn(len(jStrings))]) + ")"
	case "int":
		v := jInts[g.rng.Intn(len(jInts))]
		if s.Bits == 32 && (v > 2147483647 || v < -2147483648) {
			v = 7
		}
		return "I(" + strconv.FormatInt(v, 10) + ")"
	case "num":
		f := jFloats[g.rng.Intn(len(jFloats))]
		if s.Bits == 32 {
			f = float64(float32(f))
			if f == 0 && g.rng.Intn(2) == 0 {
				f = 0.5
			}
		}
		txt := strconv.FormatFloat(f, 'g', -1, s.Bits)
		// what the JSON encoder writes for it, and how that text decodes again
		js, _ := json.Marshal(f)
		if s.Bits == 32 {
			js, _ = json.Marshal(float32(f))
		}
		o.num(string(js))
		o.num(txt) // the model writes the canonical text itself
		return "F(" + txt + ")"
	case "bool":
		return []string{"B(0)", "B(1)"}[g.rng.Intn(2)]
	case "time":
		t, _ := time.Parse(time.RFC3339Nano, jTimes[g.rng.Intn(len(jTimes))])
		_, off := t.Zone()
		repr := fmt.Sprintf("%d,%d", t.UnixNano(), off)
		o.timeFmt(repr, t)
		return "T(" + repr + ")"
	case "any":
		raw := []string{`1`, `"s"`, `null`, `{"k":[1,2]}`, `[true]`, `1.5e3`}[g.rng.Intn(6)]
		if g.noNullAny && raw == `null` {
			// (OpenAPI 3.0: a schema without nullable:true does not admit null; C09 sends only valid documents)
			raw = `0`
		}
		return "Raw(" + dialect.Hx(raw) + ")"
	case "null":
		if g.rng.Intn(3) == 0 {
			return "Null"
		}
		return "P(" + g.genValue(s.Inner, o) + ")"
	case "arr":
		if g.rng.Intn(7) == 0 {
			return "Nil[]" // a nil slice: must encode as [] (null only where the schema is nullable)
		}
		n := g.rng.Intn(4)
		var parts []string
		for i := 0; i < n; i++ {
			parts = append(parts, g.genValue(s.Inner, o))
		}
		if s.Inner.Kind == "arr" && g.rng.Intn(2) == 0 {
			// an array of arrays: every other value has a nil inner slice next to non-nil ones
			parts = append(parts, "Nil[]")
		}
		return "[" + strings.Join(parts, ",") + "]"
	case "obj":
		var parts []string
		for _, m := range s.Members {
			if m.Embed {
				parts = append(parts, g.genValue(m.S, o))
				continue
			}
			v := g.genValue(m.S, o)
			if m.Req {
				parts = append(parts, v)
			} else if g.rng.Intn(2) == 0 {
				parts = append(parts, "N")
			} else {
				parts = append(parts, "J("+v+")")
			}
		}
		if s.AddlAny || s.Addl != nil {
			n := g.rng.Intn(3)
			var kv []string
			keys := []string{"extra", "k2", "zz", "with space", "q\"uote", "bell\x07", "del\x7f", "ctl\x01\x1f", "ls\u2028", "tag\U000E0001", "back\\slash", "nl\n", "é", "😀"}
			g.rng.Shuffle(len(keys), func(i, j int) { keys[i], keys[j] = keys[j], keys[i] })
			ks := keys[:n]
			sort.Strings(ks)
			for _, k := range ks {
				var v string
				if s.AddlAny {
					v = "Raw(" + dialect.Hx([]string{`1`, `"s"`, `{"k":1}`}[g.rng.Intn(3)]) + ")"
				} else {
					v = g.genValue(s.Addl, o)
				}
				kv = append(kv, dialect.Hx(k)+"="+v)
			}
			parts = append(parts, "M{"+strings.Join(kv, ",")+"}")
		}
		return "{" + strings.Join(parts, ",") + "}"
	}
	return "?"
}

// declared property names of an object schema, embedded members included
func (s *JS) declared(out map[string]bool) {
	for _, m := range s.Members {
		if m.Embed {
			m.S.declared(out)
		} else {
			out[m.Name] = true
		}
	}
}

func (s *JS) hasAddl() bool {
	if s.AddlAny || s.Addl != nil {
		return true
	}
	for _, m := range s.Members {
		if m.Embed && m.S.hasAddl() {
			return true
		}
	}
	return false
}

// genDoc: a JSON document valid for s, built from the schema alone
func (g *jgen) genDoc(s *JS, o *oracle) interface{} {
	switch s.Kind {
	case "str":
		return jStrings[g.rng.Intn(len(jStrings))]
	case "int":
		v := jInts[g.rng.Intn(len(jInts))]
		if s.Bits == 32 && (v > 2147483647 || v < -2147483648) {
			v = 7
		}
		return json.Number(strconv.FormatInt(v, 10))
	case "num":
		lit := []string{"0", "1.5", "-2.25", "1e3", "2E-2", "7", "-0", "123456789.125"}[g.rng.Intn(8)]
		o.num(lit)
		return json.Number(lit)
	case "bool":
		return g.rng.Intn(2) == 0
	case "time":
		t := jTimes[g.rng.Intn(len(jTimes))]
		o.timeLit(t)
		tm, _ := time.Parse(time.RFC3339Nano, t)
		_, off := tm.Zone()
		o.timeFmt(fmt.Sprintf("%d,%d", tm.UnixNano(), off), tm)
		return t
	case "any":
		return []interface{}{json.Number("1"), "s", map[string]interface{}{"k": json.Number("1")}, []interface{}{true}}[g.rng.Intn(4)]
	case "null":
		if g.rng.Intn(3) == 0 {
			return nil
		}
		return g.genDoc(s.Inner, o)
	case "arr":
		n := g.rng.Intn(4)
		out := []interface{}{}
		for i := 0; i < n; i++ {
			out = append(out, g.genDoc(s.Inner, o))
		}
		return out
	case "obj":
		m := map[string]interface{}{}
		g.fillDoc(s, m, o)
		return m
	}
	return nil
}

func (g *jgen) fillDoc(s *JS, m map[string]interface{}, o *oracle) {
	for _, mm := range s.Members {
		if mm.Embed {
			g.fillDoc(mm.S, m, o)
			continue
		}
		if mm.Req || g.rng.Intn(2) == 0 {
			m[mm.Name] = g.genDoc(mm.S, o)
		}
	}
	if s.AddlAny || s.Addl != nil {
		for n := g.rng.Intn(3); n > 0; n-- {
			k := []string{"extra", "k2", "zz"}[g.rng.Intn(3)]
			if s.AddlAny {
				m[k] = []interface{}{json.Number("1"), "s"}[g.rng.Intn(2)]
			} else {
				m[k] = g.genDoc(s.Addl, o)
			}
		}
	}
}

// wrong-type replacement for a schema's JSON type
func wrongType(s *JS) interface{} {
	switch s.Kind {
	case "str", "time":
		return json.Number("12")
	case "int", "num":
		return "twelve"
	case "bool":
		return "yes"
	case "arr":
		return map[string]interface{}{"not": "array"}
	case "obj":
		return []interface{}{json.Number("1")}
	case "null":
		return wrongType(s.Inner)
	}
	return nil
}

// marshalDoc prints a document with a seeded key order
func marshalDoc(v interface{}, rng *rand.Rand) string {
	switch x := v.(type) {
	case map[string]interface{}:
		keys := make([]string, 0, len(x))
		for k := range x {
			keys = append(keys, k)
		}
		sort.Strings(keys)
		rng.Shuffle(len(keys), func(i, j int) { keys[i], keys[j] = keys[j], keys[i] })
		var parts []string
		for _, k := range keys {
			kb, _ := json.Marshal(k)
			parts = append(parts, string(kb)+":"+marshalDoc(x[k], rng))
		}
		return "{" + strings.Join(parts, ",") + "}"
	case []interface{}:
		var parts []string
		for _, e := range x {
			parts = append(parts, marshalDoc(e, rng))
		}
		return "[" + strings.Join(parts, ",") + "]"
	case json.Number:
		return string(x)
	default:
		b, _ := json.Marshal(x)
		return string(b)
	}
}

// ---------------------------------------------------------------------------
// the check

func runJSON(c runCfg, prop string) error {
	var pkgs []*scratch.Pkg
	var lines []string
	meta := map[string]interface{}{}
	if c.Cases != "" {
		var err error
		lines, err = readLines(c.Cases)
		if err != nil {
			return err
		}
		pkgs = pkgsFromDLines(lines)
	} else {
		pkgs, lines, meta = jsonCases(c, prop)
	}
	root, err := mkRoot(c)
	if err != nil {
		return err
	}
	defer rmRoot(root)
	m, err := scratch.New(root, pkgs)
	if err != nil {
		return err
	}
	m.AddDrivers()
	if err := m.Build(false); err != nil {
		return err
	}
	defer m.Close()
	byName := map[string]*scratch.Pkg{}
	for _, p := range pkgs {
		byName[p.Name] = p
	}
	impl := make([]string, len(lines))
	var send []string
	var idx []int
	for i, l := range lines {
		f := strings.Split(l, " ")
		switch f[0] {
		case "D":
			p := byName[f[1]]
			st := "accept"
			extra := ""
			if p.GenPanic != "" {
				st, extra = "panic", " detail="+dialect.Hx(p.GenPanic)
			} else if p.GenErr != "" {
				st, extra = "reject", " detail="+dialect.Hx(p.GenErr)
			} else if p.BuildErr != "" {
				st, extra = "builderr", " detail="+dialect.Hx(p.BuildErr)
			}
			impl[i] = "SKIP gen=" + st + extra
		case "UB", "XB":
			p := byName[f[1]]
			if p == nil || !p.OK() {
				impl[i] = "SKIP pkg-unavailable"
				continue
			}
			send = append(send, fmt.Sprintf("%s REQ authdflt=any,reenc=1 POST %s %s %s", f[1], dialect.Hx("/t/"+f[2]), dialect.Hx("Content-Type:application/json\n"), f[3]))
			idx = append(idx, i)
		case "N":
			// encoding/json itself on string texts (Model/JsonString.v is a transcription of it)
			if len(f) == 3 && f[1] == "jq" {
				bs, err := json.Marshal(dialect.UnHx(f[2]))
				if err != nil {
					impl[i] = "impl=ERR"
				} else {
					impl[i] = "impl=" + dialect.Hx(string(bs))
				}
			} else if len(f) == 3 && f[1] == "ju" {
				var out string
				in := dialect.UnHx(f[2])
				if strings.TrimSpace(in) != in {
					// (white space around a value is the business of encoding/json's value scanner, not of the string literal)
					impl[i] = "impl=ERR"
				} else if err := json.Unmarshal([]byte(in), &out); err != nil {
					impl[i] = "impl=ERR"
				} else {
					impl[i] = "impl=ok:" + dialect.Hx(out)
				}
			} else {
				impl[i] = "SKIP"
			}
		case "E", "U", "EO", "UO", "EK":
			p := byName[f[1]]
			if p == nil || !p.OK() {
				impl[i] = "SKIP pkg-unavailable"
				continue
			}
			verb := map[string]string{"E": "RT", "U": "DEC", "EO": "RT", "UO": "DEC", "EK": "RT"}[f[0]]
			send = append(send, f[1]+" "+verb+" "+f[2]+" "+f[3])
			idx = append(idx, i)
		default:
			impl[i] = "SKIP"
		}
	}
	res, err := m.Run(send)
	if err != nil {
		return err
	}
	for k, i := range idx {
		impl[i] = res[k]
		if strings.HasPrefix(lines[i], "UB ") || strings.HasPrefix(lines[i], "XB ") {
			// the server's Parse(): accepted (with the JSON the parsed body re-encodes to) or rejected (with the error)
			kv := map[string]string{}
			for _, t := range strings.Fields(res[k]) {
				if j := strings.Index(t, "="); j > 0 {
					kv[t[:j]] = t[j+1:]
				}
			}
			switch {
			case strings.HasPrefix(kv["parse"], "Err("):
				impl[i] = "impl=" + kv["parse"]
			case strings.HasPrefix(kv["reenc"], "json:"):
				impl[i] = "impl=OK reenc=" + strings.TrimPrefix(kv["reenc"], "json:")
			default:
				impl[i] = "impl=NOOBS:" + dialect.Hx(res[k])
			}
		}
	}
	// EK lines: the implementation's JSON judged by kin-openapi's validator against the component schema
	loaded := map[string]*openapi3.Swagger{}
	for i, l := range lines {
		f := strings.Split(l, " ")
		if f[0] != "EK" || len(f) < 4 || !strings.HasPrefix(impl[i], "impl=") {
			continue
		}
		p := byName[f[1]]
		if p == nil {
			continue
		}
		sw, ok := loaded[f[1]]
		if !ok {
			sw, _ = openapi3.NewSwaggerLoader().LoadSwaggerFromData(p.Doc)
			loaded[f[1]] = sw
		}
		hexjson := strings.TrimPrefix(strings.Fields(impl[i])[0], "impl=")
		verdict := "unavailable"
		if sw != nil && sw.Components.Schemas[f[2]] != nil {
			var v interface{}
			if err := json.Unmarshal([]byte(dialect.UnHx(hexjson)), &v); err != nil {
				verdict = "invalidjson"
			} else if err := sw.Components.Schemas[f[2]].Value.VisitJSON(v); err != nil {
				verdict = "no:" + dialect.Hx(err.Error())
			} else {
				verdict = "ok"
			}
		}
		impl[i] += " kin=" + verdict
	}
	return writeFam(c, &famResult{Cases: lines, Impl: impl, Pkgs: pkgs}, meta)
}

func jsonCases(c runCfg, prop string) ([]*scratch.Pkg, []string, map[string]interface{}) {
	serverBody := map[string]bool{}
	rng := rand.New(rand.NewSource(c.Seed))
	g := &jgen{rng: rng}
	npk := 12
	per := 8
	nval := 12
	if c.Thorough {
		npk, nval = 80, 40
	}
	var pkgs []*scratch.Pkg
	var lines []string
	nE, nU := 0, 0
	kinds := map[string]int{}
	for pi := 0; pi < npk; pi++ {
		sp := &dialect.Spec{}
		pkg := fmt.Sprintf("p%04d", pi)
		var tops []*JS
		var names []string
		var comps []dialect.Prop
		for ti := 0; ti < per; ti++ {
			var s *JS
			switch rng.Intn(6) {
			case 0:
				s = &JS{Kind: "arr", Inner: g.value(1)}
				if s.Inner.Kind == "null" {
					s.Inner = s.Inner.Inner
				}
				if s.Inner.Kind == "obj" && s.Inner.Ref == "" {
					s.Inner.Ref = g.name()
				}
			default:
				s = g.object(2, true)
			}
			nm := fmt.Sprintf("T%d", ti)
			s.Ref = nm
			s.Alias = g.alias()
			s.Dialect(&comps)
			tops = append(tops, s)
			names = append(names, nm)
			kinds[s.Kind]++
		}
		// one type whose every property is a primitive component reached through two alias components, scalar and as array items
		{
			mk := func(kind string, bits int) *JS {
				return &JS{Kind: kind, Bits: bits, Ref: fmt.Sprintf("Al%s%d", strings.Title(kind), bits), Alias: 2}
			}
			s := &JS{Kind: "obj", Ref: "TAl", Alias: pi % 3, Members: []JM{
				{Name: "b", Req: true, S: mk("bool", 0)}, {Name: "i", Req: true, S: mk("int", 64)}, {Name: "n", Req: false, S: mk("num", 64)},
				{Name: "s", Req: true, S: mk("str", 0)}, {Name: "t", Req: true, S: mk("time", 0)},
				{Name: "ts", Req: false, S: &JS{Kind: "arr", Inner: mk("time", 0)}}, {Name: "us", Req: false, S: &JS{Kind: "arr", Inner: mk("int", 64)}},
			}}
			s.Dialect(&comps)
			tops = append(tops, s)
			names = append(names, "TAl")
			kinds[s.Kind]++
		}
		// one type that combines nullable with arrays of arrays written in place (nil inner slices are [] at every depth, null
		// only where the schema says nullable)
		{
			i64 := func() *JS { return &JS{Kind: "int", Bits: 64} }
			s := &JS{Kind: "obj", Ref: "TGrid", Members: []JM{
				{Name: "cells", Req: false, S: &JS{Kind: "null", Inner: &JS{Kind: "arr", Inner: i64()}}},
				{Name: "grid", Req: true, S: &JS{Kind: "null", Inner: &JS{Kind: "arr", Inner: &JS{Kind: "arr", Inner: i64()}}}},
				{Name: "id", Req: true, S: &JS{Kind: "str"}},
				{Name: "opt", Req: false, S: &JS{Kind: "null", Inner: &JS{Kind: "arr", Inner: &JS{Kind: "arr", Inner: &JS{Kind: "str"}}}}},
				{Name: "rows", Req: false, S: &JS{Kind: "arr", Inner: &JS{Kind: "arr", Inner: i64()}}},
			}}
			s.Dialect(&comps)
			tops = append(tops, s)
			names = append(names, "TGrid")
			kinds[s.Kind]++
		}
		// oneOf types (variant choice modelled in Model/OneOf.v): variants told apart by a required key of
		// their own, or by a discriminator whose mapping is partial / complete / absent
		var oneOfLines []string
		for oi := 0; oi < 3; oi++ {
			nv := 2 + rng.Intn(3)
			var vnames []string
			for vi := 0; vi < nv; vi++ {
				vn := fmt.Sprintf("V%d%c", oi, 'a'+vi)
				vnames = append(vnames, vn)
				props := []dialect.Prop{
					{Name: fmt.Sprintf("k%d", vi), Schema: &dialect.Schema{Type: "string"}},
					{Name: "kind", Schema: &dialect.Schema{Type: "string"}},
					{Name: "z", Schema: &dialect.Schema{Type: "integer", Format: "int64"}},
				}
				comps = append(comps, dialect.Prop{Name: vn, Schema: &dialect.Schema{Type: "object", Props: props, Required: []string{fmt.Sprintf("k%d", vi), "kind"}}})
			}
			one := &dialect.Schema{}
			for _, vn := range vnames {
				one.OneOf = append(one.OneOf, &dialect.Schema{Ref: vn})
			}
			// discriminator names accepted for each variant: its schema name, plus the explicit mapping keys
			accepted := make([][]string, nv)
			for vi, vn := range vnames {
				accepted[vi] = []string{vn}
			}
			switch oi {
			case 1: // partial mapping: explicit names for some variants only (never only the last one)
				one.DiscProp = "kind"
				one.DiscMap = map[string]string{}
				for vi := 0; vi < nv-1; vi += 2 {
					alias := fmt.Sprintf("alias%d", vi)
					one.DiscMap[alias] = vnames[vi]
					accepted[vi] = append(accepted[vi], alias)
				}
			case 2: // complete mapping, two names for the first variant
				one.DiscProp = "kind"
				one.DiscMap = map[string]string{"first": vnames[0]}
				accepted[0] = append(accepted[0], "first")
				for vi, vn := range vnames {
					// (discriminator values are free text: bytes that HTML or URL escapers rewrite, an apostrophe, a space)
					alias := fmt.Sprintf("name%d", vi) + []string{"", "&co", "<b>", "'s", " x", "%41", "+1"}[(vi+pi)%7]
					one.DiscMap[alias] = vn
					accepted[vi] = append(accepted[vi], alias)
				}
			}
			on := fmt.Sprintf("One%d", oi)
			comps = append(comps, dialect.Prop{Name: on, Schema: one})
			// the model's description: discriminator key, the cases of the generated switch (variant index: accepted names), the variants' schemas
			var vmodels, caseStrs []string
			for vi := range vnames {
				vs := &JS{Kind: "obj", Members: []JM{
					{Name: fmt.Sprintf("k%d", vi), Req: true, S: &JS{Kind: "str"}},
					{Name: "kind", Req: true, S: &JS{Kind: "str"}},
					{Name: "z", Req: false, S: &JS{Kind: "int", Bits: 64}}}}
				vmodels = append(vmodels, vs.Model())
				var hs []string
				for _, a := range accepted[vi] {
					hs = append(hs, dialect.Hx(a))
				}
				caseStrs = append(caseStrs, strconv.Itoa(vi)+":"+strings.Join(hs, "."))
			}
			keyStr, casesStr := "-", "-"
			if one.DiscProp != "" {
				keyStr, casesStr = dialect.Hx(one.DiscProp), strings.Join(caseStrs, ",")
			}
			oneOfLines = append(oneOfLines, "JO "+pkg+" "+on+" "+keyStr+" "+casesStr+" "+strings.Join(vmodels, "+"))
			// documents for the decoder: a valid document of a random variant, then single changes of it
			for k := 0; k < nval; k++ {
				vi := rng.Intn(nv)
				kind := accepted[vi][rng.Intn(len(accepted[vi]))]
				if oi == 0 {
					kind = jStrings[rng.Intn(len(jStrings))]
				}
				doc := map[string]interface{}{fmt.Sprintf("k%d", vi): jStrings[rng.Intn(len(jStrings))], "kind": kind}
				if rng.Intn(2) == 0 {
					doc["z"] = jInts[rng.Intn(len(jInts))]
				}
				exp := "valid"
				switch rng.Intn(10) {
				case 0:
					delete(doc, "kind")
					exp = "nokind"
				case 1:
					doc["kind"] = "nobody"
					exp = "unknownkind"
				case 2:
					other := (vi + 1) % nv
					doc["kind"] = accepted[other][len(accepted[other])-1]
					exp = "otherkind"
				case 3:
					doc[fmt.Sprintf("k%d", (vi+1)%nv)] = "also"
					exp = "twovariants"
				case 4:
					doc["kind"] = []interface{}{5, nil, true, map[string]interface{}{}}[rng.Intn(4)]
					exp = "kindtype"
					if doc["kind"] == nil {
						// (encoding/json leaves a string untouched on null: with a discriminator the name is "", without one the
						//  variant's own `kind` property takes null like any other property does — outside C08's strictness claim)
						exp = "kindnull"
					}
				case 5:
					delete(doc, fmt.Sprintf("k%d", vi))
					exp = "norequired"
				case 6:
					doc["z"] = "seven"
					exp = "wrongtype"
				}
				text := marshalDoc(doc, rng)
				if r := rng.Intn(40); r < 4 {
					text = []string{"null", "[]", `"x"`, "5"}[r]
					exp = "notobject"
				} else if r == 4 && one.DiscProp != "" {
					// the discriminator twice: the last one decides
					text = `{"kind":"nobody",` + text[1:]
					exp = "dupkind"
				}
				oneOfLines = append(oneOfLines, "UO "+pkg+" "+on+" "+dialect.Hx(text)+" #exp="+exp)
				nU++
			}
			for k := 0; k < nval; k++ {
				vi := rng.Intn(nv)
				kind := accepted[vi][rng.Intn(len(accepted[vi]))]
				if oi == 0 {
					kind = jStrings[rng.Intn(len(jStrings))]
				}
				z := "N"
				if rng.Intn(2) == 0 {
					z = "J(I(" + strconv.FormatInt(jInts[rng.Intn(len(jInts))], 10) + "))"
				}
				val := "{S(" + dialect.Hx(jStrings[1+rng.Intn(len(jStrings)-1)]) + "),S(" + dialect.Hx(kind) + ")," + z + "}"
				var fs []string
				for j := 0; j < nv; j++ {
					if j == vi {
						fs = append(fs, "J("+val+")")
					} else {
						fs = append(fs, "N")
					}
				}
				oneOfLines = append(oneOfLines, "EO "+pkg+" "+on+" {"+strings.Join(fs, ",")+"}")
				nE++
			}
		}
		// an array whose items are a oneOf defined in place (NOT modelled: the encoding is judged by kin-openapi's schema
		// validator against the component schema, the round trip against the sent value)
		{
			itemOne := &dialect.Schema{OneOf: []*dialect.Schema{{Type: "string"}, {Type: "integer", Format: "int64"}, {Ref: "V0a"}}}
			comps = append(comps, dialect.Prop{Name: "TOneArr", Schema: &dialect.Schema{Type: "object", Required: []string{"id"}, Props: []dialect.Prop{
				{Name: "entries", Schema: &dialect.Schema{Type: "array", Items: itemOne}},
				{Name: "id", Schema: &dialect.Schema{Type: "string"}}}}})
			for k := 0; k < nval/2; k++ {
				var els []string
				for e := 0; e < rng.Intn(4); e++ {
					switch rng.Intn(3) {
					case 0:
						els = append(els, "{J(S("+dialect.Hx(jStrings[rng.Intn(len(jStrings))])+")),N,N}")
					case 1:
						els = append(els, "{N,J(I("+strconv.FormatInt(jInts[rng.Intn(len(jInts))], 10)+")),N}")
					default:
						els = append(els, "{N,N,J({S("+dialect.Hx("k")+"),S("+dialect.Hx("V0a")+"),N})}")
					}
				}
				entries := "N"
				if k%4 != 3 {
					entries = "J([" + strings.Join(els, ",") + "])"
				}
				oneOfLines = append(oneOfLines, "EK "+pkg+" TOneArr {"+entries+",S("+dialect.Hx("id"+strconv.Itoa(k))+")}")
				nE++
			}
		}
		sp.CompSchemas = comps
		// one operation so that handler.go/router.go exist
		sp.Paths = []*dialect.PathItem{{Raw: "/x", Ops: []*dialect.Op{{Method: "GET", Responses: []dialect.Response{{Status: "200"}}}}}}
		// the object types as request bodies (C08: "this holds for request bodies parsed by the server as well"): in place by $ref to
		// the schema, and through components.requestBodies
		sp.CompBodies = map[string]dialect.Body{}
		bodyOps := 0
		for ti, s := range tops {
			if s.Kind != "obj" || bodyOps >= 4 {
				continue
			}
			b := dialect.Body{Content: "application/json", Schema: &dialect.Schema{Ref: names[ti]}, Required: true}
			if bodyOps%2 == 0 {
				sp.CompBodies["RB"+names[ti]] = b
				b = dialect.Body{Ref: "RB" + names[ti]}
			}
			// (the same type is the body of the 200 response: E values are also written by the generated Write)
			sp.Paths = append(sp.Paths, &dialect.PathItem{Raw: "/t/" + names[ti], Ops: []*dialect.Op{{Method: "POST", Body: &b,
				Responses: []dialect.Response{{Status: "200", Content: "application/json", Schema: &dialect.Schema{Ref: names[ti]}}}}}})
			serverBody[pkg+" "+names[ti]] = true
			bodyOps++
		}
		// a nullable object component that IS the request body (by $ref): null is a valid body, and the required key is still
		// demanded of an object (not modelled: expectations by hand)
		sp.CompSchemas = append(sp.CompSchemas, dialect.Prop{Name: "NBody", Schema: &dialect.Schema{Type: "object", Nullable: true, Required: []string{"login"},
			Props: []dialect.Prop{{Name: "login", Schema: &dialect.Schema{Type: "string"}}, {Name: "note", Schema: &dialect.Schema{Type: "string"}}}}})
		sp.Paths = append(sp.Paths, &dialect.PathItem{Raw: "/t/NBody", Ops: []*dialect.Op{{Method: "POST",
			Body: &dialect.Body{Content: "application/json", Schema: &dialect.Schema{Ref: "NBody"}, Required: true}, Responses: []dialect.Response{{Status: "200"}}}}})
		p := &scratch.Pkg{Name: pkg, Doc: sp.Doc(), Opts: gen.Options{API: true, DoNotEdit: true}}
		pkgs = append(pkgs, p)
		lines = append(lines, DLine(p))
		for _, xb := range [][2]string{{"null", "accept"}, {`{"login":"x"}`, "accept"}, {`{"login":"x","note":"n"}`, "accept"}, {`{}`, "reject"}, {`{"note":"n"}`, "reject"},
			{`{"login":1}`, "reject"}, {`[]`, "reject"}, {` null `, "accept"}} {
			lines = append(lines, "XB "+pkg+" NBody "+dialect.Hx(xb[0])+" #exp="+xb[1])
		}
		for ti, s := range tops {
			lines = append(lines, "J "+pkg+" "+names[ti]+" "+s.Model())
			or := &oracle{seen: map[string]bool{}}
			var cases []string
			for k := 0; k < nval; k++ {
				cases = append(cases, "E "+pkg+" "+names[ti]+" "+g.genValue(s, or))
				nE++
			}
			if s.Kind == "obj" {
				for k := 0; k < nval; k++ {
					doc := g.genDoc(s, or).(map[string]interface{})
					cases = append(cases, "U "+pkg+" "+names[ti]+" "+dialect.Hx(marshalDoc(doc, rng))+" #exp=valid")
					nU++
					// single-fault mutants
					decl := map[string]bool{}
					s.declared(decl)
					var req []JM
					var typed []JM
					var walk func(x *JS)
					walk = func(x *JS) {
						for _, m := range x.Members {
							if m.Embed {
								walk(m.S)
								continue
							}
							if m.Req {
								req = append(req, m)
							}
							if _, ok := doc[m.Name]; ok && m.S.Kind != "any" && doc[m.Name] != nil {
								typed = append(typed, m)
							}
						}
					}
					walk(s)
					if len(req) > 0 {
						m := req[rng.Intn(len(req))]
						cp := map[string]interface{}{}
						for k2, v := range doc {
							if k2 != m.Name {
								cp[k2] = v
							}
						}
						cases = append(cases, "U "+pkg+" "+names[ti]+" "+dialect.Hx(marshalDoc(cp, rng))+" #exp=missing:"+dialect.Hx(m.Name))
						nU++
					}
					if len(typed) > 0 {
						m := typed[rng.Intn(len(typed))]
						cp := map[string]interface{}{}
						for k2, v := range doc {
							cp[k2] = v
						}
						cp[m.Name] = wrongType(m.S)
						cases = append(cases, "U "+pkg+" "+names[ti]+" "+dialect.Hx(marshalDoc(cp, rng))+" #exp=wrongtype:"+dialect.Hx(m.Name))
						nU++
					}
				}
			}
			lines = append(lines, or.lines...)
			lines = append(lines, cases...)
			if serverBody[pkg+" "+names[ti]] {
				for _, cl := range cases {
					if strings.HasPrefix(cl, "U ") {
						lines = append(lines, "UB "+cl[2:])
						nU++
					}
				}
			}
		}
		lines = append(lines, oneOfLines...)
	}
	lines = append(lines, jsonStringLines(rand.New(rand.NewSource(c.Seed+5)), c.Thorough)...)
	return pkgs, lines, map[string]interface{}{"packages_planned": npk, "types": npk * per, "encode_cases": nE, "decode_cases": nU, "top_level_kinds": kinds}
}

// jsonStringLines: valid UTF-8 strings (every ASCII byte, multi-byte runes incl. U+2028/U+2029 and non-BMP) for the string encoder, and
// string literals (every escape, surrogate pairs and lone surrogates, bad escapes, raw control bytes, missing quotes) for the decoder
func jsonStringLines(rng *rand.Rand, thorough bool) []string {
	n := 800
	if thorough {
		n = 20000
	}
	var out []string
	for b := 0; b < 128; b++ {
		s := string([]byte{byte(b)})
		out = append(out, "N jq "+dialect.Hx(s), "N jq "+dialect.Hx("a"+s+"b"), "N ju "+dialect.Hx("\""+s+"\""), "N ju "+dialect.Hx("\"\\"+s+"\""))
	}
	atoms := []string{"a", "Z", "0", " ", "\"", "\\", "/", "<", ">", "&", "\n", "\r", "\t", "\b", "\f", "\x00", "\x1f", "\x7f", "é", "名", "\u2028", "\u2029", "\U0001F600", "\ufffd", "'", "\u00a0"}
	for i := 0; i < n; i++ {
		var b strings.Builder
		for k := rng.Intn(7); k > 0; k-- {
			b.WriteString(atoms[rng.Intn(len(atoms))])
		}
		out = append(out, "N jq "+dialect.Hx(b.String()))
	}
	lits := []string{"a", "\\n", "\\\"", "\\\\", "\\/", "\\b", "\\f", "\\r", "\\t", "\\u0041", "\\u00e9", "\\u2028", "\\ud83d\\ude00", "\\ud83d", "\\ude00", "\\ud83dx", "\\ud83d\\u0041", "\\u12", "\\uzzzz", "\\x", "\\'", "\\", "\"", "\n", "\x01", "é", " ", "\\U0041", "\\u004", "\\uD83D\\uDE00", "\\u0000"}
	for i := 0; i < n; i++ {
		var b strings.Builder
		for k := rng.Intn(5); k > 0; k-- {
			b.WriteString(lits[rng.Intn(len(lits))])
		}
		lit := "\"" + b.String() + "\""
		switch rng.Intn(12) {
		case 0:
			lit = lit[1:]
		case 1:
			lit = lit[:len(lit)-1]
		}
		out = append(out, "N ju "+dialect.Hx(lit))
	}
	return out
}
