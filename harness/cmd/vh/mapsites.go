package main

import (
	"bytes"
	"crypto/sha256"
	"encoding/hex"
	"fmt"
	"go/ast"
	"go/printer"
	"go/token"
	"go/types"
	"os"
	"path/filepath"
	"sort"
	"strings"

	"golang.org/x/tools/go/packages"
)

func init() { commands["mapsites"] = runMapSites }

// runMapSites is the C12 translator: it inventories, from /repo's current
// source, every iteration over a map and every other source of
// nondeterminism in the generator's non-test packages, and writes
// coq/theories/Gen/MapSites.v.
func runMapSites(c runCfg) error {
	cfg := &packages.Config{
		Mode: packages.NeedName | packages.NeedFiles | packages.NeedSyntax | packages.NeedTypes | packages.NeedTypesInfo | packages.NeedImports,
		Dir:  "/repo",
		Env:  append(os.Environ(), "GOFLAGS=-mod=mod", "GOPROXY=off", "GOSUMDB=off", "GOTOOLCHAIN=local"),
	}
	pkgs, err := packages.Load(cfg, "github.com/vkd/goag", "github.com/vkd/goag/generator", "github.com/vkd/goag/specification", "github.com/vkd/goag/cmd/goag")
	if err != nil {
		return err
	}
	type site struct{ pkg, fn, operand, hash, text string }
	var sites []site
	var other [][3]string
	for _, p := range pkgs {
		if len(p.Errors) > 0 {
			return fmt.Errorf("load %s: %v", p.PkgPath, p.Errors[0])
		}
		for _, f := range p.Syntax {
			fname := filepath.Base(p.Fset.Position(f.Pos()).Filename)
			if strings.HasSuffix(fname, "_test.go") {
				continue
			}
			var fn string
			sortsAfter := map[ast.Stmt]string{}
			ast.Inspect(f, func(n ast.Node) bool {
				switch x := n.(type) {
				case *ast.FuncDecl:
					fn = x.Name.Name
					if x.Recv != nil && len(x.Recv.List) > 0 {
						var b bytes.Buffer
						printer.Fprint(&b, p.Fset, x.Recv.List[0].Type)
						fn = strings.TrimPrefix(b.String(), "*") + "." + fn
					}
				case *ast.BlockStmt:
					// remember, for every statement of a block, the sort calls that follow it in the same block: a loop that
					// collects keys is only as deterministic as the ordering applied afterwards
					for k, st := range x.List {
						var after bytes.Buffer
						for _, later := range x.List[k+1:] {
							var lb bytes.Buffer
							printer.Fprint(&lb, token.NewFileSet(), later)
							if strings.Contains(lb.String(), "sort.") {
								after.WriteString("\n" + lb.String())
							}
						}
						sortsAfter[st] = after.String()
					}
				case *ast.RangeStmt:
					t := p.TypesInfo.TypeOf(x.X)
					if t == nil {
						return true
					}
					if _, ok := t.Underlying().(*types.Map); ok {
						var b bytes.Buffer
						printer.Fprint(&b, token.NewFileSet(), x)
						b.WriteString(sortsAfter[x])
						h := sha256.Sum256(b.Bytes())
						var xb bytes.Buffer
						printer.Fprint(&xb, p.Fset, x.X)
						sites = append(sites, site{p.PkgPath, fn, xb.String() + " : " + types.TypeString(t, func(*types.Package) string { return "" }), hex.EncodeToString(h[:4]), b.String()})
					}
				case *ast.GoStmt:
					other = append(other, [3]string{p.PkgPath, fn, "go statement"})
				case *ast.SelectStmt:
					other = append(other, [3]string{p.PkgPath, fn, "select"})
				case *ast.CallExpr:
					if sel, ok := x.Fun.(*ast.SelectorExpr); ok {
						if id, ok := sel.X.(*ast.Ident); ok {
							if pn, ok := p.TypesInfo.Uses[id].(*types.PkgName); ok {
								full := pn.Imported().Path() + "." + sel.Sel.Name
								switch {
								case full == "time.Now", strings.HasPrefix(full, "math/rand."), strings.HasPrefix(full, "crypto/rand."),
									full == "os.Getenv", full == "os.ReadDir", full == "os.Hostname", full == "os.Getpid",
									full == "golang.org/x/exp/maps.Keys", full == "golang.org/x/exp/maps.Values":
									other = append(other, [3]string{p.PkgPath, fn, full})
								}
							}
						}
					}
				}
				return true
			})
		}
	}
	sort.Slice(sites, func(i, j int) bool {
		return sites[i].pkg+sites[i].fn+sites[i].hash < sites[j].pkg+sites[j].fn+sites[j].hash
	})
	sort.Slice(other, func(i, j int) bool { return fmt.Sprint(other[i]) < fmt.Sprint(other[j]) })
	q := func(s string) string { return `"` + strings.ReplaceAll(s, `"`, `""`) + `"` }
	var b strings.Builder
	b.WriteString("(* REGENERATED on every run by `vh mapsites` from /repo's current source: every\n   iteration over a Go map in the generator's non-test packages (package,\n   function, operand : type, hash of the loop's source) and every other source of\n   nondeterminism.  Do not edit. *)\n")
	b.WriteString("From Coq Require Import String List.\nImport ListNotations.\nLocal Open Scope string_scope.\n\n")
	b.WriteString("Definition observed_sites : list (string * string * string * string) :=\n  [")
	for i, s := range sites {
		if i > 0 {
			b.WriteString(";\n   ")
		}
		fmt.Fprintf(&b, "(%s, %s, %s, %s)", q(strings.TrimPrefix(s.pkg, "github.com/vkd/")), q(s.fn), q(s.operand), q(s.hash))
	}
	b.WriteString("].\n\nDefinition observed_other : list (string * string * string) :=\n  [")
	for i, o := range other {
		if i > 0 {
			b.WriteString(";\n   ")
		}
		fmt.Fprintf(&b, "(%s, %s, %s)", q(strings.TrimPrefix(o[0], "github.com/vkd/")), q(o[1]), q(o[2]))
	}
	b.WriteString("].\n")
	out := c.Out
	if out == "" {
		out = "/verif/coq/theories/Gen"
	}
	dst := filepath.Join(out, "MapSites.v")
	old, _ := os.ReadFile(dst)
	if string(old) != b.String() {
		if err := os.WriteFile(dst, []byte(b.String()), 0o644); err != nil {
			return err
		}
	}
	// the loop texts, for the replay file of a broken obligation
	var tb strings.Builder
	for _, s := range sites {
		fmt.Fprintf(&tb, "== %s %s [%s] %s\n%s\n\n", s.pkg, s.fn, s.hash, s.operand, s.text)
	}
	os.WriteFile(filepath.Join(out, "MapSites.txt"), []byte(tb.String()), 0o644)
	fmt.Printf("mapsites: %d map ranges, %d other sources\n", len(sites), len(other))
	return nil
}
