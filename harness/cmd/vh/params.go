package main

import (
	"fmt"
	"math/rand"
	"net/http"
	"net/url"
	"sort"
	"strconv"
	"strings"
	"time"

	"verifharness/internal/dialect"
	"verifharness/internal/scratch"
)

func init() {
	commands["C04"] = func(c runCfg) error { return runFam(c, c04Cases) }
	commands["C05"] = func(c runCfg) error { return runFam(c, c05Cases) }
}

// ---------------------------------------------------------------------------
// parameter schemas in the model's syntax

// schStr prints a dialect schema in the model's sch syntax; comps resolves $ref.
func schStr(s *dialect.Schema, comps map[string]*dialect.Schema) string {
	if s.Ref != "" {
		return "r(" + dialect.Hx(s.Ref) + "," + schStr(comps[s.Ref], comps) + ")"
	}
	inner := ""
	switch s.Type {
	case "string":
		if s.Format == "date-time" {
			inner = "t"
		} else {
			inner = "s"
		}
	case "integer":
		switch s.Format {
		case "int32":
			inner = "i32"
		case "int64":
			inner = "i64"
		default:
			inner = "i0"
		}
	case "number":
		if s.Format == "float" {
			inner = "f32"
		} else {
			inner = "f64"
		}
	case "boolean":
		inner = "b"
	case "array":
		inner = "a(" + schStr(s.Items, comps) + ")"
	default:
		inner = "?"
	}
	if s.Nullable {
		return "n(" + inner + ")"
	}
	return inner
}

func compSchemas(sp *dialect.Spec) map[string]*dialect.Schema {
	m := map[string]*dialect.Schema{}
	for _, p := range sp.CompSchemas {
		m[p.Name] = p.Schema
	}
	return m
}

// effective parameters of an operation: path-item level first, operation
// level overriding in place (specification.NewOperationParameters / Map.Add)
func effectiveParams(sp *dialect.Spec, pi *dialect.PathItem, o *dialect.Op) (q, h, p []dialect.Param) {
	add := func(l *[]dialect.Param, x dialect.Param) {
		for i := range *l {
			// (header names are case-insensitive)
			if (*l)[i].Name == x.Name || (x.In == "header" && strings.EqualFold((*l)[i].Name, x.Name)) {
				(*l)[i] = x
				return
			}
		}
		*l = append(*l, x)
	}
	for _, x := range append(append([]dialect.Param{}, pi.Params...), o.Params...) {
		if x.Ref != "" {
			x = sp.CompParams[x.Ref]
		}
		switch x.In {
		case "query":
			add(&q, x)
		case "header":
			add(&h, x)
		case "path":
			add(&p, x)
		}
	}
	return
}

// PLine: the operation's declaration for the model
func PLine(pkg string, sp *dialect.Spec, pi *dialect.PathItem, o *dialect.Op) string {
	comps := compSchemas(sp)
	q, h, p := effectiveParams(sp, pi, o)
	decls := func(l []dialect.Param) string {
		if len(l) == 0 {
			return "-"
		}
		var out []string
		for _, x := range l {
			r := "0"
			if x.Required {
				r = "1"
			}
			out = append(out, dialect.Hx(x.Name)+":"+r+":"+schStr(x.Schema, comps))
		}
		return strings.Join(out, ";")
	}
	pm := map[string]dialect.Param{}
	for _, x := range p {
		pm[x.Name] = x
	}
	var dirs []string
	for _, seg := range strings.Split(strings.TrimPrefix(pi.Raw, "/"), "/") {
		if strings.HasPrefix(seg, "{") && strings.HasSuffix(seg, "}") {
			n := seg[1 : len(seg)-1]
			dirs = append(dirs, "V"+dialect.Hx(n)+":"+schStr(pm[n].Schema, comps))
		} else {
			dirs = append(dirs, "L"+dialect.Hx(seg))
		}
	}
	// the Path struct lists the parameters in declaration order (path item first), not in template order
	var po []string
	for _, x := range p {
		po = append(po, dialect.Hx(x.Name))
	}
	pos := "-"
	if len(po) > 0 {
		pos = strings.Join(po, ".")
	}
	return fmt.Sprintf("P %s %s:%s q=%s h=%s p=%s po=%s", pkg, o.Method, dialect.Hx(pi.Raw), decls(q), decls(h), strings.Join(dirs, ";"), pos)
}

// ---------------------------------------------------------------------------
// the reference parser (independent of goag and of the Coq model): lexical
// spaces are those of strconv / time.Parse, as DESIGN 4.0 fixes them

type refErr struct{ names []string }

func refScalar(s *dialect.Schema, comps map[string]*dialect.Schema, v string) (string, bool) {
	for s.Ref != "" {
		s = comps[s.Ref]
	}
	wrap := func(x string) string {
		if s.Nullable {
			return "P(" + x + ")"
		}
		return x
	}
	switch s.Type {
	case "string":
		if s.Format == "date-time" {
			t, err := time.Parse(time.RFC3339Nano, v)
			if err != nil {
				return "", false
			}
			_, off := t.Zone()
			return wrap(fmt.Sprintf("T(%d,%d)", t.UnixNano(), off)), true
		}
		return wrap("S(" + dialect.Hx(v) + ")"), true
	case "integer":
		bits := 0
		if s.Format == "int32" {
			bits = 32
		} else if s.Format == "int64" {
			bits = 64
		}
		n, err := strconv.ParseInt(v, 10, bits)
		if err != nil {
			return "", false
		}
		return wrap("I(" + strconv.FormatInt(n, 10) + ")"), true
	case "number":
		bits := 64
		if s.Format == "float" {
			bits = 32
		}
		f, err := strconv.ParseFloat(v, bits)
		if err != nil {
			return "", false
		}
		return wrap("F(" + strconv.FormatFloat(f, 'g', -1, bits) + ")"), true
	case "boolean":
		b, err := strconv.ParseBool(v)
		if err != nil {
			return "", false
		}
		if b {
			return wrap("B(1)"), true
		}
		return wrap("B(0)"), true
	case "array":
		x, ok := refScalar(s.Items, comps, v)
		if !ok {
			return "", false
		}
		return wrap("[" + x + "]"), true
	}
	return "", false
}

func refValues(s *dialect.Schema, comps map[string]*dialect.Schema, vs []string) (string, bool) {
	for s.Ref != "" {
		s = comps[s.Ref]
	}
	if s.Type == "array" {
		var parts []string
		for _, v := range vs {
			x, ok := refScalar(s.Items, comps, v)
			if !ok {
				return "", false
			}
			parts = append(parts, x)
		}
		r := "[" + strings.Join(parts, ",") + "]"
		if s.Nullable {
			r = "P(" + r + ")"
		}
		return r, true
	}
	if len(vs) != 1 {
		return "", false
	}
	return refScalar(s, comps, vs[0])
}

// refParse computes the expected Parse() observation.
func refParse(sp *dialect.Spec, base string, pi *dialect.PathItem, o *dialect.Op, u *url.URL, hdr http.Header) string {
	comps := compSchemas(sp)
	q, h, p := effectiveParams(sp, pi, o)
	var offending []string
	section := func(ps []dialect.Param, get func(string) []string) string {
		var fields []string
		for _, x := range ps {
			vs := get(x.Name)
			if len(vs) == 0 {
				if x.Required {
					offending = append(offending, x.Name)
				} else {
					fields = append(fields, "N")
				}
				continue
			}
			v, ok := refValues(x.Schema, comps, vs)
			if !ok {
				offending = append(offending, x.Name)
				continue
			}
			if x.Required {
				fields = append(fields, v)
			} else {
				fields = append(fields, "J("+v+")")
			}
		}
		return "{" + strings.Join(fields, ",") + "}"
	}
	var parts []string
	if len(q) > 0 {
		qv := u.Query()
		parts = append(parts, section(q, func(n string) []string { return qv[n] }))
	}
	if len(p) > 0 {
		// segments beneath the base path
		rest := strings.TrimPrefix(u.Path, strings.TrimRight(base, "/"))
		segs := strings.Split(strings.TrimPrefix(rest, "/"), "/")
		tsegs := strings.Split(strings.TrimPrefix(pi.Raw, "/"), "/")
		pm := map[string]dialect.Param{}
		for _, x := range p {
			pm[x.Name] = x
		}
		var fields []string
		// struct field order = order of o.Params.Path (declaration order)
		vals := map[string]string{}
		for i, ts := range tsegs {
			if strings.HasPrefix(ts, "{") && i < len(segs) {
				n := ts[1 : len(ts)-1]
				if segs[i] == "" {
					offending = append(offending, n)
					continue
				}
				v, ok := refScalar(pm[n].Schema, comps, segs[i])
				if !ok {
					offending = append(offending, n)
					continue
				}
				vals[n] = v
			}
		}
		for _, x := range p {
			fields = append(fields, vals[x.Name])
		}
		parts = append(parts, "{"+strings.Join(fields, ",")+"}")
	}
	if len(h) > 0 {
		parts = append(parts, section(h, func(n string) []string { return hdr.Values(n) }))
	}
	if len(offending) > 0 {
		sort.Strings(offending)
		var hx []string
		for _, n := range offending {
			hx = append(hx, dialect.Hx(n))
		}
		return "Err(" + strings.Join(hx, "+") + ")"
	}
	return "{" + strings.Join(parts, ",") + "}"
}

// oracle lines for the float / time lexemes a request supplies
func oracleLines(sp *dialect.Spec, pi *dialect.PathItem, o *dialect.Op, base string, u *url.URL, hdr http.Header, seen map[string]bool) []string {
	comps := compSchemas(sp)
	q, h, p := effectiveParams(sp, pi, o)
	var out []string
	emit := func(s *dialect.Schema, vs []string) {
		for s.Ref != "" {
			s = comps[s.Ref]
		}
		for s.Type == "array" {
			s = s.Items
			for s.Ref != "" {
				s = comps[s.Ref]
			}
		}
		for _, v := range vs {
			switch {
			case s.Type == "number":
				bits := 64
				if s.Format == "float" {
					bits = 32
				}
				k := fmt.Sprintf("O float %d %s", bits, dialect.Hx(v))
				if !seen[k] {
					seen[k] = true
					r := "ERR"
					if f, err := strconv.ParseFloat(v, bits); err == nil {
						r = dialect.Hx(strconv.FormatFloat(f, 'g', -1, bits))
					}
					out = append(out, k+" "+r)
				}
			case s.Type == "string" && s.Format == "date-time":
				k := "O time " + dialect.Hx(v)
				if !seen[k] {
					seen[k] = true
					r := "ERR"
					if t, err := time.Parse(time.RFC3339Nano, v); err == nil {
						_, off := t.Zone()
						r = dialect.Hx(fmt.Sprintf("%d,%d", t.UnixNano(), off))
					}
					out = append(out, k+" "+r)
				}
			}
		}
	}
	qv := u.Query()
	for _, x := range q {
		emit(x.Schema, qv[x.Name])
	}
	for _, x := range h {
		emit(x.Schema, hdr.Values(x.Name))
	}
	rest := strings.TrimPrefix(u.Path, strings.TrimRight(base, "/"))
	for _, x := range p {
		emit(x.Schema, strings.Split(rest, "/"))
	}
	return out
}

// ---------------------------------------------------------------------------
// lexeme classes per type

func lexemes(s *dialect.Schema, comps map[string]*dialect.Schema, rng *rand.Rand) []string {
	for s.Ref != "" {
		s = comps[s.Ref]
	}
	switch s.Type {
	case "integer":
		base := []string{"0", "7", "-7", "+7", "007", "-0", "2147483647", "2147483648", "-2147483648", "-2147483649",
			"9223372036854775807", "9223372036854775808", "-9223372036854775808", "-9223372036854775809",
			"", "abc", "1.0", "1e3", " 1", "1 ", "0x10", "1_000", "+", "-", "١٢"}
		return base
	case "number":
		return []string{"0", "1.5", "-1.5", "1e10", "1e309", "-1e309", "3.4028235e38", "3.4028236e38", "1e39", "5e-324", "1e-400", "-0", "+1", ".5", "5.",
			"", "abc", "1,5", "0x1p-2", "Inf", "-inf", "NaN", "1_0", " 1"}
	case "boolean":
		return []string{"true", "false", "1", "0", "t", "f", "T", "F", "TRUE", "FALSE", "True", "False", "", "yes", "no", "tRue", "2", " true"}
	case "string":
		if s.Format == "date-time" {
			return []string{"2024-01-02T03:04:05Z", "2024-01-02T03:04:05.123456789+02:00", "2024-01-02T03:04:05-07:30", "2024-02-30T00:00:00Z",
				"2024-01-02", "2024-01-02 03:04:05Z", "", "now", "2024-01-02T03:04:05", "2024-01-02T24:00:00Z", "0000-01-01T00:00:00Z"}
		}
		return []string{"abc", "", "a b", "a/b", "ü", "0", "a,b", "%41", "\"q\""}
	case "array":
		return lexemes(s.Items, comps, rng)
	}
	return []string{"x"}
}

var paramSchemas = []func() *dialect.Schema{
	func() *dialect.Schema { return &dialect.Schema{Type: "string"} },
	func() *dialect.Schema { return &dialect.Schema{Type: "integer"} },
	func() *dialect.Schema { return &dialect.Schema{Type: "integer", Format: "int32"} },
	func() *dialect.Schema { return &dialect.Schema{Type: "integer", Format: "int64"} },
	func() *dialect.Schema { return &dialect.Schema{Type: "number"} },
	func() *dialect.Schema { return &dialect.Schema{Type: "number", Format: "float"} },
	func() *dialect.Schema { return &dialect.Schema{Type: "number", Format: "double"} },
	func() *dialect.Schema { return &dialect.Schema{Type: "boolean"} },
	func() *dialect.Schema { return &dialect.Schema{Type: "string", Format: "date-time"} },
	func() *dialect.Schema { return &dialect.Schema{Type: "string", Format: "password"} },
}

// ---------------------------------------------------------------------------
// building request lines with P/O lines and the reference observation

type opRef struct {
	sp   *dialect.Spec
	base string
	pi   *dialect.PathItem
	o    *dialect.Op
}

// reqLine builds the R line plus its oracle lines; the reference observation
// is attached later (by index) through refs.
func buildRequest(rc rcase, base string, pi *dialect.PathItem, o *dialect.Op, cfg, rawurl string, headers [][2]string, seen map[string]bool) (lines []string, ref string) {
	hdr := http.Header{}
	for _, h := range headers {
		hdr.Add(h[0], h[1])
	}
	u, err := url.ParseRequestURI(rawurl)
	if err != nil {
		u = &url.URL{Path: rawurl}
	}
	lines = append(lines, oracleLines(rc.Spec, pi, o, base, u, hdr, seen)...)
	lines = append(lines, RLine(rc.Pkg, cfg, o.Method, rawurl, headers, ""))
	return lines, refParse(rc.Spec, base, pi, o, u, hdr)
}

// ---------------------------------------------------------------------------
// C04: query/header parameter matrix

func c04Cases(c runCfg) ([]*scratch.Pkg, []string, map[string]interface{}) {
	rng := rand.New(rand.NewSource(c.Seed))
	type cell struct {
		schema   func() *dialect.Schema
		loc      string // query | queryarr | header | headerarr
		required bool
		via      string // inline | schemaref | paramref
		level    string // op | path
		nullable bool
	}
	var cells []cell
	for _, sc := range paramSchemas {
		for _, loc := range []string{"query", "queryarr", "header", "headerarr"} {
			for _, req := range []bool{true, false} {
				for _, via := range []string{"inline", "schemaref", "paramref"} {
					for _, lvl := range []string{"op", "path"} {
						cells = append(cells, cell{sc, loc, req, via, lvl, false})
					}
				}
				cells = append(cells, cell{sc, loc, req, "inline", "op", true})
			}
		}
	}
	total := len(cells)
	if !c.Thorough {
		rng.Shuffle(len(cells), func(i, j int) { cells[i], cells[j] = cells[j], cells[i] })
		cells = cells[:140]
	}
	// pack cells 6 per operation, 2 operations per package
	var pkgs []*scratch.Pkg
	var lines []string
	refs := map[int]string{}
	nreq := 0
	dist := map[string]int{}
	seen := map[string]bool{}
	per := 6
	pkgN := 0
	for start := 0; start < len(cells); start += per * 2 {
		sp := &dialect.Spec{CompParams: map[string]dialect.Param{}}
		rc := rcase{Pkg: fmt.Sprintf("p%04d", pkgN), Spec: sp}
		pkgN++
		type declared struct {
			p  dialect.Param
			cl cell
		}
		var opsDecl [][]declared
		for opi := 0; opi < 2; opi++ {
			lo := start + opi*per
			if lo >= len(cells) {
				break
			}
			hi := lo + per
			if hi > len(cells) {
				hi = len(cells)
			}
			pi := &dialect.PathItem{Raw: fmt.Sprintf("/op%d", opi)}
			o := &dialect.Op{Method: "GET", Responses: []dialect.Response{{Status: "200"}}}
			var ds []declared
			for k, cl := range cells[lo:hi] {
				name := fmt.Sprintf("p%d%s", k, []string{"", "-x", "_y", "Id"}[k%4])
				in := "query"
				if !strings.HasPrefix(cl.loc, "header") && k%3 == 2 {
					// query names with bytes that are escaped on the wire (page[size], $filter, ids[], a space)
					name = fmt.Sprintf("p%d%s", k, []string{"[size]", "$f", "[]", " b", ":c", ",d"}[(k/3)%6])
				}
				if strings.HasPrefix(cl.loc, "header") {
					in = "header"
					name = "X-" + strings.Title(name)
				}
				sc := cl.schema()
				sc.Nullable = cl.nullable
				if strings.HasSuffix(cl.loc, "arr") {
					sc = &dialect.Schema{Type: "array", Items: sc}
				}
				if cl.via == "schemaref" {
					cn := fmt.Sprintf("S%d%d", opi, k)
					sp.CompSchemas = append(sp.CompSchemas, dialect.Prop{Name: cn, Schema: sc})
					sc = &dialect.Schema{Ref: cn}
				}
				p := dialect.Param{Name: name, In: in, Required: cl.required, Schema: sc}
				if cl.via == "paramref" {
					pn := fmt.Sprintf("P%d%d", opi, k)
					sp.CompParams[pn] = p
					p = dialect.Param{Ref: pn, Name: name, In: in, Required: cl.required, Schema: sc}
				}
				if cl.level == "path" {
					pi.Params = append(pi.Params, p)
				} else {
					o.Params = append(o.Params, p)
					if k%4 == 1 {
						// a declaration of the same parameter at path-item level, which the operation's own overrides
						// (another type, the opposite requiredness; for a header also another case)
						shadow := dialect.Param{Name: name, In: in, Required: !cl.required, Schema: &dialect.Schema{Type: "boolean"}}
						if in == "header" {
							shadow.Name = strings.ToLower(name)
						}
						pi.Params = append(pi.Params, shadow)
						dist["shadowed-at-path-level"]++
					}
				}
				ds = append(ds, declared{p, cl})
				dist[cl.loc]++
				dist["via:"+cl.via]++
			}
			pi.Ops = []*dialect.Op{o}
			sp.Paths = append(sp.Paths, pi)
			opsDecl = append(opsDecl, ds)
		}
		p := rc.ScratchPkg()
		pkgs = append(pkgs, p)
		lines = append(lines, DLine(p), rc.SLine())
		comps := compSchemas(sp)
		for opi, pi := range sp.Paths {
			o := pi.Ops[0]
			lines = append(lines, PLine(rc.Pkg, sp, pi, o))
			ds := opsDecl[opi]
			// canonical valid value per parameter
			good := func(d declared) []string {
				sc := d.p.Schema
				for sc.Ref != "" {
					sc = comps[sc.Ref]
				}
				base := sc
				if sc.Type == "array" {
					base = sc.Items
					for base.Ref != "" {
						base = comps[base.Ref]
					}
				}
				var v string
				switch base.Type {
				case "integer":
					v = "42"
				case "number":
					v = "2.5"
				case "boolean":
					v = "true"
				default:
					v = "abc"
					if base.Format == "date-time" {
						v = "2024-01-02T03:04:05Z"
					}
				}
				return []string{v}
			}
			build := func(vals map[int][]string) {
				rawurl := pi.Raw
				var hdrs [][2]string
				sep := "?"
				for k, d := range ds {
					vs, ok := vals[k]
					if !ok {
						continue
					}
					for _, v := range vs {
						if d.p.In == "query" {
							rawurl += sep + url.QueryEscape(d.p.Name) + "=" + url.QueryEscape(v)
							sep = "&"
						} else {
							hdrs = append(hdrs, [2]string{d.p.Name, v})
						}
					}
				}
				ls, ref := buildRequest(rc, "", pi, o, "mw=0", rawurl, hdrs, seen)
				lines = append(lines, ls...)
				refs[len(lines)-1] = ref
				nreq++
			}
			all := map[int][]string{}
			for k, d := range ds {
				all[k] = good(d)
			}
			build(all)                // everything valid
			build(map[int][]string{}) // everything absent
			for k, d := range ds {
				// vary parameter k over its lexeme classes and cardinalities, others valid
				for _, lx := range lexemes(d.p.Schema, comps, rng) {
					vals := map[int][]string{}
					for j, v := range all {
						vals[j] = v
					}
					vals[k] = []string{lx}
					build(vals)
				}
				for _, card := range [][]string{{}, {good(d)[0], good(d)[0]}, {good(d)[0], "zz", good(d)[0]}} {
					vals := map[int][]string{}
					for j, v := range all {
						vals[j] = v
					}
					if len(card) == 0 {
						delete(vals, k)
					} else {
						vals[k] = card
					}
					build(vals)
				}
			}
		}
	}
	// attach the reference observations
	for i, r := range refs {
		lines[i] = lines[i] + " #ref=" + r
	}
	return pkgs, lines, map[string]interface{}{"cells": len(cells), "cells_total": total, "requests": nreq, "distribution": dist}
}

// ---------------------------------------------------------------------------
// C05: typed path parameters over the C03 universe

func c05Cases(c runCfg) ([]*scratch.Pkg, []string, map[string]interface{}) {
	rng := rand.New(rand.NewSource(c.Seed))
	nsets := 40
	if c.Thorough {
		nsets = 300
	}
	var pkgs []*scratch.Pkg
	var lines []string
	refs := map[int]string{}
	nreq := 0
	seen := map[string]bool{}
	for i := 0; i < nsets; i++ {
		k := 1 + rng.Intn(4)
		seenT := map[string]bool{}
		var templates []string
		for tries := 0; len(templates) < k && tries < 50; tries++ {
			t := randomTemplate(rng, 4, routerLits)
			if seenT[equivKey(t)] || !strings.Contains(t, "{") && rng.Intn(3) != 0 {
				continue
			}
			seenT[equivKey(t)] = true
			templates = append(templates, t)
		}
		sp := &dialect.Spec{CompParams: map[string]dialect.Param{}}
		bf := baseForms[i%len(baseForms)]
		sp.ServerURL, sp.ServerVar, sp.MoreServers = bf.Server, bf.Vars, bf.More
		for _, raw := range templates {
			pi := &dialect.PathItem{Raw: raw}
			for j, seg := range strings.Split(strings.TrimPrefix(raw, "/"), "/") {
				if !strings.HasPrefix(seg, "{") {
					continue
				}
				n := seg[1 : len(seg)-1]
				sc := paramSchemas[rng.Intn(len(paramSchemas))]()
				if rng.Intn(4) == 0 {
					cn := fmt.Sprintf("S%d%s%d", len(sp.CompSchemas), "x", j)
					sp.CompSchemas = append(sp.CompSchemas, dialect.Prop{Name: cn, Schema: sc})
					sc = &dialect.Schema{Ref: cn}
				}
				p := dialect.Param{Name: n, In: "path", Required: true, Schema: sc}
				if rng.Intn(5) == 0 {
					pn := fmt.Sprintf("P%d", len(sp.CompParams))
					sp.CompParams[pn] = p
					p = dialect.Param{Ref: pn, Name: n, In: "path", Required: true, Schema: sc}
				}
				pi.Params = append(pi.Params, p)
			}
			pi.Ops = []*dialect.Op{{Method: "GET", Responses: []dialect.Response{{Status: "200"}}}}
			if rng.Intn(3) == 0 {
				pi.Ops = append(pi.Ops, &dialect.Op{Method: "POST", Responses: []dialect.Response{{Status: "200"}}})
			}
			scatterPathParams(rng, pi)
			sp.Paths = append(sp.Paths, pi)
		}
		rc := rcase{Pkg: fmt.Sprintf("p%04d", i), Spec: sp, FlagBase: bf.Flag}
		p := rc.ScratchPkg()
		pkgs = append(pkgs, p)
		lines = append(lines, DLine(p), rc.SLine())
		for _, pi := range sp.Paths {
			for _, o := range pi.Ops {
				lines = append(lines, PLine(rc.Pkg, sp, pi, o))
			}
		}
		base := rc.FlagBase
		if base == "" {
			if pth, ok := serverPath(sp); ok {
				base = pth
			}
		}
		nb := normBase(base)
		comps := compSchemas(sp)
		// segment alphabet: literals + typed lexemes + empty + foreign
		alpha := map[string]bool{"": true, "zz": true, "42": true, "-7": true, "2.5": true, "true": true, "abc": true,
			"2024-01-02T03:04:05Z": true, "99999999999": true, "1e400": true, "x%20y": true}
		for _, t := range templates {
			for _, sg := range strings.Split(strings.TrimPrefix(t, "/"), "/") {
				if !strings.HasPrefix(sg, "{") {
					alpha[sg] = true
				}
			}
		}
		var al []string
		for a := range alpha {
			al = append(al, a)
		}
		sort.Strings(al)
		// requests: every template instantiated with every alphabet choice at variable
		// positions (bounded), one segment short / long, under the base path
		for _, pi := range sp.Paths {
			tsegs := strings.Split(strings.TrimPrefix(pi.Raw, "/"), "/")
			var inst func(i int, acc []string)
			count := 0
			inst = func(i int, acc []string) {
				if count > 160 {
					return
				}
				if i == len(tsegs) {
					pth := nb + "/" + strings.Join(acc, "/")
					for _, o := range pi.Ops {
						for _, variant := range []string{pth, pth + "/", strings.TrimSuffix(pth, "/"+acc[len(acc)-1])} {
							if variant == "" {
								continue
							}
							// which operation does the reference matcher dispatch to?  use the
							// model's/impl's own routing for that (C03); the reference observation
							// here is only about the parameters of THIS template when it is the
							// one dispatched
							lines = append(lines, oracleAllSegs(variant, seen)...)
							ls, ref := buildRequest(rc, base, pi, o, "mw=0", variant, nil, seen)
							lines = append(lines, ls...)
							if variant == pth {
								refs[len(lines)-1] = dialect.Hx(pi.Raw) + "@" + ref
							}
							nreq++
							count++
						}
					}
					return
				}
				if strings.HasPrefix(tsegs[i], "{") {
					choices := al
					if len(tsegs) > 2 {
						choices = []string{al[rng.Intn(len(al))], al[rng.Intn(len(al))], "42", ""}
					}
					for _, a := range choices {
						inst(i+1, append(append([]string{}, acc...), a))
					}
				} else {
					inst(i+1, append(append([]string{}, acc...), tsegs[i]))
				}
			}
			inst(0, nil)
		}
		_ = comps
	}
	for i, r := range refs {
		lines[i] = lines[i] + " #ref=" + r
	}
	return pkgs, lines, map[string]interface{}{"template_sets": nsets, "requests": nreq}
}

// oracleAllSegs: the request may be dispatched to another template than the
// one it was built from, so every segment gets float and time oracle entries.
// scatterPathParams: the declaration order of path parameters is unrelated to their order in the template, and a
// parameter may be declared on the path item or on each operation
func scatterPathParams(rng *rand.Rand, pi *dialect.PathItem) {
	var path, rest []dialect.Param
	for _, p := range pi.Params {
		if p.In == "path" {
			path = append(path, p)
		} else {
			rest = append(rest, p)
		}
	}
	rng.Shuffle(len(path), func(a, b int) { path[a], path[b] = path[b], path[a] })
	pi.Params = rest
	for _, p := range path {
		if rng.Intn(3) == 0 && len(pi.Ops) > 0 {
			for _, o := range pi.Ops {
				o.Params = append([]dialect.Param{p}, o.Params...)
			}
		} else {
			pi.Params = append(pi.Params, p)
		}
	}
}

func oracleAllSegs(rawurl string, seen map[string]bool) []string {
	var out []string
	pth := rawurl
	if u, err := url.ParseRequestURI(rawurl); err == nil {
		pth = u.Path
	}
	for _, v := range strings.Split(pth, "/") {
		for _, bits := range []int{32, 64} {
			k := fmt.Sprintf("O float %d %s", bits, dialect.Hx(v))
			if !seen[k] {
				seen[k] = true
				r := "ERR"
				if f, err := strconv.ParseFloat(v, bits); err == nil {
					r = dialect.Hx(strconv.FormatFloat(f, 'g', -1, bits))
				}
				out = append(out, k+" "+r)
			}
		}
		k := "O time " + dialect.Hx(v)
		if !seen[k] {
			seen[k] = true
			r := "ERR"
			if t, err := time.Parse(time.RFC3339Nano, v); err == nil {
				_, off := t.Zone()
				r = dialect.Hx(fmt.Sprintf("%d,%d", t.UnixNano(), off))
			}
			out = append(out, k+" "+r)
		}
	}
	return out
}
