package main

// C14 translator: inventories, in the server-side code the generator emits
// for a kitchen-sink corpus (generated afresh from /repo's working tree), every
// operation that can panic by itself — slice and index expressions on strings
// and slices, type assertions without comma-ok, calls of func-typed values,
// writes into maps — and classifies the guard that protects it. The classes and
// their counts are written to coq/theories/Gen/PanicSites.v, where each class
// must be one that Proofs/PartialProofs.v proves sufficient.

import (
	"bytes"
	"fmt"
	"go/ast"
	"go/printer"
	"go/token"
	"go/types"
	"math/rand"
	"os"
	"path/filepath"
	"sort"
	"strconv"
	"strings"

	"golang.org/x/tools/go/packages"

	"verifharness/internal/scratch"
)

func init() { commands["panicsites"] = runPanicSites }

type psite struct {
	pkg, file, fn, expr, class, detail string
}

func nodeStr(fset *token.FileSet, n ast.Node) string {
	var b bytes.Buffer
	printer.Fprint(&b, fset, n)
	return strings.Join(strings.Fields(b.String()), " ")
}

// terminates: the block always leaves the function (or the loop iteration)
func terminates(b *ast.BlockStmt) bool {
	if b == nil || len(b.List) == 0 {
		return false
	}
	switch s := b.List[len(b.List)-1].(type) {
	case *ast.ReturnStmt:
		return true
	case *ast.BranchStmt:
		return s.Tok == token.CONTINUE || s.Tok == token.BREAK
	case *ast.ExprStmt:
		if c, ok := s.X.(*ast.CallExpr); ok {
			if id, ok := c.Fun.(*ast.Ident); ok && id.Name == "panic" {
				return true
			}
		}
	}
	return false
}

type siteCtx struct {
	fset  *token.FileSet
	info  *types.Info
	stack []ast.Node
}

// preceding statements of the site, nearest first: previous siblings in the
// innermost block, then previous siblings of the enclosing statement, ...
func (c *siteCtx) preceding() []ast.Stmt {
	var out []ast.Stmt
	for i := len(c.stack) - 1; i > 0; i-- {
		var list []ast.Stmt
		switch p := c.stack[i-1].(type) {
		case *ast.BlockStmt:
			list = p.List
		case *ast.CaseClause:
			list = p.Body
		default:
			continue
		}
		child := c.stack[i]
		for k, s := range list {
			if s == child {
				for j := k - 1; j >= 0; j-- {
					out = append(out, list[j])
				}
			}
		}
	}
	return out
}

func assignsTo(fset *token.FileSet, s ast.Stmt, name string) bool {
	found := false
	ast.Inspect(s, func(n ast.Node) bool {
		switch a := n.(type) {
		case *ast.AssignStmt:
			for _, l := range a.Lhs {
				if nodeStr(fset, l) == name {
					found = true
				}
			}
		case *ast.IncDecStmt:
			if nodeStr(fset, a.X) == name {
				found = true
			}
		}
		return !found
	})
	return found
}

// `if <cond> { ...terminating }` with cond of the given text
func ifTerminating(fset *token.FileSet, s ast.Stmt) (string, bool) {
	is, ok := s.(*ast.IfStmt)
	if !ok || is.Init != nil || is.Else != nil || !terminates(is.Body) {
		return "", false
	}
	return nodeStr(fset, is.Cond), true
}

func (c *siteCtx) enclosingIfConds() []string {
	var out []string
	for i := len(c.stack) - 1; i > 0; i-- {
		if is, ok := c.stack[i-1].(*ast.IfStmt); ok && c.stack[i] == is.Body {
			out = append(out, nodeStr(c.fset, is.Cond))
		}
	}
	return out
}

func (c *siteCtx) classifySlice(e *ast.SliceExpr) (string, string) {
	x := nodeStr(c.fset, e.X)
	lo, hi := "", ""
	if e.Low != nil {
		lo = nodeStr(c.fset, e.Low)
	}
	if e.High != nil {
		hi = nodeStr(c.fset, e.High)
	}
	prec := c.preceding()
	// x[N:] after `if !strings.HasPrefix(x, "lit") { return }` with len(lit) == N
	if n, err := strconv.Atoi(lo); err == nil && hi == "" {
		for _, s := range prec {
			if cond, ok := ifTerminating(c.fset, s); ok {
				pre := "!strings.HasPrefix(" + x + ", "
				if strings.HasPrefix(cond, pre) && strings.HasSuffix(cond, ")") {
					lit, err := strconv.Unquote(strings.TrimSuffix(strings.TrimPrefix(cond, pre), ")"))
					if err == nil && len(lit) == n {
						return "PrefixSlice", ""
					}
				}
			}
			if assignsTo(c.fset, s, x) {
				break
			}
		}
		return "Unguarded", "no HasPrefix guard of length " + lo
	}
	// idx := strings.Index(E, sep); if idx == -1 { idx = len(E) | return }; E[:idx], E[idx:]   and the splitPath form with E = s[1:], s[:idx+1], s[idx+1:]
	bound := strings.ReplaceAll(lo, " ", "")
	if hi != "" {
		bound = strings.ReplaceAll(hi, " ", "")
	}
	if lo != "" && hi != "" {
		return "Unguarded", "two-sided slice"
	}
	plus := strings.HasSuffix(bound, "+1")
	idx := strings.TrimSpace(strings.TrimSuffix(strings.TrimSuffix(bound, "1"), "+"))
	var sawMinus, sawLen bool
	for _, s := range prec {
		if is, ok := s.(*ast.IfStmt); ok && nodeStr(c.fset, is.Cond) == idx+" == -1" && is.Else == nil {
			if terminates(is.Body) {
				sawMinus = true
				continue
			}
			if len(is.Body.List) == 1 && nodeStr(c.fset, is.Body.List[0]) == idx+" = len("+x+")" {
				sawLen = true
				continue
			}
		}
		if as, ok := s.(*ast.AssignStmt); ok && len(as.Lhs) == 1 && nodeStr(c.fset, as.Lhs[0]) == idx {
			rhs := nodeStr(c.fset, as.Rhs[0])
			if !plus && sawLen && strings.HasPrefix(rhs, "strings.Index("+x+", ") {
				return "IndexOrLen", ""
			}
			if plus && sawMinus && strings.HasPrefix(rhs, "strings.Index("+x+"[1:], ") {
				return "IndexAfterFirst", ""
			}
			return "Unguarded", "index variable assigned from " + rhs
		}
		if assignsTo(c.fset, s, x) {
			// `vPath := p[:idx]; p = p[idx:]`: the second site follows an assignment of another variable only
			if !(hi == "" && nodeStr(c.fset, s) == x+" = "+x+"["+lo+":]") {
				return "Unguarded", "operand reassigned before the site"
			}
		}
	}
	return "Unguarded", "no bound established for " + bound
}

func (c *siteCtx) classifyIndex(e *ast.IndexExpr, isWrite bool) (string, string) {
	x := nodeStr(c.fset, e.X)
	ix := nodeStr(c.fset, e.Index)
	t := c.info.TypeOf(e.X)
	if t != nil {
		if _, ok := t.Underlying().(*types.Map); ok {
			if !isWrite {
				return "", "" // reading a map never panics
			}
			for _, s := range c.preceding() {
				if as, ok := s.(*ast.AssignStmt); ok && len(as.Lhs) == 1 && nodeStr(c.fset, as.Lhs[0]) == x {
					rhs := nodeStr(c.fset, as.Rhs[0])
					if strings.HasPrefix(rhs, "make(") || strings.Contains(rhs, "{") {
						return "MapMade", ""
					}
				}
				if is, ok := s.(*ast.IfStmt); ok && nodeStr(c.fset, is.Cond) == x+" == nil" && len(is.Body.List) == 1 &&
					strings.HasPrefix(nodeStr(c.fset, is.Body.List[0]), x+" = make(") {
					return "MapMade", ""
				}
			}
			// `if len(M) > 0 { X = make(...) }; for k := range M { X[k] = ... }`: the loop body runs only when the map was made
			for i := len(c.stack) - 1; i >= 0; i-- {
				if loop, ok := c.stack[i].(*ast.RangeStmt); ok {
					mm := nodeStr(c.fset, loop.X)
					sub := &siteCtx{fset: c.fset, info: c.info, stack: c.stack[:i+1]}
					for _, s := range sub.preceding() {
						if is, ok := s.(*ast.IfStmt); ok && nodeStr(c.fset, is.Cond) == "len("+mm+") > 0" && len(is.Body.List) == 1 &&
							strings.HasPrefix(nodeStr(c.fset, is.Body.List[0]), x+" = make(") {
							return "MapMadeWhenNonEmpty", ""
						}
						if assignsTo(c.fset, s, x) || assignsTo(c.fset, s, mm) {
							break
						}
					}
				}
			}
			return "Unguarded", "write into a map not known to be made"
		}
	}
	prec := c.preceding()
	if ix == "0" {
		for _, cond := range c.enclosingIfConds() {
			if cond == "len("+x+") == 1" || cond == "len("+x+") > 0" || strings.HasSuffix(cond, "&& len("+x+") > 0") {
				return "LenChecked", ""
			}
		}
		for _, s := range prec {
			if cond, ok := ifTerminating(c.fset, s); ok && cond == "len("+x+") == 0" {
				return "LenChecked", ""
			}
			if as, ok := s.(*ast.AssignStmt); ok && len(as.Lhs) == 1 && nodeStr(c.fset, as.Lhs[0]) == x {
				rhs := nodeStr(c.fset, as.Rhs[0])
				if strings.HasPrefix(rhs, "make(") && strings.HasSuffix(rhs, ", 1)") {
					return "MadeOfOne", ""
				}
				break
			}
		}
		return "Unguarded", "index 0 without a length check"
	}
	// inside `for i := range B`: B[i], or A[i] with A made of len(B)
	for i := len(c.stack) - 1; i >= 0; i-- {
		switch loop := c.stack[i].(type) {
		case *ast.RangeStmt:
			if loop.Key != nil && nodeStr(c.fset, loop.Key) == ix {
				b := nodeStr(c.fset, loop.X)
				if b == x {
					return "RangeIndex", ""
				}
				// preceding statements of the loop itself
				sub := &siteCtx{fset: c.fset, info: c.info, stack: c.stack[:i+1]}
				for _, s := range sub.preceding() {
					if as, ok := s.(*ast.AssignStmt); ok && len(as.Lhs) == 1 && nodeStr(c.fset, as.Lhs[0]) == x {
						rhs := nodeStr(c.fset, as.Rhs[0])
						if strings.HasPrefix(rhs, "make(") && strings.HasSuffix(rhs, ", len("+b+"))") {
							return "RangeIndexMade", ""
						}
						break
					}
				}
			}
		case *ast.ForStmt:
			if loop.Init != nil && loop.Cond != nil && loop.Post != nil &&
				nodeStr(c.fset, loop.Init) == ix+" := len("+x+") - 1" && nodeStr(c.fset, loop.Cond) == ix+" >= 0" && nodeStr(c.fset, loop.Post) == ix+"--" {
				return "CountDown", ""
			}
			if loop.Init != nil && loop.Cond != nil && loop.Post != nil &&
				nodeStr(c.fset, loop.Init) == ix+" := 0" && nodeStr(c.fset, loop.Cond) == ix+" < len("+x+")" && nodeStr(c.fset, loop.Post) == ix+"++" {
				return "CountUp", ""
			}
		}
	}
	return "Unguarded", "index " + ix + " not bounded by an enclosing loop"
}

func (c *siteCtx) classifyCall(e *ast.CallExpr) (string, string) {
	t := c.info.TypeOf(e.Fun)
	if t == nil {
		return "", ""
	}
	if _, ok := t.Underlying().(*types.Signature); !ok {
		return "", "" // conversion
	}
	if tv, ok := c.info.Types[e.Fun]; ok && tv.IsType() {
		return "", "" // conversion to a named func type
	}
	// calls of declared functions and methods are not sites; calls of func-typed VALUES are
	switch f := e.Fun.(type) {
	case *ast.Ident:
		if _, ok := c.info.Uses[f].(*types.Func); ok {
			return "", ""
		}
		if _, ok := c.info.Uses[f].(*types.Builtin); ok {
			return "", ""
		}
		if _, ok := c.info.Uses[f].(*types.TypeName); ok {
			return "", ""
		}
	case *ast.SelectorExpr:
		if sel, ok := c.info.Selections[f]; ok && sel.Kind() == types.MethodVal {
			return "", ""
		}
		if _, ok := c.info.Uses[f.Sel].(*types.Func); ok {
			return "", ""
		}
	case *ast.FuncLit, *ast.ParenExpr, *ast.ArrayType, *ast.IndexExpr:
		if _, ok := e.Fun.(*ast.IndexExpr); !ok {
			return "", ""
		}
	}
	fn := nodeStr(c.fset, e.Fun)
	for _, cond := range c.enclosingIfConds() {
		if cond == fn+" != nil" {
			return "NilChecked", ""
		}
	}
	for _, s := range c.preceding() {
		if cond, ok := ifTerminating(c.fset, s); ok && cond == fn+" == nil" {
			return "NilChecked", ""
		}
	}
	// a local closure declared in the same function (`write := func...`)
	for _, s := range c.preceding() {
		if as, ok := s.(*ast.AssignStmt); ok && len(as.Lhs) == 1 && nodeStr(c.fset, as.Lhs[0]) == fn {
			if _, ok := as.Rhs[0].(*ast.FuncLit); ok {
				return "LocalClosure", ""
			}
		}
	}
	// the receiver of a method on a func type (XHandlerFunc.ServeHTTP calls f(...)), a parameter, or an element of a
	// user-supplied slice: non-nil is the caller's obligation (the property's "configured" precondition)
	if id, ok := e.Fun.(*ast.Ident); ok {
		if v, ok := c.info.Uses[id].(*types.Var); ok && !v.IsField() {
			return "CallerSupplied", "parameter or receiver " + id.Name
		}
	}
	if ix, ok := e.Fun.(*ast.IndexExpr); ok {
		return "CallerSuppliedElement", nodeStr(c.fset, ix.X)
	}
	return "Unguarded", "func value " + fn + " called without a nil check"
}

// a method called through an interface value that the function itself treats as possibly nil
// (a struct field, or a local it compares with nil)
func (c *siteCtx) classifyIfaceCall(e *ast.CallExpr, maybeNil map[string]bool) (string, string) {
	sel, ok := e.Fun.(*ast.SelectorExpr)
	if !ok {
		return "", ""
	}
	s, ok := c.info.Selections[sel]
	if !ok || s.Kind() != types.MethodVal {
		return "", ""
	}
	rt := c.info.TypeOf(sel.X)
	if rt == nil {
		return "", ""
	}
	if _, ok := rt.Underlying().(*types.Interface); !ok {
		return "", ""
	}
	recv := nodeStr(c.fset, sel.X)
	isField := false
	if fs, ok := sel.X.(*ast.SelectorExpr); ok {
		if s2, ok := c.info.Selections[fs]; ok && s2.Kind() == types.FieldVal {
			isField = true
		}
	}
	if !isField && !maybeNil[recv] {
		return "", ""
	}
	if fs, ok := sel.X.(*ast.SelectorExpr); ok && fs.Sel.Name == "Body" {
		if pt, ok := c.info.TypeOf(fs.X).(*types.Pointer); ok && pt.Elem().String() == "net/http.Request" {
			// net/http: "For server requests, the Request Body is always non-nil" (the property's body_non_nil precondition)
			return "RequestBody", ""
		}
		if _, ok := c.info.TypeOf(fs.X).Underlying().(*types.Struct); ok {
			// the Body of a response value: supplied by the handler that returned it (a nil reader is the handler's error)
			return "HandlerSupplied", ""
		}
	}
	for _, cond := range c.enclosingIfConds() {
		for _, cj := range strings.Split(cond, " && ") {
			if cj == recv+" != nil" {
				return "NilChecked", ""
			}
		}
	}
	for _, st := range c.preceding() {
		if cond, ok := ifTerminating(c.fset, st); ok && cond == recv+" == nil" {
			return "NilChecked", ""
		}
		if is, ok := st.(*ast.IfStmt); ok && nodeStr(c.fset, is.Cond) == recv+" == nil" {
			// `if h == nil { h = F; if h == nil { h = pkg.Func() } ... }`: defaulted to the result of a declared function
			defaulted := false
			ast.Inspect(is.Body, func(n ast.Node) bool {
				if in, ok := n.(*ast.IfStmt); ok && nodeStr(c.fset, in.Cond) == recv+" == nil" && len(in.Body.List) == 1 {
					if as, ok := in.Body.List[0].(*ast.AssignStmt); ok && len(as.Lhs) == 1 && nodeStr(c.fset, as.Lhs[0]) == recv {
						if call, ok := as.Rhs[0].(*ast.CallExpr); ok {
							if fsel, ok := call.Fun.(*ast.SelectorExpr); ok {
								if _, ok := c.info.Uses[fsel.Sel].(*types.Func); ok {
									defaulted = true
								}
							}
						}
					}
				}
				return true
			})
			if defaulted {
				return "DefaultedWhenNil", ""
			}
		}
		if assignsTo(c.fset, st, recv) {
			if _, ok := st.(*ast.IfStmt); !ok {
				break
			}
		}
	}
	return "Unguarded", "method called on interface value " + recv + " that may be nil"
}

func runPanicSites(c runCfg) error {
	rng := rand.New(rand.NewSource(1))
	root, err := os.MkdirTemp("", "panicsites")
	if err != nil {
		return err
	}
	defer os.RemoveAll(root)
	var pkgs []*scratch.Pkg
	for i := 0; i < 40; i++ {
		rc, _ := c14Package(rng, i)
		pkgs = append(pkgs, rc.ScratchPkg())
	}
	// plus the parameter matrix shapes (all types x scalar/array x nullable) in a few documents
	for i, cl := range c01Matrix() {
		if cl.tags[0] == "param" && i%7 == 0 || cl.tags[0] == "json" && i%5 == 0 || cl.tags[0] == "resphdr" && i%9 == 0 || cl.tags[0] == "security" || cl.tags[0] == "routes" {
			p := &scratch.Pkg{Name: fmt.Sprintf("m%04d", i), Doc: cl.sp.Doc(), Opts: c01Opts[0].o}
			p.Opts.Cors = i%2 == 0
			pkgs = append(pkgs, p)
		}
	}
	m, err := scratch.New(root, pkgs)
	if err != nil {
		return err
	}
	_ = m
	var patterns []string
	for _, p := range pkgs {
		if p.GenErr == "" && p.GenPanic == "" {
			patterns = append(patterns, "./"+p.Name)
		}
	}
	cfg := &packages.Config{
		Mode: packages.NeedName | packages.NeedFiles | packages.NeedSyntax | packages.NeedTypes | packages.NeedTypesInfo | packages.NeedImports,
		Dir:  root,
		Env:  append(os.Environ(), "GOFLAGS=-mod=mod", "GOPROXY=off", "GOSUMDB=off", "GOTOOLCHAIN=local", "GOWORK=off"),
	}
	loaded, err := packages.Load(cfg, patterns...)
	if err != nil {
		return err
	}
	var sites []psite
	nPkgs := 0
	for _, p := range loaded {
		if len(p.Errors) > 0 {
			continue // (a package that does not compile is C01's business)
		}
		nPkgs++
		for _, f := range p.Syntax {
			fname := filepath.Base(p.Fset.Position(f.Pos()).Filename)
			if fname == "client.go" || strings.HasPrefix(fname, "zz_") {
				continue
			}
			for _, d := range f.Decls {
				fd, ok := d.(*ast.FuncDecl)
				if !ok || fd.Body == nil {
					continue
				}
				fn := fd.Name.Name
				if fd.Recv != nil && len(fd.Recv.List) > 0 {
					fn = strings.TrimPrefix(nodeStr(p.Fset, fd.Recv.List[0].Type), "*") + "." + fn
				}
				ctx := &siteCtx{fset: p.Fset, info: p.TypesInfo}
				writes := map[ast.Expr]bool{}
				ast.Inspect(fd.Body, func(n ast.Node) bool {
					if as, ok := n.(*ast.AssignStmt); ok {
						for _, l := range as.Lhs {
							writes[l] = true
						}
					}
					return true
				})
				maybeNil := map[string]bool{}
				ast.Inspect(fd.Body, func(n ast.Node) bool {
					if be, ok := n.(*ast.BinaryExpr); ok && (be.Op == token.EQL || be.Op == token.NEQ) && nodeStr(p.Fset, be.Y) == "nil" {
						maybeNil[nodeStr(p.Fset, be.X)] = true
					}
					return true
				})
				var visit func(n ast.Node) bool
				visit = func(n ast.Node) bool {
					if n == nil {
						ctx.stack = ctx.stack[:len(ctx.stack)-1]
						return true
					}
					ctx.stack = append(ctx.stack, n)
					add := func(class, detail string, e ast.Node) {
						if class != "" {
							sites = append(sites, psite{p.Name, fname, fn, nodeStr(p.Fset, e), class, detail})
						}
					}
					switch e := n.(type) {
					case *ast.SliceExpr:
						cl, dt := ctx.classifySlice(e)
						add(cl, dt, e)
					case *ast.IndexExpr:
						if tv, ok := p.TypesInfo.Types[e.X]; ok && tv.IsType() {
							break // generic instantiation
						}
						if _, ok := p.TypesInfo.TypeOf(e.X).(*types.Signature); ok {
							break // generic function instantiation
						}
						cl, dt := ctx.classifyIndex(e, writes[e])
						add(cl, dt, e)
					case *ast.TypeAssertExpr:
						if e.Type == nil {
							break // type switch
						}
						// comma-ok form: the parent is an assignment/value spec with two targets
						commaOk := false
						if len(ctx.stack) >= 2 {
							switch par := ctx.stack[len(ctx.stack)-2].(type) {
							case *ast.AssignStmt:
								commaOk = len(par.Lhs) == 2 && len(par.Rhs) == 1
							case *ast.ValueSpec:
								commaOk = len(par.Names) == 2 && len(par.Values) == 1
							}
						}
						if !commaOk {
							add("Unguarded", "type assertion without comma-ok", e)
						}
					case *ast.CallExpr:
						cl, dt := ctx.classifyCall(e)
						add(cl, dt, e)
						cl, dt = ctx.classifyIfaceCall(e, maybeNil)
						add(cl, dt, e)
					case *ast.BinaryExpr:
						if e.Op == token.QUO || e.Op == token.REM {
							if t, ok := p.TypesInfo.TypeOf(e.X).Underlying().(*types.Basic); ok && t.Info()&types.IsInteger != 0 {
								add("Unguarded", "integer division", e)
							}
						}
					}
					return true
				}
				ast.Inspect(fd.Body, visit)
			}
		}
	}
	// aggregate: class -> count, and the distinct (file, function-shape, expression) texts of each class
	type agg struct {
		n        int
		examples map[string]bool
	}
	byClass := map[string]*agg{}
	for _, s := range sites {
		a := byClass[s.class]
		if a == nil {
			a = &agg{examples: map[string]bool{}}
			byClass[s.class] = a
		}
		a.n++
		ex := s.file + ": " + s.expr
		if s.detail != "" && s.class == "Unguarded" {
			ex += "  (" + s.detail + "; in " + s.fn + ", package " + s.pkg + ")"
		}
		if len(a.examples) < 40 || s.class == "Unguarded" {
			a.examples[ex] = true
		}
	}
	var classes []string
	for k := range byClass {
		classes = append(classes, k)
	}
	sort.Strings(classes)
	var v, t strings.Builder
	v.WriteString("(* GENERATED by `vh panicsites` from the code the generator at /repo emits for the C14 corpus. Do not edit. *)\n")
	v.WriteString("From Coq Require Import List.\nImport ListNotations.\nFrom Goag Require Import Model.Partial.\n\n")
	v.WriteString("Definition observed_panic_sites : list (guard_class * nat) := [\n")
	for i, k := range classes {
		sep := ";"
		if i == len(classes)-1 {
			sep = ""
		}
		fmt.Fprintf(&v, "  (G%s, %d)%s\n", k, byClass[k].n, sep)
	}
	v.WriteString("].\n")
	fmt.Fprintf(&t, "packages inspected: %d; sites: %d\n", nPkgs, len(sites))
	for _, k := range classes {
		fmt.Fprintf(&t, "== %s (%d sites)\n", k, byClass[k].n)
		var ex []string
		for e := range byClass[k].examples {
			ex = append(ex, e)
		}
		sort.Strings(ex)
		for _, e := range ex {
			// normalise generated identifiers so that the listing is stable across seeds
			t.WriteString("   " + e + "\n")
		}
	}
	out := c.Out
	if out == "" {
		out = "/verif/coq/theories/Gen"
	}
	if err := os.WriteFile(filepath.Join(out, "PanicSites.v"), []byte(v.String()), 0o644); err != nil {
		return err
	}
	if err := os.WriteFile(filepath.Join(out, "PanicSites.txt"), []byte(t.String()), 0o644); err != nil {
		return err
	}
	fmt.Printf("panicsites: %d packages, %d sites, classes: %s\n", nPkgs, len(sites), strings.Join(classes, " "))
	return nil
}
