// vh: the Go side of the correspondence checks.  `vh <property> -out dir
// -tier quick|thorough -seed N` writes dir/cases.txt (inputs for the extracted
// model), dir/impl.txt (observations of the REAL goag on the same inputs, one
// line per case) and dir/meta.json (distribution figures for the evidence).
package main

import (
	"flag"
	"fmt"
	"os"

	"verifharness/internal/scratch"
)

type runCfg struct {
	Out      string
	Tier     string
	Seed     int64
	Cases    string // file with case lines to run instead of generating them
	Thorough bool
	Worker   bool
}

var commands = map[string]func(runCfg) error{}

func main() {
	if len(os.Args) < 2 {
		fmt.Fprintln(os.Stderr, "usage: vh <property> [flags]")
		os.Exit(2)
	}
	name := os.Args[1]
	fs := flag.NewFlagSet(name, flag.ExitOnError)
	var c runCfg
	fs.StringVar(&c.Out, "out", "", "output directory")
	fs.StringVar(&c.Tier, "tier", "quick", "quick|thorough")
	fs.Int64Var(&c.Seed, "seed", 1, "seed")
	fs.StringVar(&c.Cases, "cases", "", "file with case lines to run (replay)")
	fs.BoolVar(&c.Worker, "worker", false, "serve case lines from stdin (internal)")
	fs.Parse(os.Args[2:])
	c.Thorough = c.Tier == "thorough"
	// template coverage of the corpus (evidence only): not for replays, translators and workers
	scratch.Coverage = c.Cases == "" && !c.Worker && len(name) == 3 && name[0] == 'C'
	cmd, ok := commands[name]
	if !ok {
		fmt.Fprintf(os.Stderr, "unknown command %q\n", name)
		os.Exit(2)
	}
	if c.Out != "" {
		if err := os.MkdirAll(c.Out, 0o755); err != nil {
			fmt.Fprintln(os.Stderr, err)
			os.Exit(2)
		}
	}
	if err := cmd(c); err != nil {
		fmt.Fprintf(os.Stderr, "vh %s: %v\n", name, err)
		os.Exit(3)
	}
}
